(* C02 driver.  Two modes:
     c02_driver gen <seed> <tier> <out>     valid encodings (`seed <Type> <hex>`) from the schema walk of the C01 generator,
                                            and every input of length <= 2 that a schema decoder accepts (`short <Type> <hex>`)
     c02_driver <cases> <impl>              model prediction + verdict per case
   I/O glue only: predictions are the extracted Coq decoders (schema decoder `dec`, hand models of Total/Decoders.v),
   the verdict is the extracted Coq judge (Total/Judge.v: item_wf on every re-serialisation, known class has_huge). *)
(* fast byte <-> hex conversions (the shared ones go through zarith per byte) *)
let n_tab : n array = Array.init 256 n_of_int
let hexval c = match c with '0'..'9' -> Char.code c - 48 | 'a'..'f' -> Char.code c - 87 | 'A'..'F' -> Char.code c - 55 | _ -> failwith "hex"
let bytes_of_hex (s : string) : n list =
  if s = "-" then [] else begin
    let l = String.length s / 2 in
    let rec go i acc = if i < 0 then acc else go (i - 1) (n_tab.(hexval s.[2 * i] * 16 + hexval s.[2 * i + 1]) :: acc) in
    go (l - 1) []
  end
let rec int_of_pos = function XH -> 1 | XO p -> 2 * int_of_pos p | XI p -> 2 * int_of_pos p + 1
let fast_int_of_n = function N0 -> 0 | Npos p -> int_of_pos p
let hex_of_bytes (bs : n list) : string =
  if bs = [] then "-" else begin
    let b = Buffer.create 64 in
    List.iter (fun x -> Buffer.add_string b (Printf.sprintf "%02x" (fast_int_of_n x))) bs;
    Buffer.contents b
  end
let depth = nat_of_int 3
(* harness type name -> schemas tried in order *)
let table : (string * schema list) list = [
  "TransactionInput", [transactionInput]; "TransactionInputs", [transactionInputs]; "Credential", [credential];
  "Credentials", [credentials]; "Ed25519KeyHashes", [ed25519KeyHashes]; "DRep", [dRep]; "Anchor", [anchor];
  "UnitInterval", [unitInterval]; "Relay", [relay]; "Relays", [relays]; "PoolMetadata", [poolMetadata];
  "ProtocolVersion", [protocolVersion]; "ExUnits", [exUnits]; "ExUnitPrices", [exUnitPrices]; "Nonce", [nonce];
  "MoveInstantaneousReward", [moveInstantaneousReward]; "Certificate", [certificate]; "Certificates", [certificates];
  "Assets", [assets]; "MultiAsset", [multiAsset]; "Value", [value]; "Mint", [mint];
  "Withdrawals", [withdrawals]; "Voter", [voter]; "GovernanceActionId", [governanceActionId];
  "VotingProcedure", [votingProcedure]; "VotingProcedures", [votingProcedures]; "Costmdls", [costmdls];
  "PoolVotingThresholds", [poolVotingThresholds]; "DRepVotingThresholds", [dRepVotingThresholds];
  "ProtocolParamUpdate", [protocolParamUpdate];
  "Constitution", [constitution]; "GovernanceAction", [governanceAction]; "VotingProposal", [votingProposal];
  "VotingProposals", [votingProposals]; "ProposedProtocolParameterUpdates", [proposedProtocolParameterUpdates];
  "Update", [update]; "NativeScript", [nativeScript depth]; "NativeScripts", [nativeScripts depth];
  "PlutusScripts", [plutusScripts]; "PlutusData", [plutusData depth]; "PlutusList", [plutusList depth];
  "Redeemers", [redeemers depth]; "TransactionMetadatum", [metadatum depth];
  "GeneralTransactionMetadata", [generalTransactionMetadata depth]; "AuxiliaryData", [auxiliaryData depth];
  "ScriptRef", [scriptRef depth];
  "TransactionOutput", [transactionOutput depth; transactionOutputLegacyDH; transactionOutputLegacy; transactionOutputMap depth];
  "TransactionOutputs", [transactionOutputs depth]; "TransactionBody", [transactionBody depth];
  "Vkeywitness", [vkeywitness]; "Vkeywitnesses", [vkeywitnesses]; "BootstrapWitness", [bootstrapWitness];
  "BootstrapWitnesses", [bootstrapWitnesses]; "TransactionWitnessSet", [transactionWitnessSet depth];
  "Transaction", [transaction depth]; "VRFCert", [vRFCert]; "OperationalCert", [operationalCert];
  "HeaderBody", [headerBody; headerBodyPraos]; "Header", [header; headerPraos];
  "Block", [block depth; blockPraos depth]; "Int", [intS];
  (* stand-alone members of the variant types and further public types (ledger_schemas_more) *)
  "StakeRegistration", [stakeRegistration]; "StakeDeregistration", [stakeDeregistration];
  "StakeDelegation", [stakeDelegation]; "PoolParams", [poolParams]; "PoolRegistration", [poolRegistration];
  "PoolRetirement", [poolRetirement]; "GenesisKeyDelegation", [genesisKeyDelegation];
  "MoveInstantaneousRewardsCert", [moveInstantaneousRewardsCert]; "VoteDelegation", [voteDelegation];
  "StakeAndVoteDelegation", [stakeAndVoteDelegation]; "StakeRegistrationAndDelegation", [stakeRegistrationAndDelegation];
  "VoteRegistrationAndDelegation", [voteRegistrationAndDelegation];
  "StakeVoteRegistrationAndDelegation", [stakeVoteRegistrationAndDelegation]; "CommitteeHotAuth", [committeeHotAuth];
  "CommitteeColdResign", [committeeColdResign]; "DRepRegistration", [dRepRegistration]; "DRepDeregistration", [dRepDeregistration];
  "DRepUpdate", [dRepUpdate]; "SingleHostAddr", [singleHostAddr]; "SingleHostName", [singleHostName]; "MultiHostName", [multiHostName];
  "Ipv4", [ipv4]; "Ipv6", [ipv6]; "URL", [uRL]; "DNSRecordAorAAAA", [dNSName]; "DNSRecordSRV", [dNSName]; "Committee", [committee];
  "ParameterChangeAction", [parameterChangeAction]; "HardForkInitiationAction", [hardForkInitiationAction];
  "TreasuryWithdrawalsAction", [treasuryWithdrawalsAction]; "NoConfidenceAction", [noConfidenceAction];
  "UpdateCommitteeAction", [updateCommitteeAction]; "NewConstitutionAction", [newConstitutionAction];
  "MetadataList", [metadataList depth]; "MetadataMap", [metadataMap depth]; "PlutusMap", [plutusMap depth];
  "ConstrPlutusData", [constrPlutusData depth]; "BigInt", [bigInt]; "Redeemer", [redeemer depth]; "RedeemerTag", [redeemerTag];
  "Language", [language]; "CostModel", [costModel]; "NetworkId", [networkId]; "Vkey", [vkey]; "AssetName", [assetNameS];
  "PlutusScript", [plutusScriptBytes]; "MIRToStakeCredentials", [mIRToStakeCredentials];
  "ScriptPubkey", [scriptPubkey]; "ScriptAll", [scriptAll (nat_of_int 2)]; "ScriptAny", [scriptAny (nat_of_int 2)];
  "ScriptNOfK", [scriptNOfK (nat_of_int 2)]; "TimelockStart", [timelockStart]; "TimelockExpiry", [timelockExpiry];
  "AssetNames", [assetNames]; "GenesisHashes", [genesisHashes]; "ScriptHashes", [scriptHashes]; "RewardAddresses", [rewardAddresses];
  "TransactionMetadatumLabels", [transactionMetadatumLabels]; "BigNum", [bigNum];
  "TransactionBodies", [transactionBodies depth]; "TransactionWitnessSets", [transactionWitnessSets depth];
  "TransactionUnspentOutput", [transactionUnspentOutput depth]; "VersionedBlock", [versionedBlock depth] ]

(* ---------- PRNG (SplitMix64) ---------- *)
let st = ref 0L
let next () : int64 =
  st := Int64.add !st 0x9E3779B97F4A7C15L;
  let z = ref !st in
  z := Int64.mul (Int64.logxor !z (Int64.shift_right_logical !z 30)) 0xBF58476D1CE4E5B9L;
  z := Int64.mul (Int64.logxor !z (Int64.shift_right_logical !z 27)) 0x94D049BB133111EBL;
  Int64.logxor !z (Int64.shift_right_logical !z 31)
let below (n : int) : int = if n <= 0 then 0 else Int64.to_int (Int64.unsigned_rem (next ()) (Int64.of_int n))
let bz_u64 () : BZ.t = BZ.of_string (Printf.sprintf "%Lu" (next ()))
let edges = List.map BZ.of_string ["0";"1";"23";"24";"25";"255";"256";"65535";"65536";"4294967295";"4294967296";
                                   "9223372036854775807";"9223372036854775808";"18446744073709551614";"18446744073709551615"]
let gen_uint (bits : int) : BZ.t =
  let lim = BZ.shift_left BZ.one bits in
  let v = match below 10 with
    | 0 | 1 | 2 | 3 -> List.nth edges (below (List.length edges))
    | 4 -> BZ.of_int (below 1000)
    | 5 -> BZ.of_int (below 10_000_000)
    | 6 -> BZ.shift_right (bz_u64 ()) (below 64)
    | 7 -> BZ.pred lim
    | _ -> bz_u64 () in
  if BZ.lt v lim then v else BZ.rem v lim
let gen_bytes (len : int) : n list = List.init len (fun _ -> n_of_int (below 256))
let gen_text (len : int) : n list = List.init len (fun _ -> n_of_int (32 + below 95))
let gen_address () : n list =
  let net = below 2 in
  match below 4 with
  | 0 -> n_of_int (0x60 + 0x10 * below 2 + net) :: gen_bytes 28           (* enterprise key/script *)
  | 1 -> n_of_int (0xe0 + 0x10 * below 2 + net) :: gen_bytes 28           (* reward *)
  | _ -> n_of_int (0x10 * below 4 + net) :: gen_bytes 56                  (* base, 4 credential-kind combinations *)
let gen_reward_address () : n list = n_of_int (0xe0 + 0x10 * below 2 + below 2) :: gen_bytes 28

let rec slist_to_list = function SNil -> [] | SCons (s, r) -> s :: slist_to_list r
let rec vlist_to_list = function ANil -> [] | ACons (i, fs, r) -> (i, fs) :: vlist_to_list r
let rec clist_to_list = function CNil -> [] | CCons (d, s, r) -> (d, s) :: clist_to_list r
let rec klist_to_list = function KNil -> [] | KCons (k, p, s, r) -> (k, p, s) :: klist_to_list r

let coll_len (lo : int) (size : int) : int =
  if size <= 0 then lo else
  match below 12 with
  | 0 -> lo | 1 | 2 | 3 -> max lo 1 | 4 | 5 -> max lo 2 | 6 -> max lo 3
  | 7 -> if size >= 4 then max lo 24 else max lo 2
  | 8 -> if size >= 5 then max lo 25 else max lo 1
  | _ -> max lo (below 5)
let is_empty_v = is_empty_val
let cmp_bytes (a : n list) (b : n list) : int = compare (List.map int_of_n a) (List.map int_of_n b)

let rec gen (s : schema) (size : int) : val0 =
  match s with
  | SUint lim -> let l = bz_of_n lim in
    let v = gen_uint 64 in VNat (n_of_bz (if BZ.lt v l then v else BZ.rem v l))
  | SNint -> VNeg (n_of_bz (gen_uint 64))
  | SBytes (lo, hi) ->
    let lo = int_of_n lo and hi = (try int_of_n hi with _ -> max_int) in
    begin
      let hi' = min hi (lo + 300) in
      let len = match below 6 with 0 -> lo | 1 -> hi' | 2 -> min hi' (max lo 24) | 3 -> min hi' (max lo 23) | _ -> lo + below (hi' - lo + 1) in
      VBytes (gen_bytes len)
    end
  | SText hi -> let hi = int_of_n hi in
    let len = match below 5 with 0 -> 0 | 1 -> hi | 2 -> min hi 24 | _ -> below (hi + 1) in VText (gen_text len)
  | SBool -> VBool (below 2 = 0)
  | SArr fs -> VList (List.map (fun f -> gen f (size - 1)) (slist_to_list fs))
  | SMap fs ->
    let mode = below 6 in   (* 0: only required, 1: everything, else: coin flips *)
    VStruct (List.map (fun (_, p, f) ->
        match p with
        | Req -> Some (gen f (size - 1))
        | Opt | OptNE ->
          let take = (mode = 1) || (mode >= 2 && below 3 = 0) in
          if not take then None else begin
            let v = ref (gen f (size - 1)) in
            let tries = ref 0 in
            while p = OptNE && is_empty_v !v && !tries < 20 do v := gen f (max 1 (size - 1)); incr tries done;
            if p = OptNE && is_empty_v !v then None else Some !v
          end) (klist_to_list fs))
  | SVar alts -> let l = vlist_to_list alts in let i = below (List.length l) in
    let (_, fs) = List.nth l i in VVar (nat_of_int i, List.map (fun f -> gen f (size - 1)) (slist_to_list fs))
  | SArrOf (lo, s') ->
    (* long arrays of whole transaction bodies / witness sets only cost time (the 24/25 boundary of the array head is
       exercised on every lighter element type) *)
    let heavy = (match s' with SMap fs -> List.length (klist_to_list fs) > 6 | _ -> false) in
    let n = coll_len (int_of_n lo) size in
    let n = if heavy then min n 3 else n in
    VList (List.init n (fun _ -> gen s' (size - 2)))
  | SSetOf s' -> let n = coll_len 0 size in VList (dedup s' (List.init n (fun _ -> gen s' (size - 2))))
  | SMapOf (lo, ord, k, v) ->
    let n = coll_len (int_of_n lo) size in
    let l = List.init n (fun _ -> (gen k (size - 2), gen v (size - 2))) in
    (* a Vec-backed map may repeat a key *)
    (* (repeated keys adjacent: that is how every writer emits them, PlutusMap groups the values of a key) *)
    let l = dedup_keys k l in
    let l = if ord = KMulti && below 3 = 0 then (match l with (a, b) :: r -> (a, b) :: (a, gen v (size - 2)) :: r | [] -> []) else l in
    let l = match ord with
      | KInsertion -> l
      | KMulti -> l
      | KBytewise -> List.sort (fun (a, _) (b, _) -> cmp_bytes (enc k a) (enc k b)) l
      | KRewardAddr -> List.sort (fun (a, _) (b, _) -> cmp_bytes (reward_sort_key (enc k a)) (reward_sort_key (enc k b))) l in
    VMap l
  | SNullable s' -> if below 3 = 0 then VNull else gen s' size
  | STag (_, s') -> gen s' size
  | SInBytes s' -> gen s' size
  | SChoice alts | STagChoice alts -> let l = clist_to_list alts in
    (* with no size budget left prefer the leaf-like (last) alternatives *)
    let k = List.length l in
    let i = if size <= 0 then k - 1 - below (min k 3) else below k in
    let (_, s') = List.nth l i in VAlt (nat_of_int i, gen s' (size - 1))
  | SArrAny s' -> let n = coll_len 0 size in
    VAlt (nat_of_int (below 2), VList (List.init n (fun _ -> gen s' (size - 2))))
  | SNamed (id, s') ->
    let id = int_of_n id in
    if id = 1 then VBytes (gen_address ())
    else if id = 2 then VBytes (gen_reward_address ())
    else if id = 6 then VBytes (n_of_int (1 + below 255) :: gen_bytes (match below 4 with 0 -> 8 | 1 -> 63 | 2 -> 64 + below 3 | _ -> 8 + below 120))
    else if id = 7 then (match gen s' size with
        | VList (_ :: rest) -> VList (VNat (n_of_bz (if below 3 = 0 then BZ.of_int 128 else BZ.add (BZ.of_int 128) (BZ.shift_right (bz_u64 ()) (1 + below 63)))) :: rest)
        | v -> v)
    else begin
      (* rejection sampling into the writer image (Coq predicate writer_form) *)
      let v = ref (gen s' size) in
      let tries = ref 0 in
      while not (writer_form (n_of_int id) !v) && !tries < 50 do v := gen s' (max size 2 + !tries / 10); incr tries done;
      (* a multi-asset value is only written when some policy has an asset: make one if sampling found none *)
      if id = 5 && not (writer_form (n_of_int id) !v) then
        VList [VNat (n_of_bz (gen_uint 64)); VMap [(VBytes (gen_bytes 28), VMap [(VBytes (gen_bytes (below 33)), VNat (n_of_bz (gen_uint 64)))])]]
      else !v
    end
  | SArrOpt (fs, o) ->
    let l = List.map (fun f -> gen f (size - 1)) (slist_to_list fs) in
    if below 2 = 0 then VAlt (nat_of_int 0, VList l) else VAlt (nat_of_int 1, VList (gen o (size - 1) :: l))
  | SBBytes -> let len = (match below 8 with 0 -> 0 | 1 -> 1 | 2 -> 63 | 3 -> 64 | 4 -> 65 | 5 -> 128 | 6 -> 129 + below 100 | _ -> below 64) in
    VBytes (gen_bytes len)
and dedup s' l =
  let seen = Hashtbl.create 16 in
  List.filter (fun v -> let e = enc s' v in if Hashtbl.mem seen e then false else (Hashtbl.add seen e (); true)) l
and dedup_keys k l =
  let seen = Hashtbl.create 16 in
  List.filter (fun (a, _) -> let e = enc k a in if Hashtbl.mem seen e then false else (Hashtbl.add seen e (); true)) l

let gen_mode seed tier out =
  st := Int64.of_string seed;
  ignore (next ());
  let oc = open_out out in
  let per = if tier = "thorough" then 16 else 8 in
  let extras = ref false in
  List.iter (fun (name, ss) ->
      (* the stand-alone variant members share their wire shapes with the variant types: fewer seeds *)
      if name = "StakeRegistration" then extras := true;
      let per = if !extras then max 3 (per / 3) else per in
      List.iteri (fun si s ->
        let n = if si = 0 then per else max 2 (per / 3) in
        for i = 0 to n - 1 do
          let size = [| 1; 2; 3; 0; 4; 5; 6; 8 |].(i mod 8) in
          let v = gen s size in
          if wfv s v then Printf.fprintf oc "seed %s %s\n" name (hex_of_bytes (enc s v))
        done) ss;
      (* every input of length <= 2 the (first) schema decoder accepts *)
      let s = List.hd ss in
      let try_ bs = match dec s bs with Ok (_, _) -> Printf.fprintf oc "short %s %s\n" name (hex_of_bytes bs) | _ -> () in
      try_ [];
      for a = 0 to 255 do
        let na = n_of_int a in
        try_ [na];
        (* two bytes: only when the first byte alone is not already accepted or rejected for good (it needs an argument) *)
        let ai = a land 31 in
        if tier = "thorough" || ai >= 24 || (a lsr 5) >= 2 then
          for b = 0 to 255 do try_ [na; n_of_int b] done
      done) table;
  close_out oc

let deep = nat_of_int 300
let deep_table : (string * schema list) list = [
  "PlutusData", [plutusData deep]; "PlutusList", [plutusList deep]; "PlutusMap", [plutusMap deep];
  "ConstrPlutusData", [constrPlutusData deep]; "Redeemer", [redeemer deep]; "Redeemers", [redeemers deep];
  "TransactionMetadatum", [metadatum deep]; "MetadataList", [metadataList deep]; "MetadataMap", [metadataMap deep];
  "GeneralTransactionMetadata", [generalTransactionMetadata deep] ]
(* the versioned block wraps either header form; only the Praos form has a schema *)
let lax_exceptions = ["VersionedBlock"; "Block"]   (* a block may also come without its fifth item (invalid transactions) *)

(* ---------- predictions ---------- *)
let hash_sizes = ["AnchorDataHash", 32; "AuxiliaryDataHash", 32; "BlockHash", 32; "DataHash", 32; "Ed25519KeyHash", 28;
  "GenesisDelegateHash", 28; "GenesisHash", 28; "KESVKey", 32; "PoolMetadataHash", 32; "ScriptDataHash", 32; "ScriptHash", 28;
  "TransactionHash", 32; "VRFKeyHash", 32; "VRFVKey", 32]
let raw_hex_names = ["Address"; "Ed25519Signature"; "PublicKey"; "PrivateKey"; "Bip32PrivateKey"; "Bip32PublicKey"] @ List.map fst hash_sizes

let res_bytes (r : n list result) : string = match r with
  | Ok b -> "ok " ^ hex_of_bytes b | Err -> "err" | Panic -> "panic" | OutOfFuel -> "outoffuel"

let is_major (m : int) (bs : n list) = match bs with b :: _ -> (int_of_n b) lsr 5 = m | [] -> false

(* schema layer: exact when the input is a canonical encoding of a writer-form value, acceptance when it is a
   valid value in another byte form, no prediction otherwise *)
(* the model reads text strings as bytes; the code also requires UTF-8: no prediction when a text holds a non-ASCII byte *)
let rec has_non_ascii_text (v : val0) : bool = match v with
  | VText b -> List.exists (fun x -> fast_int_of_n x >= 128) b
  | VList l -> List.exists has_non_ascii_text l
  | VStruct l -> List.exists (function Some x -> has_non_ascii_text x | None -> false) l
  | VVar (_, l) -> List.exists has_non_ascii_text l
  | VMap l -> List.exists (fun (a, b) -> has_non_ascii_text a || has_non_ascii_text b) l
  | VAlt (_, x) -> has_non_ascii_text x
  | _ -> false
(* the array form of a transaction output looks at the item FOLLOWING it (data hash or next output), so bytes after
   the value are part of the decision for the types that can end in such an output *)
let peeks_behind (name : string) = List.mem name ["TransactionOutput"; "TransactionOutputs"; "TransactionBody"; "Transaction"; "Block";
  "TransactionBodies"; "TransactionUnspentOutput"; "VersionedBlock"]

let predict_schema (name : string) (bs : n list) : string =
  match List.assoc_opt name table with
  | None -> "any"
  | Some ss ->
    let rec go = function
      | [] -> "any"
      | s :: rest ->
        (match dec s bs with
         | Ok (v, r) ->
           if r <> [] && peeks_behind name then "any"
           else if wfv s v && refined writer_form s v && not (has_non_ascii_text v) then begin
             let re = enc s v in
             (* a stand-alone PlutusMap is re-serialised grouped by key (the writer's order is not the wire order) *)
             if re = consumed bs r && name <> "PlutusMap" then "ok " ^ hex_of_bytes re else "accept"
           end else go rest
         | Err -> go rest
         | Panic -> "panic"
         | OutOfFuel -> "outoffuel")
    in go ss

let legacy_output_predict (bs : n list) : string option =
  (* array form only, and only when the amount is a canonical Value for the schema decoder *)
  if not (is_major 4 bs) then None else
  match legacy_output real_alloc (dec value) false bs with
  | Ok (((a, v), h), _) ->
    if wfv value v && refined writer_form value v then begin
      let ab = addr_to_bytes a in
      (* the writer emits the map form only for inline datum / script ref: never here *)
      let body = bstr ab @ enc value v @ (match h with Some d -> bstr d | None -> []) in
      let n = match h with Some _ -> 3 | None -> 2 in
      Some ("ok " ^ hex_of_bytes (n_of_int (0x80 + n) :: body))
    end else None
  | Err ->
    (* an error of the hand-modelled stages is exact; an error of the (stricter) schema Value decoder is not *)
    (match ce_array bs with
     | Ok (_, r0) ->
       (match addr_deserialize real_alloc false r0 with
        | Ok (_, r1) -> (match dec value r1 with Ok _ -> Some "err" | _ -> None)
        | Err -> Some "err" | Panic -> Some "panic" | OutOfFuel -> None)
     | _ -> Some "err")
  | Panic -> Some "panic"
  | OutOfFuel -> None

let predict_dec (name : string) (bs : n list) : string =
  match name with
  | "ByronAddress" -> (match byron_from_bytes real_alloc false bs with Ok ea -> "ok " ^ hex_of_bytes (ext_addr_enc ea) | Err -> "err" | Panic -> "panic" | OutOfFuel -> "outoffuel")
  | "TransactionOutput" when is_major 4 bs -> (match legacy_output_predict bs with Some p -> p | None -> predict_schema name bs)
  | "PlutusData" when is_major 2 bs ->
    (* plain bytes: PlutusData keeps the bytes it was read from *)
    (match read_bounded_bytes real_alloc bs with Ok (_, r) -> "ok " ^ hex_of_bytes (consumed bs r) | Err -> "err" | Panic -> "panic" | OutOfFuel -> "outoffuel")
  | "Vkeywitnesses" | "BootstrapWitnesses" ->
    (match wit_array_first false (name = "Vkeywitnesses") bs with
     | Some (Ok tagged) -> "ok " ^ hex_of_bytes (wit_empty_enc tagged)
     | Some Err -> "err" | Some Panic -> "panic" | Some OutOfFuel -> "outoffuel"
     | None -> predict_schema name bs)
  | _ -> predict_schema name bs

let predict_raw (name : string) (bs : n list) : string =
  match name with
  | "Address" -> res_bytes (address_from_bytes real_alloc false bs)
  | "Bip32PrivateKey.xprv128" -> (match from_128_xprv false bs with Ok b -> "oke " ^ hex_of_bytes b | Err -> "err" | Panic -> "panic" | OutOfFuel -> "outoffuel")
  | _ -> (match List.assoc_opt name hash_sizes with Some k -> res_bytes (hash_from_bytes (nat_of_int k) bs) | None -> "any")

let text_codes (hex_tok : string) : n list = bytes_of_hex hex_tok   (* UTF-8 bytes of the text; ASCII for hex digits *)

let predict_hex (name : string) (cs : n list) : string =
  match unhex cs with
  | None -> "err"
  | Some bs ->
    if List.mem name raw_hex_names then
      (match name with "Address" -> predict_raw name bs | _ when List.mem_assoc name hash_sizes -> predict_raw name bs | _ -> "any")
    else predict_dec name bs

let zint (s : string) : z = z_of_string s

(* ---------- run mode ---------- *)
let obs_of (impl : string list) : obs option = match impl with
  | ["ok"; h] -> Some (OOk (bytes_of_hex h)) | ["okj"] -> Some OOkNoCbor | ["err"] -> Some OErr | ["panic"] -> Some OPanic
  | ["abort"] -> Some OAbort | ["timeout"] -> Some OTimeout | _ -> None
let verdict_str cbor_out input impl = match obs_of impl with
  | None -> (match impl with ["swept"] -> "holds" | _ -> "na")
  | Some o -> (match judge cbor_out input o with Holds -> "holds" | Fails -> "fails:-" | FailsKnownHuge -> "fails:C02-huge-declared-length" | FailsKnownPreserved -> "fails:C02-illformed-input-preserved")

let strip_label (toks : string list) (n : int) : string list =
  (* the first n tokens are the case proper; a trailing label is ignored *)
  List.filteri (fun i _ -> i < n) toks

let run_mode () = run_driver (fun toks impl ->
  match toks with
  | "dec" :: name :: h :: _ ->
    let bs = bytes_of_hex h in
    let p = predict_dec name bs in
    (* Error predictions for inputs no exact model speaks about:
       (i) the lenient acceptor of Total/Lax.v accepts every byte form the readers tolerate (in particular only
           well-formed CBOR): what it refuses is an error.  Recursive types are schemas unrolled to a depth: Plutus
           data / metadata are unrolled to 300 levels for this test (their unrolling shares the sub-schema, so this is
           cheap); the types that contain native scripts stay at the table's depth and the refusal is only trusted
           for inputs nested at most 8 deep (4 script levels need 9);
       (ii) for the types without a schema: every CBOR reader of the library consumes exactly one data item and every
           byte of it, so an input whose first item is not well-formed CBOR (Cbor/Item.v) is an error *)
    let p = if p <> "any" then p else begin
        match (match List.assoc_opt name deep_table with Some ss -> Some (ss, true) | None ->
               (match List.assoc_opt name table with Some ss -> Some (ss, false) | None -> None)) with
        | Some (ss, deep_ok) when not (List.mem name lax_exceptions) ->
          if List.exists (fun s -> accepts s bs) ss then p
          else if deep_ok || shallow (nat_of_int 8) bs then "err"
          else if not (first_item_wf bs) then "err" else p
        | _ -> if not (first_item_wf bs) then "err" else p
      end in
    (p, verdict_str true bs impl)
  | "raw" :: name :: h :: _ -> let bs = bytes_of_hex h in (predict_raw name bs, verdict_str false bs impl)
  | "hex" :: name :: h :: _ ->
    let cs = text_codes h in
    let bs = (match unhex cs with Some b -> b | None -> []) in
    (predict_hex name cs, verdict_str (not (List.mem name raw_hex_names)) bs impl)
  | "b32" :: name :: _ :: rest ->
    let u5 = (match rest with u :: _ :: _ when u <> "~" -> Some (bytes_of_hex u) | _ -> None) in
    (match u5 with
     | Some d ->
       let input = (match from_base32 d with Some b -> b | None -> []) in
       let p = (match List.assoc_opt name hash_sizes with
           | Some k -> res_bytes (hash_from_bech32 false (nat_of_int k) d)
           | None -> if name = "Address" then (match from_base32 d with Some b -> res_bytes (address_from_bytes real_alloc false b) | None -> "err") else "any") in
       (p, verdict_str (name = "DRep") input impl)
     | None -> ("any", verdict_str (name = "DRep") [] impl))
  | "json" :: name :: _ -> ("any", verdict_str (name <> "Address") [] impl)
  | "fn" :: "b58" :: _ :: rest ->
    (match rest with
     | rawh :: _ :: _ -> let bs = bytes_of_hex rawh in
       ((match byron_from_bytes real_alloc false bs with Ok ea -> "ok " ^ hex_of_bytes (ext_addr_enc ea) | Err -> "err" | Panic -> "panic" | OutOfFuel -> "outoffuel"),
        verdict_str true bs impl)
     | _ -> ("any", verdict_str true [] impl))
  | "fn" :: "int_new" :: sign :: m :: _ ->
    let x = zint ((if sign = "-" then "-" else "") ^ m) in
    (res_bytes (int_to_bytes false x), verdict_str true [] impl)
  | "fn" :: "md_int_to_json" :: _ -> ("any", verdict_str false [] impl)
  | "fn" :: "emip3_decrypt" :: _ :: d :: _ ->
    let p = (match unhex (text_codes d) with
        | None -> "err"
        | Some data -> (match emip3_split false data with Err -> "err" | Panic -> "panic" | _ -> "any")) in
    (p, verdict_str false [] impl)
  | "fn" :: "ns_from_json" :: schema :: _ ->
    ((if schema = "1" then (match (native_script_schema false true (Err : unit result)) with Err -> "err" | Panic -> "panic" | _ -> "any") else "any"), verdict_str true [] impl)
  | "fn" :: ("emip3_encrypt") :: _ -> ("any", verdict_str false [] impl)
  | "fn" :: _ -> ("any", verdict_str true [] impl)
  | "sweep" :: _ -> ("swept", "holds")
  | _ -> ("driver-badcase", "na"))

let () =
  if Array.length Sys.argv >= 5 && Sys.argv.(1) = "gen" then gen_mode Sys.argv.(2) Sys.argv.(3) Sys.argv.(4)
  else run_mode ()
