(* C07 driver: parses case lines (syntax documented in harness/src/bin/c07.rs), runs the extracted model
   and the extracted judge on the implementation's figures.  I/O glue only. *)
let nn = n_of_string
let sn = string_of_n

(* ---- token cursor ---- *)
type cur = { a : string array; mutable i : int }
let next c = let s = c.a.(c.i) in c.i <- c.i + 1; s
let num c = nn (next c)
let int_ c = int_of_string (next c)
let rec rep n f = if n <= 0 then [] else let x = f () in x :: rep (n - 1) f

let p_ma c : multiasset =
  let np = int_ c in
  rep np (fun () -> let na = int_ c in rep na (fun () -> let nl = num c in let q = num c in (nl, q)))
let p_dat c : datum =
  let k = next c in let _param = next c in let len = num c in
  match k with "n" -> DNone | "h" -> DHash | "i" -> DInline len | _ -> failwith "datum"
let p_sref c : sref option =
  let k = next c in let _param = next c in let len = num c in
  match k with "-" -> None | "n" -> Some (SRNative len) | "p1" | "p2" | "p3" -> Some (SRPlutus len) | _ -> failwith "sref"
let p_addr c : n = let _kind = next c in num c
let p_out c : output =
  let addr = p_addr c in let coin = num c in let ma = p_ma c in let d = p_dat c in let s = p_sref c in
  { o_addr = addr; o_coin = coin; o_ma = ma; o_datum = d; o_sref = s }

let show_verdict = function
  | Holds -> "holds"
  | FailsKnown c -> (match int_of_n c with
      | 1 -> "fails:C07-helper-long-address"
      | 2 -> "fails:C07-collateral-return-value-size"
      | 3 -> "fails:C07-change-topup-after-admission"
      | 4 -> "fails:C07-raw-collateral-return-setter"
      | _ -> "fails:-")
  | FailsUnknown -> "fails:-"

let show_obs (o : oobs) = Printf.sprintf "ok %s %s %s" (sn o.ob_coin) (sn o.ob_size) (sn o.ob_vsize)
let show_robs = function Ok o -> show_obs o | Err -> "err" | Panic -> "panic" | OutOfFuel -> "outoffuel"
(* implementation's "ok coin size vsize" *)
let parse_obs (impl : string list) : oobs option option =
  match impl with
  | ["ok"; c; s; v] -> Some (Some { ob_coin = nn c; ob_size = nn s; ob_vsize = nn v })
  | ["err"] -> Some None
  | _ -> None

let rec take n l = if n <= 0 then [] else match l with [] -> [] | x :: r -> x :: take (n - 1) r
let rec drop n l = if n <= 0 then l else match l with [] -> [] | _ :: r -> drop (n - 1) r
let rec split_at_bar acc = function
  | [] -> (List.rev acc, [])
  | "|" :: r -> (List.rev acc, r)
  | x :: r -> split_at_bar (x :: acc) r

let ma_nonempty (ma : multiasset) = List.exists (fun p -> p <> []) ma
let show_mask (m : bool list) = "A=" ^ String.concat "" (List.map (fun b -> if b then "o" else "x") m)
let count_true (m : bool list) = List.length (List.filter (fun b -> b) m)

let handle (toks : string list) (impl : string list) : string * string =
  let c = { a = Array.of_list toks; i = 1 } in
  match List.hd toks with
  | "minada" ->
    let cpb = num c in let o = p_out c in
    let sz = out_size o and vs = out_value_size o and wid = out_size (set_coin o (nn "18446744073709551615")) in
    let m = (match model_min_ada cpb o with
        | Ok r -> Printf.sprintf "ok %s %s %s %s %s" (sn r.mo_c) (sn r.mo_size) (sn r.mo_vsize) (sn r.mo_size_at_max) (sn r.mo_size_widest)
        | Err -> Printf.sprintf "err %s %s %s" (sn sz) (sn vs) (sn wid)
        | Panic -> "panic" | OutOfFuel -> "outoffuel") in
    let v = (match impl with
        | ["ok"; cc; _; _; atmax; widest] -> show_verdict (judge_min_ada cpb o.o_coin (Some (nn cc, nn atmax)) (nn widest))
        | ["err"; _; _; widest] -> show_verdict (judge_min_ada cpb o.o_coin None (nn widest))
        | [] -> "na"
        | _ -> "fails:-") in
    (m, v)
  | "addout" ->
    let cpb = num c in let mvs = num c in let o = p_out c in
    let cfg = { c_cpb = cpb; c_max_value_size = mvs; c_max_tx_size = nn "16384" } in
    let m = show_robs (model_add_output cfg o) in
    let v = (match impl with [] -> "na" | _ -> (match parse_obs impl with Some r -> show_verdict (judge_admission cfg r) | None -> "fails:-")) in
    (m, v)
  | "helper" ->
    let cpb = num c in let addr = p_addr c in let ma = p_ma c in let d = p_dat c in let s = p_sref c in
    let m = show_robs (model_helper cpb addr ma d s) in
    let v = (match impl with [] -> "na" | _ -> (match parse_obs impl with Some r -> show_verdict (judge_helper cpb addr r) | None -> "fails:-")) in
    (m, v)
  | "collret" ->
    let variant = int_ c in let cpb = num c in let mvs = num c in let o = p_out c in
    let cfg = { c_cpb = cpb; c_max_value_size = mvs; c_max_tx_size = nn "16384" } in
    if variant = 2 then begin
      (* raw setter: accepts anything *)
      let m = show_obs (obs_of o) in
      let v = (match impl with [] -> "na" | _ -> (match parse_obs impl with Some r -> show_verdict (judge_collraw cfg r) | None -> "fails:-")) in
      (m, v)
    end else begin
      (* variant 1 makes no return output at all when the return value is zero *)
      let m = if variant = 1 && o.o_coin = N0 && not (ma_nonempty o.o_ma) && o.o_ma = [] then "ok-none" else show_robs (model_collret cfg o) in
      let v = (match impl with
          | [] -> "na"
          | ["ok-none"] -> "holds"
          | _ -> (match parse_obs impl with Some r -> show_verdict (judge_collret cfg o r) | None -> "fails:-")) in
      (m, v)
    end
  | "build" ->
    let cpb = num c in let mvs = num c in let mts = num c in let pure = (next c = "1") in
    let cfg = { c_cpb = cpb; c_max_value_size = mvs; c_max_tx_size = mts } in
    if next c <> "I" then failwith "I";
    let nin = int_ c in
    let ins = rep nin (fun () -> let coin = num c in let ma = p_ma c in (coin, ma)) in
    if next c <> "O" then failwith "O";
    let nout = int_ c in
    let req = rep nout (fun () -> p_out c) in
    if next c <> "C" then failwith "C";
    let caddr = p_addr c in let cd = p_dat c in
    (* the whole scenario on C05's builder model with the concrete MinAda / TxSize oracle: nothing is read off the implementation *)
    let (mask, res) = run_build_case cpb mvs mts pure (List.map (fun (coin, ma) -> (coin, ma)) ins) req caddr cd in
    let am = show_mask mask in
    let show_ma (ma : multiasset) =
      let b = Buffer.create 64 in
      Buffer.add_string b (string_of_int (List.length ma));
      List.iter (fun p -> Buffer.add_string b (" " ^ string_of_int (List.length p));
                  List.iter (fun (nl, q) -> Buffer.add_string b (" " ^ sn nl ^ " " ^ sn q)) p) ma;
      Buffer.contents b in
    let sum l = List.fold_left BZ.add BZ.zero l in
    let accepted = List.map snd (List.filter fst (List.combine mask req)) in
    let l0 = (let i = sum (List.map (fun (c', _) -> bz_of_n c') ins) and o = sum (List.map (fun o -> bz_of_n o.o_coin) accepted) in
              if BZ.compare i o >= 0 then BZ.sub i o else BZ.zero) in
    let nreq = count_true mask in
    let m = (match res with
        | RAddOut -> "panic"
        | RChangeErr -> "err:change " ^ am
        | RChangePanic -> "panic"
        | RChangeFuel -> "outoffuel"
        | RBuild full -> if BZ.compare (bz_of_n full) (bz_of_n mts) > 0 then "toobig " ^ sn full ^ " " ^ am else "err:build " ^ am
        | ROk (fee, full, outs) ->
          let b = Buffer.create 256 in
          Buffer.add_string b (Printf.sprintf "ok %s %s %s %s %d %d" am (BZ.to_string l0) (sn fee) (sn full) nreq (List.length outs));
          List.iter (fun o -> Buffer.add_string b (Printf.sprintf " %s %s %s" (sn o.o_coin) (sn (out_size o)) (sn (out_value_size o)))) outs;
          Buffer.add_string b " |";
          List.iter (fun o -> Buffer.add_string b (" " ^ show_ma o.o_ma)) (drop nreq outs);
          Buffer.contents b) in
    let v = (match impl with
        | [] -> "na"
        | "ok" :: _ :: _ :: _ :: full :: _ :: _ :: rest ->
          let (flat, _) = split_at_bar [] rest in
          let rec obs3 = function
            | c' :: s :: v :: r -> { ob_coin = nn c'; ob_size = nn s; ob_vsize = nn v } :: obs3 r
            | _ -> [] in
          show_verdict (judge_build cfg (obs3 flat) (nn full) None)
        | _ -> "holds") in                     (* no transaction was released: nothing to judge *)
    (m, v)
  | "entry" ->
    let cpb = num c in let mvs = num c in let mts = num c in let pure = (next c = "1") in
    let cfg = { c_cpb = cpb; c_max_value_size = mvs; c_max_tx_size = mts } in
    if next c <> "I" then failwith "I";
    let nin = int_ c in
    let ins = rep nin (fun () -> let coin = num c in let ma = p_ma c in (coin, ma)) in
    if next c <> "O" then failwith "O";
    let nout = int_ c in
    let req = rep nout (fun () -> p_out c) in
    if next c <> "C" then failwith "C";
    let caddr = p_addr c in let cd = p_dat c in let cs = p_sref c in
    if next c <> "V" then failwith "V";
    let via = num c in
    if next c <> "K" then failwith "K";
    let ncol = int_ c in
    let cols = rep ncol (fun () -> let coin = num c in let ma = p_ma c in (coin, ma)) in
    if next c <> "P" then failwith "P";
    let pct = num c in
    if next c <> "M" then failwith "M";
    let items = int_ c in let auxlen = num c in let late = (next c = "1") in
    let aux = if items > 0 then Some auxlen else None in
    let (mask, res) = run_entry_case cpb mvs mts pure ins req caddr cd cs via cols pct aux late in
    let am = show_mask mask in
    let show_ma (ma : multiasset) =
      let b = Buffer.create 64 in
      Buffer.add_string b (string_of_int (List.length ma));
      List.iter (fun p -> Buffer.add_string b (" " ^ string_of_int (List.length p));
                  List.iter (fun (nl, q) -> Buffer.add_string b (" " ^ sn nl ^ " " ^ sn q)) p) ma;
      Buffer.contents b in
    let okerr x = if x then "ok" else "err" in
    let nreq = count_true mask in
    let m = (match res with
        | EAddOut -> "panic"
        | EFail -> "err:change " ^ am
        | EPanic -> "panic"
        | EFuel -> "outoffuel"
        | EDone (fee, full, b_ok, t_ok, u_ok, outs, cret, ctot) ->
          (* the transaction build_tx / build_tx_unsafe hands out carries the real (empty) witness set *)
          let len = if t_ok || u_ok then
              full_tx_size { t_inputs = List.init nin (fun i -> n_of_int i); t_outputs = outs; t_fee = fee; t_vkeys = n_of_int 0; t_boots = [];
                             t_col_inputs = List.init ncol (fun i -> n_of_int i); t_col_return = cret; t_col_total = ctot; t_aux = aux }
            else n_of_int 0 in
          let b = Buffer.create 256 in
          Buffer.add_string b (Printf.sprintf "ok %s %s F=%s B=%s T=%s U=%s L=%s %d" am (sn fee) (sn full) (okerr b_ok) (okerr t_ok) (okerr u_ok) (sn len) nreq);
          if not (b_ok || t_ok || u_ok) then Buffer.add_string b " none"
          else begin
            Buffer.add_string b (Printf.sprintf " %d" (List.length outs));
            List.iter (fun o -> Buffer.add_string b (Printf.sprintf " %s %s %s" (sn o.o_coin) (sn (out_size o)) (sn (out_value_size o)))) outs;
            (match cret with Some o -> Buffer.add_string b (Printf.sprintf " R %s %s %s" (sn o.o_coin) (sn (out_size o)) (sn (out_value_size o))) | None -> Buffer.add_string b " R -");
            (match ctot with Some t -> Buffer.add_string b (" TC " ^ sn t) | None -> Buffer.add_string b " TC -");
            Buffer.add_string b " |";
            List.iter (fun o -> Buffer.add_string b (" " ^ show_ma o.o_ma)) (drop nreq outs)
          end;
          Buffer.contents b) in
    let v = (match impl with
        | [] -> "na"
        | "ok" :: _mask :: _fee :: f :: b :: t :: u :: l :: _nreq :: rest ->
          let strip pre x = let n = String.length pre in String.sub x n (String.length x - n) in
          let returned = (strip "B=" b = "ok") || (strip "T=" t = "ok") || (strip "U=" u = "ok") in
          let full = (match strip "F=" f with "err" -> None | x -> Some (nn x)) in
          let len = nn (strip "L=" l) in
          (match rest with
           | ["none"] -> show_verdict (judge_returned cfg returned [] None full len)
           | nouts :: rest' ->
             let (flat, _) = split_at_bar [] rest' in
             let n = int_of_string nouts in
             let rec obs3 k l = if k = 0 then ([], l) else (match l with
                 | c' :: s :: v :: r -> let (a, r') = obs3 (k - 1) r in ({ ob_coin = nn c'; ob_size = nn s; ob_vsize = nn v } :: a, r')
                 | _ -> ([], l)) in
             let (outs, after) = obs3 n flat in
             let colret = (match after with
                 | "R" :: "-" :: _ -> None
                 | "R" :: c' :: s :: v :: _ -> Some { ob_coin = nn c'; ob_size = nn s; ob_vsize = nn v }
                 | _ -> None) in
             show_verdict (judge_returned cfg returned outs colret full len)
           | [] -> "fails:-")
        | _ -> "holds") in
    (m, v)
  | "mintout" ->
    let variant = int_ c in let cpb = num c in let mvs = num c in
    let addr = p_addr c in let namelen = num c in let qty = num c in let d = p_dat c in let sr = p_sref c in let coin = num c in
    let cfg = { c_cpb = cpb; c_max_value_size = mvs; c_max_tx_size = nn "1000000" } in
    let ma = [[(namelen, qty)]] in
    (* add_mint_asset_and_output: the given coin; ..._min_required_coin: the output-builder helper; both end in add_output *)
    let out_r = if variant = 0 then Ok { o_addr = addr; o_coin = coin; o_ma = ma; o_datum = d; o_sref = sr } else helper_output cpb addr ma d sr in
    let res = (match out_r with Ok o -> (match add_output cfg [] o with Ok l -> Ok l | Err -> Err | Panic -> Panic | OutOfFuel -> OutOfFuel)
                               | Err -> Err | Panic -> Panic | OutOfFuel -> OutOfFuel) in
    let m = (match res with
        | Ok outs ->
          let b = Buffer.create 64 in
          Buffer.add_string b (Printf.sprintf "ok %d" (List.length outs));
          List.iter (fun o -> Buffer.add_string b (Printf.sprintf " %s %s %s" (sn o.o_coin) (sn (out_size o)) (sn (out_value_size o)))) outs;
          Buffer.contents b
        | Err -> "err 0"
        | Panic -> "panic" | OutOfFuel -> "outoffuel") in
    let v = (match impl with
        | [] -> "na"
        | _ :: "none" :: _ -> "holds"
        | _ :: _n :: rest ->
          let rec obs3 = function
            | c' :: s :: v :: r -> { ob_coin = nn c'; ob_size = nn s; ob_vsize = nn v } :: obs3 r
            | _ -> [] in
          show_verdict (judge_returned cfg true (obs3 rest) None None (n_of_int 0))
        | _ -> "fails:-") in
    (m, v)
  | "plutus" ->
    (* no size model for Plutus witness sets: the observation is judged, not predicted *)
    let mts = num c in
    let cfg = { c_cpb = nn "4310"; c_max_value_size = nn "5000"; c_max_tx_size = mts } in
    let v = (match impl with
        | [] -> "na"
        | [_; f; l; b; t; u] ->
          let strip pre x = let n = String.length pre in String.sub x n (String.length x - n) in
          let returned = (strip "B=" b = "ok") || (strip "T=" t = "ok") || (strip "U=" u = "ok") in
          let len = nn (strip "L=" l) in
          (match strip "F=" f with
           | "err" -> show_verdict (judge_returned cfg returned [] None None len)
           | fs ->
             let full = nn fs in
             (* within the limit, and what full_size() measures covers what is handed out *)
             (match judge_returned cfg returned [] None (Some full) len,
                    judge_returned { c_cpb = cfg.c_cpb; c_max_value_size = cfg.c_max_value_size; c_max_tx_size = full } returned [] None None len with
              | Holds, Holds -> "holds"
              | _ -> "fails:-"))
        | _ -> "fails:-") in
    ("skip " ^ String.concat " " impl, v)
  | "txsize" ->
    let mts = num c in
    let cfg = { c_cpb = nn "4310"; c_max_value_size = nn "5000"; c_max_tx_size = mts } in
    if next c <> "I" then failwith "I";
    let nin = int_ c in
    let ins = rep nin (fun () -> let coin = num c in let ma = p_ma c in (coin, ma)) in
    if next c <> "O" then failwith "O";
    let nout = int_ c in
    let req = rep nout (fun () -> p_out c) in
    if next c <> "F" then failwith "F";
    let fee = num c in
    let okerr x = if x then "ok" else "err" in
    let (mask, r) = run_txsize_case mts (List.map (fun (c', ma) -> (c', ma)) ins) req fee in
    let accepted = List.map snd (List.filter fst (List.combine mask req)) in
    let shape v = { t_inputs = List.init nin (fun i -> n_of_int i); t_outputs = accepted; t_fee = fee; t_vkeys = n_of_int v; t_boots = [];
                    t_col_inputs = []; t_col_return = None; t_col_total = None; t_aux = None } in
    let m = (match r with
        | None -> "panic"
        | Some (((full, b_ok), t_ok), u_ok) ->
          let len = if t_ok || u_ok then full_tx_size (shape 0) else n_of_int 0 in
          let b = Buffer.create 128 in
          Buffer.add_string b (Printf.sprintf "%s %s %s %s B=%s T=%s U=%s" (if b_ok then "ok" else "toobig") (show_mask mask) (sn full) (sn len) (okerr b_ok) (okerr t_ok) (okerr u_ok));
          if not (b_ok || t_ok || u_ok) then Buffer.add_string b " none"
          else begin
            Buffer.add_string b (Printf.sprintf " %d" (List.length accepted));
            List.iter (fun o -> Buffer.add_string b (Printf.sprintf " %s %s %s" (sn o.o_coin) (sn (out_size o)) (sn (out_value_size o)))) accepted
          end;
          Buffer.contents b) in
    let v = (match impl with
        | [] -> "na"
        | _ :: _ :: full :: len :: b :: t :: u :: rest ->
          let strip pre x = let n = String.length pre in String.sub x n (String.length x - n) in
          let returned = (strip "B=" b = "ok") || (strip "T=" t = "ok") || (strip "U=" u = "ok") in
          let rec obs3 = function
            | c' :: s :: v :: r -> { ob_coin = nn c'; ob_size = nn s; ob_vsize = nn v } :: obs3 r
            | _ -> [] in
          let outs = (match rest with "none" :: _ -> [] | _ :: r -> obs3 r | [] -> []) in
          show_verdict (judge_returned cfg returned outs None (Some (nn full)) (nn len))
        | _ -> "holds") in
    (m, v)
  | k -> failwith ("unknown case kind " ^ k)

let () = run_driver handle
