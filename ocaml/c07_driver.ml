(* C07 driver: parses case lines (syntax documented in harness/src/bin/c07.rs), runs the extracted model
   and the extracted judge on the implementation's figures.  I/O glue only. *)
let nn = n_of_string
let sn = string_of_n

(* ---- token cursor ---- *)
type cur = { a : string array; mutable i : int }
let next c = let s = c.a.(c.i) in c.i <- c.i + 1; s
let num c = nn (next c)
let int_ c = int_of_string (next c)
let rec rep n f = if n <= 0 then [] else let x = f () in x :: rep (n - 1) f

let p_ma c : multiasset =
  let np = int_ c in
  rep np (fun () -> let na = int_ c in rep na (fun () -> let nl = num c in let q = num c in (nl, q)))
let p_dat c : datum =
  let k = next c in let _param = next c in let len = num c in
  match k with "n" -> DNone | "h" -> DHash | "i" -> DInline len | _ -> failwith "datum"
let p_sref c : sref option =
  let k = next c in let _param = next c in let len = num c in
  match k with "-" -> None | "n" -> Some (SRNative len) | "p1" | "p2" | "p3" -> Some (SRPlutus len) | _ -> failwith "sref"
let p_addr c : n = let _kind = next c in num c
let p_out c : output =
  let addr = p_addr c in let coin = num c in let ma = p_ma c in let d = p_dat c in let s = p_sref c in
  { o_addr = addr; o_coin = coin; o_ma = ma; o_datum = d; o_sref = s }

let show_verdict = function
  | Holds -> "holds"
  | FailsKnown c -> (match int_of_n c with
      | 1 -> "fails:C07-helper-long-address"
      | 2 -> "fails:C07-collateral-return-value-size"
      | 3 -> "fails:C07-change-topup-after-admission"
      | 4 -> "fails:C07-raw-collateral-return-setter"
      | _ -> "fails:-")
  | FailsUnknown -> "fails:-"

let show_obs (o : oobs) = Printf.sprintf "ok %s %s %s" (sn o.ob_coin) (sn o.ob_size) (sn o.ob_vsize)
let show_robs = function Ok o -> show_obs o | Err -> "err" | Panic -> "panic" | OutOfFuel -> "outoffuel"
(* implementation's "ok coin size vsize" *)
let parse_obs (impl : string list) : oobs option option =
  match impl with
  | ["ok"; c; s; v] -> Some (Some { ob_coin = nn c; ob_size = nn s; ob_vsize = nn v })
  | ["err"] -> Some None
  | _ -> None

let rec take n l = if n <= 0 then [] else match l with [] -> [] | x :: r -> x :: take (n - 1) r
let rec drop n l = if n <= 0 then l else match l with [] -> [] | _ :: r -> drop (n - 1) r
let rec split_at_bar acc = function
  | [] -> (List.rev acc, [])
  | "|" :: r -> (List.rev acc, r)
  | x :: r -> split_at_bar (x :: acc) r

let ma_nonempty (ma : multiasset) = List.exists (fun p -> p <> []) ma

let handle (toks : string list) (impl : string list) : string * string =
  let c = { a = Array.of_list toks; i = 1 } in
  match List.hd toks with
  | "minada" ->
    let cpb = num c in let o = p_out c in
    let sz = out_size o and vs = out_value_size o and wid = out_size (set_coin o (nn "18446744073709551615")) in
    let m = (match model_min_ada cpb o with
        | Ok r -> Printf.sprintf "ok %s %s %s %s %s" (sn r.mo_c) (sn r.mo_size) (sn r.mo_vsize) (sn r.mo_size_at_max) (sn r.mo_size_widest)
        | Err -> Printf.sprintf "err %s %s %s" (sn sz) (sn vs) (sn wid)
        | Panic -> "panic" | OutOfFuel -> "outoffuel") in
    let v = (match impl with
        | ["ok"; cc; _; _; atmax; widest] -> show_verdict (judge_min_ada cpb o.o_coin (Some (nn cc, nn atmax)) (nn widest))
        | ["err"; _; _; widest] -> show_verdict (judge_min_ada cpb o.o_coin None (nn widest))
        | [] -> "na"
        | _ -> "fails:-") in
    (m, v)
  | "addout" ->
    let cpb = num c in let mvs = num c in let o = p_out c in
    let cfg = { c_cpb = cpb; c_max_value_size = mvs; c_max_tx_size = nn "16384" } in
    let m = show_robs (model_add_output cfg o) in
    let v = (match impl with [] -> "na" | _ -> (match parse_obs impl with Some r -> show_verdict (judge_admission cfg r) | None -> "fails:-")) in
    (m, v)
  | "helper" ->
    let cpb = num c in let addr = p_addr c in let ma = p_ma c in let d = p_dat c in let s = p_sref c in
    let m = show_robs (model_helper cpb addr ma d s) in
    let v = (match impl with [] -> "na" | _ -> (match parse_obs impl with Some r -> show_verdict (judge_helper cpb addr r) | None -> "fails:-")) in
    (m, v)
  | "collret" ->
    let variant = int_ c in let cpb = num c in let mvs = num c in let o = p_out c in
    let cfg = { c_cpb = cpb; c_max_value_size = mvs; c_max_tx_size = nn "16384" } in
    if variant = 2 then begin
      (* raw setter: accepts anything *)
      let m = show_obs (obs_of o) in
      let v = (match impl with [] -> "na" | _ -> (match parse_obs impl with Some r -> show_verdict (judge_collraw cfg r) | None -> "fails:-")) in
      (m, v)
    end else begin
      (* variant 1 makes no return output at all when the return value is zero *)
      let m = if variant = 1 && o.o_coin = N0 && not (ma_nonempty o.o_ma) && o.o_ma = [] then "ok-none" else show_robs (model_collret cfg o) in
      let v = (match impl with
          | [] -> "na"
          | ["ok-none"] -> "holds"
          | _ -> (match parse_obs impl with Some r -> show_verdict (judge_collret cfg o r) | None -> "fails:-")) in
      (m, v)
    end
  | "build" ->
    let cpb = num c in let mvs = num c in let mts = num c in let pure = (next c = "1") in
    let cfg = { c_cpb = cpb; c_max_value_size = mvs; c_max_tx_size = mts } in
    if next c <> "I" then failwith "I";
    let nin = int_ c in
    let ins = rep nin (fun () -> let coin = num c in let ma = p_ma c in (coin, ma)) in
    if next c <> "O" then failwith "O";
    let nout = int_ c in
    let req = rep nout (fun () -> p_out c) in
    if next c <> "C" then failwith "C";
    let caddr = p_addr c in let cd = p_dat c in
    (* the whole scenario on C05's builder model with the concrete MinAda / TxSize oracle: nothing is read off the implementation *)
    let res = run_build_case cpb mvs mts pure (List.map (fun (coin, ma) -> (coin, ma)) ins) req caddr cd in
    let show_ma (ma : multiasset) =
      let b = Buffer.create 64 in
      Buffer.add_string b (string_of_int (List.length ma));
      List.iter (fun p -> Buffer.add_string b (" " ^ string_of_int (List.length p));
                  List.iter (fun (nl, q) -> Buffer.add_string b (" " ^ sn nl ^ " " ^ sn q)) p) ma;
      Buffer.contents b in
    let sum l = List.fold_left BZ.add BZ.zero l in
    let l0 = (let i = sum (List.map (fun (c', _) -> bz_of_n c') ins) and o = sum (List.map (fun o -> bz_of_n o.o_coin) req) in
              if BZ.compare i o >= 0 then BZ.sub i o else BZ.zero) in
    let nreq = List.length req in
    let m = (match res with
        | RAddOut -> "err:addout"
        | RChangeErr -> "err:change"
        | RChangePanic -> "panic"
        | RChangeFuel -> "outoffuel"
        | RBuild full -> if BZ.compare (bz_of_n full) (bz_of_n mts) > 0 then "toobig " ^ sn full else "err:build"
        | ROk (fee, full, outs) ->
          let b = Buffer.create 256 in
          Buffer.add_string b (Printf.sprintf "ok %s %s %s %d %d" (BZ.to_string l0) (sn fee) (sn full) nreq (List.length outs));
          List.iter (fun o -> Buffer.add_string b (Printf.sprintf " %s %s %s" (sn o.o_coin) (sn (out_size o)) (sn (out_value_size o)))) outs;
          Buffer.add_string b " |";
          List.iter (fun o -> Buffer.add_string b (" " ^ show_ma o.o_ma)) (drop nreq outs);
          Buffer.contents b) in
    let v = (match impl with
        | [] -> "na"
        | "ok" :: _ :: _ :: full :: _ :: _ :: rest ->
          let (flat, _) = split_at_bar [] rest in
          let rec obs3 = function
            | c' :: s :: v :: r -> { ob_coin = nn c'; ob_size = nn s; ob_vsize = nn v } :: obs3 r
            | _ -> [] in
          show_verdict (judge_build cfg (obs3 flat) (nn full) None)
        | _ -> "holds") in                     (* no transaction was released: nothing to judge *)
    (m, v)
  | "txsize" ->
    let mts = num c in
    let cfg = { c_cpb = nn "4310"; c_max_value_size = nn "5000"; c_max_tx_size = mts } in
    if next c <> "I" then failwith "I";
    let nin = int_ c in
    let _ins = rep nin (fun () -> let coin = num c in let ma = p_ma c in (coin, ma)) in
    if next c <> "O" then failwith "O";
    let nout = int_ c in
    let req = rep nout (fun () -> p_out c) in
    if next c <> "F" then failwith "F";
    let fee = num c in
    let shape v = { t_inputs = List.init nin (fun i -> n_of_int i); t_outputs = req; t_fee = fee; t_vkeys = n_of_int v; t_boots = [] } in
    let mfull = full_tx_size (shape 1) and mlen = full_tx_size (shape 0) in   (* with the mock witness / as build_tx_unsafe returns it *)
    let admitted = (match add_outputs cfg [] req with Ok _ -> true | _ -> false) in
    (match impl with
     | [] -> ((if admitted then "admitted" else "err:addout"), "na")
     | ["err:addout"] -> ((if admitted then "admitted" else "err:addout"), "holds")
     | ["err:size"] -> ("skip err:size", "holds")
     | ["ok"; full; txlen] ->
       let m = if not admitted then "err:addout" else (match build_guard cfg mfull with Ok _ -> "ok " ^ sn mfull ^ " " ^ sn mlen | _ -> "toobig " ^ sn mfull) in
       let big = if BZ.compare (BZ.of_string full) (BZ.of_string txlen) >= 0 then full else txlen in
       (m, show_verdict (judge_build cfg [] (nn big) None))
     | ["toobig"; full] ->
       let m = if not admitted then "err:addout" else (match build_guard cfg mfull with Ok _ -> "ok " ^ sn mfull ^ " " ^ sn mlen | _ -> "toobig " ^ sn mfull) in
       (m, "holds")
     | _ -> ("driver-unparsed", "fails:-"))
  | k -> failwith ("unknown case kind " ^ k)

let () = run_driver handle
