(* C06 driver: parses a scenario line and the implementation's result line (recorded oracle answers, measured K,
   figures of the really signed transactions), runs the extracted model (run_ops6: C05's change model with the
   fee oracle recomputed by FeeSuff/FeeModel.v) and the extracted judge (judge_tx: the ledger minimum fee from
   C15's spec functions on the real signed size).  I/O glue only; the syntax is documented in harness/src/bin/c06.rs. *)

type toks = { a : string array; mutable pos : int }
let mk l = { a = Array.of_list l; pos = 0 }
let next t = let s = t.a.(t.pos) in t.pos <- t.pos + 1; s
let peek t = if t.pos < Array.length t.a then Some t.a.(t.pos) else None
let expect t s = if next t <> s then failwith ("syntax: expected " ^ s)
let num t = n_of_string (next t)
let znum t = z_of_string (next t)
let count t = let s = next t in if s = "~" then None else Some (int_of_string s)
let cnt t = match count t with Some n -> n | None -> 0
let rec rep n f = if n <= 0 then [] else let x = f () in x :: rep (n - 1) f
let optn t = let s = next t in if s = "~" then None else Some (n_of_string s)
let bytes t = bytes_of_hex (next t)

let value t : value =
  let coin = num t in
  match count t with
  | None -> { coin = coin; multiasset_of = None }
  | Some k ->
    let es = rep k (fun () -> let p = bytes t in let n = bytes t in let q = num t in ((p, n), q)) in
    (match peek t with Some s when String.length s > 1 && s.[0] = 'E' && s.[1] >= '0' && s.[1] <= '9' -> ignore (next t) | _ -> ());
    { coin = coin; multiasset_of = Some (ma_of_entries es) }

let cert t : cert =
  let tag = num t in
  let coin = optn t in
  match cert_of_tag tag coin with Some c -> c | None -> failwith "syntax: certificate"

let output t : output =
  let a = num t in let e = num t in let v = value t in
  { o_addr = a; o_amount = v; o_extra = e }

let parse_op t : op6 =
  match next t with
  | "in" -> Base (OpInput (num t))
  | "out" -> Base (OpOutput (output t))
  | "certs" -> Base (OpCerts (match count t with None -> None | Some k -> Some (rep k (fun () -> cert t))))
  | "wd" -> Base (OpWithdrawals (match count t with None -> None | Some k -> Some (rep k (fun () -> let a = num t in let c = num t in (a, c)))))
  | "props" -> Base (OpProposals (match count t with None -> None | Some k -> Some (rep k (fun () -> num t))))
  | "mint" -> let ow = (next t = "1") in let p = bytes t in let n = bytes t in let z = z_of_string (next t) in Base (OpMint (ow, p, n, z))
  | "don" -> Base (OpDonation (num t))
  | "treas" -> Base (OpTreasury (num t))
  | "fee" -> Base (OpSetFee (num t))
  | "minfee" -> Base (OpSetMinFee (num t))
  | "change" -> let a = num t in let e = num t in Base (OpChange (a, e))
  | "selchange" ->
    let _st = next t in let a = num t in let e = num t in
    let k = cnt t in
    let ids = rep k (fun () -> num t) in
    Base (OpSelectChange (ids, a, e))
  | "build" -> Base OpBuild
  | "xr" -> let id = num t in let size = num t in AuxXr (id, size)
  | "x" -> let tag = next t in let n = num t in Aux (n_of_int (match tag with "ref" -> 1 | "coll" -> 2 | "sig" -> 3 | _ -> 0), n)
  | x -> failwith ("syntax: op " ^ x)

type scenario = { cfg : config; sc : scn; utxos : (n * value) list; ops : op6 list; za : z; zb : z; pr : prices }

let parse_case (l : string list) : scenario =
  let t = mk l in
  let _label = next t in
  expect t "CFG";
  let pool = num t in let key = num t in
  let pure = (next t = "1") in let noburn = (next t = "1") in
  let _cpb = next t in let _maxval = next t in let maxtx = num t in
  let sa = next t in let sb = next t in
  expect t "PR";
  let exp = (match peek t with Some "~" -> ignore (next t); None
                             | _ -> let a = znum t in let b = znum t in let c = znum t in let d = znum t in Some (((a, b), c), d)) in
  let refp = (match peek t with Some "~" -> ignore (next t); None
                              | _ -> let a = znum t in let b = znum t in Some (a, b)) in
  let dedup = (match peek t with Some "DD" -> ignore (next t); next t = "1" | _ -> false) in
  expect t "U";
  let n = cnt t in
  let us = rep n (fun () ->
      let id = num t in let kind = num t in let mem = num t in let steps = num t in let rf = num t in
      let v = value t in (id, { u_kind = kind; u_mem = mem; u_steps = steps; u_ref = rf }, v)) in
  expect t "OB";
  let n = cnt t in
  let ob = rep n (fun () -> let a = num t in let e = num t in let b = num t in ((a, e), b)) in
  expect t "OPS";
  let n = cnt t in
  let ops = rep n (fun () -> parse_op t) in
  { cfg = { c_pool_deposit = pool; c_key_deposit = key; c_prefer_pure_change = pure; c_do_not_burn_extra_change = noburn };
    sc = { sc_a = n_of_string sa; sc_b = n_of_string sb; sc_max_tx = maxtx; sc_ex_price = exp; sc_ref_price = refp;
           sc_uinfo = List.map (fun (id, u, _) -> (id, u)) us; sc_obase = ob; sc_dedup = dedup;
           sc_xr_ids = List.concat (List.map (function AuxXr (id, _) -> [id] | _ -> []) ops) };
    utxos = List.map (fun (id, _, v) -> (id, v)) us; ops = ops;
    za = z_of_string sa; zb = z_of_string sb; pr = { p_ex = exp; p_ref = refp } }

(* ---- printing, same syntax as the harness ---- *)
let show_value (v : value) : string =
  let b = Buffer.create 64 in
  Buffer.add_string b (string_of_n v.coin);
  (match v.multiasset_of with
   | None -> Buffer.add_string b " ~"
   | Some m ->
     let es = ma_entries m in
     Buffer.add_string b (Printf.sprintf " %d" (List.length es));
     List.iter (fun ((p, n), q) -> Buffer.add_string b (Printf.sprintf " %s %s %s" (hex_of_bytes p) (hex_of_bytes n) (string_of_n q))) es;
     let empties = List.length (List.filter (fun (_, a) -> a = []) m) in
     if empties > 0 then Buffer.add_string b (Printf.sprintf " E%d" empties));
  Buffer.contents b

let show_output (o : output) : string =
  Printf.sprintf "%s %s %s" (string_of_n o.o_addr) (string_of_n o.o_extra) (show_value o.o_amount)

let show_res = function
  | ROk -> "ok" | RBool true -> "t" | RBool false -> "f" | RErr -> "err" | RPanic -> "panic" | RFuel -> "outoffuel" | RDesync -> "desync"

(* ---- the implementation's line ---- *)
type impl = { i_built : tx_report option; i_unsafe : tx_report option; i_pol : fee_request; i_recs : oprec list;
              i_tail : string; i_fin_k : n option; i_full : z option }

let site_code s = n_of_int (Char.code s.[0])

let report t : tx_report option =
  match peek t with
  | Some "~" -> ignore (next t); None
  | _ ->
    let fee = znum t in let size = znum t in let _nv = next t in let _nb = next t in
    let mem = znum t in let steps = znum t in let rf = znum t in
    Some { r_fee = fee; r_signed_size = size; r_mem = mem; r_steps = steps; r_refsize = rf }

let parse_impl (l : string list) : impl option =
  match l with
  | "ok" :: rest ->
    let t = mk rest in
    expect t "R";
    let n = cnt t in
    let _res = rep n (fun () -> next t) in
    expect t "S";
    let _fee = next t in
    let no = cnt t in
    let _ = rep no (fun () -> output t) in
    let ni = cnt t in
    let _ = rep ni (fun () -> next t) in
    expect t "FIN";
    let fs = next t in let _mf = next t in
    let tail_start = t.pos in
    expect t "TX";
    let built = report t in
    expect t "UNS";
    let uns = report t in
    expect t "POL";
    let pol = (match next t with
        | "u" -> FeeUnspecified
        | "n" -> FeeNotLess (num t)
        | "e" -> FeeExactly (num t)
        | _ -> failwith "syntax: POL") in
    expect t "ORA";
    let n = cnt t in
    let recs = rep n (fun () ->
        let k = cnt t in
        let tape = rep k (fun () -> let s = next t in let a = next t in (site_code s, if a = "e" then None else Some (n_of_string a))) in
        let sel = (match next t with
            | "~" -> None
            | ok -> let m = cnt t in
              let ids = rep m (fun () -> num t) in Some (ids, ok = "1")) in
        let kk = optn t in
        { or_tape = tape; or_sel = sel; or_k = kk }) in
    let tail = String.concat " " (Array.to_list (Array.sub t.a tail_start (t.pos - tail_start))) in
    let fin_k = (match List.rev recs with r :: _ -> r.or_k | [] -> None) in
    Some { i_built = built; i_unsafe = uns; i_pol = pol; i_recs = recs; i_tail = tail; i_fin_k = fin_k;
           i_full = (if fs = "~" then None else Some (z_of_string fs)) }
  | _ -> None

let show_verdict = function
  | Holds -> "holds"
  | NotApplicable -> "na"
  | FailsKnown c -> (match int_of_n c with 1 -> "fails:C06-topup-width" | 2 -> "fails:C06-notless-width" | _ -> "fails:-")
  | FailsUnknown -> "fails:-"

let opt_s = function Some v -> string_of_n v | None -> "~"

let () = run_driver (fun toks impl_toks ->
  let sc = parse_case toks in
  match parse_impl impl_toks with
  | None -> ("no-implementation-result", if impl_toks = [] then "na" else "fails:-")
  | Some im ->
    let bad_rec = { or_tape = [(n_of_int 0, None)]; or_sel = None; or_k = None } in
    let rec zip ops recs = match ops, recs with
      | o :: r, t :: r' -> (o, t) :: zip r r'
      | o :: r, [] -> (o, bad_rec) :: zip r []
      | [], _ -> [] in
    let r0 = { r_st = new_state sc.cfg; r_ref = (n_of_int 0, []); r_bal = None; r_coll = false; r_plain = true; r_sigs = []; r_sdh = false } in
    let ((rs, r), checked) = run_ops6 sc.sc sc.utxos (zip sc.ops im.i_recs) r0 (n_of_int 0) in
    let st = r.r_st in
    let b = Buffer.create 512 in
    Buffer.add_string b (Printf.sprintf "OKTOKEN R %d" (List.length rs));
    List.iter (fun x -> Buffer.add_string b (" " ^ show_res x)) rs;
    Buffer.add_string b (" S " ^ (match get_fee_if_set st with Some f -> string_of_n f | None -> "~"));
    Buffer.add_string b (Printf.sprintf " %d" (List.length st.s_outputs));
    List.iter (fun o -> Buffer.add_string b (" " ^ show_output o)) st.s_outputs;
    Buffer.add_string b (Printf.sprintf " %d" (List.length st.s_inputs));
    List.iter (fun (id, _) -> Buffer.add_string b (" " ^ string_of_n id)) st.s_inputs;
    Buffer.add_string b (Printf.sprintf " FIN %s %s " (opt_s (model_full_size sc.sc r im.i_fin_k)) (opt_s (model_min_fee_pub sc.sc r im.i_fin_k)));
    Buffer.add_string b im.i_tail;
    let cb = bz_of_n checked in
    let two20 = BZ.shift_left BZ.one 20 in
    let n_meas = BZ.to_int (BZ.rem cb two20) in
    let n_conc = BZ.to_int (BZ.rem (BZ.shift_right cb 20) two20) in
    let n_cal = BZ.to_int (BZ.shift_right cb 40) in
    (if Sys.getenv_opt "C06_COUNT" <> None then prerr_endline (Printf.sprintf "checked measured %d concrete %d calibrated %d" n_meas n_conc n_cal));
    (* how the min_fee answers of this scenario were obtained: the first token of the model line (the comparison in
       checks/C06.py reads it as "ok") so that the evidence's case distribution counts the classes *)
    let how = if n_conc > 0 && n_meas = 0 && n_cal = 0 then "ok+concrete"
      else if n_conc > 0 then "ok+concrete+measured"
      else if n_cal > 0 then "ok+calibrated"
      else if n_meas > 0 then "ok+measured" else "ok+nofee" in
    let (uns, slack, bind) = (match r.r_bal with
        | Some (s, bd) -> (im.i_unsafe, s, bd)
        | None -> (None, true, false)) in
    let v = judge_tx sc.za sc.zb sc.pr im.i_pol im.i_built uns slack bind im.i_full in
    let line = Buffer.contents b in
    let line = how ^ String.sub line 7 (String.length line - 7) in
    (line, show_verdict v))
