(* C04 driver.  Two modes:
     c04_driver gen <seed> <tier> <out>     write generated cases (no index) to <out>
     c04_driver <cases> <impl>              model result + verdict per case
   I/O glue + input generation only.  Decoding, the operations, re-encoding and the judge are the extracted
   Coq functions.  The generator (schema walk copied from c01_driver.ml + a "noisy" CBOR printer) is NOT
   trusted: it only produces inputs. *)

(* ================================================================ running a case *)
let hid (b : n list) : n list = b          (* H: the hash is carried as its preimage *)
exception No_oracle
exception Model_panic
exception Model_oof

let vk_oracle : (string * string, n list * n list) Hashtbl.t = Hashtbl.create 16
let bw_oracle : (bool * string * string, ((n list * n list) * n list) * n list) Hashtbl.t = Hashtbl.create 16
let sign_vkey (k : n list) (h : n list) =
  try Hashtbl.find vk_oracle (hex_of_bytes k, hex_of_bytes h) with Not_found -> raise No_oracle
let sign_boot (d : bool) (k : n list) (h : n list) =
  try Hashtbl.find bw_oracle (d, hex_of_bytes k, hex_of_bytes h) with Not_found -> raise No_oracle

let parse_op (tok : string) : op =
  match String.split_on_char ':' tok with
  | ["av"; vk; sg] -> OAddVkey (bytes_of_hex vk, bytes_of_hex sg)
  | ["ab"; vk; sg; cc; at] -> OAddBoot (((bytes_of_hex vk, bytes_of_hex sg), bytes_of_hex cc), bytes_of_hex at)
  | "sv" :: k :: pre :: rest ->
    (match rest with [vk; sg] -> Hashtbl.replace vk_oracle (k, pre) (bytes_of_hex vk, bytes_of_hex sg) | _ -> ());
    OSignVkey (bytes_of_hex k)
  | "si" :: k :: pre :: rest ->
    (match rest with [vk; sg; cc; at] ->
       Hashtbl.replace bw_oracle (false, k, pre) (((bytes_of_hex vk, bytes_of_hex sg), bytes_of_hex cc), bytes_of_hex at) | _ -> ());
    OSignIcarus (bytes_of_hex k)
  | "sd" :: k :: pre :: rest ->
    (match rest with [vk; sg; cc; at] ->
       Hashtbl.replace bw_oracle (true, k, pre) (((bytes_of_hex vk, bytes_of_hex sg), bytes_of_hex cc), bytes_of_hex at) | _ -> ());
    OSignDaedalus (bytes_of_hex k)
  | ["sb"; b] -> OSetBody (bytes_of_hex b)
  | ["sw"; b] -> OSetWits (bytes_of_hex b)
  | ["sx"; b] -> OSetAux (bytes_of_hex b)
  | ["vl"; v] -> OSetValid (v = "1")
  | _ -> failwith ("bad op " ^ tok)

let field (impl : string list) (name : string) : string option =
  let p = name ^ "=" in
  let l = String.length p in
  List.fold_left (fun acc t -> if acc = None && String.length t >= l && String.sub t 0 l = p
                   then Some (String.sub t l (String.length t - l)) else acc) None impl

let verdict_s = function VHolds -> "holds" | VNa -> "na" | VFails -> "fails:-"

(* the model's observation after loading: apply the operations one by one (= Coq [step]) and record which failed *)
(* body_canonical (schema decoder + re-encoder) is the costly part of a case: computed once per distinct body *)
let canon_tbl : (n list, n list option) Hashtbl.t = Hashtbl.create 8
let canon_cached (b : n list) : n list option =
  match Hashtbl.find_opt canon_tbl b with
  | Some r -> r
  | None -> let r = body_canonical b in Hashtbl.replace canon_tbl b r; r
let observe (impl_bb : string) (tx : fixed_tx) (ops : op list) : string * string =
  let flags = Buffer.create 8 in
  let tx = List.fold_left (fun tx o ->
      match apply_op hid sign_vkey sign_boot o tx with
      | Ok tx' -> Buffer.add_char flags '0'; tx'
      | Err -> Buffer.add_char flags '1'; tx
      | Panic -> raise Model_panic
      | OutOfFuel -> raise Model_oof) tx ops in
  let e = if Buffer.length flags = 0 then "-" else Buffer.contents flags in
  (* body().to_bytes(): the canonical re-encoding, known to the model on the schema-covered sub-stream only
     (elsewhere the implementation's value is echoed, i.e. not compared) *)
  let bb = (match canon_cached tx.ft_body with Some c -> hex_of_bytes c | None -> impl_bb) in
  (Printf.sprintf "ok b=%s a=%s w=%s t=%s hp=%s e=%s v=%d bb=%s sc=-" (hex_of_bytes tx.ft_body)
     (match tx.ft_aux with Some a -> hex_of_bytes a | None -> "~")
     (hex_of_bytes (encode_wits tx.ft_wits)) (hex_of_bytes (encode_fixed tx)) (hex_of_bytes tx.ft_hash) e
     (if tx.ft_valid then 1 else 0) bb, e)

let n_loaded = ref 0 and n_covered = ref 0
let is_setter = function OSetBody _ | OSetWits _ | OSetAux _ -> true | _ -> false
(* the setter's argument lies in the sub-stream the schema decoder covers: the library must accept it *)
let setter_covered = function
  | OSetBody b -> body_covered b
  | OSetAux a -> aux_covered (Some a)
  | OSetWits w -> (match decode_wits w with Ok (ws, _) -> wits_covered ws | _ -> false)
  | _ -> false

(* input: the bytes the judge reads (for txn/txb: the four-element transaction assembled from the arguments) *)
let run_tx (load : fixed_tx result) (judge_input : n list option) (optoks : string list) (impl : string list) : string * string =
  match load with
  | Err ->
    (* the library reads fixed-arity arrays inside the body / auxiliary data without checking their declared
       length (C02's open finding), so it can accept bytes that are not a CBOR data item at all; the model (and
       C04's statement) only speak about inputs that are well-formed in the generic reading *)
    let wellformed = (match judge_input with Some inp -> (match spec_slices inp with Some _ -> true | None -> false) | None -> false) in
    if (match impl with "ok" :: _ -> true | _ -> false) && not wellformed then ("skip impl-accepts-illformed", "na")
    else ("err", "na")
  | Panic -> ("panic", "na")
  | OutOfFuel -> ("outoffuel", "na")
  | Ok tx ->
    (* a library rejection is tolerated only outside the sub-stream the C01 schema decoder covers *)
    let cov = canon_cached tx.ft_body <> None && aux_covered tx.ft_aux && wits_covered tx.ft_wits in
    incr n_loaded; if cov then incr n_covered;
    if impl = ["err"] && not cov then ("skip impl-rejects", "na") else
    let ops = List.map parse_op optoks in
    (try
      let (m, e) = observe (match field impl "bb" with Some x -> x | None -> "?") tx ops in
      match impl with
      | "ok" :: _ ->
        let ie = (match field impl "e" with Some s -> s | None -> "-") in
        let refine = ref false in
        List.iteri (fun i o -> if is_setter o && i < String.length ie && i < String.length e
                                  && ie.[i] = '1' && e.[i] = '0' && not (setter_covered o) then refine := true) ops;
        if !refine then ("skip impl-rejects-op", "na") else begin
          let v =
            match judge_input, field impl "b", field impl "a", field impl "w", field impl "t", field impl "hp" with
            | Some inp, Some b, Some a, Some w, Some t, Some hp when same_reading inp ->
              let okflags = List.mapi (fun i o -> (o, not (i < String.length ie && ie.[i] = '1'))) ops in
              let o = { o_body = bytes_of_hex b; o_aux = (if a = "~" then None else Some (bytes_of_hex a));
                        o_wits = bytes_of_hex w; o_tx = bytes_of_hex t; o_valid = (field impl "v" = Some "1");
                        o_hash_pre = (if String.length hp > 0 && hp.[0] = '?' then None else Some (bytes_of_hex hp)) } in
              if field impl "sc" <> Some "-" then "fails:-" else verdict_s (judge inp okflags o)
            | _ -> "na" in
          (m, v)
        end
      | _ -> (m, "na")
    with No_oracle -> ("skip no-oracle", "na")
       | Model_panic -> ("panic", "na")
       | Model_oof -> ("outoffuel", "na"))

(* block observations *)
let bodies_obs (l : (n list * n list) list) : string =
  Printf.sprintf "n=%d o=%s hq=%s" (List.length l)
    (if l = [] then "-" else String.concat "," (List.map (fun (o, _) -> hex_of_bytes o) l))
    (if l = [] then "-" else String.concat "" (List.map (fun (o, h) -> if o = h then "y" else "n") l))
let block_fields (impl : string list) : n list list * bool list * n list option =
  let origs = (match field impl "o" with
      | Some "-" | None -> [] | Some s -> List.map bytes_of_hex (String.split_on_char ',' s)) in
  let hq = (match field impl "hq" with
      | Some "-" | None -> [] | Some s -> List.init (String.length s) (fun i -> s.[i] = 'y')) in
  let bh = (match field impl "bh" with
      | Some s when String.length s > 0 && s.[0] <> '?' && s.[0] <> 'w' -> Some (bytes_of_hex s) | _ -> None) in
  (origs, hq, bh)

let res_map f = function Ok (x, _) -> Ok (f x) | Err -> Err | Panic -> Panic | OutOfFuel -> OutOfFuel

let one_item (b : n list) : bool = item_wf b

let run_mode () = run_driver (fun toks impl ->
  Hashtbl.reset vk_oracle; Hashtbl.reset bw_oracle; Hashtbl.reset canon_tbl;
  match toks with
  | "tx" :: hexs :: ops ->
    let bs = bytes_of_hex hexs in
    run_tx (res_map (fun x -> x) (decode_fixed hid bs)) (Some bs) ops impl
  | "txn" :: b :: w :: v :: a :: ops ->
    let (b, w, v) = (bytes_of_hex b, bytes_of_hex w, v = "1") in
    let a = if a = "~" then None else Some (bytes_of_hex a) in
    let load = (match fixed_new hid b w v a with Ok tx -> Ok tx | Err -> Err | Panic -> Panic | OutOfFuel -> OutOfFuel) in
    let inp = if one_item b && one_item w && (match a with Some a -> one_item a | None -> true)
      then Some ([n_of_int 132] @ b @ w @ [n_of_int (if v then 245 else 244)] @ (match a with Some a -> a | None -> [n_of_int 246]))
      else None in
    run_tx load inp ops impl
  | "txb" :: b :: ops ->
    let b = bytes_of_hex b in
    let load = (match fixed_new_from_body hid b with Ok tx -> Ok tx | Err -> Err | Panic -> Panic | OutOfFuel -> OutOfFuel) in
    let inp = if one_item b then Some ([n_of_int 132] @ b @ [n_of_int 160; n_of_int 245; n_of_int 246]) else None in
    run_tx load inp ops impl
  | ["pd"; hexs] ->
    let bs = bytes_of_hex hexs in
    (match decode_pd bs with
     | Ok (d, _) ->
       if impl = ["err"] then ("err-expected-ok", "na") else
       let t = encode_pd (fun _ -> []) d in
       let v = (match field impl "t", field impl "hp" with
           | Some it, Some hp ->
             verdict_s (judge_datum bs (bytes_of_hex it)
                          (if String.length hp > 0 && hp.[0] = '?' then None else Some (bytes_of_hex hp)))
           | _ -> "na") in
       (Printf.sprintf "ok t=%s hp=%s" (hex_of_bytes t) (hex_of_bytes t), v)
     | Err -> ("err", "na") | Panic -> ("panic", "na") | OutOfFuel -> ("outoffuel", "na"))
  | ["pdl"; hexs] ->
    let bs = bytes_of_hex hexs in
    (match decode_plist bs with
     | Ok (x, _) -> (Printf.sprintf "ok t=%s" (hex_of_bytes (reencode_plist (fun _ -> []) x)), "na")
     | Err -> ("err", "na") | Panic -> ("panic", "na") | OutOfFuel -> ("outoffuel", "na"))
  | ["fb"; hexs] ->
    let bs = bytes_of_hex hexs in
    (match decode_fixed_body hid bs with
     | Ok ((raw, h), _) ->
       if impl = ["err"] && not (body_covered raw) then ("skip impl-rejects", "na") else
       let v = (match field impl "o", field impl "hp" with
           | Some o, Some hp ->
             verdict_s (judge_datum bs (bytes_of_hex o)
                          (if String.length hp > 0 && hp.[0] = '?' then None else Some (bytes_of_hex hp)))
           | _ -> "na") in
       let v = if field impl "sc" <> Some "-" && v = "holds" then "fails:-" else v in
       let bb = (match body_canonical raw with Some c -> hex_of_bytes c | None -> (match field impl "bb" with Some x -> x | None -> "?")) in
       (Printf.sprintf "ok o=%s hp=%s bb=%s sc=-" (hex_of_bytes raw) (hex_of_bytes h) bb, v)
     | Err -> ("err", "na") | Panic -> ("panic", "na") | OutOfFuel -> ("outoffuel", "na"))
  | "fws" :: hexs :: optoks ->
    let bs = bytes_of_hex hexs in
    (match decode_wits bs with
     | Ok (w, _) ->
       if impl = ["err"] && not (wits_covered w) then ("skip impl-rejects", "na") else
       let ops = List.map parse_op optoks in
       let w' = List.fold_left (fun w o -> match o with OAddVkey x -> add_vkey x w | OAddBoot x -> add_boot x w | _ -> w) w ops in
       let out = encode_wits w' in
       (* the judge reads the set as the witness set of a transaction around a tiny body *)
       let tiny = List.map n_of_int [163; 0; 128; 1; 128; 2; 0] in
       let frame ws = [n_of_int 132] @ tiny @ ws @ [n_of_int 245; n_of_int 246] in
       let v = (match field impl "w", item_wf bs with
           | Some iw, true when same_reading (frame bs) ->
             let iwb = bytes_of_hex iw in
             if field impl "sc" <> Some "-" then "fails:-" else
             verdict_s (judge (frame bs) (List.map (fun o -> (o, true)) ops)
                          { o_body = tiny; o_aux = None; o_wits = iwb; o_tx = frame iwb; o_valid = true; o_hash_pre = Some tiny })
           | _ -> "na") in
       (Printf.sprintf "ok w=%s sc=-" (hex_of_bytes out), v)
     | Err -> ((if impl <> ["err"] && map_slices bs = None then "skip impl-accepts-illformed" else "err"), "na")
     | Panic -> ("panic", "na") | OutOfFuel -> ("outoffuel", "na"))
  | ["fbs"; hexs] ->
    let bs = bytes_of_hex hexs in
    (match decode_fixed_bodies hid bs with
     | Ok (l, _) ->
       if impl = ["err"] then ("skip impl-rejects", "na") else
       let (origs, hq, _) = block_fields impl in
       (Printf.sprintf "ok %s" (bodies_obs l), verdict_s (judge_bodies bs origs hq))
     | Err -> ((if impl <> ["err"] && array_slices bs = None then "skip impl-accepts-illformed" else "err"), "na")
     | Panic -> ("panic", "na") | OutOfFuel -> ("outoffuel", "na"))
  | ["blk"; hexs; _] ->
    let bs = bytes_of_hex hexs in
    (match decode_fixed_block hid bs with
     | Ok (b, _) ->
       if impl = ["err"] then ("skip impl-rejects", "na") else
       let (origs, hq, bh) = block_fields impl in
       let v = verdict_s (judge_block bs origs hq bh) in
       let v = if field impl "sc" <> Some "-" && v = "holds" then "fails:-" else v in
       (Printf.sprintf "ok %s bh=%s nw=%d ni=%d sc=-" (bodies_obs b.fb_bodies) (hex_of_bytes b.fb_hash) (int_of_nat b.fb_nwits) (int_of_nat b.fb_ninvalid), v)
     | Err -> ((if impl <> ["err"] && array_slices bs = None then "skip impl-accepts-illformed" else "err"), "na")
     | Panic -> ("panic", "na") | OutOfFuel -> ("outoffuel", "na"))
  | ["vblk"; hexs; _] ->
    let bs = bytes_of_hex hexs in
    (match decode_versioned_block hid bs with
     | Ok ((era, b), _) ->
       if impl = ["err"] then ("skip impl-rejects", "na") else
       let (origs, hq, bh) = block_fields impl in
       let v = (match array_slices bs with
           | Some ([_; inner], _) -> verdict_s (judge_block inner origs hq bh)
           | _ -> "na") in
       let v = if field impl "sc" <> Some "-" && v = "holds" then "fails:-" else v in
       (Printf.sprintf "ok era=%s %s bh=%s nw=%d ni=%d sc=-" (string_of_n (era_of era)) (bodies_obs b.fb_bodies) (hex_of_bytes b.fb_hash)
          (int_of_nat b.fb_nwits) (int_of_nat b.fb_ninvalid), v)
     | Err -> ((if impl <> ["err"] && array_slices bs = None then "skip impl-accepts-illformed" else "err"), "na")
     | Panic -> ("panic", "na") | OutOfFuel -> ("outoffuel", "na"))
  | _ -> ("driver-badcase", "na"))

(* ================================================================ generation (untrusted) *)
let depth = nat_of_int 3
let st = ref 0L
let next () : int64 =
  st := Int64.add !st 0x9E3779B97F4A7C15L;
  let z = ref !st in
  z := Int64.mul (Int64.logxor !z (Int64.shift_right_logical !z 30)) 0xBF58476D1CE4E5B9L;
  z := Int64.mul (Int64.logxor !z (Int64.shift_right_logical !z 27)) 0x94D049BB133111EBL;
  Int64.logxor !z (Int64.shift_right_logical !z 31)
let below (n : int) : int = if n <= 0 then 0 else Int64.to_int (Int64.unsigned_rem (next ()) (Int64.of_int n))
let chance (pct : int) : bool = below 100 < pct
let bz_u64 () : BZ.t = BZ.of_string (Printf.sprintf "%Lu" (next ()))
let edges = List.map BZ.of_string ["0";"1";"23";"24";"25";"255";"256";"65535";"65536";"4294967295";"4294967296";
                                   "9223372036854775807";"9223372036854775808";"18446744073709551614";"18446744073709551615"]
let gen_uint (bits : int) : BZ.t =
  let lim = BZ.shift_left BZ.one bits in
  let v = match below 10 with
    | 0 | 1 | 2 | 3 -> List.nth edges (below (List.length edges))
    | 4 -> BZ.of_int (below 1000)
    | 5 -> BZ.of_int (below 10_000_000)
    | 6 -> BZ.shift_right (bz_u64 ()) (below 64)
    | 7 -> BZ.pred lim
    | _ -> bz_u64 () in
  if BZ.lt v lim then v else BZ.rem v lim
let gen_bytes (len : int) : n list = List.init len (fun _ -> n_of_int (below 256))
let gen_text (len : int) : n list = List.init len (fun _ -> n_of_int (32 + below 95))
let gen_address () : n list =
  let net = below 2 in
  match below 4 with
  | 0 -> n_of_int (0x60 + 0x10 * below 2 + net) :: gen_bytes 28
  | 1 -> n_of_int (0xe0 + 0x10 * below 2 + net) :: gen_bytes 28
  | _ -> n_of_int (0x10 * below 4 + net) :: gen_bytes 56
let gen_reward_address () : n list = n_of_int (0xe0 + 0x10 * below 2 + below 2) :: gen_bytes 28

let rec slist_to_list = function SNil -> [] | SCons (s, r) -> s :: slist_to_list r
let rec vlist_to_list = function ANil -> [] | ACons (i, fs, r) -> (i, fs) :: vlist_to_list r
let rec clist_to_list = function CNil -> [] | CCons (d, s, r) -> (d, s) :: clist_to_list r
let rec klist_to_list = function KNil -> [] | KCons (k, p, s, r) -> (k, p, s) :: klist_to_list r

let coll_len (lo : int) (size : int) : int =
  if size <= 0 then lo else
  match below 12 with
  | 0 -> lo | 1 | 2 | 3 -> max lo 1 | 4 | 5 -> max lo 2 | 6 -> max lo 3
  | 7 -> if size >= 4 then max lo 24 else max lo 2
  | 8 -> if size >= 5 then max lo 25 else max lo 1
  | _ -> max lo (below 5)
let cmp_bytes (a : n list) (b : n list) : int = compare (List.map int_of_n a) (List.map int_of_n b)
let all_fields = ref false      (* force every optional field of map structs *)

let rec gen (s : schema) (size : int) : val0 =
  match s with
  | SUint lim -> let l = bz_of_n lim in
    let v = gen_uint 64 in VNat (n_of_bz (if BZ.lt v l then v else BZ.rem v l))
  | SNint -> VNeg (n_of_bz (gen_uint 64))
  | SBytes (lo, hi) ->
    let lo = int_of_n lo and hi = (try int_of_n hi with _ -> max_int) in
    let hi' = min hi (lo + 300) in
    let len = match below 6 with 0 -> lo | 1 -> hi' | 2 -> min hi' (max lo 24) | 3 -> min hi' (max lo 23) | _ -> lo + below (hi' - lo + 1) in
    VBytes (gen_bytes len)
  | SText hi -> let hi = int_of_n hi in
    let len = match below 5 with 0 -> 0 | 1 -> hi | 2 -> min hi 24 | _ -> below (hi + 1) in VText (gen_text len)
  | SBool -> VBool (below 2 = 0)
  | SArr fs -> VList (List.map (fun f -> gen f (size - 1)) (slist_to_list fs))
  | SMap fs ->
    let mode = if !all_fields then 1 else below 6 in
    VStruct (List.map (fun (_, p, f) ->
        match p with
        | Req -> Some (gen f (size - 1))
        | Opt | OptNE ->
          let take = (mode = 1) || (mode >= 2 && below 3 = 0) in
          if not take then None else begin
            let v = ref (gen f (size - 1)) in
            let tries = ref 0 in
            while p = OptNE && is_empty_val !v && !tries < 20 do v := gen f (max 1 (size - 1)); incr tries done;
            if p = OptNE && is_empty_val !v then None else Some !v
          end) (klist_to_list fs))
  | SVar alts -> let l = vlist_to_list alts in let i = below (List.length l) in
    let (_, fs) = List.nth l i in VVar (nat_of_int i, List.map (fun f -> gen f (size - 1)) (slist_to_list fs))
  | SArrOf (lo, s') ->
    let heavy = (match s' with SMap fs -> List.length (klist_to_list fs) > 6 | _ -> false) in
    let n = coll_len (int_of_n lo) size in
    let n = if heavy then min n 3 else n in
    VList (List.init n (fun _ -> gen s' (size - 2)))
  | SSetOf s' -> let n = coll_len 0 size in VList (dedup s' (List.init n (fun _ -> gen s' (size - 2))))
  | SMapOf (lo, ord, k, v) ->
    let n = coll_len (int_of_n lo) size in
    let l = List.init n (fun _ -> (gen k (size - 2), gen v (size - 2))) in
    let l = dedup_keys k l in
    (* a Vec-backed map may repeat a key (adjacent, as every writer emits them) *)
    let l = if ord = KMulti && below 3 = 0 then (match l with (a, b) :: r -> (a, b) :: (a, gen v (size - 2)) :: r | [] -> []) else l in
    let l = match ord with
      | KInsertion -> l
      | KMulti -> l
      | KBytewise -> List.sort (fun (a, _) (b, _) -> cmp_bytes (enc k a) (enc k b)) l
      | KRewardAddr -> List.sort (fun (a, _) (b, _) -> cmp_bytes (reward_sort_key (enc k a)) (reward_sort_key (enc k b))) l in
    VMap l
  | SNullable s' -> if below 3 = 0 then VNull else gen s' size
  | STag (_, s') -> gen s' size
  | SInBytes s' -> gen s' size
  | SChoice alts | STagChoice alts -> let l = clist_to_list alts in
    let k = List.length l in
    let i = if size <= 0 then k - 1 - below (min k 3) else below k in
    let (_, s') = List.nth l i in VAlt (nat_of_int i, gen s' (size - 1))
  | SArrAny s' -> let n = coll_len 0 size in
    VAlt (nat_of_int (below 2), VList (List.init n (fun _ -> gen s' (size - 2))))
  | SNamed (id, s') ->
    let id = int_of_n id in
    if id = 1 then VBytes (gen_address ())
    else if id = 2 then VBytes (gen_reward_address ())
    else if id = 6 then VBytes (n_of_int (1 + below 255) :: gen_bytes (match below 4 with 0 -> 8 | 1 -> 63 | 2 -> 64 + below 3 | _ -> 8 + below 120))
    else if id = 7 then (match gen s' size with
        | VList (_ :: rest) -> VList (VNat (n_of_bz (if below 3 = 0 then BZ.of_int 128 else BZ.add (BZ.of_int 128) (BZ.shift_right (bz_u64 ()) (1 + below 63)))) :: rest)
        | v -> v)
    else begin
      (* rejection sampling into the writer image (Coq predicate writer_form) *)
      let v = ref (gen s' size) in
      let tries = ref 0 in
      while not (writer_form (n_of_int id) !v) && !tries < 50 do v := gen s' (max size 2 + !tries / 10); incr tries done;
      (* a multi-asset value is only written when some policy has an asset: make one if sampling found none *)
      if id = 5 && not (writer_form (n_of_int id) !v) then
        VList [VNat (n_of_bz (gen_uint 64)); VMap [(VBytes (gen_bytes 28), VMap [(VBytes (gen_bytes (below 33)), VNat (n_of_bz (gen_uint 64)))])]]
      else !v
    end
  | SBBytes -> let len = (match below 8 with 0 -> 0 | 1 -> 1 | 2 -> 63 | 3 -> 64 | 4 -> 65 | 5 -> 128 | 6 -> 129 + below 100 | _ -> below 64) in
    VBytes (gen_bytes len)
  | SArrOpt (fs, o) ->
    let l = List.map (fun f -> gen f (size - 1)) (slist_to_list fs) in
    if below 2 = 0 then VAlt (nat_of_int 0, VList l) else VAlt (nat_of_int 1, VList (gen o (size - 1) :: l))
and dedup s' l =
  let seen = Hashtbl.create 16 in
  List.filter (fun v -> let e = enc s' v in if Hashtbl.mem seen e then false else (Hashtbl.add seen e (); true)) l
and dedup_keys k l =
  let seen = Hashtbl.create 16 in
  List.filter (fun (a, _) -> let e = enc k a in if Hashtbl.mem seen e then false else (Hashtbl.add seen e (); true)) l

(* a schema-valid value of s, canonically encoded, as a generic item *)
let rec gen_item (s : schema) (size : int) : item =
  let v = gen s size in
  if not (wfv s v) then gen_item s (max 1 (size - 1)) else
  match parse_exact (enc s v) with Ok it -> it | _ -> gen_item s size

(* ---------------- the noisy printer: every well-formed way of writing the same data ---------------- *)
type noise = { widen : int; indef : int; chunk : int; shuffle : int; untag : int }   (* percentages *)
let quiet = { widen = 0; indef = 0; chunk = 0; shuffle = 0; untag = 0 }

let put_be (b : Buffer.t) (v : BZ.t) (k : int) =
  for i = k - 1 downto 0 do
    Buffer.add_char b (Char.chr (BZ.to_int (BZ.logand (BZ.shift_right v (8 * i)) (BZ.of_int 255))))
  done
let min_width (v : BZ.t) : int =
  if BZ.lt v (BZ.of_int 24) then 0 else if BZ.lt v (BZ.of_int 256) then 1 else if BZ.lt v (BZ.of_int 65536) then 2
  else if BZ.lt v (BZ.of_string "4294967296") then 4 else 8
let put_head (nz : noise) (b : Buffer.t) (major : int) (v : BZ.t) =
  let w0 = min_width v in
  let ws = List.filter (fun w -> w >= w0) [0; 1; 2; 4; 8] in
  let w = if chance nz.widen then List.nth ws (below (List.length ws)) else w0 in
  (match w with
   | 0 -> Buffer.add_char b (Char.chr (major * 32 + BZ.to_int v))
   | 1 -> Buffer.add_char b (Char.chr (major * 32 + 24)); put_be b v 1
   | 2 -> Buffer.add_char b (Char.chr (major * 32 + 25)); put_be b v 2
   | 4 -> Buffer.add_char b (Char.chr (major * 32 + 26)); put_be b v 4
   | _ -> Buffer.add_char b (Char.chr (major * 32 + 27)); put_be b v 8)
let put_raw (b : Buffer.t) (bs : n list) = List.iter (fun x -> Buffer.add_char b (Char.chr (int_of_n x))) bs
let rec take k l = if k <= 0 then [] else match l with [] -> [] | x :: t -> x :: take (k - 1) t
let rec drop k l = if k <= 0 then l else match l with [] -> [] | _ :: t -> drop (k - 1) t
let shuffle l =
  let a = Array.of_list l in
  for i = Array.length a - 1 downto 1 do let j = below (i + 1) in let t = a.(i) in a.(i) <- a.(j); a.(j) <- t done;
  Array.to_list a

let put_string (nz : noise) (b : Buffer.t) (major : int) (s : n list) =
  if chance nz.chunk then begin
    Buffer.add_char b (Char.chr (major * 32 + 31));
    let rest = ref s in
    if chance 20 then put_head nz b major BZ.zero;           (* an empty chunk *)
    while !rest <> [] do
      let k = 1 + below (min 64 (List.length !rest)) in
      put_head nz b major (BZ.of_int k); put_raw b (take k !rest); rest := drop k !rest;
      if chance 10 then put_head nz b major BZ.zero
    done;
    Buffer.add_char b '\xff'
  end else begin put_head nz b major (BZ.of_int (List.length s)); put_raw b s end
let put_chunks (nz : noise) (b : Buffer.t) (major : int) (cs : n list list) =
  Buffer.add_char b (Char.chr (major * 32 + 31));
  List.iter (fun c -> put_head nz b major (BZ.of_int (List.length c)); put_raw b c) cs;
  Buffer.add_char b '\xff'

let rec nprint (nz : noise) (b : Buffer.t) (it : item) : unit =
  match it with
  | IUint v -> put_head nz b 0 (bz_of_n v)
  | INint v -> put_head nz b 1 (bz_of_n v)
  | IBytes s -> put_string nz b 2 s
  | IBytesChunked cs -> put_chunks nz b 2 cs
  | IText s -> put_string { nz with chunk = 0 } b 3 s       (* chunk boundaries inside UTF-8 are left alone *)
  | ITextChunked cs -> put_chunks nz b 3 cs
  | IArray (d, xs) ->
    let d = if chance nz.indef then not d else d in
    if d then begin put_head nz b 4 (BZ.of_int (List.length xs)); List.iter (nprint nz b) xs end
    else begin Buffer.add_char b '\x9f'; List.iter (nprint nz b) xs; Buffer.add_char b '\xff' end
  | IMap (d, kvs) ->
    let d = if chance nz.indef then not d else d in
    let kvs = if chance nz.shuffle then shuffle kvs else kvs in
    if d then begin put_head nz b 5 (BZ.of_int (List.length kvs)); List.iter (fun (k, v) -> nprint nz b k; nprint nz b v) kvs end
    else begin Buffer.add_char b '\xbf'; List.iter (fun (k, v) -> nprint nz b k; nprint nz b v) kvs; Buffer.add_char b '\xff' end
  | ITag (t, x) ->
    if bz_of_n t = BZ.of_int 258 && chance nz.untag then nprint nz b x
    else begin put_head nz b 6 (bz_of_n t); nprint nz b x end
  | ISimple _ | IFloat (_, _) -> put_raw b (encode_item it)

let hex_of_buffer (b : Buffer.t) : string =
  let s = Buffer.contents b in
  if s = "" then "-" else begin
    let o = Buffer.create (2 * String.length s) in
    String.iter (fun c -> Buffer.add_string o (Printf.sprintf "%02x" (Char.code c))) s;
    Buffer.contents o
  end
let nstr (nz : noise) (it : item) : string = let b = Buffer.create 256 in nprint nz b it; Buffer.contents b
let hex_of_string (s : string) : string =
  if s = "" then "-" else String.concat "" (List.map (fun c -> Printf.sprintf "%02x" (Char.code c)) (List.init (String.length s) (String.get s)))

let pick_noise () : noise =
  match below 8 with
  | 0 -> quiet
  | 1 -> { quiet with widen = 30 }
  | 2 -> { quiet with indef = 30 }
  | 3 -> { quiet with chunk = 30 }
  | 4 -> { quiet with shuffle = 50 }
  | 5 -> { quiet with untag = 100 }                                  (* legacy: no set tags at all *)
  | 6 -> { widen = 10; indef = 10; chunk = 10; shuffle = 20; untag = 50 }
  | _ -> { widen = 40; indef = 40; chunk = 40; shuffle = 60; untag = 30 }

let rand_hex (k : int) : string = hex_of_string (String.init k (fun _ -> Char.chr (below 256)))
let huge_len_ref : (string -> bool) ref = ref (fun _ -> false)
(* random bytes that are not a string head with an enormous declared length (see huge_len) *)
let rec junk_hex (k : int) : string =
  let s = String.init k (fun _ -> Char.chr (below 256)) in
  if !huge_len_ref s then junk_hex k else hex_of_string s

(* one witness set: schema value, printed field by field so that the map itself can be disturbed *)
let gen_wits (nz : noise) (size : int) : string =
  all_fields := chance 35;
  let it = gen_item (transactionWitnessSet depth) size in
  all_fields := false;
  let kvs = (match it with IMap (_, kvs) -> kvs | _ -> []) in
  let entries = List.map (fun (k, v) ->
      let kk = (match k with IUint n -> int_of_n n | _ -> 0) in
      (* sometimes the collection is made empty in place *)
      let v' = if chance 8 then (match v with
          | ITag (t, IArray (d, _)) -> ITag (t, IArray (d, []))
          | IArray (d, _) -> IArray (d, []) | IMap (d, _) -> IMap (d, []) | x -> x) else v in
      (kk, nstr nz k, nstr nz v')) kvs in
  (* empty collections under absent keys *)
  let present = List.map (fun (k, _, _) -> k) entries in
  let extra = List.filter_map (fun k ->
      if List.mem k present || not (chance 12) then None else
        let v = (match below 5 with
            | 0 -> "\x80" | 1 -> "\xd9\x01\x02\x80" | 2 -> "\x9f\xff" | 3 -> "\xd9\x01\x02\x9f\xff"
            | _ -> if k = 5 then "\xa0" else "\x80") in
        Some (k, nstr nz (IUint (n_of_int k)), v)) [0; 1; 2; 3; 4; 5; 6; 7] in
  let entries = entries @ extra in
  let entries = if chance (max nz.shuffle 15) then shuffle entries else entries in
  (* rare disturbances the decoder must reject or tolerate *)
  let entries = (match below 60 with
      | 0 -> (match entries with e :: _ -> entries @ [e] | [] -> entries)                       (* duplicate key *)
      | 1 -> entries @ [(8, "\x08", "\x80")]                                                    (* unknown key *)
      | 2 -> List.map (fun (k, ks, v) -> if k = 0 then (k, ks, "\xd9\x01\x02" ^ v) else (k, ks, v)) entries  (* double tag on vkeys *)
      | 3 -> entries @ [(if List.mem 1 present then 9 else 1), "\x01", "\x82\xff"]              (* break inside a definite array *)
      | _ -> entries) in
  let b = Buffer.create 512 in
  let n = List.length entries in
  if chance (max nz.indef 10) then begin
    Buffer.add_char b '\xbf'; List.iter (fun (_, ks, v) -> Buffer.add_string b ks; Buffer.add_string b v) entries; Buffer.add_char b '\xff'
  end else begin
    put_head nz b 5 (BZ.of_int n); List.iter (fun (_, ks, v) -> Buffer.add_string b ks; Buffer.add_string b v) entries
  end;
  Buffer.contents b

let gen_body (nz : noise) (size : int) : string =
  (* the contents of the body are disturbed less than the frame: the library validates them *)
  let nz' = { widen = nz.widen / 3; indef = nz.indef / 3; chunk = nz.chunk / 3; shuffle = nz.shuffle; untag = nz.untag } in
  all_fields := chance 10;
  let it = gen_item (transactionBody depth) size in
  all_fields := false;
  nstr nz' it
let gen_aux (nz : noise) (size : int) : string =
  let nz' = { nz with widen = nz.widen / 3; indef = nz.indef / 3; chunk = nz.chunk / 3 } in
  nstr nz' (gen_item (auxiliaryData depth) size)

let body_pool : string list ref = ref []
let big_sizes = ref false      (* thorough tier: larger structures (the generic reader is quadratic in the input size) *)

let bytes_of_string (s : string) : n list = List.init (String.length s) (fun i -> n_of_int (Char.code s.[i]))
(* the witnesses already inside a witness-set encoding, as add operations (adding one of them again must not
   change the set, but still makes the library drop the field's original bytes) *)
let existing_ops (wits : string) : string list =
  match decode_wits (bytes_of_string wits) with
  | Ok (w, _) ->
    List.concat (List.map (fun (_, f) ->
        match f.f_parsed with
        | PVk (_, ws) -> List.map (fun (vk, sg) -> Printf.sprintf "av:%s:%s" (hex_of_bytes vk) (hex_of_bytes sg)) ws
        | PBw (_, ws) -> List.map (fun (((vk, sg), cc), at) ->
            Printf.sprintf "ab:%s:%s:%s:%s" (hex_of_bytes vk) (hex_of_bytes sg) (hex_of_bytes cc) (hex_of_bytes at)) ws
        | PGen (_, _) -> []) w.w_fields)
  | _ -> []

(* another spelling of the same data item: parse the bytes generically, print them with a loud noise *)
let reencodings : noise list = [ { quiet with widen = 60 }; { quiet with untag = 100 }; { quiet with indef = 35 };
                                 { quiet with chunk = 50 }; { widen = 30; indef = 20; chunk = 20; shuffle = 0; untag = 50 }; quiet ]
let reencode (nz : noise) (s : string) : string option =
  match parse_exact (bytes_of_string s) with
  | Ok it -> let r = nstr nz it in if r = s then None else Some r
  | _ -> None
let reencode_any (s : string) : string option =
  let rec go k = if k = 0 then None else
      match reencode (List.nth reencodings (below (List.length reencodings))) s with Some r -> Some r | None -> go (k - 1) in
  go 4

(* operations; [cur] = the bytes the hash is taken over at this point *)
let gen_ops ?(wits : string = "") (body : string) (sign_ok : bool) : string list =
  let existing = if wits = "" then [] else existing_ops wits in
  let cur = ref body in
  let k = (match below 10 with 0 | 1 -> 0 | 2 | 3 | 4 -> 1 | 5 | 6 -> 2 | 7 -> 3 | 8 -> 4 | _ -> 6) in
  let last_av = ref None in
  (* re-adding a witness of the INPUT set as the first operation: the set does not change but the library drops the
     field's original bytes and re-encodes it (visible when the input field is not canonical) *)
  (if existing <> [] && chance 25 then [List.nth existing (below (List.length existing))] else []) @
  List.concat (List.init k (fun _ ->
      match below (if sign_ok then 20 else 7) with
      | 0 | 1 -> let o = Printf.sprintf "av:%s:%s" (rand_hex 32) (rand_hex 64) in last_av := Some o; [o]
      | 2 -> (match !last_av, existing with                                                    (* a witness that is already there *)
          | _, (_ :: _) when chance 60 -> [List.nth existing (below (List.length existing))]
          | Some o, _ -> [o]
          | None, _ -> [Printf.sprintf "av:%s:%s" (rand_hex 32) (rand_hex 64)])
      | 3 | 4 -> [Printf.sprintf "ab:%s:%s:%s:%s" (rand_hex 32) (rand_hex 64) (rand_hex (if chance 80 then 32 else below 40))
                   (if chance 50 then "a0" else rand_hex (below 30))]
      | 5 -> [Printf.sprintf "vl:%d" (below 2)]
      | 6 -> (match below 3 with
          | 0 -> [Printf.sprintf "sx:%s" (hex_of_string (gen_aux quiet 2))]
          | 1 -> if chance 25 then [Printf.sprintf "sw:%s" (junk_hex (1 + below 5))]
                 else [Printf.sprintf "sw:%s" (hex_of_string (gen_wits (if chance 50 then quiet else pick_noise ()) 3))]
          | _ -> [Printf.sprintf "sx:%s" (junk_hex (1 + below 6))])
      | 7 | 8 | 9 | 10 | 11 -> [Printf.sprintf "sv:%s:%s" (rand_hex 32) (hex_of_string !cur)]
      | 12 | 13 | 14 -> [Printf.sprintf "si:%s:%s" (rand_hex 16) (hex_of_string !cur)]
      | 15 | 16 ->
        let key = String.init 96 (fun i -> Char.chr (if i = 31 then below 128 else below 256)) in
        [Printf.sprintf "sd:%s:%s" (hex_of_string key) (hex_of_string !cur)]
      | 17 | 18 ->
        (* set_body with a body the library accepts (canonical, possibly followed by a stray byte), then keep signing *)
        (* ... or with ANOTHER ENCODING of the body it holds now: the kept bytes and the hash must follow the new bytes *)
        (match (if chance 45 then reencode_any !cur else None) with
         | Some r -> cur := r; [Printf.sprintf "sb:%s" (hex_of_string r)]
         | None ->
           let b = (match !body_pool with [] -> body | l -> List.nth l (below (List.length l))) in
           if chance 15 then [Printf.sprintf "sb:%s" (hex_of_string (b ^ "\x00"))]       (* a stray byte: rejected *)
           else begin cur := b; [Printf.sprintf "sb:%s" (hex_of_string b)] end)
      | _ -> [Printf.sprintf "sb:%s" (junk_hex (1 + below 5))]))          (* junk: rejected, nothing changes *)

let gen_tx_parts () : string * string * string * string option * noise =
  let nz = pick_noise () in
  let size = (if !big_sizes then [| 1; 2; 3; 4; 5; 6 |] else [| 1; 1; 2; 2; 3; 4 |]).(below 6) in
  let body = gen_body nz size in
  if List.length !body_pool < 40 && chance 30 then body_pool := gen_body quiet 3 :: !body_pool;
  let wits = gen_wits nz size in
  let aux = if chance 45 then Some (gen_aux nz (min size 4)) else None in
  let valid = if chance 80 then "\xf5" else "\xf4" in
  (body, wits, valid, aux, nz)

let assemble (body, wits, valid, aux, _nz) : string =
  let three = chance 12 in                                       (* the three-element legacy layout: no is_valid *)
  let n = if three then 3 else 4 in
  let head, close = (match below 16 with
      | 0 | 1 | 2 -> ("\x9f", "\xff")
      | 3 -> (Printf.sprintf "\x98%c" (Char.chr n), "") | 4 -> (Printf.sprintf "\x99\x00%c" (Char.chr n), "")
      | 5 -> (Printf.sprintf "\x9a\x00\x00\x00%c" (Char.chr n), "")
      | 6 -> (Printf.sprintf "\x9b\x00\x00\x00\x00\x00\x00\x00%c" (Char.chr n), "")
      | 7 -> (String.make 1 (Char.chr (0x80 + [| 0; 2; 3; 4; 5 |].(below 5))), "")      (* possibly the wrong count *)
      | _ -> (String.make 1 (Char.chr (0x80 + n)), "")) in
  let valid = if three then "" else valid in
  let aux = (match aux with Some a -> a | None -> "\xf6") in
  let trail = if chance 10 then String.init (1 + below 4) (fun _ -> Char.chr (below 256)) else "" in
  head ^ body ^ wits ^ valid ^ aux ^ close ^ trail

(* a byte/text string head with a 4- or 8-byte length far beyond the input makes cbor_event allocate that much
   before it notices the truncation (allocation failure aborts the process: C02's known finding, DESIGN 7 row 7);
   such inputs are kept out of this run.  Every position is looked at, not only the parse positions. *)
let huge_len (s : string) : bool =
  (* flat token walk: CBOR is prefix-coded, so every reader visits these head positions until the first error *)
  let n = String.length s in
  let rec go i =
    if i >= n then false else
    let c = Char.code s.[i] in
    let major = c lsr 5 and ai = c land 31 in
    if ai >= 28 then (if ai = 31 then go (i + 1) else false) else
    let w = if ai < 24 then 0 else if ai = 24 then 1 else if ai = 25 then 2 else if ai = 26 then 4 else 8 in
    if i + w >= n && w > 0 then false else
    let arg = ref (if w = 0 then float_of_int ai else 0.0) in
    for j = 1 to w do arg := !arg *. 256.0 +. float_of_int (Char.code s.[i + j]) done;
    match major with
    | 2 | 3 ->
      if !arg > float_of_int (n - i - 1 - w) then !arg > 100000.0
      else go (i + 1 + w + int_of_float !arg)
    | _ -> go (i + 1 + w) in
  go 0

let () = huge_len_ref := huge_len

let rec mutate (s0 : string) : string =
  let r = mutate1 s0 in if huge_len r then mutate s0 else r
and mutate1 (s : string) : string =
  let s = ref s in
  for _ = 1 to 1 + below 3 do
    let l = String.length !s in
    if l > 0 then begin
      let i = below l in
      (match below 5 with
       | 0 -> s := String.sub !s 0 i                                                    (* truncate *)
       | 1 -> s := String.sub !s 0 i ^ String.sub !s (i + 1) (l - i - 1)                (* delete *)
       | 2 -> s := String.sub !s 0 i ^ String.make 1 (Char.chr (below 256)) ^ String.sub !s i (l - i)   (* insert *)
       | 3 -> let c = [| '\xff'; '\xf6'; '\x80'; '\x9f'; '\xa0'; '\x00'; '\xd9' |].(below 7) in
         s := String.sub !s 0 i ^ String.make 1 c ^ String.sub !s (i + 1) (l - i - 1)   (* a structural byte *)
       | _ -> s := String.sub !s 0 i ^ String.make 1 (Char.chr (Char.code !s.[i] lxor (1 lsl below 8))) ^ String.sub !s (i + 1) (l - i - 1))
    end
  done; !s

(* hand-made frames around a tiny body *)
let tiny_body = "\xa3\x00\x80\x01\x80\x02\x00"
let tiny_body_tagged = "\xa3\x00\xd9\x01\x02\x80\x01\x80\x02\x00"
let fixed_cases () : string list =
  let vk = String.make 32 '\x07' and sg = String.make 64 '\x09' in
  let vkw = "\x82\x58\x20" ^ vk ^ "\x58\x40" ^ sg in
  let bwt = "\x84\x58\x20" ^ vk ^ "\x58\x40" ^ sg ^ "\x58\x20" ^ String.make 32 '\x01' ^ "\x41\xa0" in
  let tx b w tl = "tx " ^ hex_of_string ("\x84" ^ b ^ w ^ tl) in
  let av = Printf.sprintf "av:%s:%s" (hex_of_string (String.make 32 '\x05')) (hex_of_string (String.make 64 '\x06')) in
  let ab = Printf.sprintf "ab:%s:%s:%s:a0" (hex_of_string (String.make 32 '\x05')) (hex_of_string (String.make 64 '\x06')) (hex_of_string (String.make 32 '\x02')) in
  List.concat (List.map (fun b -> [
      (* every field present and empty, in every spelling *)
      tx b "\xa8\x00\x80\x01\x80\x02\x80\x03\x80\x04\x80\x05\x80\x06\x80\x07\x80" "\xf5\xf6";
      tx b "\xa8\x00\x80\x01\x80\x02\x80\x03\x80\x04\x80\x05\xa0\x06\x80\x07\x80" "\xf5\xf6" ^ " " ^ av ^ " " ^ ab;
      tx b "\xa1\x01\x80" "\xf5\xf6"; tx b "\xa1\x02\x80" "\xf5\xf6" ^ " " ^ ab; tx b "\xa1\x03\x80" "\xf5\xf6";
      tx b "\xa1\x04\x80" "\xf5\xf6"; tx b "\xa1\x05\x80" "\xf5\xf6"; tx b "\xa1\x05\xa0" "\xf5\xf6";
      tx b "\xa1\x06\x9f\xff" "\xf5\xf6"; tx b "\xa1\x07\xd9\x01\x02\x80" "\xf5\xf6" ^ " " ^ av;
      tx b "\xa1\x00\x80" "\xf5\xf6"; tx b "\xa1\x00\x80" "\xf5\xf6" ^ " " ^ av; tx b "\xa0" "\xf5\xf6" ^ " " ^ av ^ " " ^ av;
      tx b ("\xa1\x00\x81" ^ vkw) "\xf5\xf6" ^ " " ^ av; tx b ("\xa1\x00\xd9\x01\x02\x81" ^ vkw) "\xf5\xf6" ^ " " ^ av;
      tx b ("\xa1\x00\x82" ^ vkw ^ vkw) "\xf5\xf6" ^ " " ^ av;                                  (* duplicates inside the input set *)
      tx b ("\xa1\x02\x81" ^ bwt) "\xf4\xf6" ^ " " ^ ab ^ " " ^ ab;
      tx b ("\xbf\x02\x9f" ^ bwt ^ "\xff\x00\x9f" ^ vkw ^ "\xff\xff") "\xf5\xf6" ^ " " ^ av ^ " " ^ ab;
      tx b "\xa1\x00\x82\xff" "\xf5\xf6"; tx b "\xa1\x00\x81\xf6" "\xf5\xf6"; tx b "\xa1\x02\x81\xf6" "\xf5\xf6";
      tx b "\xa1\x01\x81\xf6" "\xf5\xf6"; tx b "\xa1\x00\xd9\x01\x02\xd9\x01\x02\x80" "\xf5\xf6";
      tx b "\xa1\x02\xd9\x01\x02\xd9\x01\x02\x80" "\xf5\xf6"; tx b "\xa1\x00\xd9\x01\x03\x80" "\xf5\xf6";
      tx b "\xa2\x00\x80\x00\x80" "\xf5\xf6"; tx b "\xa1\x08\x80" "\xf5\xf6"; tx b "\xa1\x61\x61\x80" "\xf5\xf6";
      tx b "\xa2\x00\x80" "\xf5\xf6"; tx b "\xa0" "\xf6"; tx b "\xa0" "\xa0"; tx b "\xa0" "\xf5\xa0"; tx b "\xa0" "\xf5\xf5";
      tx b "\xa0" "\xf7"; tx b "\xa0" "\xf5\xf7"; tx b "\xa0" "\xf5"; tx b "\xa0" "\xf8\x20\xf6"; tx b "\xa0" "\xfc\xf6";
      "tx " ^ hex_of_string ("\x9f" ^ b ^ "\xa0\xf5\xf6"); "tx " ^ hex_of_string ("\x9f" ^ b ^ "\xa0\xf5\xf6\xf6");
      "tx " ^ hex_of_string ("\x9f" ^ b ^ "\xa0\xff");
      tx b "\xa0" "\xf5\x9f\xa0\x80\xff"; tx b "\xa0" "\xf5\x9f\xa0\x80\xff" ^ " " ^ av; "tx " ^ hex_of_string ("\x83" ^ b ^ "\xa0\x9f\xa0\x80\xff");
      "tx " ^ hex_of_string ("\x9f" ^ b ^ "\xbf\xff\xf5\x9f\xbf\xff\x9f\xff\xff\xff"); "tx " ^ hex_of_string ("\x9f" ^ b ^ "\xa0\x9f\xa0\x80\xff\xff");
      tx b "\xa0" "\xf5\xbf\x01\x02\xff"; tx b "\xa0" "\xf5\xd9\x01\x03\xbf\x00\xbf\xff\x01\x9f\xff\xff";
      tx b "\xa0" "\xf5\x9f\xa0\x80\xff" ^ " sx:9fa080ff"; tx b "\xa0" "\xf5\xf6" ^ " sx:9fa080ff sx:82a080 sx:9fa080";
      (* set_body with another encoding of the same body *)
      tx tiny_body "\xa0" "\xf5\xf6" ^ " sb:" ^ hex_of_string tiny_body_tagged;
      tx tiny_body "\xa0" "\xf5\xf6" ^ " sb:a318008018018018021800"; tx tiny_body "\xa0" "\xf5\xf6" ^ " sb:a3009fff01800200";
      tx tiny_body "\xa0" "\xf5\xf6" ^ " sb:bf00800180" ^ "0200ff"; tx tiny_body "\xa0" "\xf5\xf6" ^ " sb:a3018000800200";
      tx b "\xa1\x00\x80" "\xf5\xa1\x01\x02" ^ " sw:a1009fff sx:a1180102 vl:1 sw:bf0080ff";
      "txb " ^ hex_of_string b ^ " " ^ av ^ " " ^ ab; "txb " ^ hex_of_string (b ^ "\x00") ^ " " ^ av;
      "txn " ^ hex_of_string b ^ " a0 1 ~ " ^ av; "txn " ^ hex_of_string b ^ " a10080 0 a0 " ^ ab;
      "txn " ^ hex_of_string b ^ " " ^ hex_of_string ("\xa1\x00\x81" ^ vkw) ^ " 1 a10102 " ^ av;
      "txn " ^ hex_of_string b ^ " a0 1 a1180102"; "txn " ^ hex_of_string b ^ " a0 0 bf0102ff " ^ av; "txn " ^ hex_of_string b ^ " a0 1 a1011802";
      "txn " ^ hex_of_string b ^ " a0 1 82a080"; "txn " ^ hex_of_string b ^ " a0 1 9fa080ff"; "txn " ^ hex_of_string b ^ " a0 1 d90103a100a1190001181802";
      "txn " ^ hex_of_string b ^ " bf0080ff 1 ~ " ^ av; "txn " ^ hex_of_string b ^ " a1190000d901029fff 1 ~";
      "fb " ^ hex_of_string b; "fb " ^ hex_of_string (b ^ "\xff\x01")
    ]) [tiny_body; tiny_body_tagged])
  @ [ "blk 848081a080a0 80"; "blk 858081a080a080 80"; "blk 848081a080a080 80"; "blk 858081a080a0 80"; "blk 838081a080 80";
      "blk 9f8081a080a0ff 80"; "blk 9f8081a080a080ff 80"; "blk 9f8081a080a0 80"; "blk 848082a0a1000180a0 80";
      "blk 84809fa0a0ff80a0 80"; "blk 848081a0a0a0 80"; "blk 858081a080a0a0 80"; "blk 848082a0ff80a0 80";
      "vblk 8207848081a080a0 80"; "vblk 9f07848081a080a0ff 80"; "vblk 8307848081a080a0 80"; "vblk 821b0000000100000000848081a080a0 80";
      "vblk 821affffffff848081a080a0 80"; "vblk 8200848081a080a0 80"; "vblk 8208848081a080a0 80"; "vblk 8220848081a080a0 80";
      "fbs 80"; "fbs 9fff"; "fbs 82a0a10000"; "fbs 82a0"; "fbs 81ff"; "fbs 9fa0a0ff00"; "fbs a0" ]
  @ List.map (fun h -> "pd " ^ h) [
      "00"; "1817"; "1b0000000000000001"; "20"; "3bffffffffffffffff"; "40"; "5f41014102ff"; "5fff"; "5840" ^ String.make 128 '1';
      "5841" ^ String.make 130 '1'; "5f5841" ^ String.make 130 '1' ^ "ff"; "80"; "9fff"; "d9010280"; "d90102d9010280"; "a0"; "bfff";
      "a201020103"; "d87980"; "d8799fff"; "d9050080"; "d9057880"; "d9057980"; "d8668200" ^ "80"; "d866830080" ^ "05"; "d8668100";
      "d8669f0080ff"; "d8669f0080"; "c24101"; "c349ffffffffffffffffff"; "c25f41014102ff"; "c2584100" ^ String.make 128 '2'; "c44101";
      "82ff"; "8201ff"; "a1ff"; "f6"; "f4"; "6161"; "d87a9f0102ff"; "9f9f9f9fffffffff"; "d8185800"; "1c"; "5c"; "9c"; "-";
      "c2"; "d866"; "d86682"; "9f01"; "bf01ff"; "a10102ff" ]
  @ List.map (fun h -> "pdl " ^ h) ["80"; "9fff"; "d9010280"; "d901029f0102ff"; "82d87980a0"; "9f1817ff"; "82ff"; "81f6"; "a0"; "d90103" ^ "80"]

(* the tag state of the body decides whether NEW witness sets are written with tag 258: bodies whose top-level
   sets and whose nested sets (pool owners of a pool registration, members to remove of an update-committee
   action) are tagged differently *)
let untag258 = function ITag (t, x) when bz_of_n t = BZ.of_int 258 -> x | x -> x
let settag (b : bool) (x : item) : item = if b then ITag (n_of_int 258, untag258 x) else untag258 x
let rec set_nth (l : item list) (i : int) (f : item -> item) : item list =
  match l with [] -> [] | x :: t -> if i = 0 then f x :: t else x :: set_nth t (i - 1) f
let retag_body (outer : bool) (npool : bool) (ncomm : bool) (body : item) : (item * bool * bool) option =
  let found = ref false and pool = ref false and comm = ref false in
  match body with
  | IMap (d, kvs) ->
    let kvs' = List.map (fun (k, v) ->
        match k with
        | IUint kn ->
          let kk = int_of_n kn in
          if kk = 0 || kk = 13 || kk = 14 || kk = 18 then (k, settag outer v)
          else if kk = 4 then
            (match untag258 v with
             | IArray (da, certs) ->
               let certs' = List.map (fun c -> match c with
                   | IArray (dc, (IUint t :: rest)) when int_of_n t = 3 && List.length rest >= 7 ->
                     found := true; pool := true; IArray (dc, IUint t :: set_nth rest 6 (settag npool))
                   | c -> c) certs in
               (k, settag outer (IArray (da, certs')))
             | _ -> (k, v))
          else if kk = 20 then
            (match untag258 v with
             | IArray (da, props) ->
               let props' = List.map (fun p -> match p with
                   | IArray (dp, [dep; ra; IArray (dg, (IUint t :: prev :: rem :: tl)); anchor]) when int_of_n t = 4 ->
                     found := true; comm := true; IArray (dp, [dep; ra; IArray (dg, IUint t :: prev :: settag ncomm rem :: tl); anchor])
                   | p -> p) props in
               (k, settag outer (IArray (da, props')))
             | _ -> (k, v))
          else (k, v)
        | _ -> (k, v)) kvs in
    if !found then Some (IMap (d, kvs'), !pool, !comm) else None
  | _ -> None

let gen_mode seed tier out =
  st := Int64.of_string seed;
  ignore (next ());
  let oc = open_out out in
  let scale = if tier = "thorough" then 8 else 1 in
  big_sizes := (tier = "thorough");
  List.iter (fun l -> output_string oc (l ^ "\n")) (fixed_cases ());
  (* stream 1: valid transactions re-encoded with noise, with operation sequences *)
  for _ = 1 to 250 * scale do
    let parts = gen_tx_parts () in
    let (body, wits, _, _, _) = parts in
    let s = assemble parts in
    Printf.fprintf oc "tx %s %s\n" (hex_of_string s) (String.concat " " (gen_ops ~wits body true))
  done;
  (* stream 2: the same, then damaged *)
  for _ = 1 to 90 * scale do
    let parts = gen_tx_parts () in
    let (body, _, _, _, _) = parts in
    let s = mutate (assemble parts) in
    Printf.fprintf oc "tx %s %s\n" (hex_of_string s) (String.concat " " (gen_ops body false))
  done;
  (* stream 3: the other constructors, the body view *)
  for _ = 1 to 45 * scale do
    let (body, wits, valid, aux, _) = gen_tx_parts () in
    let junk = if chance 15 then "\x00" else "" in
    (match below 3 with
     | 0 -> Printf.fprintf oc "txb %s %s\n" (hex_of_string (body ^ junk)) (String.concat " " (gen_ops (body ^ junk) true))
     | 1 ->
       (* the constructors keep their auxiliary-data argument verbatim: give it visibly non-canonical spellings *)
       let aux = (match aux with
           | Some a when chance 60 ->
             let loud = (match below 3 with 0 -> { quiet with widen = 60 } | 1 -> { quiet with indef = 60 } | _ -> { widen = 40; indef = 40; chunk = 20; shuffle = 0; untag = 0 }) in
             ignore a; Some (nstr loud (gen_item (auxiliaryData depth) (1 + below 3)))
           | x -> x) in
       Printf.fprintf oc "txn %s %s %d %s %s\n" (hex_of_string (body ^ junk)) (hex_of_string wits) (if valid = "\xf5" then 1 else 0)
              (match aux with Some a -> hex_of_string a | None -> "~") (String.concat " " (gen_ops ~wits (body ^ junk) true))
     | _ -> Printf.fprintf oc "fb %s\n" (hex_of_string (if chance 20 then mutate body else body ^ junk)))
  done;
  (* stream 3a: the witness set on its own (FixedTxWitnessesSet::from_bytes / add_* / to_bytes) *)
  for _ = 1 to 30 * scale do
    let nz = pick_noise () in
    let wits = gen_wits nz (1 + below 4) in
    let wits = if chance 12 then mutate wits else wits in
    let ex = existing_ops wits in
    let ops = List.concat (List.init (below 4) (fun _ ->
        match below 5 with
        | 0 | 1 -> [Printf.sprintf "av:%s:%s" (rand_hex 32) (rand_hex 64)]
        | 2 -> [Printf.sprintf "ab:%s:%s:%s:a0" (rand_hex 32) (rand_hex 64) (rand_hex 32)]
        | _ -> (match ex with [] -> [] | l -> [List.nth l (below (List.length l))]))) in
    Printf.fprintf oc "fws %s %s\n" (hex_of_string wits) (String.concat " " ops)
  done;
  (* stream 3b: the tag state of the body (top-level vs nested sets) decides the form of NEW witness sets;
     every found body is emitted in the eight tagged/untagged combinations of (top-level, pool owners, committee) *)
  let n_pool = ref 0 and n_comm = ref 0 and tries = ref 0 in
  while (!n_pool < 3 * scale || !n_comm < 3 * scale) && !tries < 3000 * scale do
    incr tries;
    all_fields := true;
    let it = gen_item (transactionBody depth) (if !big_sizes then 3 + below 4 else 2 + below 2) in
    all_fields := false;
    (match retag_body false false false it with
     | Some (_, pool, comm) when (pool && !n_pool < 3 * scale) || (comm && !n_comm < 3 * scale) ->
       if pool then incr n_pool; if comm then incr n_comm;
       List.iter (fun (o, np, nc) ->
           match retag_body o np nc it with
           | Some (b, _, _) ->
             let body = nstr quiet b in
             let ops = [Printf.sprintf "av:%s:%s" (rand_hex 32) (rand_hex 64);
                        Printf.sprintf "ab:%s:%s:%s:a0" (rand_hex 32) (rand_hex 64) (rand_hex 32)] in
             if chance 50 then Printf.fprintf oc "tx %s %s\n" (hex_of_string ("\x84" ^ body ^ "\xa0\xf5\xf6")) (String.concat " " ops)
             else Printf.fprintf oc "txb %s %s\n" (hex_of_string body) (String.concat " " ops)
           | None -> ()) [(false, true, false); (false, false, true); (false, false, false); (true, false, false);
                          (true, true, true); (false, true, true); (true, true, false); (true, false, true)]
     | _ -> ())
  done;
  (* stream 3c: blocks built from several noisy transactions: FixedBlock, FixedVersionedBlock, FixedTransactionBodies *)
  for i = 1 to 36 * scale do
    let nz = pick_noise () in
    let nzl = { nz with widen = nz.widen / 3; indef = nz.indef / 3; chunk = nz.chunk / 3 } in
    let it = gen_item (if chance 50 then blockPraos depth else block depth) (1 + below 3) in
    (match it with
     | IArray (_, [hdr; IArray (_, bodies); wits; aux; inv]) ->
       let bodies = if chance 15 then [] else bodies in
       let hdr_s = nstr nzl hdr in
       let bodies_s = (let b = Buffer.create 256 in
                       let strs = List.map (nstr nzl) bodies in
                       if chance (max nz.indef 15) then (Buffer.add_char b '\x9f'; List.iter (Buffer.add_string b) strs; Buffer.add_char b '\xff')
                       else (put_head nz b 4 (BZ.of_int (List.length strs)); List.iter (Buffer.add_string b) strs);
                       Buffer.contents b) in
       let with_inv = chance 60 in
       let n = if with_inv then 5 else 4 in
       let head, close = (match below 8 with
           | 0 | 1 -> ("\x9f", "\xff") | 2 -> (Printf.sprintf "\x98%c" (Char.chr n), "")
           | 3 -> (String.make 1 (Char.chr (0x80 + [| 3; 4; 5; 6 |].(below 4))), "")
           | _ -> (String.make 1 (Char.chr (0x80 + n)), "")) in
       let blk = head ^ hdr_s ^ bodies_s ^ nstr nzl wits ^ nstr nzl aux ^ (if with_inv then nstr nz inv else "") ^ close in
       let blk = if chance 12 then mutate blk else blk in
       (* the header slice offered to the harness as hash-preimage candidate: as the model delimits it (after damage too) *)
       let hdr_s = (match decode_fixed_block hid (bytes_of_string blk) with
           | Ok (b, _) -> let a = Array.of_list b.fb_header in String.init (Array.length a) (fun i -> Char.chr (int_of_n a.(i)))
           | _ -> hdr_s) in
       (match i mod 3 with
        | 0 -> Printf.fprintf oc "fbs %s\n" (hex_of_string (if chance 15 then mutate bodies_s else bodies_s ^ (if chance 10 then "\x00" else "")))
        | 1 -> Printf.fprintf oc "blk %s %s\n" (hex_of_string (blk ^ (if chance 10 then "\x01" else ""))) (hex_of_string hdr_s)
        | _ ->
          let era = (match below 12 with 0 -> "\x00" | 1 -> "\x01" | 2 -> "\x02" | 3 -> "\x05" | 4 -> "\x06" | 5 -> "\x08"
                                    | 6 -> "\x18\x07" | 7 -> "\x1a\xff\xff\xff\xff" | 8 -> "\x1b\x00\x00\x00\x01\x00\x00\x00\x00"
                                    | _ -> "\x07") in
          let vh, vc = (match below 6 with 0 -> ("\x9f", "\xff") | 1 -> ("\x98\x02", "") | 2 -> ("\x83", "") | _ -> ("\x82", "")) in
          Printf.fprintf oc "vblk %s %s\n" (hex_of_string (vh ^ era ^ blk ^ vc)) (hex_of_string hdr_s))
     | _ -> ())
  done;
  (* stream 3d: every setter given ANOTHER ENCODING of the value the transaction already holds (equal as a value,
     different as bytes): the raw parts, the serialized transaction and the hash must follow the new bytes *)
  for i = 1 to 40 * scale do
    let (body, wits, valid, aux, _) = gen_tx_parts () in
    let aux = (match aux with None when chance 50 -> Some (gen_aux quiet 2) | x -> x) in
    let txs = "\x84" ^ body ^ wits ^ valid ^ (match aux with Some a -> a | None -> "\xf6") in
    let nz = List.nth reencodings (i mod (List.length reencodings - 1)) in
    let ops = ref [] and cur = ref body in
    (match reencode nz body with Some r -> cur := r; ops := !ops @ [Printf.sprintf "sb:%s" (hex_of_string r)] | None -> ());
    if chance 70 then ops := !ops @ [Printf.sprintf "sv:%s:%s" (rand_hex 32) (hex_of_string !cur)];
    (match aux with Some a -> (match reencode nz a with Some r -> ops := !ops @ [Printf.sprintf "sx:%s" (hex_of_string r)] | None -> ()) | None -> ());
    (match reencode nz wits with Some r -> if chance 60 then ops := !ops @ [Printf.sprintf "sw:%s" (hex_of_string r)] | None -> ());
    ops := !ops @ [Printf.sprintf "vl:%d" (if valid = "\xf5" then 1 else 0)];
    (match (if chance 40 then reencode_any !cur else None) with
     | Some r -> cur := r; ops := !ops @ [Printf.sprintf "sb:%s" (hex_of_string r); Printf.sprintf "si:%s:%s" (rand_hex 16) (hex_of_string r)] | None -> ());
    Printf.fprintf oc "tx %s %s\n" (hex_of_string txs) (String.concat " " !ops)
  done;
  (* stream 3e: indefinite-length spellings of every auxiliary-data layout (metadata map, [metadata, scripts] array,
     tag-259 map), of the transaction array and of the witness map, in every frame *)
  let found = Array.make 3 0 and tries = ref 0 in
  while (found.(0) < 4 * scale || found.(1) < 4 * scale || found.(2) < 4 * scale) && !tries < 400 * scale do
    incr tries;
    let it = gen_item (auxiliaryData depth) (1 + below 3) in
    let kind = (match it with IMap (_, _) -> 0 | IArray (_, _) -> 1 | _ -> 2) in
    if found.(kind) < 4 * scale then begin
      found.(kind) <- found.(kind) + 1;
      let top_indef = (match it with
          | IMap (_, kvs) -> IMap (false, kvs) | IArray (_, xs) -> IArray (false, xs)
          | ITag (t, IMap (_, kvs)) -> ITag (t, IMap (false, kvs)) | x -> x) in
      let variants = [ nstr quiet top_indef; nstr { quiet with indef = 100 } it; nstr { quiet with indef = 50; widen = 30 } top_indef ] in
      List.iter (fun a ->
          let body = gen_body quiet 1 in
          let wits = (match below 3 with 0 -> "\xa0" | 1 -> "\xbf\xff" | _ -> gen_wits { quiet with indef = 100 } 2) in
          let frames = [ ("\x84", "\xf5", ""); ("\x9f", "\xf4", "\xff"); ("\x83", "", ""); ("\x9f", "", "\xff") ] in
          let (h, v, c) = List.nth frames (below 4) in
          let ops = (match below 3 with 0 -> [] | 1 -> [Printf.sprintf "sv:%s:%s" (rand_hex 32) (hex_of_string body)]
                                  | _ -> [Printf.sprintf "sx:%s" (hex_of_string a)]) in
          Printf.fprintf oc "tx %s %s\n" (hex_of_string (h ^ body ^ wits ^ v ^ a ^ c ^ (if chance 20 then "\x00" else ""))) (String.concat " " ops);
          if chance 30 then Printf.fprintf oc "txn %s a0 1 %s\n" (hex_of_string body) (hex_of_string a)) variants
    end
  done;
  (* stream 4: datums *)
  for i = 1 to 160 * scale do
    let nz = pick_noise () in
    let size = [| 0; 1; 2; 3; 4; 6 |].(i mod 6) in
    let s = nstr { nz with untag = 0; shuffle = 0 } (gen_item (plutusData depth) size) in
    let s = if chance 15 then mutate s else if chance 10 then s ^ "\x01" else s in
    Printf.fprintf oc "pd %s\n" (hex_of_string s)
  done;
  for i = 1 to 30 * scale do
    let nz = pick_noise () in
    let s = nstr { nz with shuffle = 0 } (ITag (n_of_int 258, gen_item (plutusList depth) (1 + i mod 4))) in
    Printf.fprintf oc "pdl %s\n" (hex_of_string (if chance 10 then mutate s else s))
  done;
  close_out oc

let () =
  if Array.length Sys.argv >= 5 && Sys.argv.(1) = "gen" then gen_mode Sys.argv.(2) Sys.argv.(3) Sys.argv.(4)
  else begin run_mode (); Printf.eprintf "transactions accepted by the model: %d, of which in the schema-covered sub-stream (exact comparison in both directions): %d\n" !n_loaded !n_covered end
