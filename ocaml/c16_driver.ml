(* C16 driver: parses case lines, runs the extracted model and the extracted judges.
   I/O glue only; the case syntax is documented in harness/src/bin/c16.rs. *)
let split_on c s = if s = "-" || s = "" then [] else String.split_on_char c s
let csv l = if l = [] then "-" else String.concat "," l
let hexs l = csv (List.map hex_of_bytes l)
let bits l = if l = [] then "-" else String.concat "" (List.map (fun b -> if b then "1" else "0") l)
let parse_bits s = if s = "-" then [] else List.init (String.length s) (fun i -> s.[i] = '1')
let field (impl : string list) (name : string) : string option =
  let p = name ^ "=" in let n = String.length p in
  let rec go = function
    | [] -> None
    | t :: r -> if String.length t >= n && String.sub t 0 n = p then Some (String.sub t n (String.length t - n)) else go r in
  go impl
let fieldx impl name = match field impl name with Some v -> v | None -> failwith ("impl field " ^ name)
let verdict b = if b then "holds" else "fails:-"

type cur = { a : string array; mutable pos : int }
let next c = let s = c.a.(c.pos) in c.pos <- c.pos + 1; s
let rec rep n f = if n <= 0 then [] else let x = f () in x :: rep (n - 1) f
let count c = int_of_string (next c)
let bytes_tok c = bytes_of_hex (next c)
let after s = String.sub s 1 (String.length s - 1)
let opt_hex s = if s = "~" then None else Some (bytes_of_hex s)
let show_z v = string_of_z v

(* ---- set ---- *)
let parse_item s =
  match s.[0] with
  | 'e' -> (match String.split_on_char ',' (after s) with [_; canon] -> it_elem (bytes_of_hex canon) | _ -> failwith "item")
  | 'b' -> it_bad
  | 'n' -> it_null
  | _ -> failwith "item"
let parse_len s =
  if s = "i" then Indefinite
  else (* d<n>w<k> *)
    let body = after s in
    let n = List.hd (String.split_on_char 'w' body) in Definite (n_of_string n)
let run_set (c : cur) (impl : string list) : string * string =
  let k = kind_of_N (n_of_string (next c)) in
  let init = match next c with
    | "new" -> FromNew
    | "bytes" ->
        let tags = rep (count c) (fun () -> n_of_string (next c)) in
        let len = parse_len (next c) in
        let items = rep (count c) (fun () -> parse_item (next c)) in
        let brk = (next c = "1") in
        FromBytes (mk_bytes_frame tags len items brk)
    | "json" -> FromJson (rep (count c) (fun () -> bytes_tok c))
    | "scr" -> FromScripts (rep (count c) (fun () -> rep (count c) (fun () -> bytes_tok c)))
    | _ -> failwith "init" in
  let ops = rep (count c) (fun () -> let s = next c in
    (* a<elem> or a<wire>,<elem>: the model identifies the element by its canonical bytes (the last part) *)
    let canon = bytes_of_hex (List.hd (List.rev (String.split_on_char ',' (after s)))) in
    match s.[0] with 'a' -> op_add canon | 'c' -> op_contains canon | _ -> failwith "op") in
  let m = match set_case k init ops with
    | Ok o -> Printf.sprintf "ok b=%s items=%s bytes=%s json=%s" (bits o.o_bools) (hexs o.o_items) (hex_of_bytes o.o_bytes) (hex_of_bytes o.o_json_bytes)
    | Err -> "err" | Panic -> "panic" | OutOfFuel -> "outoffuel" in
  let v = match impl with
    | "ok" :: _ ->
        let its = List.map bytes_of_hex (split_on ',' (fieldx impl "items")) in
        let bs = parse_bits (fieldx impl "b") in
        (* the bytes after a JSON round trip must be the same bytes *)
        verdict (judge_set k init ops its bs && fieldx impl "bytes" = fieldx impl "json")
    | _ -> "na" in
  (m, v)

(* ---- witness set ---- *)
let parse_datum s = (* k<int>,<orig|~> *)
  match String.split_on_char ',' (after s) with
  | [n; o] -> int_datum (n_of_string n) (opt_hex o)
  | _ -> failwith "datum"
let show_fields fs =
  if fs = [] then "-" else String.concat ";" (List.map (fun (k, els) -> string_of_n k ^ ":" ^ hexs els) fs)
let parse_fields s =
  List.map (fun f -> match String.split_on_char ':' f with
    | [k; els] -> (n_of_string k, List.map bytes_of_hex (split_on ',' els))
    | _ -> failwith "fields") (split_on ';' s)
let run_ws (c : cur) (impl : string list) : string * string =
  let ops = rep (count c) (fun () ->
    (* vk@t2 etc.: the suffix is the provenance of the collection handed to the setter (harness side only) *)
    match List.hd (String.split_on_char '@' (next c)) with
    | "vk" -> SetVkeys (rep (count c) (fun () -> bytes_tok c))
    | "ns" -> SetNative (rep (count c) (fun () -> bytes_tok c))
    | "bs" -> SetBoot (rep (count c) (fun () -> bytes_tok c))
    | "ps" -> SetPlutus (rep (count c) (fun () ->
                match String.split_on_char ':' (next c) with
                | [l; b] -> { ps_lang = n_of_string l; ps_bytes = bytes_of_hex b } | _ -> failwith "ps"))
    | "pd" -> let d = next c in
              let els = rep (count c) (fun () -> parse_datum (next c)) in
              SetData { pl_elems = els; pl_definite = (match d with "a" -> None | "d" -> Some true | _ -> Some false) }
    | _ -> failwith "ws op") in
  let w = ws_run ops in
  let m = Printf.sprintf "ok bytes=%s f=%s" (hex_of_bytes (ser_wset w)) (show_fields (ws_fields w)) in
  let v = match impl with
    | "ok" :: _ -> verdict (judge_fields (parse_fields (fieldx impl "f")))
    | _ -> "na" in
  (m, v)

(* ---- asset bundles ---- *)
let parse_assets c = rep (count c) (fun () -> let n = bytes_tok c in let q = n_of_string (next c) in (n, q))
let show_entries showq es =
  if es = [] then "-" else String.concat ";" (List.map (fun (p, a) ->
    hex_of_bytes p ^ ":" ^ (if a = [] then "" else String.concat "," (List.map (fun (n, q) -> hex_of_bytes n ^ "=" ^ showq q) a))) es)
let parse_entries parseq s =
  List.map (fun e -> match String.split_on_char ':' e with
    | [p; a] -> (bytes_of_hex p, List.map (fun x -> match String.split_on_char '=' x with
                   | [n; q] -> (bytes_of_hex n, parseq q) | _ -> failwith "entry") (if a = "" then [] else String.split_on_char ',' a))
    | _ -> failwith "entries") (split_on ';' s)
let run_ma (form : string) (c : cur) (impl : string list) : string * string =
  let show m = Printf.sprintf "ok bytes=%s e=%s" (hex_of_bytes (ser_multiasset m)) (show_entries string_of_n m) in
  let judge h = match impl with
    | "ok" :: _ -> verdict (judge_ma h (parse_entries n_of_string (fieldx impl "e")) (bytes_of_hex (fieldx impl "bytes")))
    | _ -> "na" in
  match form with
  | "api" ->
      let ops = rep (count c) (fun () ->
        match next c with
        | "s" -> let p = bytes_tok c in let n = bytes_tok c in let q = n_of_string (next c) in MSetAsset (p, n, q)
        | "i" -> let p = bytes_tok c in let a = parse_assets c in MInsert (p, a)
        | _ -> failwith "ma op") in
      (show (ma_run ops), judge ops)
  | "wire" ->
      let l = rep (count c) (fun () -> let p = bytes_tok c in let a = parse_assets c in (p, a)) in
      (match ma_wire_case l with
       | Ok m -> (show m, judge (wire_ops l))
       | _ -> ("err", (match impl with "err" :: _ -> "holds" | "ok" :: _ -> "fails:-" | _ -> "na")))
  | _ ->
      let l = rep (count c) (fun () -> let p = bytes_tok c in let a = parse_assets c in (p, a)) in
      (show (ma_of_json l), judge (wire_ops l))

let parse_mint_ops c =
  rep (count c) (fun () ->
    let k = next c in let _sbytes = next c in let p = bytes_tok c in
    let _src = next c in let _rh = next c in let _ri = next c in
    let n = bytes_tok c in let a = z_of_string (next c) in
    if k = "a" then MbAdd (p, n, a) else MbSet (p, n, a))
let run_mint (c : cur) (impl : string list) : string * string =
  let ops = parse_mint_ops c in
  let m = match mb_build (mb_run ops) with
    | Ok st -> Printf.sprintf "ok bytes=%s e=%s" (hex_of_bytes (ser_mint st)) (show_entries show_z st)
    | _ -> "err" in
  let v = match impl with
    | "ok" :: _ -> verdict (judge_mint ops (Some (parse_entries z_of_string (fieldx impl "e"), bytes_of_hex (fieldx impl "bytes"))))
    | "err" :: _ -> verdict (judge_mint ops None)
    | _ -> "na" in
  (m, v)

(* ---- a build ---- *)
let txin_tok c = let h = bytes_tok c in let i = n_of_string (next c) in (h, i)
let show_txins l = if l = [] then "-" else String.concat "," (List.map (fun (h, i) -> hex_of_bytes h ^ ":" ^ string_of_n i) l)
let parse_txins s = List.map (fun x -> match String.split_on_char ':' x with
  | [h; i] -> (bytes_of_hex h, n_of_string i) | _ -> failwith "txin") (split_on ',' s)
let expect c s = if next c <> s then failwith ("case syntax: expected " ^ s)
let run_tx (c : cur) (impl : string list) : string * string =
  expect c "I"; let ins = rep (count c) (fun () -> txin_tok c) in
  expect c "C"; let coll = rep (count c) (fun () -> txin_tok c) in
  expect c "F"; let flag = (next c = "1") in
  expect c "SI";
  let si = rep (count c) (fun () ->
    let sb = bytes_tok c in let src = next c in let inp = txin_tok c in
    let rh = next c in let ri = next c in (sb, src, inp, rh, ri)) in
  expect c "RE"; let re = rep (count c) (fun () -> let t = txin_tok c in let _size = next c in t) in
  expect c "G"; let signers = rep (count c) (fun () -> bytes_tok c) in
  expect c "M";
  let mint_raw = (match c.a.(c.pos) with
    | "~" -> ignore (next c); None
    | _ ->
      let save = c.pos in
      let n = count c in
      let raw = rep n (fun () ->
        let k = next c in let sb = bytes_tok c in let p = bytes_tok c in let src = next c in let rh = next c in let ri = next c in
        let nm = bytes_tok c in let a = z_of_string (next c) in (k, sb, p, src, rh, ri, nm, a)) in
      ignore save; Some raw) in
  expect c "XD"; let xd = rep (count c) (fun () -> parse_datum (next c)) in
  (* optional sections: Plutus-script inputs, withdrawals and certificates with Plutus witnesses *)
  let more () = c.pos < Array.length c.a in
  let opt_datum () = let s = next c in if s = "~" then [] else [parse_datum s] in
  let pscript () = let l = n_of_string (next c) in let b = bytes_tok c in { ps_lang = l; ps_bytes = b } in
  let pi = if more () && c.a.(c.pos) = "PI" then (ignore (next c); rep (count c) (fun () ->
      let s = pscript () in let d = opt_datum () in let inp = txin_tok c in (s, d, inp))) else [] in
  let pw = if more () && c.a.(c.pos) = "PW" then (ignore (next c); rep (count c) (fun () -> let s = pscript () in let d = opt_datum () in (s, d))) else [] in
  let pc = if more () && c.a.(c.pos) = "PC" then (ignore (next c); rep (count c) (fun () -> let s = pscript () in let d = opt_datum () in let _k = next c in (s, d))) else [] in
  let nw = if more () && c.a.(c.pos) = "NW" then (ignore (next c); rep (count c) (fun () -> bytes_tok c)) else [] in
  let nc = if more () && c.a.(c.pos) = "NC" then (ignore (next c); rep (count c) (fun () -> let sb = bytes_tok c in let _k = next c in sb)) else [] in
  (* derived lists (plain regrouping of tokens): script-source reference inputs and witness scripts *)
  let ref_of (src, rh, ri) = if src = "r" || (String.length src = 2 && src.[0] = 'q') then [ (bytes_of_hex rh, n_of_string ri) ] else [] in
  let mint_live = match mint_raw with None -> [] | Some raw -> List.filter (fun (_, _, _, _, _, _, _, a) -> a <> Z0) raw in
  let script_refs = List.concat (List.map (fun (_, src, _, rh, ri) -> ref_of (src, rh, ri)) si)
                    @ List.concat (List.map (fun (_, _, _, src, rh, ri, _, _) -> ref_of (src, rh, ri)) mint_live) in
  let mint_ops = match mint_raw with
    | None -> None
    | Some raw -> Some (List.map (fun (k, _, p, _, _, _, nm, a) -> if k = "a" then MbAdd (p, nm, a) else MbSet (p, nm, a)) raw) in
  (* the mint builder hands its witness scripts over in the order of ITS map: the policy order of the modelled builder state *)
  let mint_native = match mint_ops with
    | None -> []
    | Some ops -> List.concat (List.map (fun (pol, _) ->
        match List.filter (fun (_, _, p, src, _, _, _, _) -> p = pol && src = "w") mint_live with
        | (_, sb, _, _, _, _, _, _) :: _ -> [sb] | [] -> []) (mb_run ops)) in
  let native = input_script_order (List.concat (List.map (fun (sb, src, _, _, _) -> if src = "w" then [sb] else []) si)) @ mint_native @ nc @ nw in
  let mint_plutus = List.concat (List.map (fun (_, sb, _, src, _, _, _, _) ->
      if String.length src = 2 && src.[0] = 'p' then [ { ps_lang = n_of_string (String.sub src 1 1); ps_bytes = sb } ] else []) mint_live) in
  let plutus = List.map (fun (s, _, _) -> s) pi @ mint_plutus @ List.map fst pc @ List.map fst pw in
  let wit_datums = List.concat (List.map (fun (_, d, _) -> d) pi) @ List.concat (List.map snd pc) @ List.concat (List.map snd pw) in
  let all_inputs = ins @ List.map (fun (_, _, inp, _, _) -> inp) si @ List.map (fun (_, _, inp) -> inp) pi in
  let case = { t_inputs = all_inputs; t_collateral = coll; t_dedup_flag = flag; t_script_refs = script_refs;
               t_explicit_refs = re; t_signers = signers; t_mint = mint_ops; t_native = native;
               t_plutus = plutus; t_wit_datums = wit_datums; t_extra_datums = xd } in
  let sorted_hex l = csv (List.sort compare (List.map hex_of_bytes l)) in
  let m = match tx_build case with
    | Ok o -> Printf.sprintf "ok ins=%s coll=%s refs=%s sig=%s mint=%s ns=%s ps=%s pd=%s det=1"
                (show_txins o.x_inputs) (show_txins o.x_collateral) (show_txins o.x_refs) (hexs o.x_signers)
                (match o.x_mint with Some b -> hex_of_bytes b | None -> "~") (hexs o.x_native)
                (if o.x_plutus = [] then "-" else String.concat ";" (List.map (fun (k, els) -> string_of_n k ^ ":" ^ sorted_hex els) o.x_plutus))
                (sorted_hex o.x_data)
    | _ -> "err" in
  let v = match impl with
    | "ok" :: _ ->
        let o = { x_inputs = parse_txins (fieldx impl "ins"); x_collateral = parse_txins (fieldx impl "coll");
                  x_refs = parse_txins (fieldx impl "refs"); x_signers = List.map bytes_of_hex (split_on ',' (fieldx impl "sig"));
                  x_mint = (let s = fieldx impl "mint" in if s = "~" then None else Some (bytes_of_hex s));
                  x_native = List.map bytes_of_hex (split_on ',' (fieldx impl "ns"));
                  x_plutus = parse_fields (fieldx impl "ps");
                  x_data = List.map bytes_of_hex (split_on ',' (fieldx impl "pd")) } in
        verdict (judge_tx case o (fieldx impl "det" = "1"))
    | _ -> "na" in
  (m, v)

let () = run_driver (fun toks impl ->
  match toks with
  | [] -> ("skip", "na")
  | kind :: rest ->
    let c = { a = Array.of_list rest; pos = 0 } in
    let base = List.hd (String.split_on_char '-' kind) in
    match base with
    | "set" -> run_set c impl
    | "ws" -> run_ws c impl
    | "ma" -> run_ma (match String.split_on_char '-' kind with [_; f] -> f | _ -> "api") c impl
    | "mint" -> run_mint c impl
    | "tx" -> run_tx c impl
    | _ -> ("skip", "na"))
