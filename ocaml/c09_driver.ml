(* C09 driver: parses case lines, runs the extracted model (helper_obs / builder_obs) and the extracted judge
   (judge_helper_b / judge_builder_b, hash = the Coq-extracted Blake2b-256).  I/O glue only; the case syntax is
   documented in harness/src/bin/c09.rs. *)
let hex_opt = function None -> "~" | Some b -> hex_of_bytes b
let lang_of_tok s = match lang_of_index (n_of_string s) with Some l -> l | None -> failwith "case syntax: language"

type cur = { a : string array; mutable pos : int }
let next c = let s = c.a.(c.pos) in c.pos <- c.pos + 1; s
let expect c s = let t = next c in if t <> s then failwith ("case syntax: expected " ^ s ^ " got " ^ t)
let rec rep n f = if n <= 0 then [] else let x = f () in x :: rep (n - 1) f
let count c = int_of_string (next c)

(* D <n> { <id> <flag> <srchex> <byteshex> }*  -> array of pdata *)
let parse_pool c : pdata array =
  expect c "D";
  let n = count c in
  Array.of_list (rep n (fun () ->
    let id = n_of_string (next c) in
    let _flag = next c in let _src = next c in
    let b = bytes_of_hex (next c) in
    { pd_id = id; pd_bytes = b }))

let parse_scripts c : script array =
  expect c "S";
  let n = count c in
  Array.of_list (rep n (fun () -> let l = lang_of_tok (next c) in let b = bytes_of_hex (next c) in { sc_lang = l; sc_bytes = b }))

let parse_cm c : costmdls =
  let n = count c in
  let rec go k acc = if k <= 0 then acc else begin
    let l = lang_of_tok (next c) in
    let m = count c in
    let cs = rep m (fun () -> z_of_string (next c)) in
    go (k - 1) (cm_insert acc l cs) end in
  go n cm_empty

let parse_redeemer c (pool : pdata array) tag : redeemer =
  let index = n_of_string (next c) in
  let d = pool.(count c) in
  let mem = n_of_string (next c) in
  let steps = n_of_string (next c) in
  { r_tag = tag; r_index = index; r_data = d; r_mem = mem; r_steps = steps }

let parse_helper c =
  let pool = parse_pool c in
  expect c "R";
  let fmt = (match next c with "n" -> None | "m" -> Some CMap | "a" -> Some CArray | _ -> failwith "case syntax: redeemers format") in
  let k = count c in
  let rs = rep k (fun () -> let tag = n_of_string (next c) in parse_redeemer c pool tag) in
  expect c "CM";
  let cm = parse_cm c in
  expect c "L";
  let d = (match next c with
    | "~" -> None
    | f ->
      let def = (match f with "n" -> None | "t" | "T" -> Some true | "f" | "F" -> Some false | _ -> failwith "case syntax: list form") in
      let k = count c in
      Some { pl_elems = rep k (fun () -> pool.(count c)); pl_definite = def }) in
  (* optional: V <vkeys field | ~> B <bootstrap field | ~> *)
  let opt_hex () = (match next c with "~" -> None | h -> Some (bytes_of_hex h)) in
  let (vk, bo) = if c.pos < Array.length c.a then begin expect c "V"; let v = opt_hex () in expect c "B"; let b = opt_hex () in (v, b) end else (None, None) in
  (vk, bo, { rs_list = rs; rs_format = fmt }, cm, d)

let sub_of_int = function
  | 0 -> (SubInputs, 0) | 1 -> (SubCollateral, 0) | 2 -> (SubMint, 1) | 3 -> (SubCerts, 2)
  | 4 -> (SubWithdrawals, 3) | 5 -> (SubVotes, 4) | 6 -> (SubProposals, 5) | _ -> failwith "case syntax: sub-builder"

let parse_md c = let k = count c in rep k (fun () -> let l = n_of_string (next c) in let b = bytes_of_hex (next c) in (l, b))

let parse_ops c : op list =
  let pool = parse_pool c in
  let scripts = parse_scripts c in
  expect c "OPS";
  let n = count c in
  rep n (fun () ->
    match next c with
    | "sub" ->
      let (k, tag) = sub_of_int (count c) in
      let ncol = n_of_string (next c) in
      let nw = count c in
      let ws = rep nw (fun () ->
        let st = next c in
        let src = (if st.[0] = 'i' then SrcScript scripts.(int_of_string (String.sub st 1 (String.length st - 1)))
                   else SrcRef (lang_of_tok (String.sub st 1 (String.length st - 1)))) in
        let dt = next c in
        let dat = (if dt = "n" then DatumNone else if dt = "r" then DatumRef
                   else DatumValue pool.(int_of_string (String.sub dt 1 (String.length dt - 1)))) in
        let r = parse_redeemer c pool (n_of_int tag) in
        { w_script = src; w_datum = dat; w_redeemer = r }) in
      let nstale = count c in
      let stale = rep nstale (fun () -> lang_of_tok (next c)) in
      let nnat = count c in
      let nat = rep nnat (fun () -> bytes_of_hex (next c)) in
      OpSetSub (k, { ss_witnesses = ws; ss_stale = stale; ss_native = nat }, ncol)
    | "extra" -> OpAddExtraDatum pool.(count c)
    | "calc" -> OpCalc (parse_cm c)
    | "sethash" -> OpSetHash (bytes_of_hex (next c))
    | "rmhash" -> OpRemoveHash
    | "setaux" ->
      let md = (match next c with "~" -> None | k -> c.pos <- c.pos - 1; Some (parse_md c)) in
      let native = (match next c with "~" -> None | h -> Some (bytes_of_hex h)) in
      let plutus = (match next c with "~" -> None | k -> Some (rep (int_of_string k) (fun () -> scripts.(count c)))) in
      let alonzo = (next c = "1") in
      OpSetAux { a_metadata = md; a_native = native; a_plutus = plutus; a_prefer_alonzo = alonzo }
    | "rmaux" -> OpRemoveAux
    | "setmd" -> OpSetMetadata (parse_md c)
    | "addmd" -> let l = n_of_string (next c) in let b = bytes_of_hex (next c) in OpAddMetadatum (l, b)
    | "addjson" ->                                      (* add_json_metadatum_with_schema: label, schema, JSON text, converted value *)
      let l = n_of_string (next c) in let _schema = next c in let _json = next c in
      let b = bytes_of_hex (next c) in OpAddMetadatum (l, b)
    | "setauxw" ->                                      (* set_auxiliary_data(AuxiliaryData::from_bytes(wire form)) *)
      let optmd () = (match next c with "~" -> None | _ -> c.pos <- c.pos - 1; Some (parse_md c)) in
      let optl () = (match next c with "~" -> None | k -> Some (rep (int_of_string k) (fun () -> bytes_of_hex (next c)))) in
      (match next c with
       | "s" -> OpSetAuxDecoded (WShelley (parse_md c))
       | "m" -> let md = parse_md c in let ns = bytes_of_hex (next c) in OpSetAuxDecoded (WShelleyMA (md, ns))
       | _ ->
         let md = optmd () in
         let ns = (match next c with "~" -> None | h -> Some (bytes_of_hex h)) in
         let v1 = optl () in let v2 = optl () in let v3 = optl () in
         OpSetAuxDecoded (WAlonzo (md, ns, v1, v2, v3)))
    | t -> failwith ("case syntax: operation " ^ t))

let show_verdict = function
  | Holds -> "holds"
  | NotApplicable -> "na"
  | Fails c -> (match int_of_n c with
      | 1 -> "fails:C09-set-bytes-length"
      | 2 -> "fails:C09-empty-datums"
      | 3 -> "fails:C09-stale-input-language"
      | 4 -> "fails:C09-noop-calc-keeps-hash"
      | _ -> "fails:-")

let field (impl : string list) (name : string) : string option =
  let p = name ^ "=" in
  let lp = String.length p in
  let rec go = function
    | [] -> None
    | t :: r -> if String.length t >= lp && String.sub t 0 lp = p then Some (String.sub t lp (String.length t - lp)) else go r in
  go impl

let flags_str fl = if fl = [] then "-" else String.concat "" (List.map (fun b -> if b then "1" else "0") fl)

let () = run_driver (fun toks impl ->
  let c = { a = Array.of_list toks; pos = 1 } in            (* a.(0) is the generator label *)
  let label = List.hd toks in
  if label.[0] = 'h' then begin
    let (vk, bo, r, cm, d) = parse_helper c in
    let (h, ws) = helper_obs vk bo r cm d in
    let m = Printf.sprintf "ok h=%s ws=%s" (hex_of_bytes h) (hex_of_bytes ws) in
    let v = (match impl with
      | [] -> "na"
      | "ok" :: _ ->
        (match field impl "h", field impl "ws" with
         | Some ih, Some iws -> show_verdict (judge_helper_b r cm d (bytes_of_hex ih) (bytes_of_hex iws))
         | _ -> "fails:-")
      | _ -> "fails:-") in                                   (* panic / malformed observation *)
    (m, v)
  end else begin
    let ops = parse_ops c in
    let (flags, res) = builder_obs ops in
    let m = (match res with
      | Ok b -> Printf.sprintf "ok c=%s sdh=%s auxh=%s ws=%s aux=%s" (flags_str flags)
                  (hex_opt b.o_script_data_hash) (hex_opt b.o_aux_hash) (hex_of_bytes b.o_witness_set) (hex_opt b.o_aux)
      | Err -> Printf.sprintf "err c=%s" (flags_str flags)
      | Panic -> "panic" | OutOfFuel -> "outoffuel") in
    let v = (match impl with
      | [] -> "na"
      | "ok" :: _ ->
        (match field impl "tx" with
         | Some tx -> show_verdict (judge_builder_b ops (bytes_of_hex tx))
         | None -> "fails:-")
      | "err" :: _ -> "na"                                   (* no transaction was produced *)
      | _ -> "fails:-") in
    (m, v)
  end)
