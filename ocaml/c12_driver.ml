(* C12 driver: parses a case line (arguments, then `|`, then the table of primitive calls), instantiates the model's
   primitives by table lookup, runs the extracted model (model_obs) and the extracted judge.  I/O glue only; the case syntax
   is documented in harness/src/bin/c12.rs. *)
let tbl : (string, string) Hashtbl.t = Hashtbl.create 64
let look key =
  try Hashtbl.find tbl key
  with Not_found -> failwith ("table-miss:" ^ (if String.length key > 60 then String.sub key 0 60 else key))
let hb = hex_of_bytes
let opt_res s = if s = "~" then None else Some (bytes_of_hex s)
let pair s = match String.split_on_char ',' s with [a; b] -> (a, b) | _ -> failwith "table syntax: pair"

let table_prims : prims = {
  ed_keypair_pk = (fun k -> bytes_of_hex (look ("ed_keypair_pk/" ^ hb k)));
  ed_sign = (fun k m -> bytes_of_hex (look (Printf.sprintf "ed_sign/%s/%s" (hb k) (hb m))));
  ed_ext_pub = (fun e -> bytes_of_hex (look ("ed_ext_pub/" ^ hb e)));
  ed_sign_ext = (fun e m -> bytes_of_hex (look (Printf.sprintf "ed_sign_ext/%s/%s" (hb e) (hb m))));
  ed_verify = (fun pk m s -> look (Printf.sprintf "ed_verify/%s/%s/%s" (hb pk) (hb m) (hb s)) = "1");
  xprv_public = (fun k -> bytes_of_hex (look ("xprv_public/" ^ hb k)));
  xprv_derive = (fun k i -> bytes_of_hex (look (Printf.sprintf "xprv_derive/%s/%s" (hb k) (string_of_n i))));
  xpub_derive = (fun p i -> opt_res (look (Printf.sprintf "xpub_derive/%s/%s" (hb p) (string_of_n i))));
  xprv_normalize3 = (fun b -> bytes_of_hex (look ("xprv_normalize3/" ^ hb b)));
  pbkdf2_bip39 = (fun pw e -> bytes_of_hex (look (Printf.sprintf "pbkdf2_bip39/%s/%s" (hb pw) (hb e))));
  kdf = (fun pw s -> bytes_of_hex (look (Printf.sprintf "kdf/%s/%s" (hb pw) (hb s))));
  aead_enc = (fun k n p -> let (c, t) = pair (look (Printf.sprintf "aead_enc/%s/%s/%s" (hb k) (hb n) (hb p))) in
                           (bytes_of_hex c, bytes_of_hex t));
  aead_dec = (fun k n c t -> opt_res (look (Printf.sprintf "aead_dec/%s/%s/%s/%s" (hb k) (hb n) (hb c) (hb t))));
  (* bech32 is not tabulated: the executable model of the crate is used (with_bech32 below) *)
  b32_to_base32 = (fun _ -> failwith "bech32 is modelled, not tabulated");
  b32_from_base32 = (fun _ -> failwith "bech32 is modelled, not tabulated");
  b32_encode = (fun _ _ -> failwith "bech32 is modelled, not tabulated");
  b32_decode = (fun _ -> failwith "bech32 is modelled, not tabulated");
  blake2b224 = (fun b -> bytes_of_hex (look ("blake2b224/" ^ hb b)));
}

(* the cryptographic primitives from the tables, the bech32 codec from the Coq model of the crate *)
let prims_used : prims = with_bech32 table_prims

let parse_case (toks : string list) : case =
  let opt_b s = if s = "~" then None else Some (bytes_of_hex s) in
  let opt_n s = if s = "~" then None else Some (n_of_string s) in
  match toks with
  | ["enc"; tk; bs] -> CEnc (n_of_string tk, bytes_of_hex bs)
  | ["dec"; tk; fmt; i] -> CDec (n_of_string tk, n_of_string fmt, bytes_of_hex i)
  | ["sign"; tk; k; m; m2; k2] -> CSign (n_of_string tk, bytes_of_hex k, bytes_of_hex m, bytes_of_hex m2, bytes_of_hex k2)
  | ["wit"; wk; h; k; dp; mg] -> CWit (n_of_string wk, bytes_of_hex h, bytes_of_hex k, opt_b dp, opt_n mg)
  | "derive" :: root :: _n :: path -> CDerive (bytes_of_hex root, List.map n_of_string path)
  | "pubderive" :: xpub :: _n :: path -> CPubDerive (bytes_of_hex xpub, List.map n_of_string path)
  | ["pkhash"; pk] -> CPkHash (bytes_of_hex pk)
  | ["bip39"; e; pw] -> CBip39 (bytes_of_hex e, bytes_of_hex pw)
  | ["x128"; k] -> CX128 (bytes_of_hex k)
  | ["enc3"; tp; ts; tn; td] -> CEnc3 (bytes_of_hex tp, bytes_of_hex ts, bytes_of_hex tn, bytes_of_hex td)
  | ["dec3"; tp; tc] -> CDec3 (bytes_of_hex tp, bytes_of_hex tc)
  | _ -> failwith "case syntax"

let show_field = function Ok b -> "ok:" ^ hb b | Err -> "err" | Panic -> "panic" | OutOfFuel -> "outoffuel"
(* observation = class token (ok | err | panic) followed by the fields *)
let show_obs (o : (n list) result list) : string =
  if has_panic o then "panic" else
  match o with [Err] -> "err" | _ -> "ok " ^ String.concat " " (List.map show_field o)
let parse_field s =
  if s = "err" then Err else if s = "panic" then Panic
  else if String.length s >= 3 && String.sub s 0 3 = "ok:" then Ok (bytes_of_hex (String.sub s 3 (String.length s - 3)))
  else failwith "observation syntax"

let class_name n = match int_of_n n with
  | 1 -> "C12-xprv128-length" | 2 -> "C12-hash-bech32-padding" | 3 -> "C12-extended-scalar-range" | 4 -> "C12-emip3-empty-plaintext"
  | 5 -> "C12-bit253-root-child-overflow"
  | _ -> "-"
let show_verdict = function
  | Holds -> "holds" | FailsKnown n -> "fails:" ^ class_name n | FailsUnknown -> "fails:-" | NA -> "na"

let () = run_driver (fun toks impl ->
  let rec split acc = function [] -> (List.rev acc, []) | "|" :: r -> (List.rev acc, r) | x :: r -> split (x :: acc) r in
  let (args, table) = split [] toks in
  Hashtbl.reset tbl;
  List.iter (fun e -> match String.index_opt e '=' with
      | Some i -> Hashtbl.replace tbl (String.sub e 0 i) (String.sub e (i + 1) (String.length e - i - 1))
      | None -> ()) table;
  (* the first token joins the kind with its numeric selectors (dec:4:3) *)
  let args = (match args with f :: r -> String.split_on_char ':' f @ r | [] -> []) in
  let split_on sep l =
    let rec go cur acc = function
      | [] -> List.rev (List.rev cur :: acc)
      | x :: r when x = sep -> go [] (List.rev cur :: acc) r
      | x :: r -> go (x :: cur) acc r in
    go [] [] l in
  let expand = function f :: r -> String.split_on_char ':' f @ r | [] -> [] in
  let parse_io toks = List.map parse_field (match toks with "ok" :: r -> r | l -> l) in
  match args with
  | "seq" :: _name :: rest ->
    (* a sequence of calls made one after the other in one process; steps and their observations are separated by `;` *)
    let steps = List.map (fun st -> parse_case (expand st)) (split_on ";" rest) in
    let m = "seq " ^ String.concat " ; " (List.map show_obs (model_seq prims_used steps)) in
    let v = match impl with
      | [] -> "na"
      | "seq" :: r -> (match (try Some (List.map parse_io (split_on ";" r)) with Failure _ -> None) with
          | Some ios -> show_verdict (judge_seq prims_used steps ios)
          | None -> "fails:-")
      | _ -> "fails:-" in
    (m, v)
  | _ ->
  let c = parse_case args in
  let m = show_obs (model_obs prims_used c) in
  let v = match impl with
    | [] -> "na"
    | _ -> (match (try Some (parse_io impl) with Failure _ -> None) with
        | Some io -> show_verdict (judge prims_used c io)
        | None -> "fails:-") in
  (m, v))
