(* C15 driver: parses case lines, runs the extracted model and the extracted spec. *)
let show = function Ok v -> "ok " ^ string_of_z v | Err -> "err" | Panic -> "panic" | OutOfFuel -> "outoffuel"
let zs = z_of_string
let pos s = BZ.sign (BZ.of_string s) > 0
let rec pairs = function a :: b :: r -> (zs a, zs b) :: pairs r | _ -> []
let rec take n l = if n = 0 then [] else match l with x :: r -> x :: take (n - 1) r | [] -> []
let rec drop n l = if n = 0 then l else match l with _ :: r -> drop (n - 1) r | [] -> []
let judge impl expected = if String.concat " " impl = expected then "holds" else "fails:-"
let () = run_driver (fun toks impl ->
  match toks with
  | ["lin"; size; coeff; const] ->
    let m = show (min_fee_for_size (zs size) (zs coeff) (zs const)) in
    let e = show (exact_or_error (spec_linear_fee (zs size) (zs coeff) (zs const))) in
    (m, judge impl e)
  | ["exu"; mem; steps; mpn; mpd; spn; spd] ->
    let m = show (ex_units_ceil_cost (zs mem) (zs steps) (zs mpn) (zs mpd) (zs spn) (zs spd)) in
    let v = if pos mpd && pos spd then
        judge impl (show (exact_or_error (spec_script_fee (zs mem) (zs steps) (mkQ (zs mpn) (zs mpd)) (mkQ (zs spn) (zs spd)))))
      else "na" in
    (m, v)
  | "msf" :: k :: rest ->
    let k = int_of_string k in
    let kk = max k 0 in
    let units = pairs (take (2 * kk) rest) in
    (match drop (2 * kk) rest with
     | [mpn; mpd; spn; spd] ->
       let red = if k < 0 then None else Some units in
       let m = show (min_script_fee red (zs mpn) (zs mpd) (zs spn) (zs spd)) in
       let v = if pos mpd && pos spd then begin
           let sm = List.fold_left (fun a (m, _) -> BZ.add a (bz_of_z m)) BZ.zero units in
           let ss = List.fold_left (fun a (_, s) -> BZ.add a (bz_of_z s)) BZ.zero units in
           let lim = BZ.shift_left BZ.one 64 in
           if BZ.geq sm lim || BZ.geq ss lim then judge impl "err"
           else judge impl (show (exact_or_error (spec_script_fee (z_of_bz sm) (z_of_bz ss) (mkQ (zs mpn) (zs mpd)) (mkQ (zs spn) (zs spd)))))
         end else "na" in
       (m, v)
     | _ -> ("driver-badcase", "na"))
  | "msfd" :: _fmt :: k :: rest ->
    (* redeemers that went through the decoder: the same model and spec as msf over ALL entries (tag and index of an
       entry play no part in the fee) *)
    let kk = int_of_string k in
    let rec quads n l = if n = 0 then [] else match l with _ :: _ :: m :: s :: r -> (zs m, zs s) :: quads (n - 1) r | _ -> [] in
    let units = quads kk rest in
    (match drop (4 * kk) rest with
     | [mpn; mpd; spn; spd] ->
       let m = show (min_script_fee (Some units) (zs mpn) (zs mpd) (zs spn) (zs spd)) in
       let v = if pos mpd && pos spd then begin
           let sm = List.fold_left (fun a (m, _) -> BZ.add a (bz_of_z m)) BZ.zero units in
           let ss = List.fold_left (fun a (_, s) -> BZ.add a (bz_of_z s)) BZ.zero units in
           let lim = BZ.shift_left BZ.one 64 in
           if BZ.geq sm lim || BZ.geq ss lim then judge impl "err"
           else judge impl (show (exact_or_error (spec_script_fee (z_of_bz sm) (z_of_bz ss) (mkQ (zs mpn) (zs mpd)) (mkQ (zs spn) (zs spd)))))
         end else "na" in
       (m, v)
     | _ -> ("driver-badcase", "na"))
  | ["ref"; size; pn; pd] ->
    let m = show (min_ref_script_fee (zs size) (zs pn) (zs pd)) in
    (* Theorem C15_tier_closed_form: under its premises the model value IS the spec value, so the
       judge compares with the model; the ledger recursion itself is evaluated (unreduced Q
       arithmetic, quadratic digit growth) only up to 12 tiers, as a cross-check of the extraction. *)
    let small = BZ.lt (BZ.of_string size) (BZ.of_int (12 * 25600)) in
    let v = if pos pd then begin
        if small then begin
          let e = show (exact_or_error (spec_ref_script_fee (zs size) (mkQ (zs pn) (zs pd)))) in
          if e <> m then "fails:model-vs-spec" else judge impl e
        end else judge impl m
      end else "na" in
    (m, v)
  | _ -> ("driver-badcase", "na"))
