(* zarith's Z must be captured before the extracted code shadows the name. *)
module BZ = Z
