(* C08 driver: parses case lines, runs the extracted model of add_inputs_from with the recorded oracle answers
   (min_fee / fee_for_input of the real builder) and the extracted judge.  I/O glue only; the case syntax is
   documented in harness/src/bin/c08.rs.
     c08_driver <cases> [<impl>]     model result + verdict per case
     c08_driver serve                 oracle discovery: one case per stdin line (no index); answers `done` or the
                                      first oracle entry the model asks for that the line does not contain:
                                      `need m <k> <ids…>` (min_fee of the builder holding these inputs) or
                                      `need f <k> <ids…> <cand>` (fee_for_input of candidate <cand> on that builder) *)
exception Miss of string

type parsed = {
  strat : strategy; offered : utxo list; sc : scenario; choices : n list;
  oracle : (string, n result) Hashtbl.t;
}

let parse_case (toks : string list) : parsed =
  let a = Array.of_list toks in
  let pos = ref 1 in
  let next () = if !pos >= Array.length a then failwith "case syntax: truncated" else (let s = a.(!pos) in incr pos; s) in
  let expect s = let t = next () in if t <> s then failwith ("case syntax: expected " ^ s ^ " got " ^ t) in
  let rec rep k f = if k <= 0 then [] else let x = f () in x :: rep (k - 1) f in
  let num () = n_of_string (next ()) in
  let value () =
    let c = num () in
    let k = next () in
    if k = "~" then { coin = c; multiasset_of = None }
    else begin
      let es = rep (int_of_string k) (fun () ->
        let p = bytes_of_hex (next ()) in let nm = bytes_of_hex (next ()) in let q = num () in ((p, nm), q)) in
      { coin = c; multiasset_of = Some (ma_of_entries es) }
    end in
  let utxo () =
    let id = num () in let ad = next () in let v = value () in
    { u_id = id; u_val = v; u_ok = (ad <> "r") } in
  expect "S";
  let strat = strategy_of_N (num ()) in
  expect "E"; let _ = next () in let _ = next () in let _ = next () in
  (if a.(!pos) = "R" then (let _ = next () in let _ = next () in let _ = next () in ()));
  expect "O"; let offered = rep (int_of_string (next ())) utxo in
  expect "P"; let pre = rep (int_of_string (next ())) utxo in
  expect "I"; let implicit = { coin = num (); multiasset_of = None } in
  expect "M"; let mint = value () in
  expect "T";
  let outs = rep (int_of_string (next ())) (fun () ->
    let k = num () in let _ = next () in let v = value () in { o_key = k; o_val = v }) in
  expect "D"; let dep = num () in
  expect "B"; let burn = value () in
  expect "N"; let don = (let s = next () in if s = "~" then None else Some (n_of_string s)) in
  expect "C"; let choices = rep (int_of_string (next ())) num in
  let oracle = Hashtbl.create 64 in
  (if !pos < Array.length a then begin
     expect "Q";
     let cnt = int_of_string (next ()) in
     for _ = 1 to cnt do
       let kind = next () in
       let k = int_of_string (next ()) in
       let idl = rep k next in
       let cand = if kind = "f" then [next ()] else [] in
       let ans = next () in
       let key = String.concat ":" (kind :: idl @ ("|" :: cand)) in
       Hashtbl.replace oracle key (if ans = "err" then Err else Ok (n_of_string ans))
     done
   end);
  { strat; offered;
    sc = { sc_pre = pre; sc_implicit = implicit; sc_mint = mint; sc_outputs = outs; sc_deposit = dep;
           sc_burn = burn; sc_donation = don };
    choices; oracle }

let ids_of (m : utxo list) = List.map (fun u -> string_of_n u.u_id) m
let need_line kind idl cand =
  "need " ^ kind ^ " " ^ string_of_int (List.length idl) ^ (String.concat "" (List.map (fun s -> " " ^ s) (idl @ cand)))
let mf_of (c : parsed) (m : utxo list) : n result =
  let idl = ids_of m in
  let key = String.concat ":" ("m" :: idl @ ["|"]) in
  (try Hashtbl.find c.oracle key with Not_found -> raise (Miss (need_line "m" idl [])))
let ffi_of (c : parsed) (m : utxo list) (u : utxo) : n result =
  let idl = ids_of m in
  let cand = string_of_n u.u_id in
  let key = String.concat ":" ("f" :: idl @ ["|"; cand]) in
  let f = (try Hashtbl.find c.oracle key with Not_found -> raise (Miss (need_line "f" idl [cand]))) in
  (* fee_for_input is the difference of two min_fee() (tx_builder.rs since d980bbe): the recorded answers must say so *)
  let d = derived_ffi (mf_of c) m u in
  if f <> d then failwith ("oracle-inconsistent:fee_for_input(" ^ String.concat "," idl ^ ";" ^ cand ^ ")") else f

let show_value (v : value) : string =
  let es = value_entries v in
  string_of_n v.coin ^ " " ^ string_of_int (List.length es) ^
  String.concat "" (List.map (fun ((p, nm), q) -> " " ^ hex_of_bytes p ^ " " ^ hex_of_bytes nm ^ " " ^ string_of_n q) es)

let show_status = function
  | Done _ -> "ok" | Insufficient -> "err:insufficient" | Failed -> "err:other" | Panicked -> "panic" | Fuel -> "fuel"

(* number of evaluations of the builder's fee estimate (private min_fee, hook H5) the model's run stands for: one for
   the target (TransactionBuilder::min_fee), and per fee_for_input one for the builder as it is and - unless that failed
   or add_regular_input refuses the address - one for the builder with the input *)
let fee_evaluations = ref 0
let observe (c : parsed) (v : variant) : string * sel_state * unit outcome =
  fee_evaluations := 0;
  let mf m = (incr fee_evaluations; mf_of c m) in
  let ffi m u =
    (match mf_of c m with
     | Ok _ when u.u_ok -> fee_evaluations := !fee_evaluations + 2
     | _ -> incr fee_evaluations);
    ffi_of c m u in
  let (st, r) = add_inputs_from mf ffi v c.strat c.choices c.offered c.sc in
  (show_status r ^ " " ^ String.concat " " (ids_of st.st_inputs), st, r)

(* flags (evidence only, stripped before the comparison): +s / +d / +p when the code before the repair of the swap
   bookkeeping / the duplicate-output association / the pre-step fee would have behaved differently on this case *)
let flags (c : parsed) (cur : string) : string =
  let differs v = (try let (o, _, _) = observe c v in o <> cur with Miss _ -> true | Failure _ -> true) in
  let t = true in
  let mk a b c d e f = { v_swap_fixed = a; v_assoc_once = b; v_prestep_fee = c; v_exact_improve = d; v_skip_present = e; v_asset_guard = f } in
  (if differs (mk false t t t t t) then "+s" else "") ^
  (if differs (mk t false t t t t) then "+d" else "") ^
  (if differs (mk t t false t t t) then "+p" else "") ^
  (if differs (mk t t t false t t) then "+x" else "") ^
  (if differs (mk t t t t false t) then "+o" else "") ^
  (if differs (mk t t t t t false) then "+g" else "")

let model_line ?(with_flags = false) (c : parsed) : string =
  let (o, st, r) = observe c current in
  let k = !fee_evaluations in
  let idl = ids_of st.st_inputs in
  let x = (match explicit_input st with Ok v -> show_value v | _ -> "err") in
  let f = (match r with
      | Done _ | Insufficient -> (match mf_of c st.st_inputs with Ok f -> string_of_n f | _ -> "err")
      | _ -> "-") in
  let g = (match r with
      | Done _ ->
        (match lf_prefix_outpoint c.strat c.offered c.sc (List.map (fun u -> u.u_id) st.st_inputs) with
         | Some xo ->
           let rest = List.filter (fun u -> u.u_id <> xo) st.st_inputs in
           string_of_n xo ^ " " ^ (match mf_of c rest with Ok f -> string_of_n f | _ -> "err")
         | None -> "-")
      | _ -> "-") in
  show_status r ^ (if with_flags then flags c o else "")
  ^ " I " ^ string_of_int (List.length idl) ^ String.concat "" (List.map (fun s -> " " ^ s) idl)
  ^ " X " ^ x ^ " F " ^ f ^ " G " ^ g ^ " K " ^ string_of_int k

(* the implementation's line: <status> I <n> ids… X <value|err> F <fee|err|-> G <outpoint fee | -> *)
let verdict_of (c : parsed) (impl : string list) : string =
  match impl with
  | "ok" :: "I" :: k :: rest ->
    let k = int_of_string k in
    let rec take n l = if n = 0 then ([], l) else (match l with x :: r -> let (a, b) = take (n - 1) r in (x :: a, b) | [] -> failwith "impl syntax") in
    let (idl, rest) = take k rest in
    (match rest with
     | "X" :: "err" :: _ -> "fails:-"
     | "X" :: coin :: cnt :: rest2 ->
       let cnt = int_of_string cnt in
       let (etoks, rest3) = take (3 * cnt) rest2 in
       let rec ents = function
         | p :: nm :: q :: r -> ((bytes_of_hex p, bytes_of_hex nm), n_of_string q) :: ents r
         | _ -> [] in
       let explicit = { coin = n_of_string coin; multiasset_of = (if cnt = 0 then None else Some (ma_of_entries (ents etoks))) } in
       (match rest3 with
        | "F" :: fee :: "G" :: gtoks when fee <> "err" && fee <> "-" ->
          let prefix = (match gtoks with
              | xo :: gf :: "K" :: _ when gf <> "err" -> Some (n_of_string xo, n_of_string gf)
              | _ -> None) in
          (match judge c.strat c.offered c.sc (List.map n_of_string idl) explicit (n_of_string fee) prefix with
           | Holds -> "holds"
           | NotApplicable -> "na"
           | Fails _ -> "fails:-")
        | _ -> "fails:-")
     | _ -> "fails:-")
  | "err:insufficient" :: "I" :: k :: rest ->
    let k = int_of_string k in
    let rec take n l = if n = 0 then ([], l) else (match l with x :: r -> let (a, b) = take (n - 1) r in (x :: a, b) | [] -> failwith "impl syntax") in
    let (idl, rest) = take k rest in
    let rec after_f = function "F" :: fee :: _ -> fee | _ :: r -> after_f r | [] -> "-" in
    let fee = after_f rest in
    let feeo = if fee = "err" || fee = "-" then None else Some (n_of_string fee) in
    (match judge_insufficient c.strat c.offered c.sc (List.map n_of_string idl) feeo with
     | Holds -> "holds"
     | NotApplicable -> "na"
     | Fails _ -> "fails:-")
  | _ -> "na"

let serve () =
  (try
     while true do
       let line = input_line stdin in
       let ans = (try
           let c = parse_case (split_ws line) in
           (try ignore (model_line c); "done" with Miss s -> s)
         with Failure e -> "error " ^ e | Invalid_argument e -> "error " ^ e | Not_found -> "error notfound") in
       print_string ans; print_newline (); flush stdout
     done
   with End_of_file -> ())

let () =
  if Array.length Sys.argv > 1 && Sys.argv.(1) = "serve" then serve ()
  else run_driver (fun toks impl ->
    let c = parse_case toks in
    if not (scenario_buildable c.sc) then ("unbuildable", "na") else
    let m = (try model_line ~with_flags:true c with Miss s -> "oracle-miss " ^ s | Failure e -> "driver-failure:" ^ e) in
    let v = (match impl with [] -> "na" | _ -> (try verdict_of c impl with Failure _ -> "fails:-")) in
    (m, v))
