(* C19 driver: parses case lines, runs the extracted model (model_obs) and the extracted judge.
   I/O glue only; the case syntax is documented in harness/src/bin/c19.rs. *)
exception Oracle_miss

let optn_of s = if s = "~" then None else Some (n_of_string s)

(* --- case parsing ---------------------------------------------------------------------------- *)
type cur = { a : string array; mutable pos : int }
let next c = let s = c.a.(c.pos) in c.pos <- c.pos + 1; s
let expect c s = if next c <> s then failwith ("case syntax: expected " ^ s)
let rec rep n f = if n <= 0 then [] else let x = f () in x :: rep (n - 1) f
let count c = int_of_string (next c)

let p_value c : value =
  let coin = n_of_string (next c) in
  let s = next c in
  let ma = if s = "~" then None else
      Some (rep (int_of_string s) (fun () ->
          let p = bytes_of_hex (next c) in
          let na = count c in
          (p, rep na (fun () -> let n = bytes_of_hex (next c) in (n, n_of_string (next c)))))) in
  { coin = coin; multiasset_of = ma }
let p_output c : output =
  let addr = bytes_of_hex (next c) in
  let v = p_value c in
  let extra = bytes_of_hex (next c) in
  { o_addr = addr; o_amount = v; o_extra = extra }

let p_op c : op =
  match next c with
  | "C" -> let n = count c in
    OpSetCollateral (rep n (fun () -> let id = bytes_of_hex (next c) in let ix = n_of_string (next c) in let v = p_value c in ((id, ix), v)))
  | "R" -> OpSetReturn (p_output c)
  | "r" -> OpRemoveReturn
  | "T" -> OpSetTotal (n_of_string (next c))
  | "t" -> OpRemoveTotal
  | "RT" -> OpReturnAndTotal (p_output c)
  | "TR" -> let t = n_of_string (next c) in OpTotalAndReturn (t, bytes_of_hex (next c))
  | "P" -> let pct = n_of_string (next c) in let a = bytes_of_hex (next c) in let ok = (next c = "1") in
    OpPercent (pct, a, ok, optn_of (next c))
  | "B" -> OpBalance (optn_of (next c))
  | "F" -> let _ = next c in OpBalance (optn_of (next c))          (* set_fee: only the fee afterwards matters *)
  | x -> failwith ("case syntax: op " ^ x)

(* returns the min-ADA oracle (a finite table of the library's function) and the history *)
let parse_case (toks : string list) : (output -> n result) * op list =
  let c = { a = Array.of_list toks; pos = 1 } in                   (* a.(0) is the generator label *)
  expect c "S"; for _ = 1 to 5 do ignore (next c) done;
  expect c "U"; let nu = count c in for _ = 1 to nu do ignore (next c) done;
  expect c "T";
  let nt = count c in
  let table = rep nt (fun () -> let o = p_output c in let m = next c in (o, if m = "err" then Err else Ok (n_of_string m))) in
  expect c "H";
  let nh = count c in
  let ops = rep nh (fun () -> p_op c) in
  let min_ada o = (try snd (List.find (fun (x, _) -> output_eqb x o) table) with Not_found -> raise Oracle_miss) in
  (min_ada, ops)

(* --- canonical rendering (same as the harness) ------------------------------------------------ *)
let s_value (v : value) : string =
  let ma = match v.multiasset_of with
    | None -> "~"
    | Some pols -> "[" ^ String.concat "," (List.map (fun (p, a) ->
        hex_of_bytes p ^ ":" ^ String.concat "+" (List.map (fun (n, q) -> hex_of_bytes n ^ "=" ^ string_of_n q) a)) pols) ^ "]" in
  string_of_n v.coin ^ "/" ^ ma
let s_output (o : output) : string = hex_of_bytes o.o_addr ^ ";" ^ s_value o.o_amount ^ ";" ^ hex_of_bytes o.o_extra
let s_optn = function None -> "~" | Some v -> string_of_n v
let s_fields (f : body_fields) : string =
  let f13 = match f.f13 with None -> "~"
    | Some l -> String.concat "," (List.map (fun (id, ix) -> hex_of_bytes id ^ "#" ^ string_of_n ix) l) in
  let f16 = match f.f16 with None -> "~" | Some o -> s_output o in
  Printf.sprintf "13=%s|16=%s|17=%s" f13 f16 (s_optn f.f17)
let s_obs (o : observation) : string =
  Printf.sprintf "%s|%s|fee=%s" (if o.ob_ok then "ok" else "err") (s_fields o.ob_fields) (s_optn o.ob_fee)

(* --- parsing the implementation's observations ------------------------------------------------ *)
let split_on ch s = String.split_on_char ch s
let strip_prefix pre s =
  let n = String.length pre in
  if String.length s >= n && String.sub s 0 n = pre then String.sub s n (String.length s - n) else failwith ("observation syntax: " ^ pre)
let u_value (s : string) : value =
  match String.index_opt s '/' with
  | None -> failwith "observation syntax: value"
  | Some i ->
    let coin = n_of_string (String.sub s 0 i) in
    let m = String.sub s (i + 1) (String.length s - i - 1) in
    let ma = if m = "~" then None else begin
        let inner = String.sub m 1 (String.length m - 2) in
        if inner = "" then Some [] else
          Some (List.map (fun ps ->
              match String.index_opt ps ':' with
              | None -> failwith "observation syntax: policy"
              | Some j ->
                let p = bytes_of_hex (String.sub ps 0 j) in
                let rest = String.sub ps (j + 1) (String.length ps - j - 1) in
                let assets = if rest = "" then [] else List.map (fun aq ->
                    match split_on '=' aq with
                    | [n; q] -> (bytes_of_hex n, n_of_string q)
                    | _ -> failwith "observation syntax: asset") (split_on '+' rest) in
                (p, assets)) (split_on ',' inner))
      end in
    { coin = coin; multiasset_of = ma }
let u_output (s : string) : output =
  match split_on ';' s with
  | [a; v; e] -> { o_addr = bytes_of_hex a; o_amount = u_value v; o_extra = bytes_of_hex e }
  | _ -> failwith "observation syntax: output"
let u_obs (s : string) : observation =
  match split_on '|' s with
  | [ok; f13; f16; f17; fee] ->
    let f13 = strip_prefix "13=" f13 and f16 = strip_prefix "16=" f16 and f17 = strip_prefix "17=" f17 and fee = strip_prefix "fee=" fee in
    let l13 = if f13 = "~" then None else Some (List.map (fun x -> match split_on '#' x with
        | [id; ix] -> (bytes_of_hex id, n_of_string ix) | _ -> failwith "observation syntax: input") (split_on ',' f13)) in
    { ob_ok = (match ok with "ok" -> true | "err" -> false | _ -> failwith "observation syntax: status");
      ob_fields = { f13 = l13; f16 = (if f16 = "~" then None else Some (u_output f16)); f17 = optn_of f17 };
      ob_fee = optn_of fee }
  | _ -> failwith "observation syntax"

let branch_name (b : int) : string =
  match b with
  | 0 -> "rt-ok" | 1 -> "rt-nocol" | 2 -> "rt-sumovf" | 3 -> "rt-exceeds" | 4 -> "rt-assetsleft" | 5 -> "rt-minadaerr" | 6 -> "rt-belowmin"
  | 10 -> "tr-ok" | 17 -> "tr-noreturn" | 11 -> "tr-nocol" | 12 -> "tr-sumovf" | 13 -> "tr-exceeds" | 15 -> "tr-minadaerr" | 16 -> "tr-belowmin"
  | 22 -> "p-sumovf" | 28 -> "p-balfail" | 29 -> "p-nofee" | 23 -> "p-mulovf"
  | 30 -> "p-ok" | 37 -> "p-noreturn" | 31 -> "p-nocol" | 32 -> "p-sumovf2" | 33 -> "p-exceeds" | 35 -> "p-minadaerr" | 36 -> "p-belowmin"
  | 99 -> "nohelper" | n -> "b" ^ string_of_int n
let prov_name = function Free -> "free" | Governed -> "gov" | Stale -> "stale"

let show_verdict = function
  | Holds -> "holds"
  | NotApplicable -> "na"
  | FailsKnown c -> (match int_of_n c with 1 -> "fails:C19-stale-after-set-collateral" | _ -> "fails:-")
  | FailsUnknown -> "fails:-"

let () = run_driver (fun toks impl ->
  match (try Some (parse_case toks) with Failure _ | Invalid_argument _ -> None) with
  | None -> ("driver-failure:case-syntax", "na")
  | Some (min_ada, h) ->
    let m = (try
        let obs = model_obs min_ada h builder_new in
        let (br, pv) = history_class min_ada h in
        branch_name (int_of_n br) ^ "/" ^ prov_name pv ^ " " ^ String.concat " " (List.map s_obs obs)
      with Oracle_miss -> "oracle-miss") in
    let v = match impl with
      | [] -> "na"                                                  (* no implementation result given *)
      | _ ->
        (* the last token is tx=…; the others are one observation per operation *)
        let toks = List.filter (fun s -> not (String.length s >= 3 && String.sub s 0 3 = "tx=")) impl in
        (try show_verdict (judge min_ada h (List.map u_obs toks))
         with Oracle_miss -> "fails:-" | Failure _ -> "fails:-") in  (* panic, builderr, unknown output: not a valid body *)
    (m, v))
