(* C17 driver: parses case lines and implementation observations (token syntax documented in
   harness/src/bin/c17.rs), runs the extracted model and the extracted judge.  I/O glue only. *)
exception Syntax of string
let toks : string array ref = ref [||]
let pos = ref 0
let next () = if !pos >= Array.length !toks then raise (Syntax "eof") else (let s = !toks.(!pos) in incr pos; s)
let peek () = if !pos >= Array.length !toks then "" else !toks.(!pos)
let count () = int_of_string (next ())
let rec rep n f = if n <= 0 then [] else let x = f () in x :: rep (n - 1) f
let hexb () = bytes_of_hex (next ())

let rec p_json () : json =
  match next () with
  | "Z" -> JNull | "T" -> JBool true | "F" -> JBool false
  | "N" -> JInt (z_of_string (next ())) | "NZ" -> JNegZero
  | "R" -> JFloat (hexb ()) | "S" -> JStr (hexb ())
  | "A" -> let n = count () in JArr (rep n p_json)
  | "O" -> let n = count () in JObj (rep n (fun () -> let k = hexb () in let v = p_json () in (k, v)))
  | x -> raise (Syntax ("json token " ^ x))
let rec s_json (b : Buffer.t) (j : json) : unit =
  let add = Buffer.add_string b in
  match j with
  | JNull -> add " Z" | JBool true -> add " T" | JBool false -> add " F"
  | JInt z -> add " N "; add (string_of_z z) | JNegZero -> add " NZ"
  | JFloat l -> add " R "; add (hex_of_bytes l) | JStr s -> add " S "; add (hex_of_bytes s)
  | JArr l -> add (Printf.sprintf " A %d" (List.length l)); List.iter (s_json b) l
  | JObj l -> add (Printf.sprintf " O %d" (List.length l)); List.iter (fun (k, v) -> add " "; add (hex_of_bytes k); s_json b v) l

let rec p_md () : md =
  match next () with
  | "mm" -> let n = count () in MMap (rep n (fun () -> let k = p_md () in let v = p_md () in (k, v)))
  | "ml" -> let n = count () in MList (rep n p_md)
  | "mi" -> MInt (z_of_string (next ()))
  | "mb" -> MBytes (hexb ())
  | "mt" -> MText (hexb ())
  | x -> raise (Syntax ("md token " ^ x))
let rec s_md (b : Buffer.t) (m : md) : unit =
  let add = Buffer.add_string b in
  match m with
  | MMap l -> add (Printf.sprintf " mm %d" (List.length l)); List.iter (fun (k, v) -> s_md b k; s_md b v) l
  | MList l -> add (Printf.sprintf " ml %d" (List.length l)); List.iter (s_md b) l
  | MInt z -> add " mi "; add (string_of_z z)
  | MBytes x -> add " mb "; add (hex_of_bytes x)
  | MText x -> add " mt "; add (hex_of_bytes x)

let rec p_pd () : pd =
  match next () with
  | "pc" -> let a = z_of_string (next ()) in let n = count () in PConstr (a, rep n p_pd)
  | "pm" -> let n = count () in PMap (rep n (fun () -> let k = p_pd () in let nv = count () in let vs = rep nv p_pd in (k, vs)))
  | "pl" -> let n = count () in PList (rep n p_pd)
  | "pi" -> PInt (z_of_string (next ()))
  | "pb" -> PBytes (hexb ())
  | x -> raise (Syntax ("pd token " ^ x))
let rec s_pd (b : Buffer.t) (p : pd) : unit =
  let add = Buffer.add_string b in
  match p with
  | PConstr (a, l) -> add (Printf.sprintf " pc %s %d" (string_of_z a) (List.length l)); List.iter (s_pd b) l
  | PMap l -> add (Printf.sprintf " pm %d" (List.length l));
    List.iter (fun (k, vs) -> s_pd b k; add (Printf.sprintf " %d" (List.length vs)); List.iter (s_pd b) vs) l
  | PList l -> add (Printf.sprintf " pl %d" (List.length l)); List.iter (s_pd b) l
  | PInt z -> add " pi "; add (string_of_z z)
  | PBytes x -> add " pb "; add (hex_of_bytes x)

let show (f : Buffer.t -> 'a -> unit) (x : 'a) : string =
  let b = Buffer.create 64 in f b x; String.trim (Buffer.contents b)
let s_hex b x = Buffer.add_string b (hex_of_bytes x)

(* a leg of an observation: ok <payload> | err | panic *)
let show_leg (f : Buffer.t -> 'a -> unit) (r : 'a result) : string =
  match r with Ok x -> "ok " ^ show f x | Err -> "err" | Panic -> "panic" | OutOfFuel -> "outoffuel"
(* parse a leg from the implementation's tokens; None when no further leg is present *)
let parse_leg (p : unit -> 'a) : 'a result option =
  match peek () with
  | "" -> None
  | "ok" -> ignore (next ()); Some (Ok (p ()))
  | "err" -> ignore (next ()); Some Err
  | "panic" -> ignore (next ()); Some Panic
  | _ -> None
let sep () = if peek () = ";" then ignore (next ())
let eq_flag () = match peek () with "eq=1" -> ignore (next ()); true | "eq=0" -> ignore (next ()); false | _ -> false

let schema_of = function "0" -> NoConv | "1" -> Basic | _ -> Detailed
let pschema_of = function "1" -> PBasic | _ -> PDetailed
let sform_of = function
  | "bignum" -> SBigNum | "int" -> SInt | "bigint" -> SBigInt | "hash28" -> SHash (n_of_int 28)
  | "hash32" -> SHash (n_of_int 32) | "assetname" -> SAssetName | x -> raise (Syntax ("type " ^ x))
let p_sval t () : sval = match t with SBigNum | SInt | SBigInt -> SVNum (z_of_string (next ())) | _ -> SVBytes (hexb ())
let s_sval b = function SVNum z -> Buffer.add_string b (string_of_z z) | SVBytes x -> Buffer.add_string b (hex_of_bytes x)

let show_verdict = function
  | Holds -> "holds" | NA -> "na"
  | Fails c -> (match int_of_n c with
      | 1 -> "fails:C17-noconv-unsorted-map"
      | 2 -> "fails:C17-plutus-map-empty-values"
      | 3 -> "fails:C17-plutus-script-language-lost"
      | 4 -> "fails:C17-metadatum-int-below-i64-min"
      | _ -> "fails:-")

let set (l : string list) = toks := Array.of_list l; pos := 0
let coqstr (s : string) = List.init (String.length s) (fun i -> n_of_int (Char.code s.[i]))
let depth3 = nat_of_int 3

(* two-leg observation where the second leg is run on the first leg's result *)
let two_legs (r1 : 'a result) (s1 : Buffer.t -> 'a -> unit) (second : 'a -> string) : string =
  match r1 with Ok x -> "ok " ^ show s1 x ^ " ; " ^ second x | _ -> show_leg s1 r1

let flag k l = List.mem (k ^ "=1") l

let handle (case : string list) (impl : string list) : string * string =
  set case;
  let kind = next () in
  match kind with
  | "j2m" ->
    let sc = schema_of (next ()) in let j = p_json () in
    let r1 = j2m cur_cfg sc j in
    let model = two_legs r1 s_md (fun m -> show_leg s_json (m2j sc m)) in
    set impl;
    let i1 = (match parse_leg p_md with Some r -> r | None -> OutOfFuel) in
    sep (); let i2 = parse_leg p_json in
    (model, show_verdict (judge_j2m sc j i1 i2))
  | "m2j" ->
    let sc = schema_of (next ()) in let m = p_md () in
    let r1 = m2j sc m in
    let model = two_legs r1 s_json (fun j -> match j2m cur_cfg sc j with
        | Ok m' -> "ok " ^ show s_md m' ^ (if md_eqb m m' then " eq=1" else " eq=0")
        | r -> show_leg s_md r) in
    set impl;
    let i1 = (match parse_leg p_json with Some r -> r | None -> OutOfFuel) in
    sep (); let i2 = (match parse_leg p_md with Some r -> let e = eq_flag () in Some (r, e) | None -> None) in
    (model, show_verdict (judge_m2j sc m i1 i2))
  | "j2p" ->
    let sc = pschema_of (next ()) in let j = p_json () in
    let r1 = j2p cur_cfg sc j in
    let model = two_legs r1 s_pd (fun p -> show_leg s_json (p2j sc p)) in
    set impl;
    let i1 = (match parse_leg p_pd with Some r -> r | None -> OutOfFuel) in
    sep (); let i2 = parse_leg p_json in
    (model, show_verdict (judge_j2p sc j i1 i2))
  | "p2j" ->
    let sc = pschema_of (next ()) in let p = p_pd () in
    let r1 = p2j sc p in
    let model = two_legs r1 s_json (fun j -> match j2p cur_cfg sc j with
        | Ok p' -> "ok " ^ show s_pd p' ^ (if pd_eqb p p' then " eq=1" else " eq=0")
        | r -> show_leg s_pd r) in
    set impl;
    let i1 = (match parse_leg p_json with Some r -> r | None -> OutOfFuel) in
    sep (); let i2 = (match parse_leg p_pd with Some r -> let e = eq_flag () in Some (r, e) | None -> None) in
    (model, show_verdict (judge_p2j sc p i1 i2))
  | "chunk" ->
    let bs = hexb () in
    let r1 = encode_arbitrary_bytes bs in
    let model = two_legs r1 s_md (fun m -> show_leg s_hex (decode_arbitrary_bytes m)) in
    set impl;
    let i1 = (match parse_leg p_md with Some r -> r | None -> OutOfFuel) in
    sep (); let i2 = parse_leg hexb in
    (model, show_verdict (judge_chunk bs i1 i2))
  | "unchunk" ->
    let m = p_md () in
    let model = show_leg s_hex (decode_arbitrary_bytes m) in
    set impl;
    let i1 = (match parse_leg hexb with Some r -> r | None -> OutOfFuel) in
    (model, show_verdict (judge_unchunk m i1))
  | "sfd" ->
    let t = sform_of (next ()) in let j = p_json () in
    let r1 = sf_de t j in
    let model = two_legs r1 s_sval (fun v -> "ok " ^ show s_json (sf_ser t v)) in
    set impl;
    let i1 = (match parse_leg (p_sval t) with Some r -> r | None -> OutOfFuel) in
    sep (); let i2 = parse_leg p_json in
    (model, show_verdict (judge_sfd t j i1 i2))
  | "sfs" ->
    let t = sform_of (next ()) in let v = p_sval t () in
    let j = sf_ser t v in
    let model = "ok " ^ show s_json j ^ " ; " ^ (match sf_de t j with
        | Ok v' -> "ok " ^ show s_sval v' ^ (if v = v' then " eq=1" else " eq=0")
        | r -> show_leg s_sval r) in
    set impl;
    let i1 = (match parse_leg p_json with Some r -> r | None -> OutOfFuel) in
    sep (); let i2 = (match parse_leg (p_sval t) with Some r -> let e = eq_flag () in Some (r, e) | None -> None) in
    (model, show_verdict (judge_sfs t v i1 i2))
  | "tj" ->
    let name = next () in let hexs = next () in
    (match lookup_serde (coqstr name) (j_table depth3) with
     | None -> ("skip unannotated-type", "na")
     | Some (sch, a) ->
       (match dec sch (bytes_of_hex hexs) with
        | Ok (v, []) ->
          let j = j_json a v in
          let model =
            if not (j_wf a v) then "err"      (* outside the domain of the annotation: serde cannot write the value *)
            else "ok " ^ show s_json j ^ " ; " ^ (match j_of_json a j with
                | Ok v' -> "ok " ^ hex_of_bytes (enc sch v')
                | r -> show_leg s_hex (match r with Err -> Err | Panic -> Panic | _ -> OutOfFuel)) in
          set impl;
          let i1 = (match parse_leg p_json with Some r -> r | None -> OutOfFuel) in
          sep (); let i2 = (match parse_leg hexb with Some r -> let e = eq_flag () in Some (r, e) | None -> None) in
          (model, show_verdict (judge_tj sch a v i1 i2))
        | _ -> ("skip model-decode", "na")))
  | "ty" ->
    (* observation stream: no model of the serde derive expansion; the judge reads the implementation's flags *)
    (match impl with
     | "skip" :: _ -> ("skip typed-observation", "na")
     | st :: fl ->
       let first = (match st with "ok" -> 0 | "err-tojson" -> 1 | _ -> 2) in
       ("skip typed-observation",
        show_verdict (judge_ty (n_of_int first) (flag "eq" fl) (flag "bytes" fl) (flag "norm" fl) (flag "fix" fl) (flag "lang" fl) (flag "negint" fl) (flag "unsorted" fl)))
     | [] -> ("skip typed-observation", "fails:-"))
  | _ -> ("driver-badcase", "na")

(* variants of a decoded value with other addresses: every Shelley address leaf (29 or 57 bytes whose header nibble is a
   Shelley kind) gets network id [net] (0..15 are all legal), and, when [ptr], an enterprise address becomes a pointer
   address (kind 4/5 with three variable-length naturals appended) *)
let rec patch_addrs (net : int) (ptr : bool) (v : val0) : val0 =
  let go = patch_addrs net ptr in
  match v with
  | VBytes (h :: t) ->
    let hi = int_of_n h / 16 and len = 1 + List.length t in
    if (len = 57 && hi < 4) || (len = 29 && (hi = 6 || hi = 7 || hi = 14 || hi = 15)) then begin
      if ptr && len = 29 && (hi = 6 || hi = 7) then
        VBytes (n_of_int ((hi - 2) * 16 + net) :: (t @ [n_of_int 0x81; n_of_int 0x00; n_of_int 0x7f; n_of_int 0x05]))
      else VBytes (n_of_int (hi * 16 + net) :: t)
    end else v
  | VList l -> VList (List.map go l)
  | VStruct l -> VStruct (List.map (function Some x -> Some (go x) | None -> None) l)
  | VVar (i, l) -> VVar (i, List.map go l)
  | VMap l -> VMap (List.map (fun (k, x) -> (go k, go x)) l)
  | VAlt (i, x) -> VAlt (i, go x)
  | _ -> v
let holds_addresses name = List.mem name
  ["TransactionOutput"; "TransactionOutputs"; "TransactionBody"; "Transaction"; "Block"; "Withdrawals"; "Certificate";
   "Certificates"; "VotingProposal"; "VotingProposals"; "GovernanceAction"]

(* typed cases for annotated types: the JSON the model writes travels inside the case line *)
let add_tj_cases (tier : string) (file : string) : unit =
  let ic = open_in file in
  let lines = ref [] in
  (try while true do lines := input_line ic :: !lines done with End_of_file -> ());
  close_in ic;
  let oc = open_out_gen [Open_append] 0o644 file in
  let k = ref 0 in
  let nv = ref 0 in
  List.iter (fun line ->
      incr k;
      match split_ws line with
      | ["rt"; name; hexs] when tier <> "thorough" || !k mod 2 = 0 ->
        (match lookup_serde (coqstr name) (j_table depth3) with
         | Some (sch, a) ->
           (match (try dec sch (bytes_of_hex hexs) with _ -> Err) with
            | Ok (v, []) ->
              let j = j_json a v in
              Printf.fprintf oc "tj %s %s %s\n" name hexs (show s_json j);
              (* the same value with its addresses on another network (all 16 ids) / as pointer addresses *)
              if holds_addresses name then begin
                incr nv;
                let v2 = patch_addrs (!nv mod 16) (!nv mod 3 = 0) v in
                if not (val_eqb v v2) && wfv sch v2 then begin
                  let h2 = hex_of_bytes (enc sch v2) in
                  Printf.fprintf oc "rt %s %s\n" name h2;
                  Printf.fprintf oc "tj %s %s %s\n" name h2 (show s_json (j_json a v2))
                end
              end;
              (* and the value that comes back from that JSON (maps in key order, default wire forms), when different *)
              (match (try j_of_json a j with _ -> Err) with
               | Ok v' when j_wf a v && not (val_eqb v v') && wfv sch v' ->
                 Printf.fprintf oc "tj %s %s %s\n" name (hex_of_bytes (enc sch v')) (show s_json (j_json a v'))
               | _ -> ())
            | _ -> ())
         | None -> ())
      | _ -> ()) (List.rev !lines);
  close_out oc

let gen_mode seed tier out =
  (* typed-value encodings come from the C01 schema walk (its driver lives next to this one) *)
  let c01 = Filename.concat (Filename.dirname Sys.executable_name) "c01_driver" in
  if Sys.file_exists c01 then begin
    let rc = Sys.command (Printf.sprintf "%s gen %s %s %s" (Filename.quote c01) seed tier (Filename.quote out)) in
    if rc <> 0 then exit rc;
    add_tj_cases tier out; exit 0
  end else (close_out (open_out out); exit 0)

let () =
  if Array.length Sys.argv >= 5 && Sys.argv.(1) = "gen" then gen_mode Sys.argv.(2) Sys.argv.(3) Sys.argv.(4)
  else run_driver (fun case impl -> try handle case impl with Syntax e -> ("driver-syntax:" ^ e, "na"))
