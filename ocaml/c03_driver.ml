(* C03 driver.  Two modes:
     c03_driver gen <seed> <tier> <out>   write model-side cases:  `rt <Type> <hex>` (schema-walk generated encodings,
                                          biased towards Conway-valid values) and `neg <Type> <hex>` (CDDL-INVALID
                                          encodings for the validator's negative self-check)
     c03_driver <cases> <impl>            model result + verdict per case
   I/O glue + PRNG only.  Encoding/decoding (enc/dec/wfv), the tree (to_item, parse_exact, encode_item) and the
   judge (cddl_ok_bytes on conway_env) are the extracted Coq functions. *)
let depth = nat_of_int 3
let names = [
  "TransactionInput"; "TransactionInputs"; "Credential"; "Credentials"; "Ed25519KeyHashes"; "DRep"; "Anchor";
  "UnitInterval"; "Relay"; "Relays"; "PoolMetadata"; "ProtocolVersion"; "ExUnits"; "ExUnitPrices"; "Certificate";
  "Certificates"; "Assets"; "MultiAsset"; "Value"; "Mint"; "Withdrawals"; "Voter"; "GovernanceActionId";
  "VotingProcedure"; "VotingProcedures"; "Costmdls"; "PoolVotingThresholds"; "DRepVotingThresholds";
  "ProtocolParamUpdate"; "Constitution"; "GovernanceAction"; "VotingProposal"; "VotingProposals"; "NativeScript";
  "NativeScripts"; "PlutusScripts"; "PlutusData"; "PlutusList"; "Redeemers"; "TransactionMetadatum";
  "GeneralTransactionMetadata"; "AuxiliaryData"; "ScriptRef"; "TransactionOutputLegacy"; "TransactionOutputLegacyDH";
  "TransactionOutputMap"; "TransactionOutput"; "TransactionOutputs"; "TransactionBody"; "Vkeywitness";
  "Vkeywitnesses"; "BootstrapWitness"; "BootstrapWitnesses"; "TransactionWitnessSet"; "Transaction"; "Int";
  "VRFCert"; "OperationalCert"; "HeaderBody"; "Header"; "HeaderBodyPraos"; "HeaderPraos"; "Block"; "BlockPraos" ]
let header_types = ["HeaderBody"; "Header"; "HeaderBodyPraos"; "HeaderPraos"; "Block"; "BlockPraos"]
let table : (string * (schema * rule)) list =
  let ps = conway_pairs depth in
  if List.length ps <> List.length names then failwith "names/conway_pairs length mismatch";
  List.combine names ps

let judge (r : rule) (bs : n list) : bool = cddl_ok_bytes conway_env r bs
let diag (r : rule) (bs : n list) : string =
  match int_of_n (cddl_diag conway_env r bs) with
  | 0 -> "ok" | 1 -> "ill-formed-cbor" | 2 -> "non-shortest-head" | 3 -> "indefinite-where-definite-required"
  | 4 -> "chunked-string-shape" | _ -> "rule-mismatch"

(* ---------- PRNG (SplitMix64) ---------- *)
let st = ref 0L
let next () : int64 =
  st := Int64.add !st 0x9E3779B97F4A7C15L;
  let z = ref !st in
  z := Int64.mul (Int64.logxor !z (Int64.shift_right_logical !z 30)) 0xBF58476D1CE4E5B9L;
  z := Int64.mul (Int64.logxor !z (Int64.shift_right_logical !z 27)) 0x94D049BB133111EBL;
  Int64.logxor !z (Int64.shift_right_logical !z 31)
let below (n : int) : int = if n <= 0 then 0 else Int64.to_int (Int64.unsigned_rem (next ()) (Int64.of_int n))
let bz_u64 () : BZ.t = BZ.of_string (Printf.sprintf "%Lu" (next ()))
let edges = List.map BZ.of_string ["0";"1";"23";"24";"25";"255";"256";"65535";"65536";"4294967295";"4294967296";
                                   "9223372036854775807";"9223372036854775808";"18446744073709551614";"18446744073709551615"]
let small_edges = List.map BZ.of_string ["0";"1";"2";"23";"24";"255";"256";"1000";"65534";"65535"]
let gen_uint (bits : int) : BZ.t =
  let lim = BZ.shift_left BZ.one bits in
  let v = match below 12 with
    | 0 | 1 | 2 -> List.nth edges (below (List.length edges))
    | 3 | 4 | 5 -> List.nth small_edges (below (List.length small_edges))     (* inside every `uint .size 2` field *)
    | 6 -> BZ.of_int (below 1000)
    | 7 -> BZ.of_int (below 10_000_000)
    | 8 -> BZ.shift_right (bz_u64 ()) (below 64)
    | 9 -> BZ.pred lim
    | _ -> bz_u64 () in
  if BZ.lt v lim then v else BZ.rem v lim
let gen_bytes (len : int) : n list = List.init len (fun _ -> n_of_int (below 256))
let gen_text (len : int) : n list = List.init len (fun _ -> n_of_int (32 + below 95))
let gen_address () : n list =
  let net = below 2 in
  match below 4 with
  | 0 -> n_of_int (0x60 + 0x10 * below 2 + net) :: gen_bytes 28
  | 1 -> n_of_int (0xe0 + 0x10 * below 2 + net) :: gen_bytes 28
  | _ -> n_of_int (0x10 * below 4 + net) :: gen_bytes 56
let gen_reward_address () : n list = n_of_int (0xe0 + 0x10 * below 2 + below 2) :: gen_bytes 28

let rec slist_to_list = function SNil -> [] | SCons (s, r) -> s :: slist_to_list r
let rec vlist_to_list = function ANil -> [] | ACons (i, fs, r) -> (i, fs) :: vlist_to_list r
let rec clist_to_list = function CNil -> [] | CCons (d, s, r) -> (d, s) :: clist_to_list r
let rec klist_to_list = function KNil -> [] | KCons (k, p, s, r) -> (k, p, s) :: klist_to_list r

let coll_len (lo : int) (size : int) : int =
  if size <= 0 then lo else
  match below 12 with
  | 0 -> lo | 1 | 2 | 3 -> max lo 1 | 4 | 5 -> max lo 2 | 6 -> max lo 3
  | 7 -> if size >= 4 then max lo 24 else max lo 2
  | 8 -> if size >= 5 then max lo 25 else max lo 1
  | _ -> max lo (below 5)
let cmp_bytes (a : n list) (b : n list) : int = compare (List.map int_of_n a) (List.map int_of_n b)

let rec gen (s : schema) (size : int) : val0 =
  match s with
  | SUint lim -> let l = bz_of_n lim in
    let v = gen_uint 64 in VNat (n_of_bz (if BZ.lt v l then v else BZ.rem v l))
  | SNint -> VNeg (n_of_bz (gen_uint 64))
  | SBytes (lo, hi) ->
    let lo = int_of_n lo and hi = (try int_of_n hi with _ -> max_int) in
    let hi' = min hi (lo + 300) in
    let len = match below 6 with 0 -> lo | 1 -> hi' | 2 -> min hi' (max lo 24) | 3 -> min hi' (max lo 23) | _ -> lo + below (hi' - lo + 1) in
    VBytes (gen_bytes len)
  | SText hi -> let hi = int_of_n hi in
    let len = match below 5 with 0 -> 0 | 1 -> hi | 2 -> min hi 24 | _ -> below (hi + 1) in VText (gen_text len)
  | SBool -> VBool (below 2 = 0)
  | SArr fs -> VList (List.map (fun f -> gen f (size - 1)) (slist_to_list fs))
  | SMap fs ->
    let mode = below 6 in
    VStruct (List.map (fun (_, p, f) ->
        match p with
        | Req -> Some (gen f (size - 1))
        | Opt | OptNE ->
          let take = (mode = 1) || (mode >= 2 && below 3 = 0) in
          if not take then None else begin
            let v = ref (gen f (size - 1)) in
            let tries = ref 0 in
            while p = OptNE && is_empty_val !v && !tries < 20 do v := gen f (max 1 (size - 1)); incr tries done;
            if p = OptNE && is_empty_val !v then None else Some !v
          end) (klist_to_list fs))
  | SVar alts -> let l = vlist_to_list alts in let i = below (List.length l) in
    let (_, fs) = List.nth l i in VVar (nat_of_int i, List.map (fun f -> gen f (size - 1)) (slist_to_list fs))
  | SArrOf (lo, s') -> let n = coll_len (int_of_n lo) size in VList (List.init n (fun _ -> gen s' (size - 2)))
  | SSetOf s' -> let n = coll_len 0 size in VList (dedup s' (List.init n (fun _ -> gen s' (size - 2))))
  | SMapOf (lo, ord, k, v) ->
    let n = coll_len (int_of_n lo) size in
    let l = List.init n (fun _ -> (gen k (size - 2), gen v (size - 2))) in
    let l = dedup_keys k l in
    (* a Vec-backed map may repeat a key (the library keeps and re-emits it; the Conway rule rejects it: verdict na) *)
    let l = if ord = KMulti && below 6 = 0 then (match l with (a, b) :: r -> (a, b) :: (a, gen v (size - 2)) :: r | [] -> []) else l in
    let l = match ord with
      | KMulti -> l
      | KInsertion -> l
      | KBytewise -> List.sort (fun (a, _) (b, _) -> cmp_bytes (enc k a) (enc k b)) l
      | KRewardAddr -> List.sort (fun (a, _) (b, _) -> cmp_bytes (reward_sort_key (enc k a)) (reward_sort_key (enc k b))) l in
    VMap l
  | SNullable s' -> if below 3 = 0 then VNull else gen s' size
  | STag (t, SArr (SCons (SUint _, SCons (SUint _, SNil)))) when int_of_n t = 30 && below 10 > 0 ->
    (* a rational: mostly a proper unit interval (numerator <= denominator, denominator > 0) *)
    let d = BZ.max BZ.one (gen_uint 64) in
    let nmr = match below 4 with 0 -> BZ.zero | 1 -> d | _ -> BZ.rem (gen_uint 64) (BZ.succ d) in
    VList [VNat (n_of_bz nmr); VNat (n_of_bz d)]
  | STag (_, s') -> gen s' size
  | SInBytes s' -> gen s' size
  | SChoice alts | STagChoice alts -> let l = clist_to_list alts in
    let k = List.length l in
    let i = if size <= 0 then k - 1 - below (min k 3) else below k in
    let (_, s') = List.nth l i in VAlt (nat_of_int i, gen s' (size - 1))
  | SArrAny s' -> let n = coll_len 0 size in
    (* indefinite only when non-empty, as the API-built lists are *)
    VAlt (nat_of_int (if n = 0 then (if below 8 = 0 then 1 else 0) else below 2), VList (List.init n (fun _ -> gen s' (size - 2))))
  | SNamed (id, s') ->
    let id = int_of_n id in
    if id = 1 then VBytes (gen_address ())
    else if id = 2 then VBytes (gen_reward_address ())
    else if id = 6 then VBytes (n_of_int (1 + below 255) :: gen_bytes (match below 4 with 0 -> 8 | 1 -> 63 | 2 -> 64 + below 3 | _ -> 8 + below 120))
    else if id = 7 then (match gen s' size with
        | VList (_ :: rest) -> VList (VNat (n_of_bz (if below 3 = 0 then BZ.of_int 128 else BZ.add (BZ.of_int 128) (BZ.shift_right (bz_u64 ()) (1 + below 63)))) :: rest)
        | v -> v)
    else begin
      (* rejection sampling into the writer image (Coq predicate writer_form) *)
      let v = ref (gen s' size) in
      let tries = ref 0 in
      while not (writer_form (n_of_int id) !v) && !tries < 50 do v := gen s' (max size 2 + !tries / 10); incr tries done;
      (* a multi-asset value is only written when some policy has an asset: make one if sampling found none *)
      if id = 5 && not (writer_form (n_of_int id) !v) then
        VList [VNat (n_of_bz (gen_uint 64)); VMap [(VBytes (gen_bytes 28), VMap [(VBytes (gen_bytes (below 33)), VNat (n_of_bz (gen_uint 64)))])]]
      else !v
    end
  | SArrOpt (fs, o) ->
    let l = List.map (fun f -> gen f (size - 1)) (slist_to_list fs) in
    if below 2 = 0 then VAlt (nat_of_int 0, VList l) else VAlt (nat_of_int 1, VList (gen o (size - 1) :: l))
  | SBBytes -> let len = (match below 8 with 0 -> 0 | 1 -> 1 | 2 -> 63 | 3 -> 64 | 4 -> 65 | 5 -> 128 | 6 -> 129 + below 100 | _ -> below 64) in
    VBytes (gen_bytes len)
and dedup s' l =
  let seen = Hashtbl.create 16 in
  List.filter (fun v -> let e = enc s' v in if Hashtbl.mem seen e then false else (Hashtbl.add seen e (); true)) l
and dedup_keys k l =
  let seen = Hashtbl.create 16 in
  List.filter (fun (a, _) -> let e = enc k a in if Hashtbl.mem seen e then false else (Hashtbl.add seen e (); true)) l

(* ---------- negative corpus: CDDL-INVALID mutations of valid encodings ---------- *)
let struct_map_types = ["TransactionBody"; "TransactionWitnessSet"; "ProtocolParamUpdate"; "TransactionOutputMap"]
let record_types = ["TransactionInput"; "Anchor"; "UnitInterval"; "PoolMetadata"; "ProtocolVersion"; "ExUnits"; "ExUnitPrices";
                    "GovernanceActionId"; "VotingProcedure"; "PoolVotingThresholds"; "DRepVotingThresholds"; "Constitution";
                    "VotingProposal"; "TransactionOutputLegacy"; "Vkeywitness"; "BootstrapWitness"; "Transaction";
                    "Credential"; "DRep"; "Relay"; "Certificate"; "Voter"; "GovernanceAction"; "NativeScript"]
let set_types = ["TransactionInputs"; "Credentials"; "Ed25519KeyHashes"; "Certificates"; "VotingProposals"; "Vkeywitnesses"; "BootstrapWitnesses"]
let definite_array_types = record_types @ ["Relays"; "NativeScripts"; "PlutusScripts"; "TransactionOutputs"]
let definite_map_types = struct_map_types @ ["Assets"; "MultiAsset"; "Mint"; "Withdrawals"; "VotingProcedures"; "Costmdls";
                                             "GeneralTransactionMetadata"]
let n0 = n_of_int 0
let widen_first (bs : n list) : n list option =
  match bs with
  | [] -> None
  | b :: t ->
    let b = int_of_n b in let m = b / 32 and ai = b mod 32 in
    if m = 7 then None
    else if ai < 24 then Some (n_of_int (m * 32 + 24) :: n_of_int ai :: t)
    else if ai = 24 then Some (n_of_int (m * 32 + 25) :: n0 :: t)
    else if ai = 25 then Some (n_of_int (m * 32 + 26) :: n0 :: n0 :: t)
    else if ai = 26 then Some (n_of_int (m * 32 + 27) :: n0 :: n0 :: n0 :: n0 :: t)
    else None
let rec zero_first_qty (it : item) : item option =      (* first unsigned quantity inside a (nested) map value *)
  match it with
  | IMap (d, (k, v) :: t) ->
    (match v with
     | IUint _ -> Some (IMap (d, (k, IUint n0) :: t))
     | IMap _ -> (match zero_first_qty v with Some v' -> Some (IMap (d, (k, v') :: t)) | None -> None)
     | _ -> None)
  | IArray (d, [c; m]) -> (match zero_first_qty m with Some m' -> Some (IArray (d, [c; m'])) | None -> None)
  | _ -> None
let rec empty_first_policy (it : item) : item option =
  match it with
  | IMap (d, (k, IMap (d2, _)) :: t) -> Some (IMap (d, (k, IMap (d2, [])) :: t))
  | IArray (d, [c; m]) -> (match empty_first_policy m with Some m' -> Some (IArray (d, [c; m'])) | None -> None)
  | _ -> None
let mutations (name : string) (it : item) (bs : n list) : (string * n list) list =
  let e = encode_item in
  let out = ref [] in
  let add tag x = out := (tag, x) :: !out in
  add "trailing-byte" (bs @ [n0]);
  (match List.rev bs with _ :: r when r <> [] -> add "truncated" (List.rev r) | _ -> ());
  (match widen_first bs with Some x -> add "non-shortest-head" x | None -> ());
  (match it with
   | IMap (true, ((IUint k, v) :: t as kvs)) when List.mem name struct_map_types ->
     add "wrong-key" (e (IMap (true, (IUint (n_of_int 99), v) :: t)));
     add "duplicate-key" (e (IMap (true, (IUint k, v) :: kvs)));
     if name = "TransactionBody" || name = "TransactionOutputMap" then add "missing-required-key" (e (IMap (true, t)))
   | _ -> ());
  (match it with
   | IMap (true, kvs) when List.mem name definite_map_types -> add "indefinite-map" (e (IMap (false, kvs)))
   | _ -> ());
  (match it with
   | IArray (true, xs) when List.mem name record_types ->
     add "wrong-arity-extra" (e (IArray (true, xs @ [IUint n0])));
     (match List.rev xs with _ :: r -> add "wrong-arity-short" (e (IArray (true, List.rev r))) | [] -> ())
   | _ -> ());
  (match it with
   | IArray (true, xs) when List.mem name definite_array_types -> add "indefinite-array" (e (IArray (false, xs)))
   | _ -> ());
  (match it with
   | ITag (t, (IArray (true, xs) as a)) when List.mem name set_types && int_of_n t = 258 ->
     add "missing-tag-258" (e a);
     add "wrong-tag" (e (ITag (n_of_int 259, a)));
     (match xs with x :: _ -> add "duplicate-set-element" (e (ITag (t, IArray (true, x :: xs)))) | [] -> ());
     add "indefinite-set-array" (e (ITag (t, IArray (false, xs))))
   | _ -> ());
  (if List.mem name ["Assets"; "MultiAsset"; "Value"] then begin
     (match zero_first_qty it with Some x when name <> "Value" || (match it with IArray _ -> true | _ -> false) -> add "zero-asset-quantity" (e x) | _ -> ());
     (if name <> "Assets" then match empty_first_policy it with Some x -> add "empty-policy" (e x) | None -> ())
   end);
  (match it with
   | IArray (true, [h; IUint _]) when name = "TransactionInput" || name = "GovernanceActionId" ->
     add "index-65536" (e (IArray (true, [h; IUint (n_of_int 65536)])))
   | _ -> ());
  (match it with
   | IBytes b when name = "PlutusData" && List.length b >= 1 && List.length b <= 64 ->
     add "chunked-short-bytes" (e (IBytesChunked [b]))
   | _ -> ());
  (match it with
   | IArray (true, [IText u; h]) when name = "Anchor" -> add "chunked-text" (e (IArray (true, [ITextChunked [u]; h])))
   | _ -> ());
  List.rev !out

let gen_mode seed tier out =
  st := Int64.of_string seed;
  ignore (next ());
  let oc = open_out out in
  let per = if tier = "thorough" then 300 else 30 in
  let negs = ref [] in
  List.iter (fun (name, (s, r)) ->
      (* block types: few and small (a block of bodies and witness sets is large), no rejection sampling: header bodies are
         judged by class, not by the Conway rule alone *)
      let is_block = List.mem name header_types in
      let per = if is_block then (if tier = "thorough" then 40 else 6) else per in
      for i = 0 to per - 1 do
        let size = if is_block then [| 0; 1; 2; 1; 2; 3 |].(i mod 6) else [| 0; 1; 2; 3; 4; 5; 6; 8 |].(i mod 8) in
        (* rejection sampling towards Conway-valid values (the judge itself decides); every 6th case is kept as drawn *)
        let v = ref (gen s size) in
        let tries = ref 0 in
        let valid x = wfv s x && judge r (enc s x) in
        while not is_block && i mod 6 <> 5 && not (valid !v) && !tries < 12 do v := gen s size; incr tries done;
        let v = !v in
        let bs = enc s v in
        if wfv s v then begin
          Printf.fprintf oc "rt %s %s\n" name (hex_of_bytes bs);
          if not is_block && i < (if tier = "thorough" then 40 else 6) && judge r bs then
            (match parse_exact bs with
             | Ok it -> List.iter (fun (tag, x) -> negs := (name, tag, x) :: !negs) (mutations name it bs)
             | _ -> ())
        end else Printf.eprintf "generator produced a schema-invalid value for %s (skipped)\n" name
      done) table;
  List.iter (fun (name, tag, x) -> Printf.fprintf oc "neg %s %s %s\n" name tag (hex_of_bytes x)) (List.rev !negs);
  close_out oc

let starts_with (p : string) (s : string) : bool =
  String.length s >= String.length p && String.sub s 0 (String.length p) = p

let run_mode () = run_driver (fun toks impl ->
  let lookup name = List.assoc_opt name table in
  match toks with
  | ["rt"; name; hexs] ->
    (match lookup name with
     | None -> ("skip unknown-type", "na")
     | Some (s, r) ->
       let bs = bytes_of_hex hexs in
       (match dec s bs with
        | Ok (v, []) ->
          let mbs = enc s v in
          let re = hex_of_bytes mbs in
          (* the property's domain on the model side: a schema-valid value in the writers' image that satisfies the
             Conway constraints on TYPED values (Coq: conforms; theorem C03_conforms: then the model's bytes conform) *)
          let dom = wfv s v && refined writer_form s v && re = hexs && conforms_bytes conway_env s r v in
          let verdict =
            match impl with
            | ["ok"; h] when List.mem name header_types ->
              (* block types: the Conway rule, else the two flat header-body shapes the library writes (KnownClass.v) *)
              (match int_of_n (judge_class_header r (bytes_of_hex h)) with
               | 0 -> "holds"
               | 4 -> if wfv s v && re = hexs then "fails:C03-praos-header-body-flat" else "na"
               | 5 -> "na"                                  (* pre-Babbage two-VRF header body: no Conway rule *)
               | _ -> if dom then "fails:-" else "na")
            | ["ok"; h] -> (match int_of_n (judge_class r (bytes_of_hex h)) with
                | 0 -> "holds"
                | c -> if not dom then "na" else if c = 1 then "fails:C03-mint-quantity-outside-int64" else "fails:-")
            | _ -> if dom then "fails:-" else "na" in
          ("ok " ^ re, verdict)
        | Ok (_, _) -> ("err", "na")
        | Err -> ("err", "na")
        | Panic -> ("panic", "na")
        | OutOfFuel -> ("outoffuel", "na")))
  | ["api"; name; label; _] | ["tx"; name; label] ->
    (match lookup name with
     | None -> ("skip unknown-type", "na")
     | Some (s, r) ->
       (match impl with
        | "ok" :: h :: given ->
          let bs = bytes_of_hex h in
          (* tx cases carry the values handed to the builder (inputs, collateral inputs, requested outputs) *)
          let gh = (match given with [g] -> Some g | _ -> None) in
          (* model result.  Route 1 (head `ok`): the bytes are enc s v for the schema-valid value v = dec s bytes, so the
             theorems about enc speak about them.  Route 2 (head `ok-tree`): the schema model does not cover this value
             (a legacy output WITH datum hash inside a body, or a value outside the schema's bounds built through a
             non-validating constructor); then only the independent reader ties them: parse_exact + shortest re-printing *)
          let m = (match dec s bs with
              | Ok (v, []) when wfv s v -> "ok " ^ hex_of_bytes (enc s v) ^ (match gh with Some g -> " " ^ g | None -> "")
              | _ -> (match parse_exact bs with
                  | Ok it -> "ok-tree " ^ hex_of_bytes (encode_item it) ^ (match gh with Some g -> " " ^ g | None -> "")
                  | _ -> "unparseable")) in
          let verdict =
            (match int_of_n (match gh with Some g -> judge_class_tx r bs (bytes_of_hex g) | None -> judge_class r bs) with
             | 0 -> "holds"
             | 3 -> "fails:C03-builder-echoes-degenerate-given-values"
             | c -> if starts_with "nv_" label then "na"      (* non-validating constructor: outside the quantifier *)
               else if c = 1 then "fails:C03-mint-quantity-outside-int64" else "fails:-") in
          (m, verdict)
        | ["builderr"] -> ("builderr", "na")
        | ["rejected"] -> ("rejected", "na")          (* the validating constructor refused the value: nothing is emitted *)
        | _ -> ("ok ?", "fails:-")))
  | ["neg"; name; _; hexs] ->
    (match lookup name with
     | None -> ("skip unknown-type", "na")
     | Some (_, r) -> ("neg", if judge r (bytes_of_hex hexs) then "fails:validator-accepts-invalid" else "holds"))
  | ["diag"; name; hexs] ->
    (match lookup name with
     | None -> ("skip unknown-type", "na")
     | Some (_, r) -> ("diag " ^ diag r (bytes_of_hex hexs), "na"))
  | ["gen_invalid"; _; _] -> ("gen_invalid", "na")
  | _ -> ("driver-badcase", "na"))

let () =
  if Array.length Sys.argv >= 5 && Sys.argv.(1) = "gen" then gen_mode Sys.argv.(2) Sys.argv.(3) Sys.argv.(4)
  else run_mode ()
