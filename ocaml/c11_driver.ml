(* C11 driver: parses case lines, runs the extracted model (model_dec / model_enc / model_b58) and
   the extracted judge on the implementation's observation.  I/O glue only; the case and observation
   syntax is documented in harness/src/bin/c11.rs. *)
let split_on c s = String.split_on_char c s
let hx = hex_of_bytes
let unhx = bytes_of_hex
let hexopt = function None -> "~" | Some b -> hx b
let unhexopt s = if s = "~" then None else Some (unhx s)

let show_cred = function KeyHash h -> "k:" ^ hx h | ScriptHash h -> "s:" ^ hx h
let parse_cred k h = if k = "s" then ScriptHash (unhx h) else KeyHash (unhx h)

let show_byron (b : byron_addr) : string =
  Printf.sprintf "byr:%s:%s:%s:%s" (hx b.b_addr) (hexopt b.b_dpath)
    (match b.b_magic with None -> "~" | Some m -> string_of_n m)
    (match b.b_type with ATPubKey -> "0" | ATScript -> "1" | ATRedeem -> "2")

let show_addr (a : address) : string = match a with
  | Base (n, p, s) -> Printf.sprintf "base:%s:%s:%s" (string_of_n n) (show_cred p) (show_cred s)
  | Ptr (n, p, q) -> Printf.sprintf "ptr:%s:%s:%s:%s:%s" (string_of_n n) (show_cred p)
                       (string_of_n q.p_slot) (string_of_n q.p_tx) (string_of_n q.p_cert)
  | Enterprise (n, p) -> Printf.sprintf "ent:%s:%s" (string_of_n n) (show_cred p)
  | Reward (n, p) -> Printf.sprintf "rwd:%s:%s" (string_of_n n) (show_cred p)
  | Byron b -> show_byron b
  | Malformed bs -> "mal:" ^ hx bs

let parse_byron_fields = function
  | [a; dp; m; t] ->
    { b_addr = unhx a; b_dpath = unhexopt dp;
      b_magic = (if m = "~" then None else Some (n_of_string m));
      b_type = (match t with "0" -> ATPubKey | "1" -> ATScript | "2" -> ATRedeem | _ -> failwith "byron type") }
  | _ -> failwith "byron desc"

let parse_addr (s : string) : address = match split_on ':' s with
  | ["base"; n; pk; ph; sk; sh] -> Base (n_of_string n, parse_cred pk ph, parse_cred sk sh)
  | ["ptr"; n; pk; ph; sl; tx; ce] ->
    Ptr (n_of_string n, parse_cred pk ph, { p_slot = n_of_string sl; p_tx = n_of_string tx; p_cert = n_of_string ce })
  | ["ent"; n; pk; ph] -> Enterprise (n_of_string n, parse_cred pk ph)
  | ["rwd"; n; pk; ph] -> Reward (n_of_string n, parse_cred pk ph)
  | "byr" :: r -> Byron (parse_byron_fields r)
  | ["mal"; h] -> Malformed (unhx h)
  | _ -> failwith ("address desc: " ^ s)

let show_res (f : 'a -> string) = function
  | Ok a -> "ok:" ^ f a | Err -> "err" | Panic -> "panic" | OutOfFuel -> "fuel"
let parse_res (f : string -> 'a) (s : string) = match s with
  | "err" -> Err | "panic" -> Panic | "fuel" -> OutOfFuel
  | _ -> if String.length s > 3 && String.sub s 0 3 = "ok:" then Ok (f (String.sub s 3 (String.length s - 3)))
         else failwith ("result: " ^ s)

let kind_name = function KBase -> "base" | KPointer -> "ptr" | KEnterprise -> "ent" | KReward -> "rwd"
                       | KByron -> "byr" | KMalformed -> "mal"
let kind_of_name = function "base" -> KBase | "ptr" -> KPointer | "ent" -> KEnterprise | "rwd" -> KReward
                          | "byr" -> KByron | "mal" -> KMalformed | s -> failwith ("kind: " ^ s)
let show_acc (x : acc) : string =
  Printf.sprintf "%s/%s/%s" (kind_name x.a_kind)
    (match x.a_net with Ok n -> string_of_n n | _ -> "err")
    (match x.a_pay with None -> "~" | Some c -> show_cred c)
let parse_acc (s : string) : acc = match split_on '/' s with
  | [k; n; p] ->
    { a_kind = kind_of_name k; a_net = (if n = "err" then Err else Ok (n_of_string n));
      a_pay = (if p = "~" then None else match split_on ':' p with [c; h] -> Some (parse_cred c h) | _ -> failwith "acc cred") }
  | _ -> failwith "acc"

(* fields "X=value" of an observation *)
let fields (toks : string list) : (string * string) list =
  List.filter_map (fun t -> match String.index_opt t '=' with
      | Some i -> Some (String.sub t 0 i, String.sub t (i + 1) (String.length t - i - 1))
      | None -> None) toks
let get tbl k = try List.assoc k tbl with Not_found -> failwith ("missing field " ^ k)

let text_hex (cs : n list) : string = hx cs          (* text = hex of its bytes *)

let short_kind (r : address result) = match r with
  | Ok a -> kind_name (kind a) | Err -> "err" | Panic -> "panic" | OutOfFuel -> "fuel"

let show_dec (o : dec_obs) : string =
  Printf.sprintf "%s/%s S=%s H=%s A=%s R=%s S2=%s E=%s W=%s Y=%s K=%s"
    (short_kind o.d_strict) (short_kind o.d_embedded)
    (show_res show_addr o.d_strict) (show_res show_addr o.d_hex)
    (match o.d_acc with None -> "-" | Some x -> show_acc x)
    (hexopt o.d_rebytes) (show_res show_addr o.d_reparsed)
    (show_res show_addr o.d_embedded) (hexopt o.d_emb_bytes)
    (show_res show_byron o.d_byron) (show_res show_addr o.d_reward)

let parse_byron_desc s = match split_on ':' s with "byr" :: r -> parse_byron_fields r | _ -> failwith "byron desc"

let parse_dec (impl : string list) : dec_obs =
  let t = fields impl in
  { d_strict = parse_res parse_addr (get t "S");
    d_hex = parse_res parse_addr (get t "H");
    d_acc = (let a = get t "A" in if a = "-" then None else Some (parse_acc a));
    d_rebytes = unhexopt (get t "R");
    d_reparsed = parse_res parse_addr (get t "S2");
    d_embedded = parse_res parse_addr (get t "E");
    d_emb_bytes = unhexopt (get t "W");
    d_byron = parse_res parse_byron_desc (get t "Y");
    d_reward = parse_res parse_addr (get t "K") }

let show_enc (o : enc_obs) : string =
  Printf.sprintf "%s T=%s D=%s M=%s A=%s P=%s B=%s Q=%s X=%s Z=%s"
    (short_kind o.e_strict)
    (hx o.e_bytes) (show_res show_addr o.e_strict) (show_res show_addr o.e_embedded) (show_acc o.e_acc)
    (match o.e_prefix with Ok p -> text_hex p | _ -> "err")
    (match o.e_text with Some s -> text_hex s | None -> "none")
    (match o.e_bech32 with Some r -> show_res show_addr r | None -> "none")
    (match o.e_base58 with None -> "~" | Some s -> text_hex s)
    (match o.e_base58_back with None -> "~" | Some r -> show_res show_byron r)

let parse_enc (impl : string list) : enc_obs =
  let t = fields impl in
  { e_bytes = unhx (get t "T");
    e_strict = parse_res parse_addr (get t "D");
    e_embedded = parse_res parse_addr (get t "M");
    e_acc = parse_acc (get t "A");
    e_prefix = (let p = get t "P" in if p = "err" then Err else Ok (unhx p));
    e_text = (let b = get t "B" in if b = "none" then None else Some (unhx b));
    e_bech32 = (let q = get t "Q" in if q = "none" then None else Some (parse_res parse_addr q));
    e_base58 = (let x = get t "X" in if x = "~" then None else Some (unhx x));
    e_base58_back = (let z = get t "Z" in if z = "~" then None else Some (parse_res parse_byron_desc z)) }

(* bech32 codec observations: U symbols, E text, D decoded (hrp, symbols), F from_base32 of those *)
let show_pair = function None -> "none" | Some (h, d) -> Printf.sprintf "ok:%s:%s" (hx h) (hx d)
let parse_pair s = if s = "none" then None else
    match split_on ':' s with ["ok"; h; d] -> Some (unhx h, unhx d) | _ -> failwith "pair"
let show_back = function None -> "~" | Some r -> show_res hx r
let parse_back s = if s = "~" then None else Some (parse_res unhx s)
let show_bech (o : bech_obs) : string =
  Printf.sprintf "%s U=%s E=%s D=%s F=%s"
    (match o.h_text, o.h_back with None, _ -> "refused" | Some _, Some (Ok _) -> "ok" | Some _, _ -> "pad")
    (hx o.h_u5) (match o.h_text with Some s -> hx s | None -> "none") (show_pair o.h_dec) (show_back o.h_back)
let parse_bech (impl : string list) : bech_obs =
  let t = fields impl in
  { h_u5 = unhx (get t "U"); h_text = (let e = get t "E" in if e = "none" then None else Some (unhx e));
    h_dec = parse_pair (get t "D"); h_back = parse_back (get t "F") }

let class_name (c : n) : string = match int_of_n c with
  | 1 -> "C11-embedded-trailing-bytes"
  | 2 -> "C11-embedded-padded-pointer"
  | 3 -> "C11-embedded-noncanonical-byron"
  | 4 -> "C11-huge-declared-length"
  | _ -> "-"
let show_verdict = function
  | Holds -> "holds" | NotApplicable -> "na" | Fails c -> "fails:" ^ class_name c

let is_panic_obs impl = (impl = ["panic"])

let () = run_driver (fun toks impl ->
  match toks with
  | ["dec"; h] ->
    let data = unhx h in
    let m = show_dec (model_dec data) in
    let v = (match impl with
        | [] -> "na"
        | _ -> if is_panic_obs impl then "fails:" ^ class_name (panic_class data)
          else show_verdict (judge_dec data (parse_dec impl))) in
    (m, v)
  | ["enc"; d; p] ->
    let a = parse_addr d in
    let prefix = if p = "~" then None else Some (unhx p) in
    let m = show_enc (model_enc prefix a) in
    let v = (match impl with
        | [] -> "na"
        | _ -> if is_panic_obs impl then "fails:-" else show_verdict (judge_enc prefix a (parse_enc impl))) in
    (m, v)
  | ["b58a"; t] ->
    let text = unhx t in
    let r = byron_from_base58 text in
    let m = Printf.sprintf "%s V=%s Z=%s X=%s" (match r with Ok _ -> "ok" | _ -> "err")
        (match r with Ok _ -> "1" | _ -> "0") (show_res show_byron r)
        (match r with Ok b -> hx (byron_to_base58 b) | _ -> "~") in
    let v = (match impl with
        | [] -> "na"
        | _ -> if is_panic_obs impl then "fails:-" else
            let f = fields impl in
            show_verdict (judge_b58a text (get f "V" = "1") (parse_res parse_byron_desc (get f "Z"))
                            (let x = get f "X" in if x = "~" then None else Some (unhx x)))) in
    (m, v)
  | ["becha"; h; d] ->
    let hrp = unhx h and payload = unhx d in
    let text = b32_encode hrp payload in
    let r = (match text with Some s -> Some (from_bech32 b32_decode s) | None -> None) in
    let m = Printf.sprintf "%s B=%s Q=%s"
        (match r with Some x -> short_kind x | None -> "refused")
        (match text with Some s -> hx s | None -> "none")
        (match r with Some x -> show_res show_addr x | None -> "none") in
    let v = (match impl with
        | [] -> "na"
        | _ -> if is_panic_obs impl then "fails:-" else
            let f = fields impl in
            let q = get f "Q" in
            if q = "none" then (if text = None then "holds" else "fails:-")
            else show_verdict (judge_becha payload (parse_res parse_addr q))) in
    (m, v)
  | ["bech"; h; d] ->
    let hrp = unhx h and data = unhx d in
    let m = show_bech (model_bech hrp data) in
    let v = (match impl with
        | [] -> "na"
        | _ -> if is_panic_obs impl then "fails:-" else show_verdict (judge_bech hrp data (parse_bech impl))) in
    (m, v)
  | ["bech5"; h; d] ->
    let m = show_bech (model_bech5 (unhx h) (unhx d)) in
    (m, (match impl with [] -> "na" | _ -> if is_panic_obs impl then "fails:-" else "holds"))
  | ["bechd"; t] ->
    let (dec, back) = model_bechd (unhx t) in
    let m = Printf.sprintf "%s D=%s F=%s" (match dec with Some _ -> "ok" | None -> "err") (show_pair dec) (show_back back) in
    (m, (match impl with [] -> "na" | _ -> if is_panic_obs impl then "fails:-" else "holds"))
  | ["b58"; h] ->
    let bs = unhx h in
    let (s, back) = model_b58 bs in
    let m = Printf.sprintf "%s N=%s O=%s" (match back with Ok _ -> "ok" | _ -> "err") (text_hex s) (show_res hx back) in
    let v = (match impl with
        | [] -> "na"
        | _ -> if is_panic_obs impl then "fails:-" else
            let t = fields impl in show_verdict (judge_b58 bs (parse_res unhx (get t "O")))) in
    (m, v)
  | ["b58d"; h] ->
    let r = base58_decode (unhx h) in
    let m = Printf.sprintf "%s O=%s" (match r with Ok _ -> "ok" | _ -> "err") (show_res hx r) in
    (m, (match impl with [] -> "na" | _ -> if is_panic_obs impl then "fails:-" else "holds"))
  | _ -> failwith "case syntax")
