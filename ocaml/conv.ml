(* Conversions between text tokens and the extracted Coq datatypes (positive / n / z / list).
   I/O glue only: no property logic lives here.  Included textually after the extracted model. *)
let rec pos_of_bz (v : BZ.t) : positive =
  if BZ.equal v BZ.one then XH
  else let r = pos_of_bz (BZ.shift_right v 1) in
       if BZ.testbit v 0 then XI r else XO r
let n_of_bz (v : BZ.t) : n = if BZ.sign v <= 0 then N0 else Npos (pos_of_bz v)
let z_of_bz (v : BZ.t) : z =
  let s = BZ.sign v in
  if s = 0 then Z0 else if s > 0 then Zpos (pos_of_bz v) else Zneg (pos_of_bz (BZ.neg v))
let rec bz_of_pos = function
  | XH -> BZ.one
  | XO p -> BZ.shift_left (bz_of_pos p) 1
  | XI p -> BZ.succ (BZ.shift_left (bz_of_pos p) 1)
let bz_of_n = function N0 -> BZ.zero | Npos p -> bz_of_pos p
let bz_of_z = function Z0 -> BZ.zero | Zpos p -> bz_of_pos p | Zneg p -> BZ.neg (bz_of_pos p)
let n_of_string s = n_of_bz (BZ.of_string s)
let z_of_string s = z_of_bz (BZ.of_string s)
let string_of_n v = BZ.to_string (bz_of_n v)
let string_of_z v = BZ.to_string (bz_of_z v)
let n_of_int i = n_of_bz (BZ.of_int i)
let int_of_n v = BZ.to_int (bz_of_n v)
let rec nat_of_int i = if i <= 0 then O else S (nat_of_int (i - 1))
let rec int_of_nat = function O -> 0 | S k -> 1 + int_of_nat k

(* bytes: lowercase hex, "-" for the empty string; model side = list of n *)
let bytes_of_hex (s : string) : n list =
  if s = "-" then [] else begin
    let l = String.length s / 2 in
    let rec go i acc = if i < 0 then acc
      else go (i - 1) (n_of_int (int_of_string ("0x" ^ String.sub s (2 * i) 2)) :: acc) in
    go (l - 1) []
  end
let hex_of_bytes (bs : n list) : string =
  if bs = [] then "-" else begin
    let b = Buffer.create 64 in
    List.iter (fun x -> Buffer.add_string b (Printf.sprintf "%02x" (int_of_n x))) bs;
    Buffer.contents b
  end

let split_ws (l : string) : string list =
  List.filter (fun s -> s <> "") (String.split_on_char ' ' (String.trim l))

(* Read cases (and the implementation's results, when given) line by line; [f idx toks impl]
   returns (model_result, verdict) with verdict in {"holds"; "fails:<class>"; "na"}. *)
let run_driver (f : string list -> string list -> string * string) : unit =
  let cases = open_in Sys.argv.(1) in
  (* implementation results are matched by case index, not by line position *)
  let impl : (string, string list) Hashtbl.t = Hashtbl.create 1024 in
  (if Array.length Sys.argv > 2 then begin
     let c = open_in Sys.argv.(2) in
     (try while true do
         match split_ws (input_line c) with
         | idx :: r -> Hashtbl.replace impl idx r
         | [] -> ()
       done with End_of_file -> ());
     close_in c
   end);
  (try
    while true do
      let line = input_line cases in
      let t = String.trim line in
      if t = "" || t.[0] = '#' then () else
      match split_ws line with
      | [] -> ()
      | idx :: toks ->
        let itoks = (try Hashtbl.find impl idx with Not_found -> []) in
        let (m, v) = (try f toks itoks with
                      | Stack_overflow -> ("driver-stack-overflow", "na")
                      | Failure e -> ("driver-failure:" ^ e, "na")
                      | Not_found -> ("driver-notfound", "na")
                      | Invalid_argument e -> ("driver-invalid:" ^ e, "na")) in
        Printf.printf "%s %s\t%s\n" idx m v
    done
  with End_of_file -> ());
  flush stdout
