//! Shared utilities for the correspondence harness (no property logic here).
pub mod util;
