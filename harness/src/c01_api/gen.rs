//! C01 stream (ii): values built through the PUBLIC API (constructors, setters, `add`, `insert`), i.e. values that
//! need not be in the image of the decoders: present-but-empty optional collections, maps filled by repeated and
//! unsorted `insert`s, sets with duplicate `add`s, every `new_*` constructor of every variant type.
//!
//! Every value is a deterministic function of (type name, plan, seed):
//!   * `plan`  = the decisions of the TOP-LEVEL builder, one base-36 digit each, in the order the builder asks for them
//!               (presence state of each optional field: 0 absent / 1 present, and for optional collections
//!               2 = present-but-empty; variant index; collection fill pattern);
//!   * `seed`  = PRNG seed for every other decision (nested values, integer width classes, bytes).
//! so a case line `api <Type> <plan> <seed>` replays exactly.
use cardano_serialization_lib::*;
use csl_verif_harness::util::Rng;
use std::collections::VecDeque;

pub struct G {
    pub rng: Rng,
    plan: VecDeque<u8>,
    /// number of optional collections set to Some(empty) anywhere inside the value
    pub empties: u32,
    /// number of repeated insertions / duplicate adds performed
    pub dups: u32,
    /// the arities the top-level builder asked for while its plan was empty (used to enumerate plans)
    pub asked: Vec<u8>,
    recording: bool,
    depth: u32,
    /// nesting depth of the recursive types (native scripts, Plutus data, metadata)
    pub ndepth: u32,
}

pub const MAXD: u32 = 3;

impl G {
    pub fn new(seed: u64, plan: &[u8]) -> G {
        G { rng: Rng::new(seed), plan: plan.iter().cloned().collect(), empties: 0, dups: 0, asked: vec![], recording: false, depth: 0, ndepth: 0 }
    }
    /// probe run: records the arities of the decisions the top-level builder takes
    pub fn probe(seed: u64) -> G { let mut g = G::new(seed, &[]); g.recording = true; g }
    /// a decision of the top-level builder (plan driven), or a random one further down
    pub fn pick(&mut self, n: u64) -> u64 {
        if self.depth == 0 {
            if self.recording { self.asked.push(n as u8); }
            if let Some(p) = self.plan.pop_front() { return (p as u64) % n; }
        }
        self.rng.below(n)
    }
    /// optional scalar field: false = absent
    pub fn opt(&mut self) -> bool { if self.depth == 0 { self.pick(2) == 1 } else { self.rng.below(5) < 2 } }
    /// optional collection field: 0 absent, 1 present non-empty, 2 present but empty
    pub fn tri(&mut self) -> u64 {
        if self.depth == 0 { self.pick(3) } else { match self.rng.below(10) { 0..=4 => 0, 5..=7 => 1, _ => 2 } }
    }
    pub fn nest<T>(&mut self, f: impl FnOnce(&mut G) -> T) -> T { self.depth += 1; let r = f(self); self.depth -= 1; r }
    pub fn room(&self) -> bool { self.depth < 4 }
    pub fn below(&mut self, n: u64) -> u64 { self.rng.below(n) }
    pub fn u64(&mut self) -> u64 { self.rng.u64_edge() }
    pub fn u32(&mut self) -> u32 {
        const E: [u32; 13] = [0, 1, 23, 24, 25, 255, 256, 65535, 65536, 65537, u32::MAX - 1, u32::MAX, 1_000_000];
        match self.rng.below(4) { 0 | 1 => *self.rng.pick(&E), 2 => self.rng.below(1000) as u32, _ => self.rng.next() as u32 }
    }
    pub fn u16(&mut self) -> u16 {
        const E: [u16; 8] = [0, 1, 23, 24, 255, 256, 65534, 65535];
        match self.rng.below(3) { 0 | 1 => *self.rng.pick(&E), _ => self.rng.next() as u16 }
    }
    pub fn bytes(&mut self, n: usize) -> Vec<u8> { self.rng.bytes(n) }
    pub fn small_len(&mut self) -> usize {
        match self.rng.below(12) { 0 => 0, 1..=4 => 1, 5..=7 => 2, 8 => 3, 9 => 5, 10 => if self.depth <= 1 { 24 } else { 2 }, _ => if self.depth <= 1 { 25 } else { 1 } }
    }
    /// number of items of a NON-EMPTY collection
    pub fn some_len(&mut self) -> usize { let n = self.small_len(); if n == 0 { 1 } else { n } }
    pub fn bn(&mut self) -> BigNum { BigNum::from(self.u64()) }
}

// ---------- leaves ----------
pub fn keyhash(g: &mut G) -> Ed25519KeyHash { Ed25519KeyHash::from_bytes(g.bytes(28)).unwrap() }
pub fn scripthash(g: &mut G) -> ScriptHash { ScriptHash::from_bytes(g.bytes(28)).unwrap() }
pub fn txhash(g: &mut G) -> TransactionHash { TransactionHash::from_bytes(g.bytes(32)).unwrap() }
pub fn int(g: &mut G) -> Int {
    match g.below(4) {
        0 => Int::new(&g.bn()),
        1 => Int::new_negative(&g.bn()),
        2 => Int::new_i32(g.u32() as i32),
        _ => Int::new_negative(&BigNum::from(1 + g.below(30))),
    }
}
pub fn bigint(g: &mut G) -> BigInt {
    let s = match g.below(9) {
        0 => format!("{}", g.u64()),
        1 => format!("-{}", g.u64()),
        2 => "18446744073709551615".to_string(),
        3 => "18446744073709551616".to_string(),
        4 => "-18446744073709551616".to_string(),
        5 => "-18446744073709551617".to_string(),
        6 => { let mut s = String::from(if g.below(2) == 0 { "" } else { "-" }); s.push_str("1"); for _ in 0..(20 + g.below(200)) { s.push((b'0' + g.below(10) as u8) as char); } s }
        7 => "0".to_string(),
        _ => format!("{}", g.below(100)),
    };
    BigInt::from_str(&s).unwrap()
}
pub fn unit_interval(g: &mut G) -> UnitInterval { UnitInterval::new(&g.bn(), &g.bn()) }
pub fn credential(g: &mut G) -> Credential {
    if g.pick(2) == 0 { Credential::from_keyhash(&keyhash(g)) } else { Credential::from_scripthash(&scripthash(g)) }
}
pub fn reward_address(g: &mut G) -> RewardAddress { let n = g.below(2) as u8; RewardAddress::new(n, &g.nest(credential)) }
pub fn address(g: &mut G) -> Address {
    let net = g.below(2) as u8;
    match g.pick(4) {
        0 => EnterpriseAddress::new(net, &g.nest(credential)).to_address(),
        1 => BaseAddress::new(net, &g.nest(credential), &g.nest(credential)).to_address(),
        2 => RewardAddress::new(net, &g.nest(credential)).to_address(),
        // slot / tx index / certificate index over the whole u64 range (10-group variable-length naturals at >= 2^63)
        _ => { let p = Pointer::new_pointer(&g.bn(), &g.bn(), &g.bn());
               PointerAddress::new(net, &g.nest(credential), &p).to_address() }
    }
}
fn text(g: &mut G, max: usize) -> String {
    let n = match g.below(6) { 0 => 0, 1 => max, 2 => 24.min(max), 3 => 23.min(max), _ => g.below(max as u64 + 1) as usize };
    (0..n).map(|_| (32 + g.below(95) as u8) as char).collect()
}
pub fn url(g: &mut G) -> URL { URL::new(text(g, 128)).unwrap() }
pub fn anchor(g: &mut G) -> Anchor { Anchor::new(&url(g), &AnchorDataHash::from_bytes(g.bytes(32)).unwrap()) }
pub fn ipv4(g: &mut G) -> Ipv4 { Ipv4::new(g.bytes(4)).unwrap() }
pub fn ipv6(g: &mut G) -> Ipv6 { Ipv6::new(g.bytes(16)).unwrap() }
pub fn dns_a(g: &mut G) -> DNSRecordAorAAAA { DNSRecordAorAAAA::new(text(g, 128)).unwrap() }
pub fn dns_srv(g: &mut G) -> DNSRecordSRV { DNSRecordSRV::new(text(g, 128)).unwrap() }
pub fn single_host_addr(g: &mut G) -> SingleHostAddr {
    let p = if g.opt() { Some(g.u16()) } else { None };
    let a = if g.opt() { Some(ipv4(g)) } else { None };
    let b = if g.opt() { Some(ipv6(g)) } else { None };
    SingleHostAddr::new(p, a, b)
}
pub fn single_host_name(g: &mut G) -> SingleHostName { let p = if g.opt() { Some(g.u16()) } else { None }; SingleHostName::new(p, &dns_a(g)) }
pub fn multi_host_name(g: &mut G) -> MultiHostName { MultiHostName::new(&dns_srv(g)) }
pub fn relay(g: &mut G) -> Relay {
    match g.pick(3) {
        0 => Relay::new_single_host_addr(&g.nest(single_host_addr)),
        1 => Relay::new_single_host_name(&g.nest(single_host_name)),
        _ => Relay::new_multi_host_name(&g.nest(multi_host_name)),
    }
}
/// fill pattern of a stand-alone collection: 0 empty, 1 one item, 2 several, 3 several with repeats
fn fill(g: &mut G) -> (usize, bool) {
    match g.pick(4) { 0 => (0, false), 1 => (1, false), 2 => (g.some_len().max(2), false), _ => (g.some_len().max(2), true) }
}
pub fn relays(g: &mut G) -> Relays {
    let (n, rep) = fill(g); let mut r = Relays::new(); let mut last = None;
    for i in 0..n { let x = if rep && i % 2 == 1 { g.dups += 1; last.clone().unwrap() } else { g.nest(relay) }; r.add(&x); last = Some(x); }
    r
}
pub fn pool_metadata(g: &mut G) -> PoolMetadata { PoolMetadata::new(&url(g), &PoolMetadataHash::from_bytes(g.bytes(32)).unwrap()) }
pub fn keyhashes_n(g: &mut G, n: usize, rep: bool) -> Ed25519KeyHashes {
    let mut s = Ed25519KeyHashes::new(); let mut last: Option<Ed25519KeyHash> = None;
    for i in 0..n {
        let x = if rep && i % 2 == 1 { g.dups += 1; last.clone().unwrap() } else { keyhash(g) };
        s.add(&x); last = Some(x);
    }
    s
}
pub fn keyhashes(g: &mut G) -> Ed25519KeyHashes { let (n, rep) = fill(g); keyhashes_n(g, n, rep) }
pub fn credentials_n(g: &mut G, n: usize, rep: bool) -> Credentials {
    let mut s = Credentials::new(); let mut last: Option<Credential> = None;
    for i in 0..n { let x = if rep && i % 2 == 1 { g.dups += 1; last.clone().unwrap() } else { g.nest(credential) }; s.add(&x); last = Some(x); }
    s
}
pub fn credentials(g: &mut G) -> Credentials { let (n, rep) = fill(g); credentials_n(g, n, rep) }
pub fn pool_params(g: &mut G) -> PoolParams {
    let md = if g.opt() { Some(g.nest(pool_metadata)) } else { None };
    PoolParams::new(&keyhash(g), &VRFKeyHash::from_bytes(g.bytes(32)).unwrap(), &g.bn(), &g.bn(), &unit_interval(g),
        &g.nest(reward_address), &g.nest(keyhashes), &g.nest(relays), md)
}
pub fn drep(g: &mut G) -> DRep {
    match g.pick(5) {
        0 => DRep::new_key_hash(&keyhash(g)), 1 => DRep::new_script_hash(&scripthash(g)), 2 => DRep::new_always_abstain(),
        3 => DRep::new_always_no_confidence(), _ => DRep::new_from_credential(&g.nest(credential)),
    }
}
pub fn voter(g: &mut G) -> Voter {
    match g.pick(5) {
        0 => Voter::new_constitutional_committee_hot_credential(&Credential::from_keyhash(&keyhash(g))),
        1 => Voter::new_constitutional_committee_hot_credential(&Credential::from_scripthash(&scripthash(g))),
        2 => Voter::new_drep_credential(&Credential::from_keyhash(&keyhash(g))),
        3 => Voter::new_drep_credential(&Credential::from_scripthash(&scripthash(g))),
        _ => Voter::new_stake_pool_key_hash(&keyhash(g)),
    }
}
pub fn gov_action_id(g: &mut G) -> GovernanceActionId { GovernanceActionId::new(&txhash(g), g.u32()) }
pub fn voting_procedure(g: &mut G) -> VotingProcedure {
    let k = match g.pick(3) { 0 => VoteKind::No, 1 => VoteKind::Yes, _ => VoteKind::Abstain };
    if g.opt() { VotingProcedure::new_with_anchor(k, &g.nest(anchor)) } else { VotingProcedure::new(k) }
}
pub fn voting_procedures_n(g: &mut G, n: usize, rep: bool) -> VotingProcedures {
    let mut vp = VotingProcedures::new();
    for _ in 0..n {
        let v = g.nest(voter);
        let k = 1 + g.below(3);
        let mut last: Option<GovernanceActionId> = None;
        for j in 0..k {
            let id = if rep && j % 2 == 1 { g.dups += 1; last.clone().unwrap() } else { g.nest(gov_action_id) };
            vp.insert(&v, &id, &g.nest(voting_procedure)); last = Some(id);
        }
    }
    vp
}
pub fn voting_procedures(g: &mut G) -> VotingProcedures { let (n, rep) = fill(g); voting_procedures_n(g, n, rep) }

// ---------- certificates ----------
pub fn mir_to_stake_creds(g: &mut G) -> MIRToStakeCredentials {
    let (n, rep) = fill(g); let mut m = MIRToStakeCredentials::new(); let mut last: Option<Credential> = None;
    for i in 0..n { let c = if rep && i % 2 == 1 { g.dups += 1; last.clone().unwrap() } else { g.nest(credential) }; m.insert(&c, &int(g)); last = Some(c); }
    m
}
pub fn mir(g: &mut G) -> MoveInstantaneousReward {
    let pot = if g.pick(2) == 0 { MIRPot::Reserves } else { MIRPot::Treasury };
    if g.pick(2) == 0 { MoveInstantaneousReward::new_to_other_pot(pot, &g.bn()) } else { MoveInstantaneousReward::new_to_stake_creds(pot, &g.nest(mir_to_stake_creds)) }
}
pub fn stake_registration(g: &mut G) -> StakeRegistration {
    if g.pick(2) == 0 { StakeRegistration::new(&g.nest(credential)) } else { StakeRegistration::new_with_explicit_deposit(&g.nest(credential), &g.bn()) }
}
pub fn stake_deregistration(g: &mut G) -> StakeDeregistration {
    if g.pick(2) == 0 { StakeDeregistration::new(&g.nest(credential)) } else { StakeDeregistration::new_with_explicit_refund(&g.nest(credential), &g.bn()) }
}
pub fn stake_delegation(g: &mut G) -> StakeDelegation { StakeDelegation::new(&g.nest(credential), &keyhash(g)) }
pub fn pool_registration(g: &mut G) -> PoolRegistration { PoolRegistration::new(&g.nest(pool_params)) }
pub fn pool_retirement(g: &mut G) -> PoolRetirement { PoolRetirement::new(&keyhash(g), g.u32()) }
pub fn genesis_key_delegation(g: &mut G) -> GenesisKeyDelegation {
    GenesisKeyDelegation::new(&GenesisHash::from_bytes(g.bytes(28)).unwrap(), &GenesisDelegateHash::from_bytes(g.bytes(28)).unwrap(), &VRFKeyHash::from_bytes(g.bytes(32)).unwrap())
}
pub fn mir_cert(g: &mut G) -> MoveInstantaneousRewardsCert { MoveInstantaneousRewardsCert::new(&g.nest(mir)) }
pub fn committee_hot_auth(g: &mut G) -> CommitteeHotAuth { CommitteeHotAuth::new(&g.nest(credential), &g.nest(credential)) }
pub fn committee_cold_resign(g: &mut G) -> CommitteeColdResign {
    if g.pick(2) == 0 { CommitteeColdResign::new(&g.nest(credential)) } else { CommitteeColdResign::new_with_anchor(&g.nest(credential), &g.nest(anchor)) }
}
pub fn drep_deregistration(g: &mut G) -> DRepDeregistration { DRepDeregistration::new(&g.nest(credential), &g.bn()) }
pub fn drep_registration(g: &mut G) -> DRepRegistration {
    if g.pick(2) == 0 { DRepRegistration::new(&g.nest(credential), &g.bn()) } else { DRepRegistration::new_with_anchor(&g.nest(credential), &g.bn(), &g.nest(anchor)) }
}
pub fn drep_update(g: &mut G) -> DRepUpdate {
    if g.pick(2) == 0 { DRepUpdate::new(&g.nest(credential)) } else { DRepUpdate::new_with_anchor(&g.nest(credential), &g.nest(anchor)) }
}
pub fn stake_and_vote_delegation(g: &mut G) -> StakeAndVoteDelegation { StakeAndVoteDelegation::new(&g.nest(credential), &keyhash(g), &g.nest(drep)) }
pub fn stake_registration_and_delegation(g: &mut G) -> StakeRegistrationAndDelegation { StakeRegistrationAndDelegation::new(&g.nest(credential), &keyhash(g), &g.bn()) }
pub fn stake_vote_registration_and_delegation(g: &mut G) -> StakeVoteRegistrationAndDelegation { StakeVoteRegistrationAndDelegation::new(&g.nest(credential), &keyhash(g), &g.nest(drep), &g.bn()) }
pub fn vote_delegation(g: &mut G) -> VoteDelegation { VoteDelegation::new(&g.nest(credential), &g.nest(drep)) }
pub fn vote_registration_and_delegation(g: &mut G) -> VoteRegistrationAndDelegation { VoteRegistrationAndDelegation::new(&g.nest(credential), &g.nest(drep), &g.bn()) }
pub fn certificate(g: &mut G) -> Certificate {
    match g.pick(21) {
        0 => Certificate::new_stake_registration(&g.nest(stake_registration)),
        1 => Certificate::new_stake_deregistration(&g.nest(stake_deregistration)),
        2 => Certificate::new_stake_delegation(&g.nest(stake_delegation)),
        3 => Certificate::new_pool_registration(&g.nest(pool_registration)),
        4 => Certificate::new_pool_retirement(&g.nest(pool_retirement)),
        5 => Certificate::new_genesis_key_delegation(&g.nest(genesis_key_delegation)),
        6 => Certificate::new_move_instantaneous_rewards_cert(&g.nest(mir_cert)),
        7 => Certificate::new_committee_hot_auth(&g.nest(committee_hot_auth)),
        8 => Certificate::new_committee_cold_resign(&g.nest(committee_cold_resign)),
        9 => Certificate::new_drep_deregistration(&g.nest(drep_deregistration)),
        10 => Certificate::new_drep_registration(&g.nest(drep_registration)),
        11 => Certificate::new_drep_update(&g.nest(drep_update)),
        12 => Certificate::new_stake_and_vote_delegation(&g.nest(stake_and_vote_delegation)),
        13 => Certificate::new_stake_registration_and_delegation(&g.nest(stake_registration_and_delegation)),
        14 => Certificate::new_stake_vote_registration_and_delegation(&g.nest(stake_vote_registration_and_delegation)),
        15 => Certificate::new_vote_delegation(&g.nest(vote_delegation)),
        16 => Certificate::new_vote_registration_and_delegation(&g.nest(vote_registration_and_delegation)),
        17 => Certificate::new_reg_cert(&StakeRegistration::new_with_explicit_deposit(&g.nest(credential), &g.bn())).unwrap(),
        18 => Certificate::new_unreg_cert(&StakeDeregistration::new_with_explicit_refund(&g.nest(credential), &g.bn())).unwrap(),
        19 => Certificate::new_stake_registration(&StakeRegistration::new(&g.nest(credential))),
        _ => Certificate::new_stake_deregistration(&StakeDeregistration::new(&g.nest(credential))),
    }
}
pub fn certificates_n(g: &mut G, n: usize, rep: bool) -> Certificates {
    let mut s = Certificates::new(); let mut last: Option<Certificate> = None;
    for i in 0..n { let x = if rep && i % 2 == 1 { g.dups += 1; last.clone().unwrap() } else { g.nest(certificate) }; s.add(&x); last = Some(x); }
    s
}
pub fn certificates(g: &mut G) -> Certificates { let (n, rep) = fill(g); certificates_n(g, n, rep) }

// ---------- values ----------
pub fn asset_name(g: &mut G) -> AssetName {
    let n = match g.below(6) { 0 => 0, 1 => 32, 2 => 23, 3 => 24, _ => g.below(33) as usize };
    AssetName::new(g.bytes(n)).unwrap()
}
/// state of a nested collection: 0 empty, 1 non-empty in random (unsorted) insertion order, 2 with repeated keys
fn nstate(g: &mut G) -> u64 { match g.below(8) { 0 => 0, 1 | 2 => 2, _ => 1 } }
pub fn assets_n(g: &mut G, n: usize, rep: bool) -> Assets {
    let mut a = Assets::new(); let mut last: Option<AssetName> = None;
    for i in 0..n { let k = if rep && i % 2 == 1 { g.dups += 1; last.clone().unwrap() } else { asset_name(g) }; a.insert(&k, &g.bn()); last = Some(k); }
    a
}
pub fn assets(g: &mut G) -> Assets { let (n, rep) = fill(g); assets_n(g, n, rep) }
pub fn multiasset_n(g: &mut G, n: usize, rep: bool, allow_empty_inner: bool) -> MultiAsset {
    let mut m = MultiAsset::new(); let mut last: Option<ScriptHash> = None;
    for i in 0..n {
        let p = if rep && i % 2 == 1 { g.dups += 1; last.clone().unwrap() } else { scripthash(g) };
        let st = if allow_empty_inner { nstate(g) } else { 1 + g.below(2) };
        let k = g.some_len().min(4);
        let inner = match st { 0 => Assets::new(), 1 => assets_n(g, k, false), _ => assets_n(g, k.max(2), true) };
        m.insert(&p, &inner);
        if g.below(4) == 0 { m.set_asset(&p, &asset_name(g), &g.bn()); }
        last = Some(p);
    }
    m
}
pub fn multiasset(g: &mut G) -> MultiAsset { let (n, rep) = fill(g); let e = g.pick(2) == 1; multiasset_n(g, n, rep, e) }
pub fn value(g: &mut G) -> Value {
    // coin: zero / width classes; multiasset: none / empty / non-empty / non-empty with an empty Assets under a policy
    let coin = if g.pick(2) == 0 { BigNum::zero() } else { g.bn() };
    match g.pick(6) {
        0 => Value::new(&coin),
        1 => Value::new_with_assets(&coin, &MultiAsset::new()),
        2 => { let n = g.some_len().min(3); Value::new_with_assets(&coin, &multiasset_n(g, n, false, false)) }
        3 => { let n = g.some_len().min(3).max(2); Value::new_with_assets(&coin, &multiasset_n(g, n, true, false)) }
        4 => { let mut v = Value::new(&coin); let n = g.some_len().min(3); v.set_multiasset(&multiasset_n(g, n, false, false)); v.set_coin(&g.bn()); v }
        _ => { let n = g.some_len().min(3); Value::new_from_assets(&multiasset_n(g, n, false, false)) }
    }
}
/// Value whose multiasset has a policy with an empty `Assets` (buildable; see notes/design/C01.md)
pub fn value_empty_inner(g: &mut G) -> Value {
    let n = g.some_len().min(3); let coin = g.bn();
    Value::new_with_assets(&coin, &multiasset_n(g, n, false, true))
}
pub fn mint_assets_n(g: &mut G, n: usize, rep: bool) -> MintAssets {
    let mut a = MintAssets::new(); let mut last: Option<AssetName> = None;
    for i in 0..n {
        let k = if rep && i % 2 == 1 { g.dups += 1; last.clone().unwrap() } else { asset_name(g) };
        // zero quantities are refused by insert
        let q = loop { let q = int(g); if q.as_i32_or_nothing() != Some(0) && q.to_str() != "0" { break q; } };
        a.insert(&k, &q).unwrap(); last = Some(k);
    }
    a
}
pub fn mint_assets(g: &mut G) -> MintAssets { let (n, rep) = fill(g); mint_assets_n(g, n, rep) }
pub fn mint_n(g: &mut G, n: usize, rep: bool) -> Mint {
    let mut m = Mint::new(); let mut last: Option<ScriptHash> = None;
    for i in 0..n {
        let p = if rep && i % 2 == 1 { g.dups += 1; last.clone().unwrap() } else { scripthash(g) };
        let k = if g.below(8) == 0 { 0 } else { g.some_len().min(4) };
        let rep2 = k > 0 && g.below(4) == 0;
        m.insert(&p, &mint_assets_n(g, if rep2 { k.max(2) } else { k }, rep2)); last = Some(p);
    }
    m
}
pub fn mint(g: &mut G) -> Mint {
    match g.pick(5) {
        0 => Mint::new(),
        1 => Mint::new_from_entry(&scripthash(g), &mint_assets_n(g, 1, false)),
        2 => { let n = g.some_len().max(2); mint_n(g, n, false) }
        3 => { let n = g.some_len().max(2); mint_n(g, n, true) }
        _ => { let mut m = Mint::new(); let p = scripthash(g); let a = mint_assets_n(g, 2, false); m.insert(&p, &a); m.insert(&p, &a); g.dups += 1; m }
    }
}
pub fn withdrawals_n(g: &mut G, n: usize, rep: bool) -> Withdrawals {
    let mut w = Withdrawals::new(); let mut last: Option<RewardAddress> = None;
    for i in 0..n { let k = if rep && i % 2 == 1 { g.dups += 1; last.clone().unwrap() } else { g.nest(reward_address) }; w.insert(&k, &g.bn()); last = Some(k); }
    w
}
pub fn withdrawals(g: &mut G) -> Withdrawals { let (n, rep) = fill(g); withdrawals_n(g, n, rep) }

// ---------- scripts ----------
pub fn native_scripts_n(g: &mut G, n: usize, rep: bool) -> NativeScripts {
    let mut s = NativeScripts::new(); let mut last: Option<NativeScript> = None;
    for i in 0..n { let x = if rep && i % 2 == 1 { g.dups += 1; last.clone().unwrap() } else { g.nest(native_script) }; s.add(&x); last = Some(x); }
    s
}
pub fn native_scripts(g: &mut G) -> NativeScripts { let (n, rep) = fill(g); native_scripts_n(g, n, rep) }
fn sub_scripts(g: &mut G) -> NativeScripts { let n = if g.ndepth + 1 >= MAXD { 0 } else { g.below(3) as usize }; native_scripts_n(g, n, false) }
pub fn native_script(g: &mut G) -> NativeScript {
    let leaf_only = g.ndepth >= MAXD;
    let k = g.pick(8);
    let k = if leaf_only && (1..=3).contains(&k) { 0 } else { k };
    match k {
        0 => NativeScript::new_script_pubkey(&ScriptPubkey::new(&keyhash(g))),
        1 => { g.ndepth += 1; let s = sub_scripts(g); g.ndepth -= 1; NativeScript::new_script_all(&ScriptAll::new(&s)) }
        2 => { g.ndepth += 1; let s = sub_scripts(g); g.ndepth -= 1; NativeScript::new_script_any(&ScriptAny::new(&s)) }
        3 => { g.ndepth += 1; let s = sub_scripts(g); g.ndepth -= 1; NativeScript::new_script_n_of_k(&ScriptNOfK::new(g.u32(), &s)) }
        4 => NativeScript::new_timelock_start(&TimelockStart::new_timelockstart(&g.bn())),
        5 => NativeScript::new_timelock_expiry(&TimelockExpiry::new_timelockexpiry(&g.bn())),
        6 => NativeScript::new_timelock_start(&TimelockStart::new(g.u32())),
        _ => NativeScript::new_timelock_expiry(&TimelockExpiry::new(g.u32())),
    }
}
pub fn plutus_script(g: &mut G) -> PlutusScript {
    let n = match g.below(6) { 0 => 0, 1 => 1, 2 => 23, 3 => 24, 4 => 256, _ => g.below(80) as usize };
    let b = g.bytes(n);
    match g.pick(4) { 0 => PlutusScript::new(b), 1 => PlutusScript::new_v2(b), 2 => PlutusScript::new_v3(b), _ => PlutusScript::new_with_version(b, &language(g)) }
}
pub fn language(g: &mut G) -> Language { match g.pick(3) { 0 => Language::new_plutus_v1(), 1 => Language::new_plutus_v2(), _ => Language::new_plutus_v3() } }
/// lang: None = mixed versions
pub fn plutus_scripts_n(g: &mut G, n: usize, rep: bool) -> PlutusScripts {
    let mut s = PlutusScripts::new(); let mut last: Option<PlutusScript> = None;
    for i in 0..n { let x = if rep && i % 2 == 1 { g.dups += 1; last.clone().unwrap() } else { g.nest(plutus_script) }; s.add(&x); last = Some(x); }
    s
}
pub fn plutus_scripts(g: &mut G) -> PlutusScripts { let (n, rep) = fill(g); plutus_scripts_n(g, n, rep) }

// ---------- Plutus data ----------
fn pdepth_ok(g: &G) -> bool { g.ndepth < MAXD }
pub fn plutus_list_n(g: &mut G, n: usize, rep: bool) -> PlutusList {
    let mut l = PlutusList::new(); let mut last: Option<PlutusData> = None;
    for i in 0..n { let x = if rep && i % 2 == 1 { g.dups += 1; last.clone().unwrap() } else { g.nest(plutus_data) }; l.add(&x); last = Some(x); }
    l
}
pub fn plutus_list(g: &mut G) -> PlutusList { let (n, rep) = fill(g); g.ndepth += 1; let l = plutus_list_n(g, n, rep); g.ndepth -= 1; l }
fn sub_list(g: &mut G) -> PlutusList { let n = if g.ndepth >= MAXD { 0 } else { g.below(3) as usize }; plutus_list_n(g, n, false) }
pub fn plutus_map(g: &mut G) -> PlutusMap {
    let (n, rep) = fill(g); g.ndepth += 1;
    let n = if g.ndepth > MAXD { 0 } else { n.min(4) };
    let mut m = PlutusMap::new(); let mut last: Option<PlutusData> = None;
    for i in 0..n {
        let k = if rep && i % 2 == 1 { g.dups += 1; last.clone().unwrap() } else { g.nest(plutus_data) };
        let mut vs = PlutusMapValues::new();
        let c = if rep { 1 + g.below(3) } else { 1 };
        for _ in 0..c { vs.add(&g.nest(plutus_data)); }
        if c > 1 { g.dups += 1; }
        m.insert(&k, &vs); last = Some(k);
    }
    g.ndepth -= 1; m
}
pub fn constr_plutus_data(g: &mut G) -> ConstrPlutusData {
    let alt = match g.pick(6) { 0 => g.below(7), 1 => 6, 2 => 7, 3 => 7 + g.below(121), 4 => 127, _ => 128 + g.u64() % 100000 };
    g.ndepth += 1; let l = sub_list(g); g.ndepth -= 1;
    ConstrPlutusData::new(&BigNum::from(alt), &l)
}
pub fn plutus_data(g: &mut G) -> PlutusData {
    let k = g.pick(9);
    // kinds 0..=5 are containers (also the empty ones); below the depth bound only leaves
    let k = if !pdepth_ok(g) && k < 6 { 6 + k % 3 } else { k };
    match k {
        0 => PlutusData::new_constr_plutus_data(&g.nest(constr_plutus_data)),
        1 => PlutusData::new_map(&g.nest(plutus_map)),
        2 => { g.ndepth += 1; let l = sub_list(g); g.ndepth -= 1; PlutusData::new_list(&l) }
        3 => { g.ndepth += 1; let d = g.nest(plutus_data); g.ndepth -= 1; PlutusData::new_single_value_constr_plutus_data(&BigNum::from(g.below(200)), &d) }
        4 => PlutusData::new_list(&PlutusList::new()),
        5 => PlutusData::new_empty_constr_plutus_data(&BigNum::from(g.below(300))),
        6 => PlutusData::new_integer(&bigint(g)),
        7 => { let n = match g.below(7) { 0 => 0, 1 => 64, 2 => 65, 3 => 128, 4 => 129 + g.below(100) as usize, _ => g.below(64) as usize }; PlutusData::new_bytes(g.bytes(n)) }
        _ => PlutusData::new_integer(&BigInt::from_str(&format!("{}", g.below(1000))).unwrap()),
    }
}
pub fn ex_units(g: &mut G) -> ExUnits { ExUnits::new(&g.bn(), &g.bn()) }
pub fn redeemer_tag(g: &mut G) -> RedeemerTag {
    match g.pick(6) { 0 => RedeemerTag::new_spend(), 1 => RedeemerTag::new_mint(), 2 => RedeemerTag::new_cert(), 3 => RedeemerTag::new_reward(), 4 => RedeemerTag::new_vote(), _ => RedeemerTag::new_voting_proposal() }
}
pub fn redeemer(g: &mut G) -> Redeemer { Redeemer::new(&g.nest(redeemer_tag), &g.bn(), &g.nest(plutus_data), &ex_units(g)) }
pub fn redeemers_n(g: &mut G, n: usize, rep: bool, array_form: bool) -> Redeemers {
    // the array form is only reachable by decoding an (empty) array and adding to it
    let mut r = if array_form { Redeemers::from_bytes(vec![0x80]).unwrap() } else { Redeemers::new() };
    let mut last: Option<Redeemer> = None;
    for i in 0..n { let x = if rep && i % 2 == 1 { g.dups += 1; last.clone().unwrap() } else { g.nest(redeemer) }; r.add(&x); last = Some(x); }
    r
}
pub fn redeemers(g: &mut G) -> Redeemers { let (n, rep) = fill(g); let a = g.pick(2) == 1; redeemers_n(g, n, rep, a) }

// ---------- metadata ----------
pub fn metadata_list(g: &mut G) -> MetadataList {
    let (n, _) = fill(g); g.ndepth += 1; let n = if g.ndepth > MAXD { 0 } else { n.min(4) };
    let mut l = MetadataList::new(); for _ in 0..n { l.add(&g.nest(metadatum)); } g.ndepth -= 1; l
}
pub fn metadata_map(g: &mut G) -> MetadataMap {
    let (n, rep) = fill(g); g.ndepth += 1; let n = if g.ndepth > MAXD { 0 } else { n.min(4) };
    let mut m = MetadataMap::new(); let mut last: Option<TransactionMetadatum> = None;
    for i in 0..n {
        let k = if rep && i % 2 == 1 { g.dups += 1; last.clone().unwrap() } else { g.nest(metadatum) };
        match g.below(6) {
            0 => { m.insert_str(&text(g, 64), &g.nest(metadatum)).unwrap(); }
            1 => { m.insert_i32(g.u32() as i32, &g.nest(metadatum)); }
            _ => { m.insert(&k, &g.nest(metadatum)); }
        }
        last = Some(k);
    }
    g.ndepth -= 1; m
}
pub fn metadatum(g: &mut G) -> TransactionMetadatum {
    let k = g.pick(5);
    let k = if g.ndepth >= MAXD && k < 2 { 2 + k } else { k };
    match k {
        0 => TransactionMetadatum::new_map(&g.nest(metadata_map)),
        1 => TransactionMetadatum::new_list(&g.nest(metadata_list)),
        2 => TransactionMetadatum::new_int(&int(g)),
        3 => { let n = match g.below(5) { 0 => 0, 1 => 64, 2 => 24, _ => g.below(65) as usize }; TransactionMetadatum::new_bytes(g.bytes(n)).unwrap() }
        _ => TransactionMetadatum::new_text(text(g, 64)).unwrap(),
    }
}
pub fn general_metadata_n(g: &mut G, n: usize, rep: bool) -> GeneralTransactionMetadata {
    let mut m = GeneralTransactionMetadata::new(); let mut last: Option<BigNum> = None;
    for i in 0..n { let k = if rep && i % 2 == 1 { g.dups += 1; last.clone().unwrap() } else { g.bn() }; m.insert(&k, &g.nest(metadatum)); last = Some(k); }
    m
}
pub fn general_metadata(g: &mut G) -> GeneralTransactionMetadata { let (n, rep) = fill(g); general_metadata_n(g, n, rep) }
pub fn auxiliary_data(g: &mut G) -> AuxiliaryData {
    // the parts of auxiliary data are plain optional fields: an empty part is written (as an empty map / array) and
    // comes back as Some(empty), so no normalisation applies and the decoded value must equal the built one
    let (a, b, c, pref) = (g.tri(), g.tri(), g.tri(), g.pick(2));
    let mut x = AuxiliaryData::new();
    match a { 1 => { let n = g.some_len().min(3); x.set_metadata(&general_metadata_n(g, n, false)); } 2 => { x.set_metadata(&GeneralTransactionMetadata::new()); } _ => {} }
    match b { 1 => { let n = g.some_len().min(3); x.set_native_scripts(&native_scripts_n(g, n, false)); } 2 => { x.set_native_scripts(&NativeScripts::new()); } _ => {} }
    match c { 1 => { let n = g.some_len().min(3); x.set_plutus_scripts(&plutus_scripts_n(g, n, false)); } 2 => { x.set_plutus_scripts(&PlutusScripts::new()); } _ => {} }
    if pref == 1 { x.set_prefer_alonzo_format(true); }
    x
}

// ---------- protocol parameters ----------
pub fn cost_model(g: &mut G) -> CostModel {
    let mut c = CostModel::new();
    match g.pick(3) {
        0 => {}
        1 => { let n = g.some_len(); for i in 0..n { c.set(i, &int(g)).unwrap(); } }
        _ => { c.set(3 + g.below(20) as usize, &int(g)).unwrap(); c.set(1, &int(g)).unwrap(); }   // out of order, zero filled
    }
    c
}
pub fn costmdls(g: &mut G) -> Costmdls {
    let mut m = Costmdls::new();
    match g.pick(4) {
        0 => {}
        1 => { m.insert(&g.nest(language), &g.nest(cost_model)); }
        2 => { m.insert(&Language::new_plutus_v3(), &g.nest(cost_model)); m.insert(&Language::new_plutus_v1(), &g.nest(cost_model)); m.insert(&Language::new_plutus_v2(), &g.nest(cost_model)); }
        _ => { m.insert(&Language::new_plutus_v2(), &g.nest(cost_model)); m.insert(&Language::new_plutus_v2(), &g.nest(cost_model)); g.dups += 1; }
    }
    m
}
pub fn ex_unit_prices(g: &mut G) -> ExUnitPrices { ExUnitPrices::new(&unit_interval(g), &unit_interval(g)) }
pub fn protocol_version(g: &mut G) -> ProtocolVersion { ProtocolVersion::new(g.u32(), g.u32()) }
pub fn nonce(g: &mut G) -> Nonce { if g.pick(2) == 0 { Nonce::new_identity() } else { Nonce::new_from_hash(g.bytes(32)).unwrap() } }
pub fn pool_voting_thresholds(g: &mut G) -> PoolVotingThresholds {
    PoolVotingThresholds::new(&unit_interval(g), &unit_interval(g), &unit_interval(g), &unit_interval(g), &unit_interval(g))
}
pub fn drep_voting_thresholds(g: &mut G) -> DRepVotingThresholds {
    let mut d = DRepVotingThresholds::new(&unit_interval(g), &unit_interval(g), &unit_interval(g), &unit_interval(g), &unit_interval(g),
        &unit_interval(g), &unit_interval(g), &unit_interval(g), &unit_interval(g), &unit_interval(g));
    if g.below(2) == 0 { d.set_treasury_withdrawal(&unit_interval(g)); d.set_motion_no_confidence(&unit_interval(g)); }
    d
}
pub fn protocol_param_update(g: &mut G) -> ProtocolParamUpdate {
    let p: Vec<bool> = (0..31).map(|_| g.opt()).collect();
    let mut u = ProtocolParamUpdate::new();
    if p[0] { u.set_minfee_a(&g.bn()); }
    if p[1] { u.set_minfee_b(&g.bn()); }
    if p[2] { u.set_max_block_body_size(g.u32()); }
    if p[3] { u.set_max_tx_size(g.u32()); }
    if p[4] { u.set_max_block_header_size(g.u32()); }
    if p[5] { u.set_key_deposit(&g.bn()); }
    if p[6] { u.set_pool_deposit(&g.bn()); }
    if p[7] { u.set_max_epoch(g.u32()); }
    if p[8] { u.set_n_opt(g.u32()); }
    if p[9] { u.set_pool_pledge_influence(&unit_interval(g)); }
    if p[10] { u.set_expansion_rate(&unit_interval(g)); }
    if p[11] { u.set_treasury_growth_rate(&unit_interval(g)); }
    if p[12] { u.set_protocol_version(&protocol_version(g)); }
    if p[13] { u.set_min_pool_cost(&g.bn()); }
    if p[14] { u.set_ada_per_utxo_byte(&g.bn()); }
    if p[15] { u.set_cost_models(&g.nest(costmdls)); }
    if p[16] { u.set_execution_costs(&ex_unit_prices(g)); }
    if p[17] { u.set_max_tx_ex_units(&ex_units(g)); }
    if p[18] { u.set_max_block_ex_units(&ex_units(g)); }
    if p[19] { u.set_max_value_size(g.u32()); }
    if p[20] { u.set_collateral_percentage(g.u32()); }
    if p[21] { u.set_max_collateral_inputs(g.u32()); }
    if p[22] { u.set_pool_voting_thresholds(&pool_voting_thresholds(g)); }
    if p[23] { u.set_drep_voting_thresholds(&g.nest(drep_voting_thresholds)); }
    if p[24] { u.set_min_committee_size(g.u32()); }
    if p[25] { u.set_committee_term_limit(g.u32()); }
    if p[26] { u.set_governance_action_validity_period(g.u32()); }
    if p[27] { u.set_governance_action_deposit(&g.bn()); }
    if p[28] { u.set_drep_deposit(&g.bn()); }
    if p[29] { u.set_drep_inactivity_period(g.u32()); }
    if p[30] { u.set_ref_script_coins_per_byte(&unit_interval(g)); }
    u
}
pub fn proposed_updates(g: &mut G) -> ProposedProtocolParameterUpdates {
    let (n, rep) = fill(g); let mut m = ProposedProtocolParameterUpdates::new(); let mut last: Option<GenesisHash> = None;
    for i in 0..n.min(3) {
        let k = if rep && i % 2 == 1 { g.dups += 1; last.clone().unwrap() } else { GenesisHash::from_bytes(g.bytes(28)).unwrap() };
        m.insert(&k, &g.nest(protocol_param_update)); last = Some(k);
    }
    m
}
pub fn update(g: &mut G) -> Update { Update::new(&g.nest(proposed_updates), g.u32()) }

// ---------- governance ----------
pub fn treasury_withdrawals(g: &mut G) -> TreasuryWithdrawals {
    let (n, rep) = fill(g); let mut m = TreasuryWithdrawals::new(); let mut last: Option<RewardAddress> = None;
    for i in 0..n { let k = if rep && i % 2 == 1 { g.dups += 1; last.clone().unwrap() } else { g.nest(reward_address) }; m.insert(&k, &g.bn()); last = Some(k); }
    m
}
pub fn constitution(g: &mut G) -> Constitution {
    if g.pick(2) == 0 { Constitution::new(&g.nest(anchor)) } else { Constitution::new_with_script_hash(&g.nest(anchor), &scripthash(g)) }
}
pub fn committee(g: &mut G) -> Committee {
    let (n, rep) = fill(g); let mut c = Committee::new(&unit_interval(g)); let mut last: Option<Credential> = None;
    for i in 0..n { let k = if rep && i % 2 == 1 { g.dups += 1; last.clone().unwrap() } else { g.nest(credential) }; c.add_member(&k, g.u32()); last = Some(k); }
    c
}
pub fn parameter_change_action(g: &mut G) -> ParameterChangeAction {
    let u = g.nest(protocol_param_update);
    match g.pick(4) {
        0 => ParameterChangeAction::new(&u),
        1 => ParameterChangeAction::new_with_action_id(&g.nest(gov_action_id), &u),
        2 => ParameterChangeAction::new_with_policy_hash(&u, &scripthash(g)),
        _ => ParameterChangeAction::new_with_policy_hash_and_action_id(&g.nest(gov_action_id), &u, &scripthash(g)),
    }
}
pub fn hard_fork_initiation_action(g: &mut G) -> HardForkInitiationAction {
    if g.pick(2) == 0 { HardForkInitiationAction::new(&protocol_version(g)) } else { HardForkInitiationAction::new_with_action_id(&g.nest(gov_action_id), &protocol_version(g)) }
}
pub fn treasury_withdrawals_action(g: &mut G) -> TreasuryWithdrawalsAction {
    if g.pick(2) == 0 { TreasuryWithdrawalsAction::new(&g.nest(treasury_withdrawals)) } else { TreasuryWithdrawalsAction::new_with_policy_hash(&g.nest(treasury_withdrawals), &scripthash(g)) }
}
pub fn no_confidence_action(g: &mut G) -> NoConfidenceAction {
    if g.pick(2) == 0 { NoConfidenceAction::new() } else { NoConfidenceAction::new_with_action_id(&g.nest(gov_action_id)) }
}
pub fn update_committee_action(g: &mut G) -> UpdateCommitteeAction {
    if g.pick(2) == 0 { UpdateCommitteeAction::new(&g.nest(committee), &g.nest(credentials)) }
    else { UpdateCommitteeAction::new_with_action_id(&g.nest(gov_action_id), &g.nest(committee), &g.nest(credentials)) }
}
pub fn new_constitution_action(g: &mut G) -> NewConstitutionAction {
    if g.pick(2) == 0 { NewConstitutionAction::new(&g.nest(constitution)) } else { NewConstitutionAction::new_with_action_id(&g.nest(gov_action_id), &g.nest(constitution)) }
}
pub fn governance_action(g: &mut G) -> GovernanceAction {
    match g.pick(7) {
        0 => GovernanceAction::new_parameter_change_action(&g.nest(parameter_change_action)),
        1 => GovernanceAction::new_hard_fork_initiation_action(&g.nest(hard_fork_initiation_action)),
        2 => GovernanceAction::new_treasury_withdrawals_action(&g.nest(treasury_withdrawals_action)),
        3 => GovernanceAction::new_no_confidence_action(&g.nest(no_confidence_action)),
        4 => GovernanceAction::new_new_committee_action(&g.nest(update_committee_action)),
        5 => GovernanceAction::new_new_constitution_action(&g.nest(new_constitution_action)),
        _ => GovernanceAction::new_info_action(&InfoAction::new()),
    }
}
pub fn voting_proposal(g: &mut G) -> VotingProposal { VotingProposal::new(&g.nest(governance_action), &g.nest(anchor), &g.nest(reward_address), &g.bn()) }
pub fn voting_proposals_n(g: &mut G, n: usize, rep: bool) -> VotingProposals {
    let mut s = VotingProposals::new(); let mut last: Option<VotingProposal> = None;
    for i in 0..n.min(3) { let x = if rep && i % 2 == 1 { g.dups += 1; last.clone().unwrap() } else { g.nest(voting_proposal) }; s.add(&x); last = Some(x); }
    s
}
pub fn voting_proposals(g: &mut G) -> VotingProposals { let (n, rep) = fill(g); voting_proposals_n(g, n, rep) }

// ---------- outputs, inputs, body ----------
pub fn script_ref(g: &mut G) -> ScriptRef {
    match g.pick(4) {
        0 => ScriptRef::new_native_script(&g.nest(native_script)),
        1 => ScriptRef::new_plutus_script(&PlutusScript::new(g.bytes(5))),
        2 => ScriptRef::new_plutus_script(&PlutusScript::new_v2(g.bytes(30))),
        _ => ScriptRef::new_plutus_script(&PlutusScript::new_v3(g.bytes(1))),
    }
}
pub fn tx_output(g: &mut G) -> TransactionOutput {
    let (d, s, v) = (g.pick(3), g.pick(2), g.pick(3));
    let val = match v { 0 => Value::new(&g.bn()), 1 => g.nest(value), _ => g.nest(value) };
    let mut o = TransactionOutput::new(&g.nest(address), &val);
    match d { 1 => o.set_data_hash(&DataHash::from_bytes(g.bytes(32)).unwrap()), 2 => o.set_plutus_data(&g.nest(plutus_data)), _ => {} }
    if s == 1 { o.set_script_ref(&g.nest(script_ref)); }
    o
}
pub fn tx_outputs(g: &mut G) -> TransactionOutputs {
    let (n, _) = fill(g); let mut o = TransactionOutputs::new(); for _ in 0..n.min(4) { o.add(&g.nest(tx_output)); } o
}
pub fn tx_input(g: &mut G) -> TransactionInput { TransactionInput::new(&txhash(g), g.u32()) }
pub fn tx_inputs_n(g: &mut G, n: usize, rep: bool) -> TransactionInputs {
    let mut s = TransactionInputs::new(); let mut last: Option<TransactionInput> = None;
    for i in 0..n { let x = if rep && i % 2 == 1 { g.dups += 1; last.clone().unwrap() } else { tx_input(g) }; s.add(&x); last = Some(x); }
    s
}
pub fn tx_inputs(g: &mut G) -> TransactionInputs { let (n, rep) = fill(g); tx_inputs_n(g, n, rep) }
pub fn network_id(g: &mut G) -> NetworkId { if g.pick(2) == 0 { NetworkId::testnet() } else { NetworkId::mainnet() } }

macro_rules! coll3 {
    ($g:expr, $st:expr, $empty:expr, $full:expr, $set:expr) => {
        match $st { 1 => { let v = $full; $set(&v); } 2 => { $g.empties += 1; let v = $empty; $set(&v); } _ => {} }
    };
}
pub fn tx_body(g: &mut G) -> TransactionBody {
    // decisions first (plan order): ttl certs withdrawals update auxhash validity mint scriptdatahash collateral
    // required_signers network_id collateral_return total_collateral reference_inputs voting_procedures voting_proposals
    // donation current_treasury_value
    let ttl = g.opt(); let certs = g.tri(); let wd = g.tri(); let upd = g.opt(); let aux = g.opt(); let vs = g.opt();
    let mint_s = g.tri(); let sdh = g.opt(); let coll = g.tri(); let rs = g.tri(); let nid = g.opt(); let cret = g.opt();
    let tcol = g.opt(); let refi = g.tri(); let vp = g.tri(); let vpr = g.tri(); let don = g.opt(); let ctv = g.opt();
    let ni = g.rng.below(3) as usize; let no = g.rng.below(3) as usize;
    let ins = g.nest(|g| tx_inputs_n(g, ni, false));
    let mut outs = TransactionOutputs::new(); for _ in 0..no { outs.add(&g.nest(tx_output)); }
    let mut b = if g.rng.below(2) == 0 { TransactionBody::new_tx_body(&ins, &outs, &g.bn()) } else {
        let t = if ttl { Some(g.u32()) } else { None }; TransactionBody::new(&ins, &outs, &g.bn(), t) };
    if ttl { b.set_ttl(&g.bn()); } else { b.remove_ttl(); }
    coll3!(g, certs, Certificates::new(), { let n = g.some_len().min(3); g.nest(|g| certificates_n(g, n, false)) }, |v| b.set_certs(v));
    coll3!(g, wd, Withdrawals::new(), { let n = g.some_len().min(3); g.nest(|g| withdrawals_n(g, n, false)) }, |v| b.set_withdrawals(v));
    if upd { b.set_update(&g.nest(update)); }
    if aux { b.set_auxiliary_data_hash(&AuxiliaryDataHash::from_bytes(g.bytes(32)).unwrap()); }
    if vs { if g.rng.below(2) == 0 { b.set_validity_start_interval(g.u32()); } else { b.set_validity_start_interval_bignum(&g.bn()); } }
    coll3!(g, mint_s, Mint::new(), { let n = g.some_len().min(3); let rep = g.rng.below(3) == 0; g.nest(|g| mint_n(g, if rep { n.max(2) } else { n }, rep)) }, |v| b.set_mint(v));
    if sdh { b.set_script_data_hash(&ScriptDataHash::from_bytes(g.bytes(32)).unwrap()); }
    coll3!(g, coll, TransactionInputs::new(), { let n = g.some_len().min(3); tx_inputs_n(g, n, false) }, |v| b.set_collateral(v));
    coll3!(g, rs, Ed25519KeyHashes::new(), { let n = g.some_len().min(3); keyhashes_n(g, n, false) }, |v| b.set_required_signers(v));
    if nid { b.set_network_id(&g.nest(network_id)); }
    if cret { b.set_collateral_return(&g.nest(tx_output)); }
    if tcol { b.set_total_collateral(&g.bn()); }
    coll3!(g, refi, TransactionInputs::new(), { let n = g.some_len().min(3); tx_inputs_n(g, n, false) }, |v| b.set_reference_inputs(v));
    coll3!(g, vp, VotingProcedures::new(), { let n = g.some_len().min(3); g.nest(|g| voting_procedures_n(g, n, false)) }, |v| b.set_voting_procedures(v));
    coll3!(g, vpr, VotingProposals::new(), { let n = g.some_len().min(2); g.nest(|g| voting_proposals_n(g, n, false)) }, |v| b.set_voting_proposals(v));
    if don { b.set_donation(&g.bn()); }
    if ctv { b.set_current_treasury_value(&g.bn()); }
    b
}

// ---------- witnesses ----------
pub fn vkey(g: &mut G) -> Vkey { Vkey::new(&PublicKey::from_bytes(&g.bytes(32)).unwrap()) }
pub fn signature(g: &mut G) -> Ed25519Signature { Ed25519Signature::from_bytes(g.bytes(64)).unwrap() }
pub fn vkeywitness(g: &mut G) -> Vkeywitness { Vkeywitness::new(&vkey(g), &signature(g)) }
pub fn vkeywitnesses_n(g: &mut G, n: usize, rep: bool) -> Vkeywitnesses {
    let mut s = Vkeywitnesses::new(); let mut last: Option<Vkeywitness> = None;
    for i in 0..n { let x = if rep && i % 2 == 1 { g.dups += 1; last.clone().unwrap() } else { vkeywitness(g) }; s.add(&x); last = Some(x); }
    s
}
pub fn vkeywitnesses(g: &mut G) -> Vkeywitnesses { let (n, rep) = fill(g); vkeywitnesses_n(g, n, rep) }
pub fn bootstrap_witness(g: &mut G) -> BootstrapWitness {
    let n = match g.below(4) { 0 => 0, 1 => 1, _ => g.below(40) as usize };
    // the constructor takes a chain code of any length
    let cc = match g.below(6) { 0 => 0, 1 => 31, 2 => 33, _ => 32 };
    BootstrapWitness::new(&vkey(g), &signature(g), g.bytes(cc), g.bytes(n))
}
pub fn bootstrap_witnesses_n(g: &mut G, n: usize, rep: bool) -> BootstrapWitnesses {
    let mut s = BootstrapWitnesses::new(); let mut last: Option<BootstrapWitness> = None;
    for i in 0..n { let x = if rep && i % 2 == 1 { g.dups += 1; last.clone().unwrap() } else { bootstrap_witness(g) }; s.add(&x); last = Some(x); }
    s
}
pub fn bootstrap_witnesses(g: &mut G) -> BootstrapWitnesses { let (n, rep) = fill(g); bootstrap_witnesses_n(g, n, rep) }
pub fn witness_set(g: &mut G) -> TransactionWitnessSet {
    let (vk, ns, bs, ps, pd, rd) = (g.tri(), g.tri(), g.tri(), g.tri(), g.tri(), g.tri());
    let mut w = TransactionWitnessSet::new();
    coll3!(g, vk, Vkeywitnesses::new(), { let n = g.some_len().min(3); vkeywitnesses_n(g, n, false) }, |v| w.set_vkeys(v));
    coll3!(g, ns, NativeScripts::new(), { let n = g.some_len().min(3); g.nest(|g| native_scripts_n(g, n, false)) }, |v| w.set_native_scripts(v));
    coll3!(g, bs, BootstrapWitnesses::new(), { let n = g.some_len().min(3); bootstrap_witnesses_n(g, n, false) }, |v| w.set_bootstraps(v));
    coll3!(g, ps, PlutusScripts::new(), { let n = g.some_len().min(4); g.nest(|g| plutus_scripts_n(g, n, false)) }, |v| w.set_plutus_scripts(v));
    coll3!(g, pd, PlutusList::new(), { let n = g.some_len().min(3); g.nest(|g| plutus_list_n(g, n, false)) }, |v| w.set_plutus_data(v));
    coll3!(g, rd, Redeemers::new(), { let n = g.some_len().min(3); let a = g.rng.below(3) == 0; g.nest(|g| redeemers_n(g, n, false, a)) }, |v| w.set_redeemers(v));
    w
}
pub fn transaction(g: &mut G) -> Transaction {
    let (aux, valid) = (g.pick(2), g.pick(2));
    let b = g.nest(tx_body); let w = g.nest(witness_set);
    let a = if aux == 1 { Some(g.nest(auxiliary_data)) } else { None };
    let mut t = Transaction::new(&b, &w, a);
    if valid == 0 { t.set_is_valid(false); }
    t
}

// ---------- blocks ----------
pub fn vrf_cert(g: &mut G) -> VRFCert { let n = match g.below(3) { 0 => 0, 1 => 64, _ => g.below(70) as usize }; VRFCert::new(g.bytes(n), g.bytes(80)).unwrap() }
pub fn operational_cert(g: &mut G) -> OperationalCert { OperationalCert::new(&KESVKey::from_bytes(g.bytes(32)).unwrap(), g.u32(), g.u32(), &signature(g)) }
#[allow(deprecated)]
pub fn header_body(g: &mut G) -> HeaderBody {
    let prev = if g.opt() { Some(BlockHash::from_bytes(g.bytes(32)).unwrap()) } else { None };
    let (vk, vrfk, cert, bh, oc, pv) = (vkey(g), VRFVKey::from_bytes(g.bytes(32)).unwrap(), vrf_cert(g), BlockHash::from_bytes(g.bytes(32)).unwrap(), operational_cert(g), protocol_version(g));
    if g.pick(2) == 0 { HeaderBody::new(g.u32(), g.u32(), prev, &vk, &vrfk, &cert, g.u32(), &bh, &oc, &pv) }
    else { HeaderBody::new_headerbody(g.u32(), &g.bn(), prev, &vk, &vrfk, &cert, g.u32(), &bh, &oc, &pv) }
}
pub fn header(g: &mut G) -> Header { Header::new(&g.nest(header_body), &KESSignature::from_bytes(g.bytes(448)).unwrap()) }
pub fn tx_bodies(g: &mut G) -> TransactionBodies { let (n, _) = fill(g); let mut s = TransactionBodies::new(); for _ in 0..n.min(3) { s.add(&g.nest(tx_body)); } s }
pub fn witness_sets(g: &mut G) -> TransactionWitnessSets { let (n, _) = fill(g); let mut s = TransactionWitnessSets::new(); for _ in 0..n.min(3) { s.add(&g.nest(witness_set)); } s }
pub fn block(g: &mut G) -> Block {
    let (nb, na, ni) = (g.pick(3), g.pick(3), g.pick(3));
    let mut tb = TransactionBodies::new(); let mut ws = TransactionWitnessSets::new();
    for _ in 0..nb { tb.add(&g.nest(tx_body)); ws.add(&g.nest(witness_set)); }
    let mut ad = AuxiliaryDataSet::new();
    // insertion in descending index order: the set keeps insertion order
    for i in 0..na { ad.insert((10 - 3 * i) as u32, &g.nest(auxiliary_data)); }
    let inv: Vec<u32> = (0..ni).map(|_| g.u32()).collect();
    Block::new(&g.nest(header), &tb, &ws, &ad, inv)
}
pub fn unspent_output(g: &mut G) -> TransactionUnspentOutput { TransactionUnspentOutput::new(&tx_input(g), &g.nest(tx_output)) }

// ---------- list wrappers and stand-alone native-script members ----------
pub fn script_pubkey(g: &mut G) -> ScriptPubkey { ScriptPubkey::new(&keyhash(g)) }
pub fn script_all(g: &mut G) -> ScriptAll { g.ndepth += 1; let (n, rep) = fill(g); let s = native_scripts_n(g, n.min(4), rep); g.ndepth -= 1; ScriptAll::new(&s) }
pub fn script_any(g: &mut G) -> ScriptAny { g.ndepth += 1; let (n, rep) = fill(g); let s = native_scripts_n(g, n.min(4), rep); g.ndepth -= 1; ScriptAny::new(&s) }
pub fn script_n_of_k(g: &mut G) -> ScriptNOfK { g.ndepth += 1; let (n, rep) = fill(g); let s = native_scripts_n(g, n.min(4), rep); g.ndepth -= 1; ScriptNOfK::new(g.u32(), &s) }
pub fn timelock_start(g: &mut G) -> TimelockStart { if g.pick(2) == 0 { TimelockStart::new_timelockstart(&g.bn()) } else { TimelockStart::new(g.u32()) } }
pub fn timelock_expiry(g: &mut G) -> TimelockExpiry { if g.pick(2) == 0 { TimelockExpiry::new_timelockexpiry(&g.bn()) } else { TimelockExpiry::new(g.u32()) } }
pub fn asset_names(g: &mut G) -> AssetNames { let (n, rep) = fill(g); let mut l = AssetNames::new(); let mut last = None; for i in 0..n { let x = if rep && i % 2 == 1 { last.clone().unwrap() } else { asset_name(g) }; l.add(&x); last = Some(x); } l }
pub fn genesis_hashes(g: &mut G) -> GenesisHashes { let (n, _) = fill(g); let mut l = GenesisHashes::new(); for _ in 0..n { l.add(&GenesisHash::from_bytes(g.bytes(28)).unwrap()); } l }
pub fn script_hashes(g: &mut G) -> ScriptHashes { let (n, _) = fill(g); let mut l = ScriptHashes::new(); for _ in 0..n { l.add(&scripthash(g)); } l }
pub fn reward_addresses(g: &mut G) -> RewardAddresses { let (n, _) = fill(g); let mut l = RewardAddresses::new(); for _ in 0..n { l.add(&g.nest(reward_address)); } l }
pub fn metadatum_labels(g: &mut G) -> TransactionMetadatumLabels { let (n, _) = fill(g); let mut l = TransactionMetadatumLabels::new(); for _ in 0..n { l.add(&g.bn()); } l }
pub fn bignum(g: &mut G) -> BigNum { g.bn() }
pub fn versioned_block(g: &mut G) -> VersionedBlock { let era = match g.pick(3) { 0 => g.below(10) as u32, 1 => 7, _ => g.u32() }; VersionedBlock::new(g.nest(block), era) }
/// a FixedTransaction assembled from the serialised parts (the constructors take raw bytes)
pub fn fixed_tx(g: &mut G) -> FixedTransaction {
    let (aux, valid) = (g.pick(2), g.pick(2) == 1);
    let b = g.nest(tx_body); let w = g.nest(witness_set);
    if aux == 1 { let a = g.nest(auxiliary_data); FixedTransaction::new_with_auxiliary(&b.to_bytes(), &w.to_bytes(), &a.to_bytes(), valid).unwrap() }
    else { FixedTransaction::new(&b.to_bytes(), &w.to_bytes(), valid).unwrap() }
}
