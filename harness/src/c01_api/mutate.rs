//! C01 stream (iii): decode-then-mutate histories.
//! A value is DECODED from some wire form (the library's own bytes of an API-built value, a model-generated encoding of any
//! form the type has: legacy / map output, definite / indefinite lists, array / map redeemers, Shelley / Shelley-MA / Alonzo
//! auxiliary data, ..., or a re-framed variant: set tags stripped, outer container indefinite), then ONE setter / add / insert
//! of the public API is applied, then it is encoded, decoded again and compared FIELD BY FIELD THROUGH THE ACCESSORS
//! (each accessor result rendered by its own stand-alone serialisation), not through the parent's PartialEq or re-encoding,
//! which share the remembered format hints.  An optional collection that is empty renders like an absent one (the
//! property's normalisation).
//! Case: `mut <Type> <op> <seed> <variant> <hex of the source bytes>`; observation:
//! `ok <hex after mutation> <hex of decode(that).to_bytes()> [f<key>=<hex|~>] [selfcheck:...]` | `deerr <hex>` | `skip <why>` | `panic`.
use super::api::{self, G};
use cardano_serialization_lib::*;

pub type Dig = Vec<(&'static str, String)>;
/// what an operation promises about the digest afterwards, and (for map-struct fields whose stand-alone bytes are the
/// embedded bytes) the key and bytes the MODEL must find in the encoded result
pub struct Eff { pub fields: Dig, pub model_field: Option<(u64, String)> }
fn eff(fields: Dig) -> Eff { Eff { fields, model_field: None } }
fn effm(fields: Dig, key: u64) -> Eff { let h = fields[0].1.clone(); Eff { fields, model_field: Some((key, h)) } }

/// rendering of an accessor result by its own stand-alone serialisation
pub trait Hb { fn hb(&self) -> String; }
macro_rules! hb_impl { ($($t:ty),* $(,)?) => { $( impl Hb for $t { fn hb(&self) -> String { hex::encode(self.to_bytes()) } } )* }; }
hb_impl!(Address, DataHash, PlutusData, ScriptRef, TransactionInput, Certificate, Ed25519KeyHash, Credential, Vkeywitness, BootstrapWitness, VotingProposal,
    NativeScript, Redeemer, TransactionMetadatum, Relay, BigNum, Int, ScriptHash, AssetName, Assets, GenesisHash, ProtocolParamUpdate, Language, CostModel,
    Update, AuxiliaryDataHash, ScriptDataHash, NetworkId, Certificates, Withdrawals, Mint, TransactionInputs, Ed25519KeyHashes, VotingProcedures, VotingProposals,
    GeneralTransactionMetadata, UnitInterval, Nonce, ProtocolVersion, Costmdls, ExUnitPrices, ExUnits, PoolVotingThresholds, DRepVotingThresholds, Voter,
    GovernanceActionId, VotingProcedure);
impl Hb for RewardAddress { fn hb(&self) -> String { hex::encode(self.to_address().to_bytes()) } }
impl Hb for MintAssets { fn hb(&self) -> String { let ks = self.keys(); (0..ks.len()).map(|i| { let k = ks.get(i); format!("{}={}", hex::encode(k.name()), self.get(&k).map(|q| q.to_str()).unwrap_or("~".into())) }).collect::<Vec<_>>().join("/") } }
macro_rules! hx { ($e:expr) => { ($e).hb() }; }
macro_rules! ho { ($e:expr) => { match $e { Some(v) => v.hb(), None => "~".to_string() } }; }
/// optional collection: empty counts as absent
macro_rules! hoc { ($e:expr) => { match $e { Some(v) => if v.len() == 0 { "~".to_string() } else { v.hb() }, None => "~".to_string() } }; }
macro_rules! items { ($c:expr) => {{ let c = &$c; (0..c.len()).map(|i| hx!(c.get(i))).collect::<Vec<_>>().join(",") }}; }
macro_rules! entries { ($m:expr) => {{ let m = &$m; let ks = m.keys(); (0..ks.len()).map(|i| { let k = ks.get(i); format!("{}:{}", hx!(k), ho!(m.get(&k))) }).collect::<Vec<_>>().join(",") }}; }
fn empty_as_absent(h: String, is_empty: bool) -> String { if is_empty { "~".to_string() } else { h } }

// ---------------- digests ----------------
pub fn d_output(x: &TransactionOutput) -> Dig {
    vec![("address", hx!(x.address())), ("amount", d_value_s(&x.amount())), ("data_hash", ho!(x.data_hash())),
         ("plutus_data", ho!(x.plutus_data())), ("script_ref", ho!(x.script_ref()))]
}
/// a Value rendered through coin / policies / asset names / quantities
fn d_value_s(v: &Value) -> String {
    let mut s = format!("{}", v.coin().to_str());
    if let Some(ma) = v.multiasset() {
        let ps = ma.keys();
        for i in 0..ps.len() { let p = ps.get(i); if let Some(a) = ma.get(&p) { let ns = a.keys(); for j in 0..ns.len() { let n = ns.get(j);
            s.push_str(&format!("|{}.{}={}", p.to_hex(), hex::encode(n.name()), a.get(&n).map(|q| q.to_str()).unwrap_or("~".into()))); } } }
    }
    s
}
pub fn d_value(v: &Value) -> Dig { vec![("value", d_value_s(v))] }
pub fn d_body(x: &TransactionBody) -> Dig {
    vec![("inputs", items!(x.inputs())), ("outputs", { let o = x.outputs(); (0..o.len()).map(|i| format!("{:?}", d_output(&o.get(i)))).collect::<Vec<_>>().join(",") }),
         ("fee", x.fee().to_str()), ("ttl", x.ttl_bignum().map(|v| v.to_str()).unwrap_or("~".into())), ("certs", hoc!(x.certs())),
         ("withdrawals", hoc!(x.withdrawals())), ("update", ho!(x.update())), ("auxiliary_data_hash", ho!(x.auxiliary_data_hash())),
         ("validity_start", x.validity_start_interval_bignum().map(|v| v.to_str()).unwrap_or("~".into())), ("mint", hoc!(x.mint())),
         ("script_data_hash", ho!(x.script_data_hash())), ("collateral", hoc!(x.collateral())), ("required_signers", hoc!(x.required_signers())),
         ("network_id", ho!(x.network_id())), ("collateral_return", x.collateral_return().map(|o| format!("{:?}", d_output(&o))).unwrap_or("~".into())),
         ("total_collateral", x.total_collateral().map(|v| v.to_str()).unwrap_or("~".into())), ("reference_inputs", hoc!(x.reference_inputs())),
         ("voting_procedures", match x.voting_procedures() { Some(v) => empty_as_absent(hx!(v), v.get_voters().len() == 0), None => "~".into() }),
         ("voting_proposals", hoc!(x.voting_proposals())), ("donation", x.donation().map(|v| v.to_str()).unwrap_or("~".into())),
         ("current_treasury_value", x.current_treasury_value().map(|v| v.to_str()).unwrap_or("~".into()))]
}
fn ps_sorted(p: &PlutusScripts) -> String {
    let mut v: Vec<String> = (0..p.len()).map(|i| { let s = p.get(i); format!("{}:{}", hx!(s.language_version()), hex::encode(s.bytes())) }).collect(); v.sort(); v.join(",")
}
pub fn d_ws(x: &TransactionWitnessSet) -> Dig {
    vec![("vkeys", match x.vkeys() { Some(v) if v.len() > 0 => items!(v), _ => "~".into() }),
         ("native_scripts", match x.native_scripts() { Some(v) if v.len() > 0 => items!(v), _ => "~".into() }),
         ("bootstraps", match x.bootstraps() { Some(v) if v.len() > 0 => items!(v), _ => "~".into() }),
         ("plutus_scripts", match x.plutus_scripts() { Some(v) if v.len() > 0 => ps_sorted(&v), _ => "~".into() }),
         ("plutus_data", match x.plutus_data() { Some(v) if v.len() > 0 => items!(v), _ => "~".into() }),
         ("redeemers", match x.redeemers() { Some(v) if v.len() > 0 => items!(v), _ => "~".into() })]
}
pub fn d_aux(x: &AuxiliaryData) -> Dig {
    vec![("metadata", ho!(x.metadata())), ("native_scripts", match x.native_scripts() { Some(v) => format!("[{}]", items!(v)), None => "~".into() }),
         ("plutus_scripts", match x.plutus_scripts() { Some(v) => format!("[{}]", ps_sorted(&v)), None => "~".into() })]
}
pub fn d_tx(x: &Transaction) -> Dig {
    vec![("body", format!("{:?}", d_body(&x.body()))), ("witness_set", format!("{:?}", d_ws(&x.witness_set()))), ("is_valid", format!("{}", x.is_valid())),
         ("auxiliary_data", x.auxiliary_data().map(|a| format!("{:?}", d_aux(&a))).unwrap_or("~".into()))]
}
pub fn d_ppu(x: &ProtocolParamUpdate) -> Dig {
    fn u(o: Option<u32>) -> String { o.map(|v| v.to_string()).unwrap_or("~".into()) }
    vec![("minfee_a", ho!(x.minfee_a())), ("minfee_b", ho!(x.minfee_b())), ("max_block_body_size", u(x.max_block_body_size())), ("max_tx_size", u(x.max_tx_size())),
         ("max_block_header_size", u(x.max_block_header_size())), ("key_deposit", ho!(x.key_deposit())), ("pool_deposit", ho!(x.pool_deposit())), ("max_epoch", u(x.max_epoch())),
         ("n_opt", u(x.n_opt())), ("pool_pledge_influence", ho!(x.pool_pledge_influence())), ("expansion_rate", ho!(x.expansion_rate())),
         ("treasury_growth_rate", ho!(x.treasury_growth_rate())), ("d", ho!(x.d())), ("extra_entropy", ho!(x.extra_entropy())), ("protocol_version", ho!(x.protocol_version())),
         ("min_pool_cost", ho!(x.min_pool_cost())), ("ada_per_utxo_byte", ho!(x.ada_per_utxo_byte())), ("cost_models", ho!(x.cost_models())),
         ("execution_costs", ho!(x.execution_costs())), ("max_tx_ex_units", ho!(x.max_tx_ex_units())), ("max_block_ex_units", ho!(x.max_block_ex_units())),
         ("max_value_size", u(x.max_value_size())), ("collateral_percentage", u(x.collateral_percentage())), ("max_collateral_inputs", u(x.max_collateral_inputs())),
         ("pool_voting_thresholds", ho!(x.pool_voting_thresholds())), ("drep_voting_thresholds", ho!(x.drep_voting_thresholds())),
         ("min_committee_size", u(x.min_committee_size())), ("committee_term_limit", u(x.committee_term_limit())),
         ("governance_action_validity_period", u(x.governance_action_validity_period())), ("governance_action_deposit", ho!(x.governance_action_deposit())),
         ("drep_deposit", ho!(x.drep_deposit())), ("drep_inactivity_period", u(x.drep_inactivity_period())), ("ref_script_coins_per_byte", ho!(x.ref_script_coins_per_byte()))]
}
macro_rules! d_list { ($name:ident, $t:ty) => { pub fn $name(x: &$t) -> Dig { vec![("len", x.len().to_string()), ("items", items!(*x))] } }; }
macro_rules! d_map { ($name:ident, $t:ty) => { pub fn $name(x: &$t) -> Dig { vec![("len", x.len().to_string()), ("entries", entries!(*x))] } }; }
d_list!(d_inputs, TransactionInputs); d_list!(d_certs, Certificates); d_list!(d_keyhashes, Ed25519KeyHashes); d_list!(d_creds, Credentials);
d_list!(d_vkeys, Vkeywitnesses); d_list!(d_boots, BootstrapWitnesses); d_list!(d_proposals, VotingProposals); d_list!(d_nscripts, NativeScripts);
d_list!(d_redeemers, Redeemers); d_list!(d_mlist, MetadataList); d_list!(d_relays, Relays); d_list!(d_plist, PlutusList);
d_map!(d_withdrawals, Withdrawals); d_map!(d_assets, Assets); d_map!(d_multiasset, MultiAsset); d_map!(d_mintassets, MintAssets);
d_map!(d_gmeta, GeneralTransactionMetadata); d_map!(d_costmdls, Costmdls);
d_map!(d_pppu, ProposedProtocolParameterUpdates); d_map!(d_mir, MIRToStakeCredentials);
pub fn d_outputs(x: &TransactionOutputs) -> Dig { vec![("len", x.len().to_string()), ("items", (0..x.len()).map(|i| format!("{:?}", d_output(&x.get(i)))).collect::<Vec<_>>().join(","))] }
pub fn d_pscripts(x: &PlutusScripts) -> Dig { vec![("len", x.len().to_string()), ("items", (0..x.len()).map(|i| hex::encode(x.get(i).bytes())).collect::<Vec<_>>().join(","))] }
pub fn d_mint(x: &Mint) -> Dig {
    let ks = x.keys();
    vec![("len", x.len().to_string()), ("entries", (0..ks.len()).map(|i| { let k = ks.get(i);
        format!("{}:{}", k.to_hex(), match x.get(&k) { Some(l) => (0..l.len()).map(|j| l.get(j).map(|a| hx!(a)).unwrap_or("~".into())).collect::<Vec<_>>().join("+"), None => "~".into() }) }).collect::<Vec<_>>().join(","))]
}
pub fn d_mmap(x: &MetadataMap) -> Dig {
    let ks = x.keys();
    vec![("len", x.len().to_string()), ("entries", (0..ks.len()).map(|i| { let k = ks.get(i); format!("{}:{}", hx!(k), x.get(&k).map(|v| hx!(v)).unwrap_or("~".into())) }).collect::<Vec<_>>().join(","))]
}
pub fn d_cost_model(x: &CostModel) -> Dig { vec![("len", x.len().to_string()), ("items", (0..x.len()).map(|i| x.get(i).map(|v| v.to_str()).unwrap_or("~".into())).collect::<Vec<_>>().join(","))] }
pub fn d_committee(x: &Committee) -> Dig {
    let ks = x.members_keys();
    vec![("quorum", hx!(x.quorum_threshold())), ("members", (0..ks.len()).map(|i| { let k = ks.get(i); format!("{}:{:?}", hx!(k), x.get_member_epoch(&k)) }).collect::<Vec<_>>().join(","))]
}
pub fn d_dvt(x: &DRepVotingThresholds) -> Dig {
    vec![("motion_no_confidence", hx!(x.motion_no_confidence())), ("committee_normal", hx!(x.committee_normal())), ("committee_no_confidence", hx!(x.committee_no_confidence())),
         ("update_constitution", hx!(x.update_constitution())), ("hard_fork_initiation", hx!(x.hard_fork_initiation())), ("pp_network_group", hx!(x.pp_network_group())),
         ("pp_economic_group", hx!(x.pp_economic_group())), ("pp_technical_group", hx!(x.pp_technical_group())), ("pp_governance_group", hx!(x.pp_governance_group())),
         ("treasury_withdrawal", hx!(x.treasury_withdrawal()))]
}
pub fn d_vprocs(x: &VotingProcedures) -> Dig {
    let vs = x.get_voters();
    vec![("votes", (0..vs.len()).map(|i| { let v = vs.get(i).unwrap(); let ids = x.get_governance_action_ids_by_voter(&v);
        format!("{}:[{}]", hx!(v), (0..ids.len()).map(|j| { let id = ids.get(j).unwrap(); format!("{}={}", hx!(id), ho!(x.get(&v, &id))) }).collect::<Vec<_>>().join(",")) }).collect::<Vec<_>>().join(";"))]
}

// ---------------- operations ----------------
fn some_n(g: &mut G) -> usize { g.some_len().min(3) }
pub fn ops_output() -> Vec<(&'static str, fn(&mut TransactionOutput, &mut G) -> Eff)> {
    vec![("set_script_ref", |x, g| { let v = api::script_ref(g); x.set_script_ref(&v); effm(vec![("script_ref", hx!(v))], 3) }),
         ("set_plutus_data", |x, g| { let v = api::plutus_data(g); x.set_plutus_data(&v); eff(vec![("plutus_data", hx!(v)), ("data_hash", "~".into())]) }),
         ("set_data_hash", |x, g| { let v = DataHash::from_bytes(g.bytes(32)).unwrap(); x.set_data_hash(&v); eff(vec![("data_hash", hx!(v)), ("plutus_data", "~".into())]) })]
}
pub fn ops_value() -> Vec<(&'static str, fn(&mut Value, &mut G) -> Eff)> {
    vec![("set_coin", |x, g| { let c = g.bn(); x.set_coin(&c); eff(vec![]) }),
         ("set_multiasset", |x, g| { let n = some_n(g); let m = api::multiasset_n(g, n, false, false); x.set_multiasset(&m); eff(vec![]) }),
         ("set_multiasset_empty", |x, _g| { x.set_multiasset(&MultiAsset::new()); eff(vec![]) })]
}
macro_rules! coll_op { ($field:literal, $key:expr, $set:ident, $empty:expr, $full:expr) => {
    (concat!("set_", $field), (|x, g| { let empty = g.below(4) == 0; let v = if empty { $empty } else { let f: fn(&mut G) -> _ = $full; f(g) }; x.$set(&v);
        effm(vec![($field, if v.len() == 0 { "~".to_string() } else { hx!(v) })], $key) }) as fn(&mut TransactionBody, &mut G) -> Eff) }; }
pub fn ops_body() -> Vec<(&'static str, fn(&mut TransactionBody, &mut G) -> Eff)> {
    vec![("set_ttl", |x, g| { let v = g.bn(); x.set_ttl(&v); effm(vec![("ttl", v.to_str())], 3).bn() }),
         ("remove_ttl", |x, _g| { x.remove_ttl(); eff(vec![("ttl", "~".into())]) }),
         coll_op!("certs", 4, set_certs, Certificates::new(), |g| { let n = some_n(g); api::certificates_n(g, n, false) }),
         coll_op!("withdrawals", 5, set_withdrawals, Withdrawals::new(), |g| { let n = some_n(g); api::withdrawals_n(g, n, false) }),
         ("set_update", |x, g| { let v = api::update(g); x.set_update(&v); effm(vec![("update", hx!(v))], 6) }),
         ("set_auxiliary_data_hash", |x, g| { let v = AuxiliaryDataHash::from_bytes(g.bytes(32)).unwrap(); x.set_auxiliary_data_hash(&v); eff(vec![("auxiliary_data_hash", hx!(v))]) }),
         ("set_validity_start_interval_bignum", |x, g| { let v = g.bn(); x.set_validity_start_interval_bignum(&v); effm(vec![("validity_start", v.to_str())], 8).bn() }),
         ("set_validity_start_interval", |x, g| { let v = g.u32(); x.set_validity_start_interval(v); eff(vec![("validity_start", v.to_string())]) }),
         coll_op!("mint", 9, set_mint, Mint::new(), |g| { let n = some_n(g); let rep = g.below(3) == 0; api::mint_n(g, if rep { n.max(2) } else { n }, rep) }),
         ("set_script_data_hash", |x, g| { let v = ScriptDataHash::from_bytes(g.bytes(32)).unwrap(); x.set_script_data_hash(&v); eff(vec![("script_data_hash", hx!(v))]) }),
         coll_op!("collateral", 13, set_collateral, TransactionInputs::new(), |g| { let n = some_n(g); api::tx_inputs_n(g, n, false) }),
         coll_op!("required_signers", 14, set_required_signers, Ed25519KeyHashes::new(), |g| { let n = some_n(g); api::keyhashes_n(g, n, false) }),
         ("set_network_id", |x, g| { let v = api::network_id(g); x.set_network_id(&v); effm(vec![("network_id", hx!(v))], 15) }),
         ("set_collateral_return", |x, g| { let v = api::tx_output(g); x.set_collateral_return(&v); eff(vec![("collateral_return", format!("{:?}", d_output(&v)))]) }),
         ("set_total_collateral", |x, g| { let v = g.bn(); x.set_total_collateral(&v); effm(vec![("total_collateral", v.to_str())], 17).bn() }),
         coll_op!("reference_inputs", 18, set_reference_inputs, TransactionInputs::new(), |g| { let n = some_n(g); api::tx_inputs_n(g, n, false) }),
         ("set_voting_procedures", |x, g| { let empty = g.below(4) == 0; let v = if empty { VotingProcedures::new() } else { let n = some_n(g); api::voting_procedures_n(g, n, false) };
            x.set_voting_procedures(&v); effm(vec![("voting_procedures", if empty { "~".into() } else { hx!(v) })], 19) }),
         coll_op!("voting_proposals", 20, set_voting_proposals, VotingProposals::new(), |g| { let n = some_n(g).min(2); api::voting_proposals_n(g, n, false) }),
         ("set_donation", |x, g| { let v = g.bn(); x.set_donation(&v); effm(vec![("donation", v.to_str())], 22).bn() }),
         ("set_current_treasury_value", |x, g| { let v = g.bn(); x.set_current_treasury_value(&v); effm(vec![("current_treasury_value", v.to_str())], 21).bn() })]
}
impl Eff {
    /// the promised digest is a decimal number: the model field is its CBOR unsigned integer
    fn bn(mut self) -> Eff { if let Some((k, d)) = self.model_field.take() { self.model_field = Some((k, hx!(BigNum::from_str(&d).unwrap()))); } self }
}
macro_rules! ws_op { ($field:literal, $set:ident, $empty:expr, $full:expr) => {
    (concat!("set_", $field), (|x, g| { let empty = g.below(4) == 0; if empty { x.$set(&$empty); } else { let f: fn(&mut G) -> _ = $full; let v = f(g); x.$set(&v); } eff(vec![]) }) as fn(&mut TransactionWitnessSet, &mut G) -> Eff) }; }
pub fn ops_ws() -> Vec<(&'static str, fn(&mut TransactionWitnessSet, &mut G) -> Eff)> {
    vec![ws_op!("vkeys", set_vkeys, Vkeywitnesses::new(), |g| { let n = some_n(g); api::vkeywitnesses_n(g, n, false) }),
         ws_op!("native_scripts", set_native_scripts, NativeScripts::new(), |g| { let n = some_n(g); api::native_scripts_n(g, n, false) }),
         ws_op!("bootstraps", set_bootstraps, BootstrapWitnesses::new(), |g| { let n = some_n(g); api::bootstrap_witnesses_n(g, n, false) }),
         ws_op!("plutus_scripts", set_plutus_scripts, PlutusScripts::new(), |g| { let n = some_n(g); api::plutus_scripts_n(g, n, false) }),
         ws_op!("plutus_data", set_plutus_data, PlutusList::new(), |g| { let n = some_n(g); api::plutus_list_n(g, n, false) }),
         ws_op!("redeemers", set_redeemers, Redeemers::new(), |g| { let n = some_n(g); let a = g.below(3) == 0; api::redeemers_n(g, n, false, a) })]
}
pub fn ops_aux() -> Vec<(&'static str, fn(&mut AuxiliaryData, &mut G) -> Eff)> {
    vec![("set_metadata", |x, g| { let n = g.small_len().min(3); let v = api::general_metadata_n(g, n, false); x.set_metadata(&v); eff(vec![("metadata", hx!(v))]) }),
         ("set_native_scripts", |x, g| { let n = g.small_len().min(3); let v = api::native_scripts_n(g, n, false); x.set_native_scripts(&v); eff(vec![("native_scripts", format!("[{}]", items!(v)))]) }),
         ("set_plutus_scripts", |x, g| { let n = g.small_len().min(3); let v = api::plutus_scripts_n(g, n, false); x.set_plutus_scripts(&v); eff(vec![("plutus_scripts", format!("[{}]", ps_sorted(&v)))]) }),
         ("set_prefer_alonzo_format", |x, g| { x.set_prefer_alonzo_format(g.below(2) == 0); eff(vec![]) })]
}
pub fn ops_tx() -> Vec<(&'static str, fn(&mut Transaction, &mut G) -> Eff)> {
    vec![("set_is_valid", |x, g| { let v = g.below(2) == 0; x.set_is_valid(v); eff(vec![("is_valid", format!("{}", v))]) })]
}
macro_rules! ppu_op { (bn $name:literal, $key:expr, $set:ident) => { (concat!("set_", $name), (|x, g| { let v = g.bn(); x.$set(&v); effm(vec![($name, hx!(v))], $key) }) as fn(&mut ProtocolParamUpdate, &mut G) -> Eff) };
                       (u32 $name:literal, $key:expr, $set:ident) => { (concat!("set_", $name), (|x, g| { let v = g.u32(); x.$set(v); effm(vec![($name, v.to_string())], $key).bn() }) as fn(&mut ProtocolParamUpdate, &mut G) -> Eff) };
                       (v $name:literal, $key:expr, $set:ident, $mk:path) => { (concat!("set_", $name), (|x, g| { let v = $mk(g); x.$set(&v); effm(vec![($name, hx!(v))], $key) }) as fn(&mut ProtocolParamUpdate, &mut G) -> Eff) }; }
pub fn ops_ppu() -> Vec<(&'static str, fn(&mut ProtocolParamUpdate, &mut G) -> Eff)> {
    vec![ppu_op!(bn "minfee_a", 0, set_minfee_a), ppu_op!(bn "minfee_b", 1, set_minfee_b), ppu_op!(u32 "max_block_body_size", 2, set_max_block_body_size),
         ppu_op!(u32 "max_tx_size", 3, set_max_tx_size), ppu_op!(u32 "max_block_header_size", 4, set_max_block_header_size), ppu_op!(bn "key_deposit", 5, set_key_deposit),
         ppu_op!(bn "pool_deposit", 6, set_pool_deposit), ppu_op!(u32 "max_epoch", 7, set_max_epoch), ppu_op!(u32 "n_opt", 8, set_n_opt),
         ppu_op!(v "pool_pledge_influence", 9, set_pool_pledge_influence, api::unit_interval), ppu_op!(v "expansion_rate", 10, set_expansion_rate, api::unit_interval),
         ppu_op!(v "treasury_growth_rate", 11, set_treasury_growth_rate, api::unit_interval), ppu_op!(v "protocol_version", 14, set_protocol_version, api::protocol_version),
         ppu_op!(bn "min_pool_cost", 16, set_min_pool_cost), ppu_op!(bn "ada_per_utxo_byte", 17, set_ada_per_utxo_byte), ppu_op!(v "cost_models", 18, set_cost_models, api::costmdls),
         ppu_op!(v "execution_costs", 19, set_execution_costs, api::ex_unit_prices), ppu_op!(v "max_tx_ex_units", 20, set_max_tx_ex_units, api::ex_units),
         ppu_op!(v "max_block_ex_units", 21, set_max_block_ex_units, api::ex_units), ppu_op!(u32 "max_value_size", 22, set_max_value_size),
         ppu_op!(u32 "collateral_percentage", 23, set_collateral_percentage), ppu_op!(u32 "max_collateral_inputs", 24, set_max_collateral_inputs),
         ppu_op!(v "pool_voting_thresholds", 25, set_pool_voting_thresholds, api::pool_voting_thresholds), ppu_op!(v "drep_voting_thresholds", 26, set_drep_voting_thresholds, api::drep_voting_thresholds),
         ppu_op!(u32 "min_committee_size", 27, set_min_committee_size), ppu_op!(u32 "committee_term_limit", 28, set_committee_term_limit),
         ppu_op!(u32 "governance_action_validity_period", 29, set_governance_action_validity_period), ppu_op!(bn "governance_action_deposit", 30, set_governance_action_deposit),
         ppu_op!(bn "drep_deposit", 31, set_drep_deposit), ppu_op!(u32 "drep_inactivity_period", 32, set_drep_inactivity_period),
         ppu_op!(v "ref_script_coins_per_byte", 33, set_ref_script_coins_per_byte, api::unit_interval)]
}
/// `add` of a fresh item and of an item that is already there (sets must stay duplicate free, lists grow)
macro_rules! add_ops { ($t:ty, $mk:expr) => { vec![
    ("add_fresh", (|x, g| { let f: fn(&mut G) -> _ = $mk; let v = f(g); x.add(&v); eff(vec![]) }) as fn(&mut $t, &mut G) -> Eff),
    ("add_existing", (|x, g| { if x.len() > 0 { let i = g.below(x.len() as u64) as usize; let v = x.get(i); x.add(&v); } else { let f: fn(&mut G) -> _ = $mk; let v = f(g); x.add(&v); x.add(&v); } eff(vec![]) }) as fn(&mut $t, &mut G) -> Eff)] }; }
pub fn ops_inputs() -> Vec<(&'static str, fn(&mut TransactionInputs, &mut G) -> Eff)> { add_ops!(TransactionInputs, api::tx_input) }
pub fn ops_certs() -> Vec<(&'static str, fn(&mut Certificates, &mut G) -> Eff)> { add_ops!(Certificates, api::certificate) }
pub fn ops_keyhashes() -> Vec<(&'static str, fn(&mut Ed25519KeyHashes, &mut G) -> Eff)> { add_ops!(Ed25519KeyHashes, api::keyhash) }
pub fn ops_creds() -> Vec<(&'static str, fn(&mut Credentials, &mut G) -> Eff)> { add_ops!(Credentials, api::credential) }
pub fn ops_vkeys() -> Vec<(&'static str, fn(&mut Vkeywitnesses, &mut G) -> Eff)> { add_ops!(Vkeywitnesses, api::vkeywitness) }
pub fn ops_boots() -> Vec<(&'static str, fn(&mut BootstrapWitnesses, &mut G) -> Eff)> { add_ops!(BootstrapWitnesses, api::bootstrap_witness) }
pub fn ops_proposals() -> Vec<(&'static str, fn(&mut VotingProposals, &mut G) -> Eff)> { add_ops!(VotingProposals, api::voting_proposal) }
pub fn ops_nscripts() -> Vec<(&'static str, fn(&mut NativeScripts, &mut G) -> Eff)> { add_ops!(NativeScripts, api::native_script) }
pub fn ops_redeemers() -> Vec<(&'static str, fn(&mut Redeemers, &mut G) -> Eff)> { add_ops!(Redeemers, api::redeemer) }
pub fn ops_mlist() -> Vec<(&'static str, fn(&mut MetadataList, &mut G) -> Eff)> { add_ops!(MetadataList, api::metadatum) }
pub fn ops_relays() -> Vec<(&'static str, fn(&mut Relays, &mut G) -> Eff)> { add_ops!(Relays, api::relay) }
pub fn ops_outputs() -> Vec<(&'static str, fn(&mut TransactionOutputs, &mut G) -> Eff)> { add_ops!(TransactionOutputs, api::tx_output) }
pub fn ops_pscripts() -> Vec<(&'static str, fn(&mut PlutusScripts, &mut G) -> Eff)> {
    vec![("add_fresh", |x, g| { let v = PlutusScript::new(g.bytes(7)); x.add(&v); eff(vec![]) })]
}
pub fn ops_plist() -> Vec<(&'static str, fn(&mut PlutusList, &mut G) -> Eff)> {
    vec![("add_fresh", |x, g| { g.ndepth += 1; let v = api::plutus_data(g); g.ndepth -= 1; x.add(&v); eff(vec![]) }),
         ("add_existing", |x, g| { if x.len() > 0 { let v = x.get(g.below(x.len() as u64) as usize); x.add(&v); } eff(vec![]) })]
}
/// `insert` under a fresh key and under a key that is already there
macro_rules! ins_ops { ($t:ty, $mkk:expr, $mkv:expr) => { vec![
    ("insert_fresh", (|x, g| { let fk: fn(&mut G) -> _ = $mkk; let fv: fn(&mut G) -> _ = $mkv; let k = fk(g); let v = fv(g); let _ = x.insert(&k, &v); eff(vec![]) }) as fn(&mut $t, &mut G) -> Eff),
    ("insert_existing", (|x, g| { let fk: fn(&mut G) -> _ = $mkk; let fv: fn(&mut G) -> _ = $mkv; let ks = x.keys();
        let k = if ks.len() > 0 { ks.get(g.below(ks.len() as u64) as usize) } else { fk(g) }; let v = fv(g); let _ = x.insert(&k, &v); eff(vec![]) }) as fn(&mut $t, &mut G) -> Eff)] }; }
pub fn ops_withdrawals() -> Vec<(&'static str, fn(&mut Withdrawals, &mut G) -> Eff)> { ins_ops!(Withdrawals, api::reward_address, |g| g.bn()) }
pub fn ops_assets() -> Vec<(&'static str, fn(&mut Assets, &mut G) -> Eff)> { ins_ops!(Assets, api::asset_name, |g| g.bn()) }
pub fn ops_multiasset() -> Vec<(&'static str, fn(&mut MultiAsset, &mut G) -> Eff)> {
    let mut v: Vec<(&'static str, fn(&mut MultiAsset, &mut G) -> Eff)> = ins_ops!(MultiAsset, api::scripthash, |g| { let n = g.small_len().min(3); api::assets_n(g, n, false) });
    v.push(("set_asset", |x, g| { let ks = x.keys(); let p = if ks.len() > 0 && g.below(2) == 0 { ks.get(0) } else { api::scripthash(g) }; x.set_asset(&p, &api::asset_name(g), &g.bn()); eff(vec![]) }));
    v
}
pub fn ops_mint() -> Vec<(&'static str, fn(&mut Mint, &mut G) -> Eff)> { ins_ops!(Mint, api::scripthash, |g| { let n = g.some_len().min(3); api::mint_assets_n(g, n, false) }) }
pub fn ops_gmeta() -> Vec<(&'static str, fn(&mut GeneralTransactionMetadata, &mut G) -> Eff)> { ins_ops!(GeneralTransactionMetadata, |g| g.bn(), api::metadatum) }
pub fn ops_mmap() -> Vec<(&'static str, fn(&mut MetadataMap, &mut G) -> Eff)> { ins_ops!(MetadataMap, api::metadatum, api::metadatum) }
pub fn ops_costmdls() -> Vec<(&'static str, fn(&mut Costmdls, &mut G) -> Eff)> { ins_ops!(Costmdls, api::language, api::cost_model) }
pub fn ops_pppu() -> Vec<(&'static str, fn(&mut ProposedProtocolParameterUpdates, &mut G) -> Eff)> { ins_ops!(ProposedProtocolParameterUpdates, |g| GenesisHash::from_bytes(g.bytes(28)).unwrap(), api::protocol_param_update) }
pub fn ops_mir() -> Vec<(&'static str, fn(&mut MIRToStakeCredentials, &mut G) -> Eff)> { ins_ops!(MIRToStakeCredentials, api::credential, api::int) }
pub fn ops_cost_model() -> Vec<(&'static str, fn(&mut CostModel, &mut G) -> Eff)> {
    vec![("set_inside", |x, g| { let i = if x.len() > 0 { g.below(x.len() as u64) as usize } else { 0 }; let v = api::int(g); x.set(i, &v).unwrap(); eff(vec![]) }),
         ("set_beyond", |x, g| { let i = x.len() + g.below(5) as usize; let v = api::int(g); x.set(i, &v).unwrap(); eff(vec![]) })]
}
pub fn ops_committee() -> Vec<(&'static str, fn(&mut Committee, &mut G) -> Eff)> {
    vec![("add_member_fresh", |x, g| { x.add_member(&api::credential(g), g.u32()); eff(vec![]) }),
         ("add_member_existing", |x, g| { let ks = x.members_keys(); if ks.len() > 0 { x.add_member(&ks.get(0), g.u32()); } eff(vec![]) })]
}
pub fn ops_dvt() -> Vec<(&'static str, fn(&mut DRepVotingThresholds, &mut G) -> Eff)> {
    vec![("set_motion_no_confidence", |x, g| { let v = api::unit_interval(g); x.set_motion_no_confidence(&v); eff(vec![("motion_no_confidence", hx!(v))]) }),
         ("set_pp_technical_group", |x, g| { let v = api::unit_interval(g); x.set_pp_technical_group(&v); eff(vec![("pp_technical_group", hx!(v))]) }),
         ("set_treasury_withdrawal", |x, g| { let v = api::unit_interval(g); x.set_treasury_withdrawal(&v); eff(vec![("treasury_withdrawal", hx!(v))]) })]
}
pub fn ops_vprocs() -> Vec<(&'static str, fn(&mut VotingProcedures, &mut G) -> Eff)> {
    vec![("insert_fresh_voter", |x, g| { x.insert(&api::voter(g), &api::gov_action_id(g), &api::voting_procedure(g)); eff(vec![]) }),
         ("insert_existing_voter", |x, g| { let vs = x.get_voters(); let v = if vs.len() > 0 { vs.get(0).unwrap() } else { api::voter(g) }; x.insert(&v, &api::gov_action_id(g), &api::voting_procedure(g)); eff(vec![]) })]
}

// ---------------- FixedTransaction: a decoded transaction that keeps its original bytes, witnesses added afterwards ----------------
pub fn d_fixed_tx(x: &FixedTransaction) -> Dig {
    vec![("raw_body", hex::encode(x.raw_body())), ("body", format!("{:?}", d_body(&x.body()))), ("witness_set", format!("{:?}", d_ws(&x.witness_set()))),
         ("is_valid", format!("{}", x.is_valid())), ("raw_auxiliary_data", x.raw_auxiliary_data().map(hex::encode).unwrap_or("~".into())),
         ("tx_hash", x.transaction_hash().to_hex())]
}
fn has_item(list: &str, item: &str) -> String { format!("{}", list.split(',').any(|i| i == item)) }
pub fn ops_fixed_tx() -> Vec<(&'static str, fn(&mut FixedTransaction, &mut G) -> Eff)> {
    vec![("add_vkey_witness", |x, g| { let w = api::vkeywitness(g); let n = x.witness_set().vkeys().map(|v| v.len()).unwrap_or(0); x.add_vkey_witness(&w);
            let v = x.witness_set().vkeys().unwrap(); assert!(v.len() == n + 1 && has_item(&items!(v), &hx!(w)) == "true", "witness not added"); eff(vec![]) }),
         ("add_bootstrap_witness", |x, g| { let w = api::bootstrap_witness(g); let n = x.witness_set().bootstraps().map(|v| v.len()).unwrap_or(0); x.add_bootstrap_witness(&w);
            let v = x.witness_set().bootstraps().unwrap(); assert!(v.len() == n + 1 && has_item(&items!(v), &hx!(w)) == "true", "witness not added"); eff(vec![]) }),
         ("add_both", |x, g| { x.add_bootstrap_witness(&api::bootstrap_witness(g)); x.add_vkey_witness(&api::vkeywitness(g)); x.add_bootstrap_witness(&api::bootstrap_witness(g)); eff(vec![]) }),
         ("set_is_valid", |x, g| { let v = g.below(2) == 0; x.set_is_valid(v); eff(vec![("is_valid", format!("{}", v))]) }),
         ("set_witness_set", |x, g| { let w = api::witness_set(g); x.set_witness_set(&w.to_bytes()).unwrap(); eff(vec![("witness_set", format!("{:?}", d_ws(&w)))]) }),
         ("set_body", |x, g| { let b = api::tx_body(g); x.set_body(&b.to_bytes()).unwrap(); eff(vec![("raw_body", hex::encode(b.to_bytes()))]) }),
         ("set_auxiliary_data", |x, g| { let a = api::auxiliary_data(g); x.set_auxiliary_data(&a.to_bytes()).unwrap(); eff(vec![("raw_auxiliary_data", hex::encode(a.to_bytes()))]) })]
}

// ---------------- re-framed variants of the source bytes ----------------
/// A minimal CBOR item tree, enough to re-frame well-formed input.
enum Item { Head(u8, u64, Vec<u8>), Bytes(u8, Vec<u8>, Vec<Vec<u8>>, bool), Arr(Vec<Item>, bool), Map(Vec<(Item, Item)>, bool), Tag(u64, Box<Item>), Simple(Vec<u8>) }
fn rd_head(b: &[u8], p: &mut usize) -> Option<(u8, Option<u64>)> {
    let ib = *b.get(*p)?; *p += 1; let (m, a) = (ib >> 5, ib & 31);
    let n = match a { 0..=23 => Some(a as u64), 24 => { let v = *b.get(*p)? as u64; *p += 1; Some(v) }
        25 | 26 | 27 => { let k = 1usize << (a - 24); if *p + k > b.len() { return None; } let mut v = 0u64; for i in 0..k { v = (v << 8) | b[*p + i] as u64; } *p += k; Some(v) }
        31 => None, _ => return None };
    Some((m, n))
}
fn parse(b: &[u8], p: &mut usize, depth: u32) -> Option<Item> {
    if depth > 64 { return None; }
    let start = *p; let (m, n) = rd_head(b, p)?;
    match (m, n) {
        (0, Some(n)) | (1, Some(n)) => Some(Item::Head(m, n, b[start..*p].to_vec())),
        (2, Some(n)) | (3, Some(n)) => { let n = n as usize; if *p + n > b.len() { return None; } let v = b[*p..*p + n].to_vec(); *p += n; Some(Item::Bytes(m, v, vec![], false)) }
        (2, None) | (3, None) => { let mut chunks = vec![]; loop { if *b.get(*p)? == 0xff { *p += 1; break; } let (m2, n2) = rd_head(b, p)?; if m2 != m { return None; } let n2 = n2? as usize; if *p + n2 > b.len() { return None; } chunks.push(b[*p..*p + n2].to_vec()); *p += n2; } Some(Item::Bytes(m, vec![], chunks, true)) }
        (4, Some(n)) => { if n as usize > b.len() { return None; } let mut v = vec![]; for _ in 0..n { v.push(parse(b, p, depth + 1)?); } Some(Item::Arr(v, false)) }
        (4, None) => { let mut v = vec![]; loop { if *b.get(*p)? == 0xff { *p += 1; break; } v.push(parse(b, p, depth + 1)?); } Some(Item::Arr(v, true)) }
        (5, Some(n)) => { if n as usize > b.len() { return None; } let mut v = vec![]; for _ in 0..n { let k = parse(b, p, depth + 1)?; let x = parse(b, p, depth + 1)?; v.push((k, x)); } Some(Item::Map(v, false)) }
        (5, None) => { let mut v = vec![]; loop { if *b.get(*p)? == 0xff { *p += 1; break; } let k = parse(b, p, depth + 1)?; let x = parse(b, p, depth + 1)?; v.push((k, x)); } Some(Item::Map(v, true)) }
        (6, Some(t)) => Some(Item::Tag(t, Box::new(parse(b, p, depth + 1)?))),
        (7, _) => Some(Item::Simple(b[start..*p].to_vec())),
        _ => None,
    }
}
fn wr_head(m: u8, n: u64, o: &mut Vec<u8>) {
    let mb = m << 5;
    if n < 24 { o.push(mb | n as u8) } else if n < 256 { o.push(mb | 24); o.push(n as u8) } else if n < 65536 { o.push(mb | 25); o.extend_from_slice(&(n as u16).to_be_bytes()) }
    else if n < (1u64 << 32) { o.push(mb | 26); o.extend_from_slice(&(n as u32).to_be_bytes()) } else { o.push(mb | 27); o.extend_from_slice(&n.to_be_bytes()) }
}
/// mode 1: drop every set tag 258; mode 2: outermost array / map (below tags) indefinite
fn emit(it: &Item, mode: u8, outer: bool, o: &mut Vec<u8>) {
    match it {
        Item::Head(_, _, raw) => o.extend_from_slice(raw),
        Item::Simple(raw) => o.extend_from_slice(raw),
        Item::Bytes(m, v, chunks, indef) => { if *indef { o.push((m << 5) | 31); for c in chunks { wr_head(*m, c.len() as u64, o); o.extend_from_slice(c); } o.push(0xff); } else { wr_head(*m, v.len() as u64, o); o.extend_from_slice(v); } }
        Item::Tag(t, x) => { if mode == 1 && *t == 258 { emit(x, mode, false, o) } else { wr_head(6, *t, o); emit(x, mode, outer, o) } }
        Item::Arr(v, indef) => { let ind = *indef || (mode == 2 && outer); if ind { o.push(0x9f) } else { wr_head(4, v.len() as u64, o) } for x in v { emit(x, mode, false, o); } if ind { o.push(0xff) } }
        Item::Map(v, indef) => { let ind = *indef || (mode == 2 && outer); if ind { o.push(0xbf) } else { wr_head(5, v.len() as u64, o) } for (k, x) in v { emit(k, mode, false, o); emit(x, mode, false, o); } if ind { o.push(0xff) } }
    }
}
/// None when the variant is the same bytes (nothing to re-frame) or the input does not parse as one item
pub fn reframe(b: &[u8], mode: u8) -> Option<Vec<u8>> {
    let mut p = 0; let it = parse(b, &mut p, 0)?; if p != b.len() { return None; }
    let mut o = vec![]; emit(&it, mode, true, &mut o);
    if o == b { None } else { Some(o) }
}
