//! C19 correspondence harness: collateral return / total collateral of TransactionBuilder.
//! `c19 gen <dir>` generates cases from VERIF_SEED / VERIF_TIER and runs the implementation;
//! `c19 run <cases> <out>` runs the implementation on given case lines (replay / corpus).
//!
//! Case line:
//!   <label> S <coins_per_utxo_byte> <fee_a> <fee_b> <in_coin> <out_coin> U <n> {<coin>}* T <n> {<output> <min_ada|err>}* H <n> {<op>}*
//!   value  = <coin> <ma>        ma = ~ | <npolicies> {<policy hex28> <nassets> {<name hex|-> <qty>}*}*
//!   output = <address hex> <value> <extra>      extra = - | <data hash hex32>
//!   op     = C <n> {<txid hex32> <index> <value>}*      set_collateral(TxInputsBuilder with these inputs added in order)
//!          | R <output> | r | T <coin> | t                set_/remove_collateral_return, set_/remove_total_collateral
//!          | RT <output>                                  set_collateral_return_and_total
//!          | TR <coin> <address hex>                      set_total_collateral_and_return
//!          | P <pct> <address hex> <bal_ok 0|1> <fee|~>   add_inputs_from_and_change_with_collateral_return(U, LargestFirst, ChangeConfig(address), pct)
//!          | B <fee|~>                                    add_change_if_needed(change address)
//!          | F <fee> <fee>                                set_fee(fee)
//! S: the builder starts with one regular input of <in_coin> (if > 0) and one output of <out_coin> (if > 0);
//! U: the UTxOs offered to P.  T, the <bal_ok>/<fee> of P and the <fee> of B/F are ORACLES for the model (the library's
//! min_ada_for_output at the outputs that occur, the outcome of the balancing step, the fee afterwards); `gen` computes
//! them by running the library, `run` ignores them and reports what the library does now.
//!
//! Observation: per operation `<ok|err>|13=…|16=…|17=…|fee=…` (fields of `build()` right after it), then `tx=ok|na|DIFF`
//! (build_tx of the final state: ok = built and its fields 13/16/17 equal the last snapshot, na = build_tx refused).
#![allow(deprecated)]
use cardano_serialization_lib::*;
use csl_verif_harness::util::*;

fn b64(x: u64) -> BigNum { BigNum::from(x) }

// ------------------------------------------------------------------------------------------------
// plain data of a case
#[derive(Clone, Debug, PartialEq)]
struct Val { coin: u64, ma: Option<Vec<(Vec<u8>, Vec<(Vec<u8>, u64)>)>> }
#[derive(Clone, Debug, PartialEq)]
struct Outp { addr: Vec<u8>, val: Val, extra: Vec<u8> }
#[derive(Clone, Debug)]
enum Op {
    C(Vec<(Vec<u8>, u32, Val)>), R(Outp), Rr, T(u64), Tr, RT(Outp), TR(u64, Vec<u8>),
    P(u64, Vec<u8>, bool, Option<u64>), B(Option<u64>), F(u64, Option<u64>),
}
#[derive(Clone, Debug)]
struct Case { label: String, cpb: u64, fee_a: u64, fee_b: u64, in_coin: u64, out_coin: u64, utxos: Vec<u64>,
              table: Vec<(Outp, Option<u64>)>, ops: Vec<Op> }

fn to_value(v: &Val) -> Value {
    let mut r = Value::new(&b64(v.coin));
    if let Some(pols) = &v.ma {
        let mut ma = MultiAsset::new();
        for (p, assets) in pols {
            let mut a = Assets::new();
            for (n, q) in assets { a.insert(&AssetName::new(n.clone()).expect("asset name"), &b64(*q)); }
            ma.insert(&ScriptHash::from_bytes(p.clone()).expect("policy"), &a);
        }
        r.set_multiasset(&ma);
    }
    r
}
fn from_value(v: &Value) -> Val {
    let ma = v.multiasset().map(|ma| {
        let ks = ma.keys();
        (0..ks.len()).map(|i| {
            let p = ks.get(i);
            let a = ma.get(&p).unwrap();
            let ns = a.keys();
            (p.to_bytes(), (0..ns.len()).map(|j| { let n = ns.get(j); (n.name(), u64::from(a.get(&n).unwrap())) }).collect())
        }).collect()
    });
    Val { coin: u64::from(v.coin()), ma }
}
/// `extra` (opaque for the model): 32 bytes = data hash; D1 ++ payload = inline datum (bytes payload);
/// 5C ++ keyhash28 = script reference (native pubkey script); DC ++ keyhash28 ++ payload = both
fn script_ref_of(kh: &[u8]) -> ScriptRef {
    ScriptRef::new_native_script(&NativeScript::new_script_pubkey(&ScriptPubkey::new(&Ed25519KeyHash::from_bytes(kh.to_vec()).expect("key hash"))))
}
fn to_output(o: &Outp) -> TransactionOutput {
    let mut out = TransactionOutput::new(&Address::from_bytes(o.addr.clone()).expect("address"), &to_value(&o.val));
    let e = &o.extra;
    if e.is_empty() { return out; }
    if e.len() == 32 { out.set_data_hash(&DataHash::from_bytes(e.clone()).expect("data hash")); return out; }
    match e[0] {
        0xD1 => out.set_plutus_data(&PlutusData::new_bytes(e[1..].to_vec())),
        0x5C => out.set_script_ref(&script_ref_of(&e[1..29])),
        0xDC => { out.set_script_ref(&script_ref_of(&e[1..29])); out.set_plutus_data(&PlutusData::new_bytes(e[29..].to_vec())); }
        _ => panic!("extra syntax"),
    }
    out
}
fn from_output(o: &TransactionOutput) -> Outp {
    let kh = o.script_ref().and_then(|r| r.native_script()).and_then(|n| n.as_script_pubkey()).map(|k| k.addr_keyhash().to_bytes());
    let datum = o.plutus_data().and_then(|d| d.as_bytes());
    let extra = if let Some(h) = o.data_hash() { if o.has_script_ref() { vec![0xEE] } else { h.to_bytes() } }
                else { match (kh, datum, o.has_script_ref(), o.has_plutus_data()) {
                    (None, None, false, false) => vec![],
                    (Some(k), None, true, false) => { let mut v = vec![0x5C]; v.extend(k); v }
                    (None, Some(d), false, true) => { let mut v = vec![0xD1]; v.extend(d); v }
                    (Some(k), Some(d), true, true) => { let mut v = vec![0xDC]; v.extend(k); v.extend(d); v }
                    _ => vec![0xEE] } };
    Outp { addr: o.address().to_bytes(), val: from_value(&o.amount()), extra }
}

// --- case text -----------------------------------------------------------------------------------
fn val_tokens(v: &Val, t: &mut Vec<String>) {
    t.push(v.coin.to_string());
    match &v.ma {
        None => t.push("~".into()),
        Some(pols) => {
            t.push(pols.len().to_string());
            for (p, assets) in pols {
                t.push(hex_or_dash(p)); t.push(assets.len().to_string());
                for (n, q) in assets { t.push(hex_or_dash(n)); t.push(q.to_string()); }
            }
        }
    }
}
fn out_tokens(o: &Outp, t: &mut Vec<String>) { t.push(hex_or_dash(&o.addr)); val_tokens(&o.val, t); t.push(hex_or_dash(&o.extra)); }
fn optn(x: &Option<u64>) -> String { x.map(|v| v.to_string()).unwrap_or("~".into()) }

impl Case {
    fn line(&self) -> String {
        let mut t: Vec<String> = vec![self.label.clone(), "S".into(), self.cpb.to_string(), self.fee_a.to_string(), self.fee_b.to_string(),
                                      self.in_coin.to_string(), self.out_coin.to_string(), "U".into(), self.utxos.len().to_string()];
        for u in &self.utxos { t.push(u.to_string()); }
        t.push("T".into()); t.push(self.table.len().to_string());
        for (o, m) in &self.table { out_tokens(o, &mut t); t.push(m.map(|v| v.to_string()).unwrap_or("err".into())); }
        t.push("H".into()); t.push(self.ops.len().to_string());
        for op in &self.ops {
            match op {
                Op::C(ins) => { t.push("C".into()); t.push(ins.len().to_string());
                    for (id, ix, v) in ins { t.push(hex_or_dash(id)); t.push(ix.to_string()); val_tokens(v, &mut t); } }
                Op::R(o) => { t.push("R".into()); out_tokens(o, &mut t); }
                Op::Rr => t.push("r".into()),
                Op::T(c) => { t.push("T".into()); t.push(c.to_string()); }
                Op::Tr => t.push("t".into()),
                Op::RT(o) => { t.push("RT".into()); out_tokens(o, &mut t); }
                Op::TR(c, a) => { t.push("TR".into()); t.push(c.to_string()); t.push(hex_or_dash(a)); }
                Op::P(p, a, ok, f) => { t.push("P".into()); t.push(p.to_string()); t.push(hex_or_dash(a)); t.push((*ok as u8).to_string()); t.push(optn(f)); }
                Op::B(f) => { t.push("B".into()); t.push(optn(f)); }
                Op::F(x, f) => { t.push("F".into()); t.push(x.to_string()); t.push(optn(f)); }
            }
        }
        t.join(" ")
    }
}

struct P<'a> { t: &'a [String], i: usize }
impl<'a> P<'a> {
    fn next(&mut self) -> &'a str { let s = &self.t[self.i]; self.i += 1; s.as_str() }
    fn expect(&mut self, s: &str) { assert_eq!(self.next(), s, "case syntax"); }
    fn u(&mut self) -> u64 { self.next().parse().expect("u64") }
    fn n(&mut self) -> usize { self.next().parse().expect("count") }
    fn optn(&mut self) -> Option<u64> { let s = self.next(); if s == "~" { None } else { Some(s.parse().expect("u64")) } }
    fn bytes(&mut self) -> Vec<u8> { unhex_or_dash(self.next()) }
    fn val(&mut self) -> Val {
        let coin = self.u();
        let s = self.next();
        let ma = if s == "~" { None } else {
            let np: usize = s.parse().unwrap();
            Some((0..np).map(|_| { let p = self.bytes(); let na = self.n(); (p, (0..na).map(|_| { let n = self.bytes(); (n, self.u()) }).collect()) }).collect())
        };
        Val { coin, ma }
    }
    fn outp(&mut self) -> Outp { let addr = self.bytes(); let val = self.val(); let extra = self.bytes(); Outp { addr, val, extra } }
}
fn parse(toks: &[String]) -> Case {
    let mut p = P { t: toks, i: 0 };
    let label = p.next().to_string();
    p.expect("S");
    let (cpb, fee_a, fee_b, in_coin, out_coin) = (p.u(), p.u(), p.u(), p.u(), p.u());
    p.expect("U"); let nu = p.n(); let utxos = (0..nu).map(|_| p.u()).collect();
    p.expect("T"); let nt = p.n();
    let table = (0..nt).map(|_| { let o = p.outp(); let m = p.next(); (o, if m == "err" { None } else { Some(m.parse().unwrap()) }) }).collect();
    p.expect("H"); let nh = p.n();
    let mut ops = vec![];
    for _ in 0..nh {
        ops.push(match p.next() {
            "C" => { let n = p.n(); Op::C((0..n).map(|_| { let id = p.bytes(); let ix = p.u() as u32; (id, ix, p.val()) }).collect()) }
            "R" => Op::R(p.outp()), "r" => Op::Rr, "T" => Op::T(p.u()), "t" => Op::Tr, "RT" => Op::RT(p.outp()),
            "TR" => { let c = p.u(); Op::TR(c, p.bytes()) }
            "P" => { let pct = p.u(); let a = p.bytes(); let ok = p.next() == "1"; Op::P(pct, a, ok, p.optn()) }
            "B" => Op::B(p.optn()),
            "F" => { let x = p.u(); Op::F(x, p.optn()) }
            x => panic!("bad op {}", x),
        });
    }
    Case { label, cpb, fee_a, fee_b, in_coin, out_coin, utxos, table, ops }
}

// --- canonical rendering of observations (the driver prints the same) -----------------------------
fn val_str(v: &Val) -> String {
    let ma = match &v.ma {
        None => "~".to_string(),
        Some(pols) => format!("[{}]", pols.iter().map(|(p, a)| format!("{}:{}", hex_or_dash(p),
            a.iter().map(|(n, q)| format!("{}={}", hex_or_dash(n), q)).collect::<Vec<_>>().join("+"))).collect::<Vec<_>>().join(",")),
    };
    format!("{}/{}", v.coin, ma)
}
fn out_str(o: &Outp) -> String { format!("{};{};{}", hex_or_dash(&o.addr), val_str(&o.val), hex_or_dash(&o.extra)) }

fn fields_of(body: &TransactionBody) -> String {
    let f13 = match body.collateral() { None => "~".to_string(),
        Some(c) => (0..c.len()).map(|i| { let x = c.get(i); format!("{}#{}", hex::encode(x.transaction_id().to_bytes()), x.index()) }).collect::<Vec<_>>().join(",") };
    let f16 = body.collateral_return().map(|o| out_str(&from_output(&o))).unwrap_or("~".into());
    let f17 = body.total_collateral().map(|c| c.to_str()).unwrap_or("~".into());
    format!("13={}|16={}|17={}", f13, f16, f17)
}
fn snapshot(tb: &TransactionBuilder) -> String {
    let mut t = tb.clone();
    let fee = t.get_fee_if_set();
    if fee.is_none() { t.set_fee(&b64(200_000)); }
    let f = match t.build() { Ok(b) => fields_of(&b), Err(_) => "builderr".to_string() };
    format!("{}|fee={}", f, fee.map(|c| c.to_str()).unwrap_or("~".into()))
}

// --- the scenario --------------------------------------------------------------------------------
fn key_addr(i: u8) -> Address { EnterpriseAddress::new(0, &Credential::from_keyhash(&Ed25519KeyHash::from_bytes(vec![i; 28]).unwrap())).to_address() }
fn change_addr() -> Address { key_addr(0xCC) }
fn new_builder(c: &Case) -> TransactionBuilder {
    let cfg = TransactionBuilderConfigBuilder::new()
        .fee_algo(&LinearFee::new(&b64(c.fee_a), &b64(c.fee_b)))
        .pool_deposit(&b64(500_000_000)).key_deposit(&b64(2_000_000))
        .max_value_size(5000).max_tx_size(1 << 30)
        .coins_per_utxo_byte(&b64(c.cpb))
        .build().unwrap();
    let mut tb = TransactionBuilder::new(&cfg);
    if c.in_coin > 0 {
        let input = TransactionInput::new(&TransactionHash::from_bytes(vec![0xA1; 32]).unwrap(), 0);
        tb.add_regular_input(&key_addr(0xA1), &input, &Value::new(&b64(c.in_coin))).unwrap();
    }
    if c.out_coin > 0 { let _ = tb.add_output(&TransactionOutput::new(&key_addr(0xB1), &Value::new(&b64(c.out_coin)))); }
    tb
}
fn offered(c: &Case) -> TransactionUnspentOutputs {
    let mut u = TransactionUnspentOutputs::new();
    for (i, coin) in c.utxos.iter().enumerate() {
        let input = TransactionInput::new(&TransactionHash::from_bytes(vec![0xD0 + i as u8; 32]).unwrap(), i as u32);
        u.add(&TransactionUnspentOutput::new(&input, &TransactionOutput::new(&key_addr(0xD0 + i as u8), &Value::new(&b64(*coin)))));
    }
    u
}
fn collateral_builder(ins: &[(Vec<u8>, u32, Val)]) -> TxInputsBuilder {
    let mut c = TxInputsBuilder::new();
    for (i, (id, ix, v)) in ins.iter().enumerate() {
        let input = TransactionInput::new(&TransactionHash::from_bytes(id.clone()).expect("tx id"), *ix);
        c.add_regular_input(&key_addr(0x70 + (i as u8 % 8)), &input, &to_value(v)).unwrap();
    }
    c
}

/// Applies one operation to the real builder; returns Ok/Err of the call (plain setters and balancing report ok).
fn apply(c: &Case, tb: &mut TransactionBuilder, col: &mut TxInputsBuilder, op: &Op) -> bool {
    match op {
        Op::C(ins) => { *col = collateral_builder(ins); tb.set_collateral(col); true }
        Op::R(o) => { tb.set_collateral_return(&to_output(o)); true }
        Op::Rr => { tb.remove_collateral_return(); true }
        Op::T(t) => { tb.set_total_collateral(&b64(*t)); true }
        Op::Tr => { tb.remove_total_collateral(); true }
        Op::RT(o) => tb.set_collateral_return_and_total(&to_output(o)).is_ok(),
        Op::TR(t, a) => tb.set_total_collateral_and_return(&b64(*t), &Address::from_bytes(a.clone()).expect("address")).is_ok(),
        Op::P(pct, a, _, _) => {
            let addr = Address::from_bytes(a.clone()).expect("address");
            tb.add_inputs_from_and_change_with_collateral_return(&offered(c), CoinSelectionStrategyCIP2::LargestFirst, &ChangeConfig::new(&addr), &b64(*pct)).is_ok()
        }
        Op::B(_) => { let _ = tb.add_change_if_needed(&change_addr()); true }
        Op::F(x, _) => { tb.set_fee(&b64(*x)); true }
    }
}

fn exec(toks: &[String]) -> String {
    let c = parse(toks);
    let mut tb = new_builder(&c);
    let mut col = TxInputsBuilder::new();
    let mut obs: Vec<String> = vec![];
    let mut last = String::new();
    for op in &c.ops {
        let ok = apply(&c, &mut tb, &mut col, op);
        last = snapshot(&tb);
        obs.push(format!("{}|{}", if ok { "ok" } else { "err" }, last));
    }
    let tx = match tb.build_tx() {
        Ok(tx) => { let f = fields_of(&tx.body()); if last.starts_with(&format!("{}|fee=", f)) || c.ops.is_empty() { "ok" } else { "DIFF" } }
        Err(_) => "na",
    };
    obs.push(format!("tx={}", tx));
    obs.join(" ")
}

// ------------------------------------------------------------------------------------------------
// oracle pass (gen only): fills the min-ADA table and the balancing outcomes by running the library
fn min_ada_of(c: &Case, o: &Outp) -> Option<u64> {
    let dc = DataCost::new_coins_per_byte(&b64(c.cpb));
    min_ada_for_output(&to_output(o), &dc).ok().map(u64::from)
}
fn note(c: &mut Case, o: Outp) { if !c.table.iter().any(|(x, _)| *x == o) { let m = min_ada_of(c, &o); c.table.push((o, m)); } }
fn candidate(col: &TxInputsBuilder, total: u64, addr: &[u8]) -> Option<Outp> {
    let s = col.total_value().ok()?;
    if u64::from(s.coin()) < total { return None; }
    let ret = s.checked_sub(&Value::new(&b64(total))).ok()?;
    Some(Outp { addr: addr.to_vec(), val: from_value(&ret), extra: vec![] })
}
fn fill_oracles(c: &mut Case) {
    c.table.clear();
    let mut tb = new_builder(c);
    let mut col = TxInputsBuilder::new();
    for i in 0..c.ops.len() {
        let op = c.ops[i].clone();
        match &op {
            Op::R(o) | Op::RT(o) => note(c, o.clone()),
            Op::TR(t, a) => { if let Some(o) = candidate(&col, *t, a) { note(c, o); } }
            Op::P(pct, a, _, _) => {
                let addr = Address::from_bytes(a.clone()).expect("address");
                let mut ok = false; let mut fee = tb.get_fee_if_set().map(u64::from);
                if let Ok(total) = col.total_value() {
                    let mut t2 = tb.clone();
                    t2.set_total_collateral(&total.coin());
                    t2.set_collateral_return(&TransactionOutput::new(&addr, &total));
                    ok = t2.add_inputs_from_and_change(&offered(c), CoinSelectionStrategyCIP2::LargestFirst, &ChangeConfig::new(&addr)).is_ok();
                    fee = t2.get_fee_if_set().map(u64::from);
                    if let (true, Some(f)) = (ok, fee) {
                        let req = (f as u128) * (*pct as u128);
                        if req <= u64::MAX as u128 { if let Some(o) = candidate(&col, (req / 100 + 1) as u64, a) { note(c, o); } }
                    }
                }
                c.ops[i] = Op::P(*pct, a.clone(), ok, fee);
            }
            _ => {}
        }
        let op_now = c.ops[i].clone();
        apply(c, &mut tb, &mut col, &op_now);
        match &op_now {
            Op::B(_) => c.ops[i] = Op::B(tb.get_fee_if_set().map(u64::from)),
            Op::F(x, _) => c.ops[i] = Op::F(*x, tb.get_fee_if_set().map(u64::from)),
            _ => {}
        }
    }
}

// ------------------------------------------------------------------------------------------------
// generators
const CPBS: [u64; 9] = [4310, 4310, 4310, 4310, 0, 1, 34482, 1 << 60, u64::MAX / 3];   // the last two: min-ADA computation overflows
fn policy(i: u64) -> Vec<u8> { vec![0x10 + i as u8; 28] }
fn aname(r: &mut Rng) -> Vec<u8> { match r.below(5) { 0 => vec![], 1 => vec![0x41], 2 => vec![0x41, 0x42], 3 => vec![0x7a; 32], _ => vec![0x42] } }
fn addr_bytes(i: u8) -> Vec<u8> { key_addr(i).to_bytes() }
fn base_addr_bytes(i: u8) -> Vec<u8> {
    BaseAddress::new(1, &Credential::from_keyhash(&Ed25519KeyHash::from_bytes(vec![i; 28]).unwrap()),
                     &Credential::from_keyhash(&Ed25519KeyHash::from_bytes(vec![i ^ 0xFF; 28]).unwrap())).to_address().to_bytes()
}
fn any_addr(r: &mut Rng) -> Vec<u8> { let i = 0x20 + r.below(4) as u8; if r.chance(1, 2) { addr_bytes(i) } else { base_addr_bytes(i) } }
fn txid(i: u64) -> Vec<u8> { vec![0x30 + i as u8; 32] }

fn qty(r: &mut Rng) -> u64 { match r.below(6) { 0 => 1, 1 => r.below(1000) + 1, 2 => r.u64_edge(), 3 => 0, _ => r.below(1_000_000_000) + 1 } }
fn rand_ma(r: &mut Rng, odd: bool) -> Option<Vec<(Vec<u8>, Vec<(Vec<u8>, u64)>)>> {
    if odd && r.chance(1, 12) { return Some(vec![]); }                                   // present but empty
    let np = 1 + r.below(3);
    let mut pols: Vec<(Vec<u8>, Vec<(Vec<u8>, u64)>)> = vec![];
    for _ in 0..np {
        let p = policy(r.below(4));
        if pols.iter().any(|(x, _)| *x == p) { continue; }
        let mut assets: Vec<(Vec<u8>, u64)> = vec![];
        let na = if odd && r.chance(1, 12) { 0 } else { 1 + r.below(3) };
        for _ in 0..na { let n = aname(r); if !assets.iter().any(|(x, _)| *x == n) { let q = qty(r); assets.push((n, if !odd && q == 0 { 1 } else { q })); } }
        pols.push((p, assets));
    }
    Some(canon(pols))
}
/// BTreeMap order (policy bytes; names by length then bytes) so that case lines are canonical
fn canon(mut pols: Vec<(Vec<u8>, Vec<(Vec<u8>, u64)>)>) -> Vec<(Vec<u8>, Vec<(Vec<u8>, u64)>)> {
    for (_, a) in pols.iter_mut() { a.sort_by(|x, y| (x.0.len(), &x.0).cmp(&(y.0.len(), &y.0))); }
    pols.sort_by(|x, y| x.0.cmp(&y.0));
    pols
}
fn coin(r: &mut Rng) -> u64 { match r.below(8) { 0 => 5_000_000, 1 => 2_000_000, 2 => r.below(10_000_000), 3 => r.u64_edge(), 4 => 1_000_000 + r.below(100_000_000), 5 => r.below(3), _ => 3_000_000 + r.below(5_000_000) } }
fn rand_collateral(r: &mut Rng, assets_pct: u64, odd: bool) -> Vec<(Vec<u8>, u32, Val)> {
    let n = match r.below(10) { 0 => 0, 1..=5 => 1, 6..=8 => 2, _ => 3 + r.below(3) };
    (0..n).map(|i| {
        let ma = if r.chance(assets_pct, 100) { rand_ma(r, odd) } else { None };
        let id = if r.chance(1, 15) && i > 0 { txid(0) } else { txid(i) };          // rarely the same outpoint twice (map replace)
        let ix = if r.chance(1, 15) && i > 0 { 0 } else { (r.below(3) + i * 3) as u32 };
        (id, ix, Val { coin: if odd { coin(r) } else { 2_000_000 + r.below(20_000_000) }, ma })
    }).collect()
}
/// the library's own sum of a collateral set (None when it overflows)
fn sum_of(ins: &[(Vec<u8>, u32, Val)]) -> Option<Val> { collateral_builder(ins).total_value().ok().map(|v| from_value(&v)) }

/// a name related to `n`: proper prefix, one byte longer, same length / other last byte, empty, or unrelated
/// (AssetName order is length-first, so these land before / after / next to `n` in the map)
fn related_name(r: &mut Rng, n: &[u8]) -> Vec<u8> {
    let mut v = n.to_vec();
    match r.below(6) {
        0 => { if v.is_empty() { v.push(0x00); } else { v.pop(); } }
        1 => { if v.len() < 32 { v.push(*r.pick(&[0x00u8, 0x41, 0xff])); } else { v.pop(); } }
        2 => { if let Some(l) = v.last_mut() { *l = l.wrapping_add(if r.chance(1, 2) { 1 } else { 0xff }); } else { v.push(0x41); } }
        3 => { v = vec![]; }
        4 => { v = vec![0x66]; }
        _ => { if v.len() < 32 { v.insert(0, 0x00); } else { v[0] ^= 1; } }
    }
    v
}
fn put(a: &mut Vec<(Vec<u8>, u64)>, n: Vec<u8>, q: u64) { if let Some(e) = a.iter_mut().find(|e| e.0 == n) { e.1 = q; } else { a.push((n, q)); } }

/// Every structural relation between the return's assets and the inputs' (the sum `v`), one per call.
/// Returns the name of the relation (for debugging only).
fn mutate_assets(r: &mut Rng, v: &mut Val, k: u64) -> &'static str {
    let held = v.ma.clone().unwrap_or_default();
    let nonempty: Vec<usize> = (0..held.len()).filter(|i| !held[*i].1.is_empty()).collect();
    let mut p = held.clone();
    let pick_pol = |r: &mut Rng| if nonempty.is_empty() { None } else { Some(*r.pick(&nonempty)) };
    let what = match k {
        0 => { "equal" }
        1 => { if !p.is_empty() { let i = r.below(p.len() as u64) as usize; p.remove(i); } "policy-missing" }
        2 => { if let Some(i) = pick_pol(r) { let j = r.below(p[i].1.len() as u64) as usize; p[i].1.remove(j); if p[i].1.is_empty() && r.chance(1, 2) { p.remove(i); } } "name-missing" }
        3 => { if let Some(i) = pick_pol(r) { let j = r.below(p[i].1.len() as u64) as usize; p[i].1[j].1 = p[i].1[j].1.saturating_sub(1 + r.below(2)); } "quantity-less" }
        4 => { if let Some(i) = pick_pol(r) { let j = r.below(p[i].1.len() as u64) as usize; p[i].1[j].1 = p[i].1[j].1.saturating_add(1); } "quantity-more" }
        5 => { p.push((policy(7), vec![(vec![0x66], 1 + r.below(5))])); "foreign-policy" }
        6 => { // foreign NAME under a HELD policy (related to a held name: prefix / longer / neighbour / empty)
               if let Some(i) = pick_pol(r) { let j = r.below(p[i].1.len() as u64) as usize; let n = related_name(r, &p[i].1[j].0.clone());
                   if !p[i].1.iter().any(|e| e.0 == n) { let q = 1 + r.below(9); p[i].1.push((n, q)); } } "foreign-name-held-policy" }
        7 => { // HELD name under a foreign policy
               if let Some(i) = pick_pol(r) { let j = r.below(p[i].1.len() as u64) as usize; let e = p[i].1[j].clone(); let np = policy(4 + r.below(3));
                   if let Some(x) = p.iter_mut().find(|x| x.0 == np) { put(&mut x.1, e.0, e.1); } else { p.push((np, vec![e])); } } "held-name-foreign-policy" }
        8 => { // superset within every held policy
               for x in p.iter_mut() { if let Some(e) = x.1.first().cloned() { let n = related_name(r, &e.0); if !x.1.iter().any(|y| y.0 == n) { x.1.push((n, 1)); } } } "superset-per-policy" }
        9 => { // subset within every held policy (first name only)
               for x in p.iter_mut() { x.1.truncate(1); } "subset-per-policy" }
        10 => { if let Some(i) = pick_pol(r) { p[i].1.clear(); } "empty-assets-held-policy" }
        11 => { p.push((policy(4 + r.below(3)), vec![])); "empty-assets-foreign-policy" }
        12 => { // zero quantity of a foreign name under a held policy / of a foreign policy (adds nothing)
               if let (Some(i), true) = (pick_pol(r), r.chance(2, 3)) { let n = related_name(r, &p[i].1[0].0.clone()); if !p[i].1.iter().any(|e| e.0 == n) { p[i].1.push((n, 0)); } }
               else { p.push((policy(6), vec![(vec![0x41], 0)])); } "zero-quantity-extra" }
        13 => { if let Some(i) = pick_pol(r) { let j = r.below(p[i].1.len() as u64) as usize; p[i].1[j].1 = 0; } "zero-quantity-held" }
        14 => { v.ma = None; return "no-assets"; }
        15 => { v.ma = Some(vec![]); return "present-but-empty"; }
        16 => { // swap the quantities of two names (same multiset of numbers, other assignment)
               if let Some(i) = pick_pol(r) { if p[i].1.len() >= 2 { let a = p[i].1[0].1; p[i].1[0].1 = p[i].1[1].1; p[i].1[1].1 = a; } } "quantities-swapped" }
        _ => { // same names moved to another (foreign) policy entirely
               if let Some(i) = pick_pol(r) { p[i].0 = policy(4 + r.below(3)); let mut seen: Vec<Vec<u8>> = vec![]; p.retain(|x| { let d = seen.contains(&x.0); seen.push(x.0.clone()); !d }); } "policy-renamed" }
    };
    v.ma = if p.is_empty() && v.ma.is_none() { None } else { Some(canon(p)) };
    what
}
const N_ASSET_RELATIONS: u64 = 18;

fn rand_extra(r: &mut Rng) -> Vec<u8> {
    match r.below(5) {
        0 => vec![0x5A; 32],
        1 => { let mut v = vec![0xD1]; v.extend(vec![0x77; r.below(60) as usize]); v }
        2 => { let mut v = vec![0x5C]; v.extend(vec![0x88; 28]); v }
        3 => { let mut v = vec![0xDC]; v.extend(vec![0x88; 28]); v.extend(vec![0x77; 1 + r.below(40) as usize]); v }
        _ => vec![],
    }
}

/// a return output derived from the sum: `rel` = which asset relation (None: mostly equal), coin variants around
/// the minimum ADA of the FULL output, of the bare (address + value) output, around the whole sum, 0 and 64-bit edges
fn derived_return_rel(r: &mut Rng, c: &Case, sum: &Val, rel: Option<u64>) -> Outp {
    let mut v = sum.clone();
    let k = match rel { Some(k) => k, None => if r.chance(2, 5) { 0 } else { r.below(N_ASSET_RELATIONS) } };
    mutate_assets(r, &mut v, k);
    let mut o = Outp { addr: any_addr(r), val: v, extra: if r.chance(1, 4) { rand_extra(r) } else { vec![] } };
    let m = { o.val.coin = sum.coin / 2; min_ada_of(c, &o).unwrap_or(1_000_000) };
    let bare = { let b = Outp { addr: o.addr.clone(), val: o.val.clone(), extra: vec![] }; min_ada_of(c, &b).unwrap_or(1_000_000) };
    o.val.coin = match r.below(12) {
        0 => m, 1 => m.saturating_sub(1), 2 => m.saturating_add(1), 3 => sum.coin, 4 => sum.coin.saturating_add(1), 5 => sum.coin.saturating_sub(1),
        6 => 0, 7 => r.u64_edge(),
        8 => bare, 9 => if m > bare { bare + r.below(m - bare) } else { bare.saturating_sub(1) },      // between the bare and the full minimum
        _ => if sum.coin > m { m + r.below((sum.coin - m).saturating_add(1)) } else { sum.coin / 2 },
    };
    if let Some(m2) = min_ada_of(c, &o) { if r.chance(1, 5) { o.val.coin = if r.chance(1, 2) { m2 } else { m2.saturating_sub(1) }; } }
    o
}
fn derived_return(r: &mut Rng, c: &Case, sum: &Val) -> Outp { derived_return_rel(r, c, sum, None) }
fn derived_total(r: &mut Rng, c: &Case, sum: &Val) -> u64 {
    let probe = Outp { addr: addr_bytes(0x20), val: Val { coin: sum.coin / 2, ma: sum.ma.clone() }, extra: vec![] };
    let m = min_ada_of(c, &probe).unwrap_or(1_000_000);
    match r.below(12) {
        0 => sum.coin, 1 => sum.coin.saturating_add(1), 2 => sum.coin.saturating_sub(1), 3 => sum.coin.saturating_sub(m),
        4 => sum.coin.saturating_sub(m).saturating_add(1), 5 => sum.coin.saturating_sub(m.saturating_add(1)), 6 => 0, 7 => r.u64_edge(), 8 => 1,
        _ => r.below(sum.coin.saturating_add(1).max(1)),
    }
}
fn scenario(r: &mut Rng, label: &str) -> Case {
    Case { label: label.into(), cpb: *r.pick(&CPBS), fee_a: 44, fee_b: 155381, in_coin: 0, out_coin: 0, utxos: vec![], table: vec![], ops: vec![] }
}
fn balanced_scenario(r: &mut Rng, label: &str) -> Case {
    let mut c = scenario(r, label);
    c.cpb = if r.chance(3, 4) { 4310 } else { *r.pick(&CPBS) };
    if r.chance(1, 6) { c.fee_a = r.below(1000); c.fee_b = match r.below(3) { 0 => 0, 1 => r.below(1 << 40), _ => r.below(1_000_000) }; }
    c.out_coin = 1_500_000 + r.below(5_000_000);
    c.utxos = (0..1 + r.below(3)).map(|_| if r.chance(1, 10) { r.below(2_000_000) } else { 8_000_000 + r.below(1u64 << 42) }).collect();
    c
}
fn pct(r: &mut Rng) -> u64 { match r.below(8) { 0 => 150, 1 => 100, 2 => 0, 3 => 1, 4 => r.u64_edge(), 5 => 100 + r.below(200), 6 => r.below(100_000), _ => 150 } }

fn rand_op(r: &mut Rng, c: &Case, cur: &mut Vec<(Vec<u8>, u32, Val)>, odd: bool) -> Op {
    let sum = sum_of(cur).unwrap_or(Val { coin: 5_000_000, ma: None });
    match r.below(20) {
        0 | 1 | 2 => { *cur = rand_collateral(r, 50, odd); Op::C(cur.clone()) }
        3 => Op::R(derived_return(r, c, &sum)), 4 => Op::Rr, 5 => Op::T(derived_total(r, c, &sum)), 6 => Op::Tr,
        7 | 8 | 9 | 10 => Op::RT(derived_return(r, c, &sum)),
        11 | 12 | 13 | 14 => Op::TR(derived_total(r, c, &sum), any_addr(r)),
        15 | 16 => Op::P(pct(r), any_addr(r), false, None),
        17 => Op::B(None),
        18 => Op::F(match r.below(4) { 0 => r.u64_edge(), 1 => 170_000 + r.below(100_000), _ => r.below(5_000_000) }, None),
        _ => Op::TR(sum.coin, any_addr(r)),
    }
}

fn gen(dir: &str) {
    let seed = seed_from_env();
    let thorough = is_thorough();
    let mut r = Rng::new(Rng::new(seed ^ 0xC19).next());
    let mut out = Out::new(dir);
    let emit = |out: &mut Out, mut c: Case| {
        fill_oracles(&mut c);
        let line = c.line();
        let toks: Vec<String> = line.split_whitespace().map(|s| s.to_string()).collect();
        let res = guarded(move || exec(&toks));
        out.emit(&line, &res);
    };
    let scale = if thorough { 40 } else { 4 };

    // 1. explicit return output -> total: every relation between the return's assets and the inputs'
    for k in 0..(700 * scale) {
        let mut c = scenario(&mut r, "rt");
        let odd = k % 4 == 3;
        let ins = rand_collateral(&mut r, if k % 2 == 1 { 90 } else { 60 }, odd);
        if let Some(sum) = sum_of(&ins) {
            let o = if k % 2 == 0 { derived_return(&mut r, &c, &sum) } else {
                // every relation in turn, coin comfortably between min ADA and the sum when possible: the assets alone decide
                let mut o = derived_return_rel(&mut r, &c, &sum, Some((k / 2) % N_ASSET_RELATIONS));
                if let Some(m) = min_ada_of(&c, &o) { if r.chance(4, 5) && sum.coin > m { o.val.coin = m + (sum.coin - m) / 2; } }
                o };
            c.ops = vec![Op::C(ins), Op::RT(o)];
        } else {
            c.ops = vec![Op::C(ins), Op::RT(Outp { addr: addr_bytes(0x21), val: Val { coin: 2_000_000, ma: None }, extra: vec![] })];
        }
        if r.chance(1, 8) { c.ops.remove(0); }                                           // no collateral inputs at all
        if r.chance(1, 6) { c.ops.insert(0, Op::T(coin(&mut r))); }                      // something stored before
        emit(&mut out, c);
    }
    // 2. explicit total -> return
    for k in 0..(700 * scale) {
        let mut c = scenario(&mut r, "tr");
        let odd = k % 4 == 3;
        let ins = rand_collateral(&mut r, 50, odd);
        let sum = sum_of(&ins).unwrap_or(Val { coin: 1, ma: None });
        let t = derived_total(&mut r, &c, &sum);
        c.ops = vec![Op::C(ins), Op::TR(t, any_addr(&mut r))];
        if r.chance(1, 8) { c.ops.remove(0); }
        if r.chance(1, 3) { let o = derived_return(&mut r, &c, &sum); c.ops.insert(c.ops.len() - 1, Op::R(o)); }   // a return stored before
        emit(&mut out, c);
    }
    // 3. the percentage helper (balanced scenarios), also with fields stored before, fee fixed before, sums overflowing
    for k in 0..(500 * scale) {
        let mut c = balanced_scenario(&mut r, "pct");
        let odd = k % 5 == 4;
        let mut ins = rand_collateral(&mut r, 40, odd);
        if r.chance(1, 12) {                                                             // sum overflows in an asset or in the coin
            let m = Some(vec![(policy(1), vec![(vec![0x41], u64::MAX - r.below(2))])]);
            ins = vec![(txid(0), 0, Val { coin: 5_000_000, ma: m.clone() }), (txid(1), 1, Val { coin: 5_000_000, ma: Some(vec![(policy(1), vec![(vec![0x41], 1 + r.below(2))])]) })];
        }
        c.ops = vec![Op::C(ins)];
        if r.chance(1, 4) { c.ops.push(Op::R(Outp { addr: addr_bytes(0x22), val: Val { coin: 3_000_000, ma: None }, extra: vec![] })); c.ops.push(Op::T(7_000_000)); }
        if r.chance(1, 6) {
            let f = match r.below(3) { 0 => 1u64 << (40 + r.below(23)), 1 => 200_000 + r.below(1_000_000), _ => r.u64_edge() };
            c.ops.push(Op::F(f, None));
            if r.chance(1, 2) { c.utxos.push(f.saturating_add(20_000_000)); }
        }
        if r.chance(1, 10) { c.ops.remove(0); }
        let p = if r.chance(1, 8) { // percentages around 2^64 / fee
            (u64::MAX / 170_000).wrapping_add(r.below(2000)).wrapping_sub(1000) } else { pct(&mut r) };
        c.ops.push(Op::P(p, any_addr(&mut r), false, None));
        if r.chance(1, 5) { c.ops.push(Op::P(pct(&mut r), any_addr(&mut r), false, None)); }
        if k % 10 == 7 {
            // the collateral is exactly (or one off) what the helper will ask for: nothing / one lovelace to return
            let p = 2000 + r.below(2000);
            let a = any_addr(&mut r);
            let mk = |coin: u64| vec![Op::C(vec![(txid(0), 0, Val { coin, ma: None })]), Op::P(p, a.clone(), false, None)];
            c.ops = mk(5_000_000);
            let mut probe = c.clone(); fill_oracles(&mut probe);
            if let Op::P(_, _, true, Some(f)) = &probe.ops[1] {
                let req = (*f as u128 * p as u128 / 100 + 1) as u64;
                c.ops = mk(match r.below(3) { 0 => req, 1 => req.saturating_add(1), _ => req.saturating_sub(1) });
            }
        }
        emit(&mut out, c);
    }
    // 4. random histories of all operations (both orders of everything)
    for k in 0..(700 * scale) {
        let mut c = if k % 2 == 0 { balanced_scenario(&mut r, "hist") } else { scenario(&mut r, "hist") };
        let odd = k % 5 == 4;
        let mut cur: Vec<(Vec<u8>, u32, Val)> = vec![];
        let n = 2 + r.below(7);
        if r.chance(3, 4) { cur = rand_collateral(&mut r, 50, odd); c.ops.push(Op::C(cur.clone())); }
        for _ in 0..n { let op = rand_op(&mut r, &c, &mut cur, odd); c.ops.push(op); }
        emit(&mut out, c);
    }
    // 5. collateral sums at the 2^64 boundary (coin and asset), totals / returns next to them
    for _ in 0..(200 * scale) {
        let mut c = scenario(&mut r, "edge");
        let d = r.below(5) as i128 - 2;
        let total = ((1u128 << 64) as i128 - 1 + d) as u128;                             // 2^64-3 .. 2^64+1
        let a = (r.next() as u128) % (total.min(u64::MAX as u128) + 1);
        let b = total - a;
        if b > u64::MAX as u128 { continue; }
        let in_asset = r.chance(1, 2);
        let mk = |x: u64| if in_asset { Val { coin: 3_000_000, ma: Some(vec![(policy(2), vec![(vec![0x41], x)])]) } } else { Val { coin: x, ma: None } };
        let ins = vec![(txid(0), 0, mk(a as u64)), (txid(1), 1, mk(b as u64))];
        let sum = sum_of(&ins);
        c.ops = vec![Op::C(ins)];
        match (&sum, r.below(3)) {
            (Some(s), 0) => { let o = derived_return(&mut r, &c, s); c.ops.push(Op::RT(o)); }
            (Some(s), 1) => { let t = derived_total(&mut r, &c, s); c.ops.push(Op::TR(t, any_addr(&mut r))); }
            _ => { c.ops.push(Op::TR(r.u64_edge(), any_addr(&mut r))); c.ops.push(Op::RT(Outp { addr: addr_bytes(0x23), val: Val { coin: 2_000_000, ma: None }, extra: vec![] }));
                   if r.chance(1, 2) { c.ops.swap(1, 2); } }
        }
        emit(&mut out, c);
    }
    out.finish();
}

fn main() {
    if std::env::var("VERIF_DEBUG").is_err() { silence_panics(); }
    let args: Vec<String> = std::env::args().collect();
    match args.get(1).map(|s| s.as_str()) {
        Some("gen") => gen(&args[2]),
        Some("run") => {
            let mut o = String::new();
            for (idx, toks) in read_cases(&args[2]) {
                let res = guarded(move || exec(&toks));
                o.push_str(&format!("{} {}\n", idx, res));
            }
            std::fs::write(&args[3], o).unwrap();
        }
        // `c19 oracle <line…>`: recompute the oracles of a hand-written case (prints the full case line)
        Some("oracle") => {
            let toks: Vec<String> = args[2..].iter().flat_map(|s| s.split_whitespace().map(|x| x.to_string()).collect::<Vec<_>>()).collect();
            let mut c = parse(&toks); fill_oracles(&mut c); println!("{}", c.line());
        }
        _ => { eprintln!("usage: c19 gen <dir> | run <cases> <out> | oracle <case line>"); std::process::exit(2); }
    }
}
