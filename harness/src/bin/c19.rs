#![allow(deprecated)]
use cardano_serialization_lib::*;

fn cfg(cpb: u64) -> TransactionBuilderConfig {
    TransactionBuilderConfigBuilder::new()
        .fee_algo(&LinearFee::new(&BigNum::from(44u64), &BigNum::from(155381u64)))
        .pool_deposit(&BigNum::from(500000000u64)).key_deposit(&BigNum::from(2000000u64))
        .max_value_size(5000).max_tx_size(16384)
        .coins_per_utxo_byte(&BigNum::from(cpb))
        .build().unwrap()
}
fn addr(i: u8) -> Address { EnterpriseAddress::new(0, &Credential::from_keyhash(&Ed25519KeyHash::from_bytes(vec![i; 28]).unwrap())).to_address() }
fn txin(i: u8) -> TransactionInput { TransactionInput::new(&TransactionHash::from_bytes(vec![i; 32]).unwrap(), i as u32) }
fn ma(p: u8, n: &[u8], q: u64) -> MultiAsset { let mut m = MultiAsset::new(); let mut a = Assets::new(); a.insert(&AssetName::new(n.to_vec()).unwrap(), &BigNum::from(q)); m.insert(&ScriptHash::from_bytes(vec![p; 28]).unwrap(), &a); m }
fn show(tb: &TransactionBuilder) -> String {
    let mut t = tb.clone(); if t.get_fee_if_set().is_none() { t.set_fee(&BigNum::from(200000u64)); }
    match t.build() { Ok(b) => format!("13={:?} 16={:?} 17={:?}", b.collateral().map(|c| c.len()), b.collateral_return().map(|o| o.amount().to_json().unwrap()), b.total_collateral().map(|c| c.to_str())), Err(e) => format!("builderr {}", e.to_string()) }
}
fn main() {
    // (a)
    let mut tb = TransactionBuilder::new(&cfg(4310));
    let mut c = TxInputsBuilder::new(); c.add_regular_input(&addr(1), &txin(1), &Value::new(&BigNum::from(5_000_000u64))).unwrap();
    tb.set_collateral(&c);
    tb.set_collateral_return(&TransactionOutput::new(&addr(2), &Value::new(&BigNum::from(3_000_000u64))));
    let r = tb.set_total_collateral_and_return(&BigNum::from(5_000_000u64), &addr(3));
    println!("(a) {:?} {}", r.is_ok(), show(&tb));
    // (d) foreign assets
    let mut tb = TransactionBuilder::new(&cfg(4310));
    tb.set_collateral(&c);
    let r = tb.set_collateral_return_and_total(&TransactionOutput::new(&addr(2), &Value::new_with_assets(&BigNum::from(3_000_000u64), &ma(9, b"x", 7))));
    println!("(d) {:?} {}", r.as_ref().err().map(|e| e.to_string()), show(&tb));
    // (c) stale
    let mut tb = TransactionBuilder::new(&cfg(4310));
    tb.set_collateral(&c);
    tb.set_collateral_return_and_total(&TransactionOutput::new(&addr(2), &Value::new(&BigNum::from(3_000_000u64)))).unwrap();
    let mut c2 = TxInputsBuilder::new(); c2.add_regular_input(&addr(1), &txin(4), &Value::new(&BigNum::from(9_000_000u64))).unwrap();
    tb.set_collateral(&c2);
    println!("(c) {}", show(&tb));
    // (b) helper fails at the initial sum with fields set earlier
    let mut tb = TransactionBuilder::new(&cfg(4310));
    let mut c3 = TxInputsBuilder::new();
    c3.add_regular_input(&addr(1), &txin(1), &Value::new_with_assets(&BigNum::from(5_000_000u64), &ma(9, b"x", u64::MAX))).unwrap();
    c3.add_regular_input(&addr(1), &txin(2), &Value::new_with_assets(&BigNum::from(5_000_000u64), &ma(9, b"x", 1))).unwrap();
    tb.set_collateral(&c3);
    tb.set_collateral_return(&TransactionOutput::new(&addr(2), &Value::new(&BigNum::from(3_000_000u64))));
    tb.set_total_collateral(&BigNum::from(7_000_000u64));
    tb.add_output(&TransactionOutput::new(&addr(5), &Value::new(&BigNum::from(2_000_000u64)))).unwrap();
    let mut utxos = TransactionUnspentOutputs::new();
    utxos.add(&TransactionUnspentOutput::new(&txin(7), &TransactionOutput::new(&addr(1), &Value::new(&BigNum::from(50_000_000u64)))));
    let r = tb.add_inputs_from_and_change_with_collateral_return(&utxos, CoinSelectionStrategyCIP2::LargestFirst, &ChangeConfig::new(&addr(6)), &BigNum::from(150u64));
    println!("(b) {:?} {}", r.as_ref().err().map(|e| e.to_string()), show(&tb));
    // (e) helper ok
    let mut tb = TransactionBuilder::new(&cfg(4310));
    tb.set_collateral(&c);
    tb.add_output(&TransactionOutput::new(&addr(5), &Value::new(&BigNum::from(2_000_000u64)))).unwrap();
    let r = tb.add_inputs_from_and_change_with_collateral_return(&utxos, CoinSelectionStrategyCIP2::LargestFirst, &ChangeConfig::new(&addr(6)), &BigNum::from(150u64));
    println!("(e) {:?} fee={:?} {}", r.as_ref().err().map(|e| e.to_string()), tb.get_fee_if_set().map(|f| f.to_str()), show(&tb));
    let r = tb.build_tx(); println!("(e) build_tx {:?}", r.as_ref().err().map(|e| e.to_string()));
}
