//! C02: malformed-input generators.  Structure-aware mutations of valid CBOR, text mutations for hex / bech32 /
//! base58 / JSON, targeted shapes for the partial operations named in DESIGN section 6 (C02) and the short-input sweep.
use super::*;

// ------------------------------------------------------------------------------------------------ CBOR scanner
#[derive(Clone, Debug)]
pub struct Head { pub off: usize, pub major: u8, pub ai: u8, pub arg: u64, pub hlen: usize, pub end: usize, pub depth: usize, pub inner: bool, pub map_value: bool }

fn head_at(bs: &[u8], pos: usize) -> Option<(u8, u8, u64, usize)> {
    let b = *bs.get(pos)?;
    let (m, ai) = (b >> 5, b & 31);
    let rd = |k: usize| -> Option<u64> { let s = bs.get(pos + 1..pos + 1 + k)?; Some(s.iter().fold(0u64, |a, x| (a << 8) | *x as u64)) };
    match ai {
        0..=23 => Some((m, ai, ai as u64, 1)),
        24 => Some((m, ai, rd(1)?, 2)), 25 => Some((m, ai, rd(2)?, 3)), 26 => Some((m, ai, rd(4)?, 5)), 27 => Some((m, ai, rd(8)?, 9)),
        31 => Some((m, ai, 0, 1)),
        _ => None,
    }
}

/// walks one well-formed item starting at `pos`; records every head; returns the end offset
fn scan_item(bs: &[u8], pos: usize, depth: usize, base: usize, inner: bool, heads: &mut Vec<Head>) -> Option<usize> { scan_item_r(bs, pos, depth, base, inner, false, heads) }
fn scan_item_r(bs: &[u8], pos: usize, depth: usize, base: usize, inner: bool, map_value: bool, heads: &mut Vec<Head>) -> Option<usize> {
    if depth > 600 { return None; }
    let (m, ai, arg, hlen) = head_at(bs, pos)?;
    let idx = heads.len();
    heads.push(Head { off: base + pos, major: m, ai, arg, hlen, end: 0, depth, inner, map_value });
    let mut p = pos + hlen;
    let indef = ai == 31;
    match m {
        0 | 1 => { if indef { return None; } }
        2 | 3 => {
            if indef {
                loop { if *bs.get(p)? == 0xff { p += 1; break; } let (m2, ai2, n2, h2) = head_at(bs, p)?; if m2 != m || ai2 == 31 { return None; }
                    heads.push(Head { off: base + p, major: m2, ai: ai2, arg: n2, hlen: h2, end: base + p + h2 + n2 as usize, depth: depth + 1, inner, map_value: false });
                    p = p.checked_add(h2)?.checked_add(n2 as usize)?; if p > bs.len() { return None; } }
            } else {
                let e = p.checked_add(arg as usize)?; if e > bs.len() { return None; }
                if m == 2 && arg >= 1 {
                    // embedded CBOR (bytes .cbor): record the inner heads when the content is exactly one item
                    let mut tmp = Vec::new();
                    if let Some(ie) = scan_item(&bs[p..e], 0, depth + 1, base + p, true, &mut tmp) { if ie == e - p && tmp.len() >= 2 { heads.extend(tmp); } }
                }
                p = e;
            }
        }
        4 | 5 => {
            let per = if m == 5 { 2 } else { 1 };
            if indef { loop { if *bs.get(p)? == 0xff { p += 1; break; } for k in 0..per { p = scan_item_r(bs, p, depth + 1, base, inner, m == 5 && k == 1, heads)?; } } }
            else { if arg > bs.len() as u64 { return None; } for k in 0..(arg as usize * per) { p = scan_item_r(bs, p, depth + 1, base, inner, m == 5 && k % 2 == 1, heads)?; } }
        }
        6 => { if indef { return None; } p = scan_item(bs, p, depth + 1, base, inner, heads)?; }
        _ => { if indef { return None; } }
    }
    heads[idx].end = base + p;
    Some(p)
}
pub fn scan(bs: &[u8]) -> Option<Vec<Head>> { let mut h = Vec::new(); let e = scan_item(bs, 0, 0, 0, false, &mut h)?; if e == bs.len() { Some(h) } else { None } }

pub fn enc_head(major: u8, arg: u64, width: usize) -> Vec<u8> {
    let m = major << 5;
    match width {
        0 => vec![m | (arg as u8 & 31)],
        1 => vec![m | 24, arg as u8],
        2 => { let mut v = vec![m | 25]; v.extend(&(arg as u16).to_be_bytes()); v }
        4 => { let mut v = vec![m | 26]; v.extend(&(arg as u32).to_be_bytes()); v }
        _ => { let mut v = vec![m | 27]; v.extend(&arg.to_be_bytes()); v }
    }
}
pub fn enc_min(major: u8, arg: u64) -> Vec<u8> {
    if arg < 24 { enc_head(major, arg, 0) } else if arg < 256 { enc_head(major, arg, 1) } else if arg < 65536 { enc_head(major, arg, 2) }
    else if arg < (1 << 32) { enc_head(major, arg, 4) } else { enc_head(major, arg, 8) }
}
fn splice(bs: &[u8], from: usize, to: usize, with: &[u8]) -> Vec<u8> { let mut v = bs[..from].to_vec(); v.extend_from_slice(with); v.extend_from_slice(&bs[to..]); v }

pub const HUGE: [u64; 10] = [1 << 16, (1 << 31) - 1, 1 << 31, (1 << 32) - 1, 1 << 32, 1 << 40, (1 << 63) - 1, 1 << 63, u64::MAX - 1, u64::MAX];

/// structure-aware mutations of one valid encoding; `cap` bounds the number of head-directed mutations
pub fn mutate_cbor(seed: &[u8], rng: &mut Rng, cap: usize, one_field: bool, out: &mut Vec<(String, Vec<u8>)>) {
    let n = seed.len();
    // truncation at every offset (every offset when short, all head boundaries + a sample otherwise)
    let heads = scan(seed).unwrap_or_default();
    if n <= 64 { for k in 0..n { out.push(("trunc".into(), seed[..k].to_vec())); } }
    else {
        let mut offs: Vec<usize> = heads.iter().flat_map(|h| vec![h.off, h.off + 1, h.off + h.hlen]).filter(|&o| o < n).collect();
        for _ in 0..24 { offs.push(rng.below(n as u64) as usize); }
        offs.push(n - 1); offs.sort(); offs.dedup();
        if offs.len() > 96 { let keep: Vec<usize> = (0..96).map(|_| *rng.pick(&offs)).collect(); offs = keep; offs.sort(); offs.dedup(); }
        for k in offs { out.push(("trunc".into(), seed[..k].to_vec())); }
    }
    // trailing garbage / appended break
    out.push(("trail".into(), splice(seed, n, n, &[0xff])));
    out.push(("trail".into(), splice(seed, n, n, &[0x00, 0x81])));
    if heads.is_empty() { return; }
    let mut hs: Vec<usize> = (0..heads.len()).collect();
    // always the outermost heads, then a random sample
    let mut pickd: Vec<usize> = hs.drain(..hs.len().min(3)).collect();
    while pickd.len() < heads.len().min(cap) && !hs.is_empty() { let i = rng.below(hs.len() as u64) as usize; pickd.push(hs.swap_remove(i)); }
    for &hi in &pickd {
        let h = &heads[hi];
        let (o, he) = (h.off, h.off + h.hlen);
        // single bit flips in the initial byte, and one in the argument bytes
        for bit in 0..8 { let mut v = seed.to_vec(); v[o] ^= 1 << bit; out.push(("bitflip".into(), v)); }
        if h.hlen > 1 { let mut v = seed.to_vec(); let k = o + 1 + rng.below((h.hlen - 1) as u64) as usize; v[k] ^= 1 << rng.below(8); out.push(("bitflip-arg".into(), v)); }
        if h.ai != 31 {
            // head-width rewrites (non-minimal encodings are still well-formed CBOR)
            for w in [1usize, 2, 4, 8] { if w + 1 != h.hlen && (w == 8 || h.arg < (1u64 << (8 * w))) { out.push((format!("width{}", w), splice(seed, o, he, &enc_head(h.major, h.arg, w)))); } }
            if h.arg >= 24 { out.push(("width0".into(), splice(seed, o, he, &enc_head(h.major, h.arg, 0)))); }
            // declared length / value rewrites
            let mut vals: Vec<u64> = vec![0, h.arg.wrapping_sub(1), h.arg.wrapping_add(1), 23, 24, 255, 256, (n as u64).wrapping_sub(o as u64)];
            vals.push(*rng.pick(&HUGE)); vals.push(*rng.pick(&HUGE)); vals.push(u64::MAX); vals.push(1 << 32); vals.push(rng.u64_edge());
            vals.sort(); vals.dedup();
            for v in vals { if v != h.arg { out.push((if v >= 1 << 31 { "len-huge".into() } else { "len".into() }, splice(seed, o, he, &enc_min(h.major, v)))); } }
            // reserved additional-information values and the indefinite marker in place of the argument
            for ai in [28u8, 29, 30, 31] { out.push(("ai-reserved".into(), splice(seed, o, he, &[(h.major << 5) | ai]))); }
        }
        // major-type swaps (same argument bytes)
        let full = cap >= 8;     // thorough: every variant; quick: a seeded sample of the cheap, numerous ones
        for m in 0..8u8 { if m != h.major && (full || rng.chance(4, 7)) { let mut v = seed.to_vec(); v[o] = (m << 5) | (v[o] & 31); out.push(("major".into(), v)); } }
        // inserted break / null / undefined / tags / a stray item in front of this head
        for ins in [&[0xffu8][..], &[0xf6], &[0xf7], &[0xd8, 0x18], &[0xd9, 0x01, 0x02], &[0xc2], &[0x00], &[0x40], &[0x80], &[0xa0], &[0x9f], &[0x5f], &[0xf5]] {
            if full || rng.chance(1, 2) { out.push(("insert".into(), splice(seed, o, o, ins))); }
        }
        // delete the item, duplicate the item, replace it by null / empty containers
        out.push(("delete".into(), splice(seed, o, h.end.min(n), &[])));
        if h.end <= n && h.end - o <= 200 { let item = seed[o..h.end].to_vec(); out.push(("dup-item".into(), splice(seed, o, o, &item))); }
        for rep in [&[0xf6u8][..], &[0x80], &[0xa0], &[0x40], &[0x60], &[0x00], &[0x20], &[0x9f, 0xff], &[0xbf, 0xff], &[0x5f, 0xff]] { if full || rng.chance(1, 2) { out.push(("replace".into(), splice(seed, o, h.end.min(n), rep))); } }
        // definite -> indefinite container / chunked string, and back
        if h.ai != 31 && !h.inner && h.end <= n {
            match h.major {
                4 | 5 => { let mut v = seed[..o].to_vec(); v.push((h.major << 5) | 31); v.extend_from_slice(&seed[he..h.end]); v.push(0xff); v.extend_from_slice(&seed[h.end..]); out.push(("to-indef".into(), v));
                           let mut v2 = seed[..o].to_vec(); v2.push((h.major << 5) | 31); v2.extend_from_slice(&seed[he..h.end]); v2.extend_from_slice(&seed[h.end..]); out.push(("to-indef-nobreak".into(), v2)); }
                2 | 3 => { let body = &seed[he..h.end]; let cut = body.len() / 2;
                           let mut v = seed[..o].to_vec(); v.push((h.major << 5) | 31);
                           v.extend(enc_min(h.major, cut as u64)); v.extend_from_slice(&body[..cut]); v.extend(enc_min(h.major, (body.len() - cut) as u64)); v.extend_from_slice(&body[cut..]);
                           v.push(0xff); v.extend_from_slice(&seed[h.end..]); out.push(("to-chunked".into(), v));
                           // a chunk that is itself indefinite, a chunk of the other string type, a chunk longer than the input
                           let mut w = seed[..o].to_vec(); w.push((h.major << 5) | 31); w.push((h.major << 5) | 31); w.push(0xff); w.push(0xff); w.extend_from_slice(&seed[h.end..]); out.push(("chunk-indef".into(), w));
                           let mut x = seed[..o].to_vec(); x.push((h.major << 5) | 31); x.extend(enc_min(h.major ^ 1, body.len() as u64)); x.extend_from_slice(body); x.push(0xff); x.extend_from_slice(&seed[h.end..]); out.push(("chunk-foreign".into(), x));
                           let mut y = seed[..o].to_vec(); y.push((h.major << 5) | 31); y.extend(enc_min(h.major, *rng.pick(&HUGE))); y.extend_from_slice(body); y.push(0xff); out.push(("chunk-huge".into(), y)); }
                _ => {}
            }
        }
        // duplicated first entry of a map (count adjusted), dropped entry with the old count
        if h.major == 5 && h.ai != 31 && h.arg >= 1 && hi + 1 < heads.len() && !h.inner {
            let k = &heads[hi + 1];
            // the value item starts where the key ends
            if let Some(vi) = heads.iter().position(|x| x.off == k.end) { let ve = heads[vi].end;
                if ve <= n { let entry = seed[k.off..ve].to_vec();
                    let mut v = seed[..o].to_vec(); v.extend(enc_min(5, h.arg + 1)); v.extend_from_slice(&entry); v.extend_from_slice(&seed[he..]); out.push(("dup-key".into(), v));
                    let mut w = seed[..o].to_vec(); w.extend(enc_min(5, h.arg)); w.extend_from_slice(&seed[ve..]); out.push(("drop-entry".into(), w)); } }
        }
        // nesting: wrap this item in k arrays / tags / maps (depth to 256 and beyond the recursion any reader tolerates cheaply)
    }
    // every field value of the outer map structures replaced by an empty collection / null (presence combinations the writers rarely see)
    let mut nf = 0;
    for h in heads.iter().filter(|h| h.map_value && h.depth <= 3 && !h.inner && h.end <= n) {
        if nf >= 48 { break; } nf += 1;
        for rep in [&[0x80u8][..], &[0xd9, 0x01, 0x02, 0x80], &[0xa0], &[0x9f, 0xff], &[0xd9, 0x01, 0x02, 0x9f, 0xff], &[0xbf, 0xff], &[0xf6]] { out.push(("empty-field".into(), splice(seed, h.off, h.end, rep))); }
    }
    // every definite array / map announcing one item more (or one less) than it holds: a reader that does not compare the
    // declared length with what it reads accepts these
    let mut nl = 0;
    for h in heads.iter().filter(|h| (h.major == 4 || h.major == 5) && h.ai != 31 && !h.inner) {
        if nl >= 40 { break; } nl += 1;
        out.push(("len-plus1".into(), splice(seed, h.off, h.off + h.hlen, &enc_min(h.major, h.arg + 1))));
        if h.arg > 0 { out.push(("len-minus1".into(), splice(seed, h.off, h.off + h.hlen, &enc_min(h.major, h.arg - 1)))); }
    }
    // a map structure with one more field (every small key) holding an empty collection, and the one-field maps themselves
    if heads[0].major == 5 && heads[0].ai != 31 && heads[0].end == n && n <= 400 && (one_field || cap >= 8) {
        let h = &heads[0];
        for k in 0..=25u8 { for e in [&[0x80u8][..], &[0xd9, 0x01, 0x02, 0x80], &[0xa0], &[0x9f, 0xff], &[0xf6]] {
            let mut v = enc_min(5, h.arg + 1); v.extend_from_slice(&seed[h.hlen..]); v.extend(enc_min(0, k as u64)); v.extend_from_slice(e); out.push(("add-field".into(), v));
        } }
    }
    // every one-field map with an empty collection (once per type: it does not depend on the seed)
    if heads[0].major == 5 && one_field {
        for k in 0..=25u8 { for e in [&[0x80u8][..], &[0xd9, 0x01, 0x02, 0x80], &[0xa0], &[0x9f, 0xff], &[0xf6]] {
            let mut w = vec![0xa1u8]; w.extend(enc_min(0, k as u64)); w.extend_from_slice(e); out.push(("one-field".into(), w)); } }
    }
    // byte substitutions anywhere
    for _ in 0..8 { let mut v = seed.to_vec(); let k = rng.below(n as u64) as usize; v[k] = rng.next() as u8; out.push(("subst".into(), v)); }
    // nesting to depth 256 around / inside: replace one sampled item by a deep nest whose leaf is that item
    let h = &heads[*rng.pick(&pickd)];
    if h.end <= n {
        let leaf = seed[h.off..h.end].to_vec();
        for (label, open, close) in [("nest-arr", vec![0x81u8], vec![]), ("nest-indef", vec![0x9f], vec![0xffu8]), ("nest-tag", vec![0xd8, 0x79, 0x81], vec![]),
                                     ("nest-map", vec![0xa1, 0x00], vec![]), ("nest-tag24", vec![0xd8, 0x18], vec![])] {
            for depth in [16usize, 256] {
                let mut mid = Vec::new(); for _ in 0..depth { mid.extend_from_slice(&open); } mid.extend_from_slice(&leaf); for _ in 0..depth { mid.extend_from_slice(&close); }
                out.push((format!("{}{}", label, depth), splice(seed, h.off, h.end, &mid)));
            }
        }
    }
}

// ------------------------------------------------------------------------------------------------ text codecs (harness-side, to build inputs)
const B32: &[u8] = b"qpzry9x8gf2tvdw0s3jn54khce6mua7l";
fn polymod(v: &[u8]) -> u32 { let g = [0x3b6a57b2u32, 0x26508e6d, 0x1ea119fa, 0x3d4233dd, 0x2a1462b3]; let mut c = 1u32;
    for x in v { let b = c >> 25; c = ((c & 0x1ffffff) << 5) ^ (*x as u32); for i in 0..5 { if (b >> i) & 1 == 1 { c ^= g[i]; } } } c }
pub fn bech32_encode_u5(hrp: &str, data: &[u8]) -> String {
    let mut v: Vec<u8> = hrp.bytes().map(|c| c >> 5).collect(); v.push(0); v.extend(hrp.bytes().map(|c| c & 31)); v.extend_from_slice(data); v.extend_from_slice(&[0; 6]);
    let pm = polymod(&v) ^ 1;
    let mut s = String::from(hrp); s.push('1');
    for d in data { s.push(B32[*d as usize] as char); }
    for i in 0..6 { s.push(B32[((pm >> (5 * (5 - i))) & 31) as usize] as char); }
    s
}
pub fn to_u5(bytes: &[u8]) -> Vec<u8> { let mut out = Vec::new(); let (mut acc, mut bits) = (0u32, 0);
    for b in bytes { acc = (acc << 8) | *b as u32; bits += 8; while bits >= 5 { bits -= 5; out.push(((acc >> bits) & 31) as u8); } }
    if bits > 0 { out.push(((acc << (5 - bits)) & 31) as u8); } out }
const B58: &[u8] = b"123456789ABCDEFGHJKLMNPQRSTUVWXYZabcdefghijkmnopqrstuvwxyz";
pub fn base58_encode(bytes: &[u8]) -> String {
    let mut digits: Vec<u8> = vec![0];
    for b in bytes { let mut carry = *b as u32; for d in digits.iter_mut() { carry += (*d as u32) << 8; *d = (carry % 58) as u8; carry /= 58; } while carry > 0 { digits.push((carry % 58) as u8); carry /= 58; } }
    let mut s = String::new(); for b in bytes { if *b == 0 { s.push('1'); } else { break; } }
    let skip = digits.len() == 1 && digits[0] == 0;
    if !skip { for d in digits.iter().rev() { s.push(B58[*d as usize] as char); } }
    s
}
pub fn crc32(bs: &[u8]) -> u32 { let mut c = 0xffff_ffffu32; for b in bs { c ^= *b as u32; for _ in 0..8 { c = if c & 1 == 1 { (c >> 1) ^ 0xedb8_8320 } else { c >> 1 }; } } !c }
fn bstr(b: &[u8]) -> Vec<u8> { let mut v = enc_min(2, b.len() as u64); v.extend_from_slice(b); v }
/// a Byron address whose outer envelope (array 2, tag 24, crc) is valid for the given inner bytes
pub fn byron_envelope(inner: &[u8]) -> Vec<u8> { let mut v = vec![0x82, 0xd8, 0x18]; v.extend(bstr(inner)); v.extend(enc_min(0, crc32(inner) as u64)); v }
pub fn byron_inner(rng: &mut Rng, attr: u8) -> Vec<u8> {
    let mut v = vec![0x83]; v.extend(bstr(&rng.bytes(28)));
    match attr { 0 => v.push(0xa0), 1 => { v.extend([0xa1, 0x01]); v.extend(bstr(&bstr(&rng.bytes(28)))); }
        2 => { v.extend([0xa1, 0x02]); v.extend(bstr(&enc_min(0, rng.below(1 << 32)))); }
        _ => { v.extend([0xa2, 0x01]); v.extend(bstr(&bstr(&rng.bytes(12)))); v.push(0x02); v.extend(bstr(&enc_min(0, 1097911063))); } }
    v.push(rng.below(3) as u8); v
}
pub fn byron_valid(rng: &mut Rng) -> Vec<u8> { let a = rng.below(4) as u8; byron_envelope(&byron_inner(rng, a)) }
pub fn shelley_valid(rng: &mut Rng) -> Vec<u8> {
    let net = rng.below(2) as u8;
    match rng.below(5) {
        0 => { let mut v = vec![(rng.below(4) as u8) << 4 | net]; v.extend(rng.bytes(56)); v }
        1 => { let mut v = vec![0x40 | (rng.below(2) as u8) << 4 | net]; v.extend(rng.bytes(28)); for _ in 0..3 { v.extend(varnat(rng.u64_edge())); } v }
        2 => { let mut v = vec![0x60 | (rng.below(2) as u8) << 4 | net]; v.extend(rng.bytes(28)); v }
        3 => { let mut v = vec![0xe0 | (rng.below(2) as u8) << 4 | net]; v.extend(rng.bytes(28)); v }
        _ => byron_valid(rng),
    }
}
pub fn varnat(mut n: u64) -> Vec<u8> { let mut o = vec![(n & 0x7f) as u8]; n >>= 7; while n > 0 { o.push((n & 0x7f) as u8 | 0x80); n >>= 7; } o.reverse(); o }

fn thex(s: &str) -> String { hex_or_dash(s.as_bytes()) }

/// malformed variants of a text (hex / bech32 / base58 / JSON agnostic)
pub const NON_ASCII: [&str; 9] = ["\u{80}", "\u{a0}", "\u{e9}", "\u{7ff}", "\u{20ac}", "\u{fffd}", "\u{1F600}", "\u{10FFFF}", "\u{ff11}"];
/// non-ASCII text for a decoder of ASCII alphabets (hex, bech32, base58, numbers): a valid text with one character replaced /
/// appended / prepended by multi-byte UTF-8 (2, 3 and 4 bytes, NBSP, full-width digit), random unicode strings, leading '1's
/// followed by non-ASCII
pub fn mutate_nonascii(s: &str, rng: &mut Rng, full: bool, out: &mut Vec<(String, String)>) {
    let cs: Vec<char> = s.chars().collect(); let n = cs.len();
    let mut all: Vec<(String, String)> = Vec::new();
    for ch in NON_ASCII.iter() {
        all.push(("u-append".into(), format!("{}{}", s, ch))); all.push(("u-prepend".into(), format!("{}{}", ch, s)));
        all.push(("u-alone".into(), ch.to_string())); all.push(("u-ones".into(), format!("{}{}", "1".repeat(1 + rng.below(3) as usize), ch)));
        if n > 0 { for k in [0usize, n / 2, n - 1, rng.below(n as u64) as usize] { let mut t: Vec<char> = cs.clone(); t[k] = ch.chars().next().unwrap(); all.push(("u-replace".into(), t.iter().collect())); } }
    }
    for _ in 0..4 { let len = 1 + rng.below(20) as usize; let t: String = (0..len).map(|_| { loop { let c = rng.below(0x11_0000) as u32; if let Some(ch) = char::from_u32(c) { if c >= 0x80 || rng.chance(1, 4) { return ch; } } } }).collect(); all.push(("u-random".into(), t)); }
    // every variant for the directed streams, a seeded fifth of them elsewhere (the sweep has every character alone)
    for x in all { if full || rng.chance(1, 5) { out.push(x); } }
}

pub fn mutate_text(s: &str, rng: &mut Rng, out: &mut Vec<(String, String)>) {
    mutate_nonascii(s, rng, false, out);
    let cs: Vec<char> = s.chars().collect(); let n = cs.len();
    let sub = |a: usize, b: usize| -> String { cs[a..b].iter().collect() };
    out.push(("t-empty".into(), String::new()));
    for k in [1usize, 2, 3, n / 2, n.saturating_sub(2), n.saturating_sub(1)] { if k < n { out.push(("t-trunc".into(), sub(0, k))); } }
    if n > 0 { out.push(("t-trunc".into(), sub(0, rng.below(n as u64) as usize))); out.push(("t-drop-first".into(), sub(1, n))); }
    out.push(("t-upper".into(), s.to_uppercase()));
    if n > 2 { let k = rng.below(n as u64) as usize; let mut t: Vec<char> = cs.clone(); t[k] = t[k].to_ascii_uppercase(); out.push(("t-mixedcase".into(), t.iter().collect())); }
    for c in ['z', 'g', ' ', '\n', '\0', 'é', '\u{1F600}', '1', 'b', 'i', 'o', 'O', '0', 'l', 'I', '"', '\\', '-', '+', '.', 'x'] {
        if n > 0 { let k = rng.below(n as u64) as usize; let mut t: Vec<char> = cs.clone(); t[k] = c; out.push(("t-subst".into(), t.iter().collect()));
                   let mut u: Vec<char> = cs.clone(); u.insert(k, c); out.push(("t-insert".into(), u.iter().collect())); }
    }
    out.push(("t-prefix".into(), format!("0x{}", s))); out.push(("t-prefix".into(), format!(" {}", s))); out.push(("t-suffix".into(), format!("{} ", s)));
    out.push(("t-suffix".into(), format!("{}0", s))); out.push(("t-suffix".into(), format!("{}00", s))); out.push(("t-double".into(), format!("{}{}", s, s)));
    if n > 1 { let k = rng.below((n - 1) as u64) as usize; let mut t = cs.clone(); t.swap(k, k + 1); out.push(("t-swap".into(), t.iter().collect())); }
}

/// bech32 inputs; the third component is the 5-bit data when the text is a checksum-valid, well-formed bech32 string
/// (then the model predicts the outcome from the data alone), None otherwise
pub fn mutate_bech32(hrp: &str, bytes: &[u8], rng: &mut Rng, out: &mut Vec<(String, String, Option<Vec<u8>>)>) {
    let d = to_u5(bytes);
    let good = bech32_encode_u5(hrp, &d);
    let mut valid = |l: &str, data: Vec<u8>, out: &mut Vec<(String, String, Option<Vec<u8>>)>| { out.push((l.into(), bech32_encode_u5(hrp, &data), Some(data))); };
    valid("b32-valid", d.clone(), out);
    // valid checksum, data whose regrouping to bytes has invalid padding: extra symbols / non-zero padding bits
    let mut d1 = d.clone(); d1.push(0); valid("b32-pad-extra0", d1, out);
    let mut d2 = d.clone(); d2.push(31); valid("b32-pad-extra31", d2, out);
    let mut d3 = d.clone(); d3.extend([0, 0]); valid("b32-pad-extra00", d3, out);
    if let Some(l) = d.last().cloned() { let mut d4 = d.clone(); let k = d4.len() - 1; d4[k] = l | 1; valid("b32-pad-nonzero", d4.clone(), out); d4.pop(); valid("b32-drop-sym", d4, out); }
    valid("b32-empty-data", vec![], out);
    valid("b32-one-sym", vec![rng.below(32) as u8], out);
    for _ in 0..6 { let n = rng.below(120) as usize; let data: Vec<u8> = (0..n).map(|_| rng.below(32) as u8).collect(); valid("b32-random-syms", data, out); }
    for l in [0usize, 1, 27, 28, 29, 31, 32, 33, 56, 57, 63, 64, 65, 95, 96, 97, 128] { let b = rng.bytes(l); valid("b32-len", to_u5(&b), out); }
    for h in ["", "a", "addr", "addr_test", "stake", "stake_test", "drep", "drep_script", "cc_hot", "cc_cold", "ed25519_pk", "ed25519_sk", "ed25519e_sk", "xprv", "xpub", "ed25519_sig", "script", "pool", "ADDR", "x\u{7f}"] {
        out.push(("b32-hrp".into(), bech32_encode_u5(h, &d), None));
    }
    out.push(("b32-upper".into(), good.to_uppercase(), None));
    let mut generic = Vec::new(); mutate_text(&good, rng, &mut generic); for (l, s) in generic { out.push((l, s, None)); }
    out.push(("b32-long".into(), bech32_encode_u5(hrp, &to_u5(&rng.bytes(600))), None));
    out.push(("b32-nosep".into(), good.replace('1', ""), None));
    out.push(("b32-onlysep".into(), "1".into(), None)); out.push(("b32-onlysep".into(), "a1".into(), None)); out.push(("b32-onlysep".into(), "1qqqqqq".into(), None));
}

// ------------------------------------------------------------------------------------------------ JSON
pub fn mutate_json(js: &str, rng: &mut Rng, out: &mut Vec<(String, String)>) {
    let b = js.as_bytes(); let n = b.len();
    out.push(("j-valid".into(), js.to_string()));
    for _ in 0..10 { if n > 0 { let k = rng.below(n as u64) as usize; if js.is_char_boundary(k) { out.push(("j-trunc".into(), js[..k].to_string())); } } }
    // token-level rewrites: numbers, strings, literals
    let mut toks: Vec<(usize, usize, u8)> = Vec::new(); // (start, end, kind: n = number, s = string)
    let mut i = 0;
    while i < n {
        let c = b[i];
        if c == b'"' { let st = i; i += 1; while i < n && b[i] != b'"' { if b[i] == b'\\' { i += 1; } i += 1; } i = (i + 1).min(n); toks.push((st, i, b's')); }
        else if c == b'-' || c.is_ascii_digit() { let st = i; i += 1; while i < n && (b[i].is_ascii_digit() || b[i] == b'.' || b[i] == b'e' || b[i] == b'E' || b[i] == b'-' || b[i] == b'+') { i += 1; } toks.push((st, i, b'n')); }
        else if c.is_ascii_alphabetic() { let st = i; while i < n && b[i].is_ascii_alphabetic() { i += 1; } toks.push((st, i, b'l')); }
        else { i += 1; }
    }
    let nums = ["0", "-0", "-1", "1", "255", "256", "65536", "4294967295", "4294967296", "9223372036854775807", "9223372036854775808", "-9223372036854775808", "-9223372036854775809",
        "18446744073709551615", "18446744073709551616", "-18446744073709551616", "-18446744073709551617", "340282366920938463463374607431768211456", "1e400", "-1e400", "1.5", "1e2", "0.0", "1E+2", "00", "01", "1e", "--1", "+1",
        "99999999999999999999999999999999999999999999999999999999999999999999999999999999", "null", "true", "\"1\"", "\"\"", "[]", "{}"];
    let strs = ["\"\"", "\"zz\"", "\"0x\"", "\"0xzz\"", "\"0x0\"", "\"00\"", "\"\\ud800\"", "\"\\u0000\"", "\"\\uD83D\\uDE00\"", "\"\\x\"", "\"é\"", "null", "0", "[]", "{}", "true", "\"1\"", "\"-1\"",
        "\"99999999999999999999999\"", "\"addr1\"", "\"stake1\"", "\"1.2.3.4\"", "\"::1\""];
    let take = toks.len().min(14);
    for _ in 0..take { let (s, e, k) = toks[rng.below(toks.len() as u64) as usize];
        let reps: Vec<&str> = if k == b'n' { (0..6).map(|_| *rng.pick(&nums)).collect() } else if k == b's' { (0..5).map(|_| *rng.pick(&strs)).collect() } else { vec!["null", "true", "false", "nul", "\"x\"", "0"] };
        for r in reps { out.push((if k == b'n' { "j-num".into() } else if k == b's' { "j-str".into() } else { "j-lit".into() }, format!("{}{}{}", &js[..s], r, &js[e..]))); }
        if k == b's' && e - s >= 2 { // long string / odd-length hex / dropped key
            let inner = &js[s + 1..e - 1];
            out.push(("j-str-long".into(), format!("{}\"{}\"{}", &js[..s], inner.repeat(40), &js[e..])));
            if inner.len() > 1 && inner.is_char_boundary(inner.len() - 1) { out.push(("j-str-odd".into(), format!("{}\"{}\"{}", &js[..s], &inner[..inner.len() - 1], &js[e..]))); }
            out.push(("j-str-upper".into(), format!("{}\"{}\"{}", &js[..s], inner.to_uppercase(), &js[e..])));
        }
    }
    // long / non-ASCII keys inserted into objects, and in place of strings (unknown variant names, text in error messages)
    let tt = tricky_texts();
    let opens: Vec<usize> = js.match_indices('{').map(|(i, _)| i).take(3).collect();
    for &p in &opens { for _ in 0..6 { let t = &tt[rng.below(tt.len() as u64) as usize];
        out.push(("j-longkey".into(), format!("{}\"{}\":0,{}", &js[..p + 1], t, &js[p + 1..]))); } }
    for _ in 0..6 { if toks.is_empty() { break; } let (s0, e0, k) = toks[rng.below(toks.len() as u64) as usize]; if k != b's' { continue; }
        let t = &tt[rng.below(tt.len() as u64) as usize]; out.push(("j-longstr".into(), format!("{}\"{}\"{}", &js[..s0], t, &js[e0..]))); }
    // structure: duplicated object, array/object confusion, deep nesting, garbage
    out.push(("j-double".into(), format!("{}{}", js, js)));
    out.push(("j-wrap".into(), format!("[{}]", js))); out.push(("j-wrap".into(), format!("{{\"x\":{}}}", js)));
    for d in [64usize, 127, 128, 129, 1000, 100000] { out.push(("j-deep".into(), format!("{}{}{}", "[".repeat(d), js, "]".repeat(d)))); out.push(("j-deep-open".into(), "[".repeat(d))); out.push(("j-deep-obj".into(), format!("{}1{}", "{\"a\":".repeat(d), "}".repeat(d)))); }
    if let Some(p) = js.find('{') { if let Some(q) = js[p..].find(':') { let key = &js[p + 1..p + q]; out.push(("j-dupkey".into(), format!("{}{{{}:null,{}", &js[..p], key, &js[p + 1..]))); out.push(("j-dupkey".into(), format!("{}{{{}:{},{}", &js[..p], key, "{}", &js[p + 1..]))); } }
    for g in ["", " ", "null", "true", "[]", "{}", "0", "\"\"", "[", "{", "\"", "{\"a\"}", "[1,]", "{,}", "nan", "NaN", "Infinity", "-", "\u{feff}{}", "/**/1", "'a'", "[1 2]", "{\"a\":1,}", "\"\\", "\"\\u12\"", "1e99999", "-1e99999", "[1e-400]"] { out.push(("j-garbage".into(), g.to_string())); }
}

// ------------------------------------------------------------------------------------------------ attacker-controlled text in error paths
/// UTF-8 texts whose multi-byte characters sit at every offset around 16 / 32 / 48 / 64 bytes (a message that quotes a
/// key and cuts it at a byte offset must not split a character), plus short, long and all-multi-byte ones
pub fn tricky_texts() -> Vec<String> {
    let mut v: Vec<String> = vec!["k".into(), "é".into(), "\u{1F600}".into(), "x".repeat(200), "é".repeat(100), "\u{1F600}".repeat(50), "€".repeat(40), String::new()];
    for b in [16usize, 32, 48, 64] { for ch in ["é", "€", "\u{1F600}"] { let w = ch.len();
        for start in (b + 1 - w)..=b { if start == 0 { continue; }
            let head = "a".repeat(start);
            v.push(format!("{}{}{}", head, ch, "b".repeat(3)));                       // just past the boundary
            v.push(format!("{}{}{}", head, ch, "b".repeat(200 - start - w)));         // 200 bytes
        } } }
    v
}
pub fn cbor_text(t: &str) -> Vec<u8> { let mut v = enc_min(3, t.len() as u64); v.extend_from_slice(t.as_bytes()); v }

/// map structures with text keys / over-long values, variant arrays with a text where the index belongs
pub fn mutate_text_paths(seed: &[u8], rng: &mut Rng, full: bool, out: &mut Vec<(String, Vec<u8>)>) {
    let heads = match scan(seed) { Some(h) if !h.is_empty() => h, _ => return };
    let n = seed.len();
    let texts = tricky_texts();
    let pick: Vec<&String> = if full { texts.iter().collect() } else { (0..24).map(|_| &texts[rng.below(texts.len() as u64) as usize]).collect() };
    let maps: Vec<&Head> = heads.iter().filter(|h| h.major == 5 && h.ai != 31 && !h.inner && h.depth <= 2 && h.end <= n).take(4).collect();
    for (mi, h) in maps.iter().enumerate() {
        let body = &seed[h.off + h.hlen..h.end];
        let keys: Vec<&String> = if mi == 0 { pick.clone() } else { pick.iter().take(8).cloned().collect() };
        for t in keys {
            let k = cbor_text(t);
            // the text key as one more entry at the end / at the beginning, in the definite and the indefinite form
            let mut a = seed[..h.off].to_vec(); a.extend(enc_min(5, h.arg + 1)); a.extend_from_slice(body); a.extend_from_slice(&k); a.push(0x00); a.extend_from_slice(&seed[h.end..]); out.push(("textkey-end".into(), a));
            let mut b = seed[..h.off].to_vec(); b.extend(enc_min(5, h.arg + 1)); b.extend_from_slice(&k); b.push(0x00); b.extend_from_slice(body); b.extend_from_slice(&seed[h.end..]); out.push(("textkey-start".into(), b));
            if mi == 0 { let mut c = seed[..h.off].to_vec(); c.push(0xbf); c.extend_from_slice(body); c.extend_from_slice(&k); c.push(0x00); c.push(0xff); c.extend_from_slice(&seed[h.end..]); out.push(("textkey-indef".into(), c)); }
        }
    }
    // a lone text key / text item where the type starts
    if heads[0].major == 5 || heads[0].major == 4 { for t in pick.iter().take(10) { let k = cbor_text(t);
        let mut a = vec![0xa1u8]; a.extend_from_slice(&k); a.push(0x00); out.push(("textkey-only".into(), a));
        let mut b = vec![0x82u8]; b.extend_from_slice(&k); b.push(0x00); out.push(("textvariant".into(), b)); } }
    // over-long text / byte values in place of every value of the outer maps, and in place of a variant index
    let long_vals: Vec<Vec<u8>> = vec![cbor_text(&texts[rng.below(texts.len() as u64) as usize]), cbor_text(&"z".repeat(5000)), cbor_text(&"\u{1F600}".repeat(300)),
        { let mut v = enc_min(2, 5000); v.extend(vec![0xabu8; 5000]); v }, { let mut v = enc_min(2, 65); v.extend(rng.bytes(65)); v }];
    let mut nv = 0;
    for h in heads.iter().filter(|h| h.map_value && h.depth <= 3 && !h.inner && h.end <= n) { if nv >= 12 { break; } nv += 1;
        for lv in &long_vals { out.push(("longvalue".into(), splice(seed, h.off, h.end, lv))); } }
    if heads[0].major == 4 && heads.len() > 1 && heads[1].major == 0 && heads[1].end <= n { for t in pick.iter().take(8) {
        out.push(("textvariant".into(), splice(seed, heads[1].off, heads[1].end, &cbor_text(t)))); } }
}

// ------------------------------------------------------------------------------------------------ case construction
/// which further decoders a valid encoding of `ty` is also handed to (sub-types sharing the wire shape, plus neighbours)
fn aliases(ty: &str) -> &'static [&'static str] {
    match ty {
        "Certificate" => &["StakeRegistration", "StakeDeregistration", "StakeDelegation", "PoolRegistration", "PoolRetirement", "GenesisKeyDelegation", "MoveInstantaneousRewardsCert",
            "CommitteeHotAuth", "CommitteeColdResign", "DRepDeregistration", "DRepRegistration", "DRepUpdate", "StakeAndVoteDelegation", "StakeRegistrationAndDelegation",
            "StakeVoteRegistrationAndDelegation", "VoteDelegation", "VoteRegistrationAndDelegation"],
        "GovernanceAction" => &["ParameterChangeAction", "HardForkInitiationAction", "TreasuryWithdrawalsAction", "NoConfidenceAction", "UpdateCommitteeAction", "NewConstitutionAction"],
        "NativeScript" => &["ScriptPubkey", "ScriptAll", "ScriptAny", "ScriptNOfK", "TimelockStart", "TimelockExpiry"],
        "Relay" => &["SingleHostAddr", "SingleHostName", "MultiHostName"],
        "PlutusData" => &["ConstrPlutusData", "PlutusMap", "PlutusList", "BigInt", "Redeemer"],
        "TransactionMetadatum" => &["MetadataMap", "MetadataList", "TransactionMetadatumLabels", "Int"],
        "Transaction" => &["FixedTransaction"],
        "TransactionBody" => &["FixedTransactionBody", "FixedTransaction.new_from_body_bytes", "FixedTransaction.new"],
        "Block" => &["FixedBlock", "VersionedBlock", "FixedVersionedBlock"],
        "TransactionOutput" => &["TransactionUnspentOutput"],
        "TransactionOutputs" => &["TransactionBodies", "FixedTransactionBodies"],
        "TransactionWitnessSet" => &["FixedTxWitnessesSet", "FixedTransaction.new.wits", "TransactionWitnessSets"],
        "AuxiliaryData" => &["FixedTransaction.new_with_auxiliary.aux"],
        "PlutusScripts" => &["PlutusScript", "PlutusScript.v2", "PlutusScript.v3", "AssetNames", "GenesisHashes", "ScriptHashes"],
        "Credentials" => &["RewardAddresses", "Committee"],
        "Costmdls" => &["CostModel", "Language"],
        "Int" => &["BigNum", "BigInt", "NetworkId", "RedeemerTag", "Language", "Ipv4", "URL", "AssetName"],
        "Value" => &["BigNum", "MultiAsset"],
        "MoveInstantaneousReward" => &["MIRToStakeCredentials"],
        "Anchor" => &["URL", "PoolMetadata", "DNSRecordAorAAAA", "DNSRecordSRV", "Ipv6"],
        "VotingProposal" => &["PoolParams"],
        _ => &[],
    }
}

fn wrap_type(ty: &str, seed: &[u8]) -> Vec<(String, Vec<u8>)> {
    // valid encodings of container types that have no schema of their own, built from a valid element
    let mut v = Vec::new();
    let arr1 = |b: &[u8]| { let mut x = vec![0x81u8]; x.extend_from_slice(b); x };
    match ty {
        "TransactionBody" => { v.push(("TransactionBodies".to_string(), arr1(seed))); v.push(("FixedTransactionBodies".to_string(), arr1(seed))); }
        "TransactionWitnessSet" => { v.push(("TransactionWitnessSets".to_string(), arr1(seed)));
            let mut tx = vec![0x84u8, 0xa3, 0x00, 0xd9, 0x01, 0x02, 0x80, 0x01, 0x80, 0x02, 0x00]; tx.extend_from_slice(seed); tx.extend([0xf5, 0xf6]);
            v.push(("FixedTransaction".to_string(), tx.clone())); v.push(("Transaction".to_string(), tx)); }
        "Block" => { let mut x = vec![0x82u8, 0x07]; x.extend_from_slice(seed); v.push(("VersionedBlock".to_string(), x.clone())); v.push(("FixedVersionedBlock".to_string(), x)); }
        "TransactionOutput" => { let mut x = vec![0x82u8, 0x82, 0x58, 0x20]; x.extend([7u8; 32]); x.push(0x01); x.extend_from_slice(seed); v.push(("TransactionUnspentOutput".to_string(), x)); }
        "PlutusData" => { let mut x = vec![0x84u8, 0x00, 0x01]; x.extend_from_slice(seed); x.extend([0x82, 0x01, 0x02]); v.push(("Redeemer".to_string(), x)); }
        _ => {}
    }
    v
}

pub fn all_dec_names() -> Vec<&'static str> { let mut v: Vec<&str> = CBOR_JSON_NAMES.to_vec(); v.extend(CBOR_ONLY_NAMES); v.extend(CBOR_EXTRA_NAMES); v }
pub fn all_hex_names() -> Vec<&'static str> { let mut v: Vec<&str> = CBOR_JSON_NAMES.to_vec(); v.extend(CBOR_ONLY_NAMES); v.extend(HASH_NAMES.iter().map(|x| x.0)); v.extend(HEX_EXTRA_NAMES); v }
pub fn all_json_names() -> Vec<&'static str> { let mut v: Vec<&str> = CBOR_JSON_NAMES.to_vec(); v.extend(JSON_ONLY_NAMES); v }
pub fn all_b32_names() -> Vec<&'static str> { let mut v: Vec<&str> = HASH_NAMES.iter().map(|x| x.0).collect(); v.extend(B32_EXTRA_NAMES); v }
pub fn all_raw_names() -> Vec<&'static str> { let mut v: Vec<&str> = HASH_NAMES.iter().map(|x| x.0).collect(); v.extend(RAW_NAMES.iter().map(|x| x.0)); v }

fn hrp_for(ty: &str) -> &'static str { match ty { "Address" => "addr", "Ed25519Signature" => "ed25519_sig", "PublicKey" => "ed25519_pk", "PrivateKey" => "ed25519e_sk",
    "Bip32PrivateKey" => "xprv", "Bip32PublicKey" => "xpub", "DRep" => "drep", "Ed25519KeyHash" => "vkh", "ScriptHash" => "script", _ => "hash" } }
fn b32_len(ty: &str) -> usize { match ty { "Address" => 57, "Ed25519Signature" => 64, "PublicKey" => 32, "PrivateKey" => 64, "Bip32PrivateKey" => 96, "Bip32PublicKey" => 64, "DRep" => 28,
    _ => HASH_NAMES.iter().find(|x| x.0 == ty).map(|x| x.1).unwrap_or(32) } }

/// the targeted shapes: the partial operations of the hand-modelled decoders, hit on every run
fn targeted(rng: &mut Rng, cases: &mut Vec<String>) {
    let mut push = |s: String| cases.push(s);
    // Address::from_bytes: every header nibble x boundary lengths; pointer var-nats
    for nib in 0..16u8 { for len in [0usize, 1, 2, 28, 29, 30, 56, 57, 58, 60] {
        let mut b = vec![nib << 4 | (rng.below(16) as u8)]; b.extend(rng.bytes(len.saturating_sub(1))); if len == 0 { b.clear(); }
        push(format!("raw Address {} hdr", hex_or_dash(&b)));
        // the same bytes as the address of a legacy / map output and of a reward account
        let mut o = vec![0x82u8]; o.extend(bstr(&b)); o.push(0x01); push(format!("dec TransactionOutput {} emb-addr", hex_or_dash(&o)));
        let mut m = vec![0xa2u8, 0x00]; m.extend(bstr(&b)); m.extend([0x01, 0x01]); push(format!("dec TransactionOutput {} emb-addr-map", hex_or_dash(&m)));
        let mut w = vec![0xa1u8]; w.extend(bstr(&b)); w.push(0x01); push(format!("dec Withdrawals {} emb-reward", hex_or_dash(&w)));
    } }
    for _ in 0..40 {
        let mut b = vec![0x40 | (rng.below(2) as u8) << 4 | 1]; b.extend(rng.bytes(28));
        match rng.below(6) {
            0 => { for _ in 0..3 { b.extend(varnat(rng.u64_edge())); } }
            1 => { b.extend(varnat(rng.u64_edge())); b.extend(varnat(rng.u64_edge())); }                          // third number missing
            2 => { b.extend([0x80u8; 3]); }                                                                      // continuation bits, never terminated
            3 => { b.extend([0xffu8, 0xff, 0xff, 0xff, 0xff, 0xff, 0xff, 0xff, 0xff, 0xff, 0x7f]); b.extend([1, 1]); } // above 2^64
            4 => { b.extend([0x80u8, 0x80, 0x01]); b.extend([0x80, 0x00]); b.push(0x00); }                        // non-minimal var-nats
            _ => { for _ in 0..3 { b.extend(varnat(rng.u64_edge())); } let k = 1 + rng.below(3) as usize; b.extend(rng.bytes(k)); } // trailing bytes
        }
        push(format!("raw Address {} ptr", hex_or_dash(&b)));
        let mut o = vec![0x82u8]; o.extend(bstr(&b)); o.push(0x01); push(format!("dec TransactionOutput {} emb-ptr", hex_or_dash(&o)));
    }
    // Byron addresses: envelope array length / tag / crc / inner structure, alone and embedded in an output
    for k in 0..60u64 {
        let a = rng.below(4) as u8; let inner = byron_inner(rng, a);
        let good = byron_envelope(&inner);
        let mut vs: Vec<(String, Vec<u8>)> = vec![("byron-valid".into(), good.clone())];
        for first in [0x80u8, 0x81, 0x83, 0x84, 0x9f, 0x98, 0x99, 0x9a, 0x9b] { let mut v = good.clone(); v[0] = first;
            if first >= 0x98 && first != 0x9f { let w = match first { 0x98 => 1, 0x99 => 2, 0x9a => 4, _ => 8 }; let mut h = enc_head(4, if k % 2 == 0 { 2 } else { 3 }, w); h.extend_from_slice(&good[1..]); v = h; }
            vs.push((format!("byron-arr-{:02x}", first), v)); }
        { let mut v = good.clone(); v[2] = 0x19; vs.push(("byron-tag".into(), v)); }
        { let mut v = good.clone(); let l = v.len(); v[l - 1] ^= 1; vs.push(("byron-crc".into(), v)); }
        // inner structure damaged, crc recomputed (so the envelope still passes)
        let mut inner_muts: Vec<(String, Vec<u8>)> = Vec::new(); mutate_cbor(&inner, rng, 3, false, &mut inner_muts);
        for (l, im) in inner_muts.into_iter().take(if k < 10 { 400 } else { 12 }) { vs.push((format!("byron-inner-{}", l), byron_envelope(&im))); }
        for (l, v) in vs {
            push(format!("raw Address {} {}", hex_or_dash(&v), l));
            push(format!("dec ByronAddress {} {}", hex_or_dash(&v), l));
            push(format!("fn b58 {} {} {}", thex(&base58_encode(&v)), hex_or_dash(&v), l));
            if k < 20 { let mut o = vec![0x82u8]; o.extend(bstr(&v)); o.push(0x01); push(format!("dec TransactionOutput {} emb-{}", hex_or_dash(&o), l)); }
        }
    }
    // base58 text: a valid address with characters replaced / inserted / appended (ASCII outside the alphabet, non-ASCII)
    for _ in 0..3 { let v = byron_valid(rng); let t = base58_encode(&v); let mut tm = Vec::new(); mutate_nonascii(&t, rng, true, &mut tm); mutate_text(&t, rng, &mut tm);
        push(format!("fn b58 {} {} b58-valid", thex(&t), hex_or_dash(&v)));
        for (l, m) in tm { push(format!("fn b58 {} {}", thex(&m), l)); } }
    // Byron attributes: contents of the protocol-magic / derivation-path byte strings (crc-valid envelope)
    for x in [&[][..], &[0x00], &[0x1a, 0x2d, 0x96, 0x4a, 0x09], &[0x1b, 0, 0, 0, 1, 0, 0, 0, 0], &[0x1b, 0xff, 0xff, 0xff, 0xff, 0xff, 0xff, 0xff, 0xff], &[0x3a, 0, 0, 0, 1], &[0x20], &[0x40], &[0x60], &[0x80], &[0xa0],
              &[0xf6], &[0xff], &[0x1a, 0xff], &[0x18], &[0x1c], &[0x1f], &[0xc2, 0x41, 0x01], &[0x00, 0x00], &[0xfb, 0, 0, 0, 0, 0, 0, 0, 0]] {
        for key in [1u8, 2, 0, 3, 0x18] {
            let mut inner = vec![0x83u8]; inner.extend(bstr(&rng.bytes(28))); inner.extend([0xa1, key]); if key == 0x18 { inner.push(0x02); } inner.extend(bstr(x)); inner.push(0x00);
            let v = byron_envelope(&inner);
            push(format!("raw Address {} byron-attr", hex_or_dash(&v))); push(format!("dec ByronAddress {} byron-attr", hex_or_dash(&v)));
            push(format!("fn b58 {} {} byron-attr", thex(&base58_encode(&v)), hex_or_dash(&v)));
        }
        // the attribute value is not a byte string at all / the map announces more entries than it has
        let mut inner = vec![0x83u8]; inner.extend(bstr(&rng.bytes(28))); inner.extend([0xa1, 0x02]); inner.extend_from_slice(x); inner.push(0x00);
        let v = byron_envelope(&inner); push(format!("dec ByronAddress {} byron-attr-raw", hex_or_dash(&v)));
        let mut inner2 = vec![0x83u8]; inner2.extend(bstr(&rng.bytes(28))); inner2.extend([0xbb, 0xff, 0xff, 0xff, 0xff, 0xff, 0xff, 0xff, 0xff, 0x02]); inner2.extend(bstr(x)); inner2.push(0x00);
        let v2 = byron_envelope(&inner2); push(format!("dec ByronAddress {} byron-attr-count", hex_or_dash(&v2)));
    }
    // present-but-empty collection for every key of the transaction body and of the witness set (the writers skip an empty
    // collection: the map length must skip it too), alone and in pairs, through every entry point that shares the readers
    let min_body: Vec<u8> = vec![0xa3, 0x00, 0xd9, 0x01, 0x02, 0x80, 0x01, 0x80, 0x02, 0x00];
    let empties: [&[u8]; 6] = [&[0x80], &[0xd9, 0x01, 0x02, 0x80], &[0xa0], &[0x9f, 0xff], &[0xd9, 0x01, 0x02, 0x9f, 0xff], &[0xbf, 0xff]];
    let tx_of = |body: &[u8], wits: &[u8]| { let mut t = vec![0x84u8]; t.extend_from_slice(body); t.extend_from_slice(wits); t.extend([0xf5, 0xf6]); t };
    for k in 3..=25u8 { for e in empties.iter() {
        let mut b = vec![0xa4u8]; b.extend_from_slice(&min_body[1..]); b.extend(enc_min(0, k as u64)); b.extend_from_slice(e);
        for ty in ["TransactionBody", "FixedTransactionBody", "FixedTransaction.new_from_body_bytes", "FixedTransaction.new"] { push(format!("dec {} {} body-empty-field", ty, hex_or_dash(&b))); }
        let t = tx_of(&b, &[0xa0]); for ty in ["Transaction", "FixedTransaction"] { push(format!("dec {} {} body-empty-field", ty, hex_or_dash(&t))); }
        let mut bs = vec![0x81u8]; bs.extend_from_slice(&b); push(format!("dec TransactionBodies {} body-empty-field", hex_or_dash(&bs)));
    } }
    for k in 0..=8u8 { for e in empties.iter() {
        let mut w = vec![0xa1u8, k]; w.extend_from_slice(e);
        for ty in ["TransactionWitnessSet", "FixedTxWitnessesSet", "FixedTransaction.new.wits"] { push(format!("dec {} {} wits-empty-field", ty, hex_or_dash(&w))); }
        let t = tx_of(&min_body, &w); for ty in ["Transaction", "FixedTransaction"] { push(format!("dec {} {} wits-empty-field", ty, hex_or_dash(&t))); }
        for k2 in (k + 1)..=7u8 { let e2 = empties[rng.below(3) as usize]; let mut w2 = vec![0xa2u8, k]; w2.extend_from_slice(e); w2.push(k2); w2.extend_from_slice(e2);
            for ty in ["TransactionWitnessSet", "FixedTxWitnessesSet"] { push(format!("dec {} {} wits-empty-pair", ty, hex_or_dash(&w2))); }
            let t2 = tx_of(&min_body, &w2); push(format!("dec FixedTransaction {} wits-empty-pair", hex_or_dash(&t2))); }
    } }
    // legacy output, third element: every kind of item / truncation after [address, amount]
    let addr = { let mut v = vec![0x61u8]; v.extend(rng.bytes(28)); bstr(&v) };
    for n_items in [0x82u8, 0x83, 0x84, 0x9f] { for third in [&[][..], &[0x58, 0x20], &[0x58], &[0x59, 0x00], &[0x5f], &[0x5f, 0x41], &[0x5f, 0x41, 0x00], &[0x5f, 0x41, 0x00, 0xff], &[0x40], &[0x41], &[0x41, 0x00], &[0x5b, 0xff, 0xff, 0xff, 0xff, 0xff, 0xff, 0xff, 0xff],
        &[0x5a, 0xff, 0xff, 0xff, 0xff], &[0x5c], &[0x5f, 0x5f, 0xff, 0xff], &[0x00], &[0xf6], &[0xff], &[0x58, 0x20, 1, 2, 3]] {
        let mut o = vec![n_items]; o.extend_from_slice(&addr); o.push(0x01); o.extend_from_slice(third); push(format!("dec TransactionOutput {} third", hex_or_dash(&o)));
        let mut full = o.clone(); if third == [0x58, 0x20] { full.extend(rng.bytes(32)); push(format!("dec TransactionOutput {} third-full", hex_or_dash(&full))); full.truncate(full.len() - 1); push(format!("dec TransactionOutput {} third-short", hex_or_dash(&full))); }
        let mut os = vec![0x81u8]; os.extend_from_slice(&o); push(format!("dec TransactionOutputs {} third", hex_or_dash(&os)));
        let mut b = vec![0xa3u8, 0x00, 0x80, 0x01, 0x81]; b.extend_from_slice(&o); b.extend([0x02, 0x00]); push(format!("dec TransactionBody {} third", hex_or_dash(&b)));
    } }
    // bounded bytes (Plutus data bytes / big integers): chunk sizes and shapes around 64
    for ty in ["PlutusData", "BigInt"] { let tagged = ty == "BigInt";
        for l in [0usize, 1, 63, 64, 65, 128] { let mut v = if tagged { vec![0xc2u8] } else { vec![] }; v.extend(bstr(&rng.bytes(l))); push(format!("dec {} {} bb-def", ty, hex_or_dash(&v))); }
        for chunks in [&[0usize][..], &[64], &[65], &[64, 64], &[64, 1], &[1, 64], &[0, 0], &[64, 65]] {
            let mut v = if tagged { vec![0xc2u8] } else { vec![] }; v.push(0x5f); for c in chunks { v.extend(bstr(&rng.bytes(*c))); }
            let mut t = v.clone(); t.push(0xff); push(format!("dec {} {} bb-chunks", ty, hex_or_dash(&t)));
            push(format!("dec {} {} bb-nobreak", ty, hex_or_dash(&v)));
            let mut s = v.clone(); s.push(0xf6); push(format!("dec {} {} bb-null-end", ty, hex_or_dash(&s)));
            let mut u = v.clone(); u.extend([0x5f, 0xff, 0xff]); push(format!("dec {} {} bb-nested-indef", ty, hex_or_dash(&u)));
            let mut x = v.clone(); x.extend([0x58, 0x40]); x.extend(rng.bytes(10)); push(format!("dec {} {} bb-short-chunk", ty, hex_or_dash(&x)));
            let mut y = v.clone(); y.extend([0x61, 0x61, 0xff]); push(format!("dec {} {} bb-text-chunk", ty, hex_or_dash(&y)));
            let mut z = v.clone(); z.push(0x5b); z.extend(rng.pick(&HUGE).to_be_bytes()); z.push(0xff); push(format!("dec {} {} bb-huge-chunk", ty, hex_or_dash(&z)));
        } }
    // integers: the extremes of uint / nint / bignum tags through the byte decoders and through the constructors
    for ty in ["Int", "BigInt", "PlutusData", "TransactionMetadatum", "BigNum"] { for v in [0u64, 23, 24, (1 << 63) - 2, (1 << 63) - 1, 1 << 63, (1 << 63) + 1, u64::MAX - 1, u64::MAX] {
        push(format!("dec {} {} int-edge", ty, hex_or_dash(&enc_min(0, v)))); push(format!("dec {} {} int-edge", ty, hex_or_dash(&enc_min(1, v))));
        push(format!("dec {} {} int-edge-w8", ty, hex_or_dash(&enc_head(1, v, 8))));
    } }
    for v in [0u64, 1, (1 << 63) - 1, 1 << 63, (1 << 63) + 1, u64::MAX] { push(format!("fn int_new - {} int-ctor", v)); push(format!("fn int_new + {} int-ctor", v));
        push(format!("fn md_int_to_json - {} md-int", v)); push(format!("fn md_int_to_json + {} md-int", v)); }
    for l in [0usize, 1, 7, 8, 9, 16, 64] { for tag in [0xc2u8, 0xc3] { for lead in [0u8, 1, 0x7f, 0x80, 0xff] { let mut b = rng.bytes(l); if l > 0 { b[0] = lead; } let mut v = vec![tag]; v.extend(bstr(&b));
        push(format!("dec BigInt {} bigint-tag", hex_or_dash(&v))); push(format!("dec PlutusData {} bigint-tag", hex_or_dash(&v))); } } }
    for s in ["", "0", "-0", "+1", "-", "18446744073709551615", "18446744073709551616", "-9223372036854775808", "-9223372036854775809", "-18446744073709551616", "1e3", " 1", "1 ", "0x10", "١", "9".repeat(400).as_str(), "-170141183460469231731687303715884105728", "170141183460469231731687303715884105728", "340282366920938463463374607431768211456"] {
        for f in ["bignum_str", "bigint_str", "int_str"] { push(format!("fn {} {} numstr", f, thex(s))); } }
    // raw keys / signatures / hashes: every length around the expected one
    for (name, l) in RAW_NAMES.iter().chain(HASH_NAMES.iter()) { if *name == "Address" { continue; }
        for len in [0usize, 1, l.saturating_sub(1), *l, l + 1, 2 * l, 31, 32, 33, 63, 64, 65, 95, 96, 97, 127, 128, 129] {
            if *name == "Bip32PrivateKey.bip39" && len > 64 { continue; }
            push(format!("raw {} {} rawlen", name, hex_or_dash(&rng.bytes(len))));
            let mut z = vec![0u8; len]; if len > 0 { z[len - 1] = rng.next() as u8; } push(format!("raw {} {} rawlen-zero", name, hex_or_dash(&z)));
            push(format!("raw {} {} rawlen-ff", name, hex_or_dash(&vec![0xffu8; len])));
        } }
    // emip3: data length around the 60-byte metadata, non-hex, odd hex
    for l in [0usize, 1, 31, 32, 43, 44, 59, 60, 61, 62, 100] { push(format!("fn emip3_decrypt {} {} emip3", thex("00"), thex(&hex::encode(rng.bytes(l))))); }
    for (p, d) in [("zz", "00"), ("00", "zz"), ("0", "00"), ("00", "0"), ("", ""), ("00", "")] { push(format!("fn emip3_decrypt {} {} emip3-text", thex(p), thex(d))); }
    for (p, s, n_, d) in [("00", "00", "00", "00"), ("00", &"11".repeat(32), &"22".repeat(12), ""), ("00", &"11".repeat(32), &"22".repeat(12), "abcd"), ("zz", "11", "22", "33"), ("00", &"11".repeat(31), &"22".repeat(12), "00"), ("00", &"11".repeat(32), &"22".repeat(11), "00")] {
        push(format!("fn emip3_encrypt {} {} {} {} emip3-enc", thex(p), thex(s), thex(n_), thex(d))); }
    // native script from JSON: both schemas
    for js in ["{\"cosigners\":{\"cosigner#0\":\"self\"},\"template\":\"cosigner#0\"}", "{}", "null", "{\"template\":{\"all\":[]}}", "{\"cosigners\":{},\"template\":{\"some\":{\"at_least\":1,\"from\":[]}}}",
               "{\"cosigners\":{\"cosigner#0\":\"zz\"},\"template\":{\"any\":[\"cosigner#0\",{\"active_from\":-1},{\"active_until\":1e30}]}}", "{\"cosigners\":{\"a\":\"self\"},\"template\":{\"some\":{\"at_least\":-1,\"from\":[\"a\"]}}}"] {
        for schema in ["0", "1"] { for xpub in ["", "zz", &"00".repeat(64), &"00".repeat(63)] { push(format!("fn ns_from_json {} {} {} ns-json", schema, thex(js), thex(xpub))); } } }
}

pub fn build_cases(model_txt: &str, rng: &mut Rng, thorough: bool, cases: &mut Vec<String>) {
    targeted(rng, cases);
    let dec_names = all_dec_names();
    let cap = if thorough { 8 } else { 5 };
    let mut seeds: Vec<(String, Vec<u8>)> = Vec::new();
    for line in model_txt.lines() {
        let t: Vec<&str> = line.split_whitespace().collect();
        if t.len() < 3 { continue; }
        let bytes = unhex_or_dash(t[2]);
        match t[0] {
            "seed" => { seeds.push((t[1].to_string(), bytes.clone())); for (ty, b) in wrap_type(t[1], &bytes) { seeds.push((ty, b)); } }
            "short" => cases.push(format!("dec {} {} model-short", t[1], t[2])),
            _ => {}
        }
    }
    let mut per_type: std::collections::BTreeMap<String, usize> = std::collections::BTreeMap::new();
    for (ty, seed) in &seeds {
        let k = per_type.entry(ty.clone()).or_insert(0); *k += 1; let ordinal = *k;
        cases.push(format!("dec {} {} valid", ty, hex_or_dash(seed)));
        for a in aliases(ty) { cases.push(format!("dec {} {} valid-alias", a, hex_or_dash(seed))); }
        // a few unrelated decoders on the same bytes (type confusion)
        for _ in 0..2 { let other = *rng.pick(&dec_names); cases.push(format!("dec {} {} confusion", other, hex_or_dash(seed))); }
        let mut muts = Vec::new();
        // long encodings are run as they are; the mutation stream works on the shorter ones (the model side generates every size)
        if seed.len() <= (if thorough { 2500 } else { 700 }) { mutate_cbor(seed, rng, cap, ordinal == 1, &mut muts); }
        if seed.len() <= 700 && ordinal <= 3 { mutate_text_paths(seed, rng, thorough || ordinal == 1, &mut muts); }
        for (label, m) in muts {
            if m.len() > 8000 { continue; }
            cases.push(format!("dec {} {} {}", ty, hex_or_dash(&m), label));
            // presence combinations and text in error paths go through every entry point that shares the reader
            let all_aliases = matches!(label.as_str(), "one-field" | "empty-field" | "add-field" | "textkey-end" | "textkey-start" | "textkey-indef" | "textkey-only" | "textvariant" | "longvalue");
            if all_aliases { for a in aliases(ty) { cases.push(format!("dec {} {} alias-{}", a, hex_or_dash(&m), label)); }
                for (wty, wb) in wrap_type(ty, &m) { cases.push(format!("dec {} {} wrap-{}", wty, hex_or_dash(&wb), label)); } }
            else if rng.chance(1, 6) { let ai = rng.below(aliases(ty).len().max(1) as u64) as usize; if let Some(a) = aliases(ty).get(ai) { cases.push(format!("dec {} {} alias-{}", a, hex_or_dash(&m), label)); } }
        }
        // text entry points on the first seeds of each type
        if ordinal <= (if thorough { 6 } else { 2 }) {
            let hx = hex::encode(seed);
            if all_hex_names().contains(&ty.as_str()) {
                cases.push(format!("hex {} {} hex-valid", ty, thex(&hx)));
                let mut tm = Vec::new(); mutate_text(&hx, rng, &mut tm);
                for (l, s) in tm { cases.push(format!("hex {} {} {}", ty, thex(&s), l)); }
            }
            if CBOR_JSON_NAMES.contains(&ty.as_str()) { cases.push(format!("tojson {} {}", ty, hex_or_dash(seed))); }
            if ty == "TransactionMetadatum" { for k in ["0", "1", "2"] { cases.push(format!("fn md_to_json {} {} md-to-json", k, hex_or_dash(seed))); } cases.push(format!("fn md_arbitrary_bytes {} md-arb", hex_or_dash(seed))); }
            if ty == "PlutusData" { for k in ["0", "1"] { cases.push(format!("fn pd_to_json {} {} pd-to-json", k, hex_or_dash(seed))); } }
        }
    }
    // raw / bech32 entry points
    for ty in all_b32_names() {
        for _ in 0..(if thorough { 6 } else { 2 }) {
            let bytes = if ty == "Address" { shelley_valid(rng) } else { rng.bytes(b32_len(ty)) };
            let hrp = if ty == "Address" { if bytes[0] >> 4 >= 14 { "stake" } else { "addr" } } else { hrp_for(ty) };
            let mut ms = Vec::new(); mutate_bech32(hrp, &bytes, rng, &mut ms);
            for (l, s, u5) in ms { cases.push(format!("b32 {} {} {} {}", ty, thex(&s), match u5 { Some(d) => hex_or_dash(&d), None => "~".into() }, l)); }
        }
    }
    for _ in 0..(if thorough { 200 } else { 40 }) { let a = shelley_valid(rng); cases.push(format!("raw Address {} addr-valid", hex_or_dash(&a)));
        let hx = hex::encode(&a); cases.push(format!("hex Address {} addr-valid", thex(&hx)));
        for k in 0..a.len().min(64) { cases.push(format!("raw Address {} addr-trunc", hex_or_dash(&a[..k]))); }
        let mut x = a.clone(); x.push(rng.next() as u8); cases.push(format!("raw Address {} addr-trail", hex_or_dash(&x)));
        let mut y = a.clone(); y[0] = rng.next() as u8; cases.push(format!("raw Address {} addr-hdr", hex_or_dash(&y)));
        let js = format!("\"{}\"", bech32_encode_u5(if a[0] >> 4 >= 14 { "stake" } else { "addr" }, &to_u5(&a))); let mut jm = Vec::new(); mutate_json(&js, rng, &mut jm);
        for (l, s) in jm.into_iter().take(30) { if s.len() < 4000 { cases.push(format!("json Address {} {}", thex(&s), l)); } }
    }
    // metadata / plutus JSON converters on hand-written documents
    let docs = ["{\"a\":1,\"b\":[1,2,{\"c\":\"0x00ff\"}],\"d\":\"text\",\"e\":-5}", "[1,-1,\"x\",\"0x\",[],{}]", "{\"map\":[{\"k\":{\"int\":1},\"v\":{\"bytes\":\"00\"}}]}",
        "{\"list\":[{\"int\":-1},{\"string\":\"s\"},{\"bytes\":\"ff\"},{\"map\":[]}]}", "{\"constructor\":0,\"fields\":[{\"int\":1},{\"bytes\":\"00\"},{\"list\":[]},{\"map\":[{\"k\":{\"int\":1},\"v\":{\"int\":2}}]}]}",
        "{\"int\":18446744073709551616}", "{\"int\":-18446744073709551617}", "{\"constructor\":18446744073709551615,\"fields\":[]}", "{\"5\":\"five\",\"-3\":[],\"0x00\":{}}", "12345678901234567890123", "-9223372036854775808", "\"0x\"", "{\"bytes\":\"0\"}", "{\"string\":1}",
        "{\"aaaaaaaaaaaaaaaaaaaaaaaaaaaaaaaaaaaaaaaaaaaaaaa\u{e9}bbb\":1}", "{\"map\":[{\"k\":{\"string\":\"aaaaaaaaaaaaaaaaaaaaaaaaaaaaaaaaaaaaaaaaaaaaaaa\u{e9}bbbbbbbbbbbbbbbbbbbbbbbbbbbbbbbbbbbbbb\"},\"v\":{\"int\":1}}]}",
        "{\"constructor\":-1,\"fields\":[]}", "{\"constructor\":0}", "{\"fields\":[]}", "{\"int\":1,\"bytes\":\"00\"}", "{\"a\":null}", "[true]", "1.5", "{\"int\":1.5}", "{\"list\":{}}", "{\"map\":[{\"k\":{\"int\":1}}]}", "{\"map\":[1]}",
        &format!("\"{}\"", "x".repeat(65)), &format!("\"0x{}\"", "00".repeat(65)), &format!("{{\"string\":\"{}\"}}", "y".repeat(65)), &format!("{{\"bytes\":\"{}\"}}", "ab".repeat(65))];
    for d in docs.iter() { let mut jm = vec![("j-doc".to_string(), d.to_string())]; if thorough { mutate_json(d, rng, &mut jm); } else { let mut t = Vec::new(); mutate_json(d, rng, &mut t); for _ in 0..40 { jm.push(t[rng.below(t.len() as u64) as usize].clone()); } }
        for (l, s) in jm { if s.len() > 300000 { continue; } for k in ["0", "1", "2"] { cases.push(format!("fn md_from_json {} {} {}", k, thex(&s), l)); } for k in ["0", "1"] { cases.push(format!("fn pd_from_json {} {} {}", k, thex(&s), l)); } } }
}

/// JSON stream: needs the to_json text of valid values, obtained through the workers (`tojson` pseudo-cases are
/// replaced by their mutations)
pub fn expand_json(cases: Vec<String>, rng: &mut Rng, thorough: bool, run: &dyn Fn(&[String]) -> Vec<String>) -> Vec<String> {
    let (tj, mut rest): (Vec<String>, Vec<String>) = cases.into_iter().partition(|c| c.starts_with("tojson "));
    let res = run(&tj);
    for (c, r) in tj.iter().zip(res.iter()) {
        let ty = c.split_whitespace().nth(1).unwrap_or("").to_string();
        if let Some(h) = r.strip_prefix("ok ") { if let Some(js) = text_of(h) {
            let mut jm = Vec::new(); mutate_json(&js, rng, &mut jm);
            let keep = if thorough { 400 } else { 60 };
            let total = jm.len();
            for (i, (l, s)) in jm.into_iter().enumerate() { if s.len() > 300000 { continue; } if total > keep && i > 0 && !rng.chance(keep as u64, total as u64) { continue; } rest.push(format!("json {} {} {}", ty, thex(&s), l)); }
        } }
    }
    // JSON-only collections and cross-type confusion: a valid document of one type given to another reader
    for ty in all_json_names() { for g in ["[]", "{}", "null", "\"\"", "0", "[{}]", "[[]]", "[null]", "{\"a\":1}", "[\"\"]", "[0]", "\"00\"", "[\"00\"]"] { rest.push(format!("json {} {} j-generic", ty, thex(g))); } }
    rest
}

/// the short-input sweep: every input of length <= 1 for every entry point; length 2 complete (thorough) or sampled (quick)
pub fn build_sweep(rng: &mut Rng, thorough: bool, sweep: &mut Vec<String>) {
    let second: Vec<u8> = if thorough { (0..=255u8).collect() } else { let mut v = vec![0x00u8, rng.next() as u8]; v.push(*rng.pick(&[0xffu8, 0x17, 0x18, 0x1f, 0x40, 0x5f, 0x80, 0x81, 0x9f, 0xa0, 0xa1, 0xbf, 0xc2, 0xd8, 0xf6])); v };
    for (kind, names) in [("dec", all_dec_names()), ("raw", all_raw_names())] { for ty in names {
        if ty == "Bip32PrivateKey.bip39" { continue; }
        sweep.push(format!("{} {} -", kind, ty));
        for a in 0..=255u8 { sweep.push(format!("{} {} {:02x}", kind, ty, a)); }
        for a in 0..=255u8 { for b in &second { sweep.push(format!("{} {} {:02x}{:02x}", kind, ty, a, b)); } }
    } }
    let ascii: Vec<u8> = (0..128u8).collect();
    let second_t: Vec<u8> = if thorough { ascii.clone() } else { vec![b'0', b'z', *rng.pick(&[b'f', b'1', b'"', b'[', b'{', b' ']), (rng.below(128)) as u8] };
    for (kind, names) in [("hex", all_hex_names()), ("json", all_json_names()), ("b32", all_b32_names())] { for ty in names {
        sweep.push(format!("{} {} -", kind, ty));
        for a in &ascii { sweep.push(format!("{} {} {:02x}", kind, ty, a)); }
        for a in &ascii { for b in &second_t { sweep.push(format!("{} {} {:02x}{:02x}", kind, ty, a, b)); } }
    } }
    let uni: Vec<String> = NON_ASCII.iter().flat_map(|c| vec![c.to_string(), format!("1{}", c), format!("{}1", c), format!("{}{}", c, c)]).collect();
    for (kind, names) in [("hex", all_hex_names()), ("json", all_json_names()), ("b32", all_b32_names())] { for ty in names { for u in &uni {
        sweep.push(format!("{} {} {}", kind, ty, hex_or_dash(u.as_bytes())));
        if kind == "json" { sweep.push(format!("{} {} {}", kind, ty, hex_or_dash(format!("\"{}\"", u).as_bytes()))); } } } }
    for f in ["b58", "bignum_str", "bigint_str", "int_str"] { for u in &uni { sweep.push(format!("fn {} {}", f, hex_or_dash(u.as_bytes()))); } }
    for f in ["b58", "bignum_str", "bigint_str", "int_str"] { sweep.push(format!("fn {} -", f)); for a in &ascii { sweep.push(format!("fn {} {:02x}", f, a)); for b in &second_t { sweep.push(format!("fn {} {:02x}{:02x}", f, a, b)); } } }
    for f in ["md_from_json", "pd_from_json"] { for k in ["0", "1"] { for a in &ascii { sweep.push(format!("fn {} {} {:02x}", f, k, a)); for b in &second_t { sweep.push(format!("fn {} {} {:02x}{:02x}", f, k, a, b)); } } } }
}
