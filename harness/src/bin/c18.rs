//! C18 correspondence harness: witness requirements of the transaction builder.
//! `c18 gen <dir>` generates cases from VERIF_SEED / VERIF_TIER and runs the implementation;
//! `c18 run <cases> <out>` runs the implementation on given case lines (replay / corpus).
//!
//! Case line (tokens separated by one space; ids are small decimal numbers):
//!   <label> F<0|1>  B n {baddr attrlen}*  I n {inop}*  L n {inop}*  C n {certop}*  W n {wdop}*  V n {voteop}*
//!           P n {propop}*  M n {mintop}*  S n {key}*  R n {oref}*  D n {datum}*
//!   F       config.deduplicate_explicit_ref_inputs_with_regular_inputs
//!   B       Byron addresses used by the case with the byte length of their attributes
//!   I / L   history of the TxInputsBuilder given to set_inputs / set_collateral
//!   inop    k o key | rk o key | b o baddr | rb o baddr | n o <nsrc> | p o <pwit> | s key
//!           | ku o key <sref> | bu o baddr <sref> | nu o <nsrc> <sref> | pu o <pwit> <sref>     sref = ~ | script id
//!           (the same input given as a UTxO: add_regular_utxo / add_native_script_utxo / add_plutus_script_utxo; the output sits
//!            at the matching enterprise / Byron address and carries the reference script sref)
//!           (k/b: add_key_input / add_bootstrap_input, rk/rb: add_regular_input on an enterprise / Byron address,
//!            n: add_native_script_input, p: add_plutus_script_input, s: add_required_signer)
//!   nsrc    i sid nk key* <decl>  |  r oref sid <decl>          decl = ~ | n key*
//!   psrc    i sid <decl>          |  r oref sid <decl>
//!   pwit    <psrc> <dat> red                                      dat = ~ | i datum | r oref
//!   wit     ~ | N <nsrc> | P <pwit>
//!   certop  kind cred nkeys key* aux <wit>      cred = K<key> | S<sid>      kind = Conway CDDL number 0..18
//!   wdop    cred <wit>         voteop  vkind cred <wit>     (vkind 0 committee hot, 1 DRep, 2 stake pool)
//!   propop  pid scripted(0|1) <wit>       mintop  N <nsrc> | P <psrc> red
//!   S explicit required signers, R explicit reference inputs, D extra witness datums.
//!   datum ids 0..9 = the integer, minimal encoding; 10+v = the integer v encoded non-minimally (another datum: other bytes, other hash).
//! Native script ids are < 1000, Plutus script ids >= 1000 (language = id mod 3; ids 1000+3b .. 1002+3b have the SAME BYTES:
//! one compiled script under three language versions = three scripts with three hashes).  Everything the witness code
//! does not look at (amounts, pool parameters, anchors ...) is a fixed function of the ids and positions.
//!
//! Observation:  ok acc=<bits> dfs=<full_size - |unsigned tx|> dss=<|really signed tx| - |unsigned tx|>
//!               sig=<key ids signed with> bw=<Byron addresses witnessed> ns= ps= dat= red= refs= ins= col= rs=
//! Byron address ids: 0..3 Icarus style (even mainnet, odd testnet magic), 4..9 Daedalus style with a derivation-path attribute of
//! 1 / 8 / 34 payload bytes (7..9 also carry the protocol magic); Daedalus-style addresses are witnessed with make_daedalus_bootstrap_witness.
//! (lists sorted, `-` when empty).  The transaction is signed with one real Ed25519 key per required key hash and
//! one bootstrap witness per Byron address (Icarus or Daedalus style); every signature is verified after a wire round trip.
#![allow(deprecated)]
use cardano_serialization_lib::*;
use csl_verif_harness::util::*;
use std::collections::{BTreeMap, BTreeSet};

// ---------------------------------------------------------------------------------------------
// case structure
#[derive(Clone, Debug)]
enum NSrc { Inline(u64, Vec<u64>, Option<Vec<u64>>), Ref(u64, u64, Option<Vec<u64>>) }
#[derive(Clone, Debug)]
enum PSrc { Inline(u64, Option<Vec<u64>>), Ref(u64, u64, Option<Vec<u64>>) }
#[derive(Clone, Debug)]
enum Dat { None, Inline(u64), Ref(u64) }
#[derive(Clone, Debug)]
struct PWit { script: PSrc, datum: Dat, red: u64 }
#[derive(Clone, Debug)]
enum Wit { None, Native(NSrc), Plutus(PWit) }
#[derive(Clone, Debug)]
enum InOp { Key(u64, u64, bool), Byron(u64, u64, bool), Native(u64, NSrc), Plutus(u64, PWit), Signer(u64),
            /// the same input given as a UTxO (add_regular_utxo / add_native_script_utxo / add_plutus_script_utxo) whose output
            /// carries the reference script with the given id (or none)
            Utxo(Box<InOp>, Option<u64>) }
fn base(op: &InOp) -> &InOp { match op { InOp::Utxo(b, _) => b, _ => op } }
#[derive(Clone, Debug, PartialEq)]
enum Cred { K(u64), S(u64) }
#[derive(Clone, Debug)]
struct CertOp { kind: u32, cred: Cred, keys: Vec<u64>, aux: u64, wit: Wit }
#[derive(Clone, Debug)]
enum MintOp { Native(NSrc), Plutus(PSrc, u64) }
#[derive(Clone, Debug, Default)]
struct Case {
    label: String, dedup: bool, attrs: Vec<(u64, u64)>,
    inputs: Vec<InOp>, collateral: Vec<InOp>, certs: Vec<CertOp>, wdrl: Vec<(Cred, Wit)>,
    votes: Vec<(u32, Cred, Wit)>, props: Vec<(u64, bool, Wit)>, mint: Vec<MintOp>,
    signers: Vec<u64>, refs: Vec<u64>, datums: Vec<u64>,
    /// optional trailing sections: H rank of the hash bytes of the voters' credentials, Z indices of the withdrawals of 0 lovelace,
    /// Q (asset id, signed amount) of every mint call (default: asset i mod 3, amount 1 + i)
    hr: Vec<(Cred, u64)>, zero_wd: Vec<usize>, mintq: Option<Vec<(u64, i64)>>,
}

// ---------------------------------------------------------------------------------------------
// printing
fn decl_s(d: &Option<Vec<u64>>) -> String {
    match d { None => "~".into(), Some(v) => { let mut s = v.len().to_string(); for k in v { s += &format!(" {}", k); } s } }
}
fn nsrc_s(n: &NSrc) -> String {
    match n {
        NSrc::Inline(s, ks, d) => { let mut t = format!("i {} {}", s, ks.len()); for k in ks { t += &format!(" {}", k); } format!("{} {}", t, decl_s(d)) }
        NSrc::Ref(r, s, d) => format!("r {} {} {}", r, s, decl_s(d)),
    }
}
fn psrc_s(p: &PSrc) -> String {
    match p { PSrc::Inline(s, d) => format!("i {} {}", s, decl_s(d)), PSrc::Ref(r, s, d) => format!("r {} {} {}", r, s, decl_s(d)) }
}
fn pwit_s(p: &PWit) -> String {
    let d = match &p.datum { Dat::None => "~".to_string(), Dat::Inline(d) => format!("i {}", d), Dat::Ref(r) => format!("r {}", r) };
    format!("{} {} {}", psrc_s(&p.script), d, p.red)
}
fn wit_s(w: &Wit) -> String {
    match w { Wit::None => "~".into(), Wit::Native(n) => format!("N {}", nsrc_s(n)), Wit::Plutus(p) => format!("P {}", pwit_s(p)) }
}
fn cred_s(c: &Cred) -> String { match c { Cred::K(k) => format!("K{}", k), Cred::S(s) => format!("S{}", s) } }
fn inop_s(op: &InOp) -> String {
    match op {
        InOp::Key(o, k, reg) => format!("{} {} {}", if *reg { "rk" } else { "k" }, o, k),
        InOp::Byron(o, a, reg) => format!("{} {} {}", if *reg { "rb" } else { "b" }, o, a),
        InOp::Native(o, n) => format!("n {} {}", o, nsrc_s(n)),
        InOp::Plutus(o, p) => format!("p {} {}", o, pwit_s(p)),
        InOp::Signer(k) => format!("s {}", k),
        InOp::Utxo(b, r) => {
            let t = inop_s(b);
            let (head, rest) = t.split_once(' ').unwrap();
            format!("{}u {} {}", head.trim_start_matches('r'), rest, match r { Some(x) => x.to_string(), None => "~".into() })
        }
    }
}
fn case_line(c: &Case) -> String {
    let mut t: Vec<String> = vec![c.label.clone(), format!("F{}", c.dedup as u8)];
    t.push(format!("B {}", c.attrs.len())); for (a, n) in &c.attrs { t.push(format!("{} {}", a, n)); }
    t.push(format!("I {}", c.inputs.len())); for op in &c.inputs { t.push(inop_s(op)); }
    t.push(format!("L {}", c.collateral.len())); for op in &c.collateral { t.push(inop_s(op)); }
    t.push(format!("C {}", c.certs.len()));
    for op in &c.certs {
        let mut s = format!("{} {} {}", op.kind, cred_s(&op.cred), op.keys.len());
        for k in &op.keys { s += &format!(" {}", k); }
        t.push(format!("{} {} {}", s, op.aux, wit_s(&op.wit)));
    }
    t.push(format!("W {}", c.wdrl.len())); for (cr, w) in &c.wdrl { t.push(format!("{} {}", cred_s(cr), wit_s(w))); }
    t.push(format!("V {}", c.votes.len())); for (k, cr, w) in &c.votes { t.push(format!("{} {} {}", k, cred_s(cr), wit_s(w))); }
    t.push(format!("P {}", c.props.len())); for (id, sc, w) in &c.props { t.push(format!("{} {} {}", id, *sc as u8, wit_s(w))); }
    t.push(format!("M {}", c.mint.len()));
    for m in &c.mint { t.push(match m { MintOp::Native(n) => format!("N {}", nsrc_s(n)), MintOp::Plutus(p, r) => format!("P {} {}", psrc_s(p), r) }); }
    t.push(format!("S {}", c.signers.len())); for k in &c.signers { t.push(k.to_string()); }
    t.push(format!("R {}", c.refs.len())); for r in &c.refs { t.push(r.to_string()); }
    t.push(format!("D {}", c.datums.len())); for d in &c.datums { t.push(d.to_string()); }
    if !c.hr.is_empty() { t.push(format!("H {}", c.hr.len())); for (cr, r) in &c.hr { t.push(format!("{} {}", cred_s(cr), r)); } }
    if !c.zero_wd.is_empty() { t.push(format!("Z {}", c.zero_wd.len())); for i in &c.zero_wd { t.push(i.to_string()); } }
    if let Some(q) = &c.mintq { t.push(format!("Q {}", q.len())); for (a, x) in q { t.push(format!("{} {}", a, x)); } }
    t.join(" ")
}

// ---------------------------------------------------------------------------------------------
// parsing
struct P<'a> { t: &'a [String], i: usize }
impl<'a> P<'a> {
    fn next(&mut self) -> &'a str { let s = &self.t[self.i]; self.i += 1; s.as_str() }
    fn num(&mut self) -> u64 { self.next().parse().expect("number in case") }
    fn optnum(&mut self) -> Option<u64> { let s = self.next(); if s == "~" { None } else { Some(s.parse().expect("number in case")) } }
    fn expect(&mut self, s: &str) { assert_eq!(self.next(), s, "case syntax"); }
    fn list(&mut self) -> Vec<u64> { let n = self.num(); (0..n).map(|_| self.num()).collect() }
    fn decl(&mut self) -> Option<Vec<u64>> {
        let s = self.next(); if s == "~" { None } else { let n: u64 = s.parse().unwrap(); Some((0..n).map(|_| self.num()).collect()) }
    }
    fn nsrc(&mut self) -> NSrc {
        match self.next() {
            "i" => { let s = self.num(); let ks = self.list(); let d = self.decl(); NSrc::Inline(s, ks, d) }
            "r" => { let r = self.num(); let s = self.num(); let d = self.decl(); NSrc::Ref(r, s, d) }
            x => panic!("nsrc {}", x),
        }
    }
    fn psrc(&mut self) -> PSrc {
        match self.next() {
            "i" => { let s = self.num(); let d = self.decl(); PSrc::Inline(s, d) }
            "r" => { let r = self.num(); let s = self.num(); let d = self.decl(); PSrc::Ref(r, s, d) }
            x => panic!("psrc {}", x),
        }
    }
    fn pwit(&mut self) -> PWit {
        let script = self.psrc();
        let datum = match self.next() { "~" => Dat::None, "i" => Dat::Inline(self.num()), "r" => Dat::Ref(self.num()), x => panic!("dat {}", x) };
        let red = self.num();
        PWit { script, datum, red }
    }
    fn wit(&mut self) -> Wit {
        match self.next() { "~" => Wit::None, "N" => Wit::Native(self.nsrc()), "P" => Wit::Plutus(self.pwit()), x => panic!("wit {}", x) }
    }
    fn cred(&mut self) -> Cred {
        let s = self.next();
        let n: u64 = s[1..].parse().unwrap();
        if s.starts_with('K') { Cred::K(n) } else { Cred::S(n) }
    }
    fn inops(&mut self) -> Vec<InOp> {
        let n = self.num();
        (0..n).map(|_| match self.next() {
            "k" => { let o = self.num(); InOp::Key(o, self.num(), false) }
            "rk" => { let o = self.num(); InOp::Key(o, self.num(), true) }
            "b" => { let o = self.num(); InOp::Byron(o, self.num(), false) }
            "rb" => { let o = self.num(); InOp::Byron(o, self.num(), true) }
            "n" => { let o = self.num(); InOp::Native(o, self.nsrc()) }
            "p" => { let o = self.num(); InOp::Plutus(o, self.pwit()) }
            "s" => InOp::Signer(self.num()),
            "ku" => { let o = self.num(); let b = InOp::Key(o, self.num(), false); InOp::Utxo(Box::new(b), self.optnum()) }
            "bu" => { let o = self.num(); let b = InOp::Byron(o, self.num(), false); InOp::Utxo(Box::new(b), self.optnum()) }
            "nu" => { let o = self.num(); let b = InOp::Native(o, self.nsrc()); InOp::Utxo(Box::new(b), self.optnum()) }
            "pu" => { let o = self.num(); let b = InOp::Plutus(o, self.pwit()); InOp::Utxo(Box::new(b), self.optnum()) }
            x => panic!("inop {}", x),
        }).collect()
    }
}
fn parse_case(t: &[String]) -> Case {
    let mut p = P { t, i: 0 };
    let mut c = Case::default();
    c.label = p.next().to_string();
    c.dedup = p.next() == "F1";
    p.expect("B"); let n = p.num(); for _ in 0..n { let a = p.num(); c.attrs.push((a, p.num())); }
    p.expect("I"); c.inputs = p.inops();
    p.expect("L"); c.collateral = p.inops();
    p.expect("C"); let n = p.num();
    for _ in 0..n { let kind = p.num() as u32; let cred = p.cred(); let keys = p.list(); let aux = p.num(); let wit = p.wit(); c.certs.push(CertOp { kind, cred, keys, aux, wit }); }
    p.expect("W"); let n = p.num(); for _ in 0..n { let cr = p.cred(); c.wdrl.push((cr, p.wit())); }
    p.expect("V"); let n = p.num(); for _ in 0..n { let k = p.num() as u32; let cr = p.cred(); c.votes.push((k, cr, p.wit())); }
    p.expect("P"); let n = p.num(); for _ in 0..n { let id = p.num(); let sc = p.num() == 1; c.props.push((id, sc, p.wit())); }
    p.expect("M"); let n = p.num();
    for _ in 0..n { match p.next() { "N" => c.mint.push(MintOp::Native(p.nsrc())), "P" => { let s = p.psrc(); c.mint.push(MintOp::Plutus(s, p.num())) } x => panic!("mint {}", x) } }
    p.expect("S"); c.signers = p.list();
    p.expect("R"); c.refs = p.list();
    p.expect("D"); c.datums = p.list();
    while p.i < p.t.len() {
        match p.next() {
            "H" => { let n = p.num(); for _ in 0..n { let cr = p.cred(); c.hr.push((cr, p.num())); } }
            "Z" => { let n = p.num(); for _ in 0..n { c.zero_wd.push(p.num() as usize); } }
            "Q" => { let n = p.num(); let mut q = vec![]; for _ in 0..n { let a = p.num(); q.push((a, p.next().parse::<i64>().expect("amount"))); } c.mintq = Some(q); }
            x => panic!("trailing section {}", x),
        }
    }
    c
}

// ---------------------------------------------------------------------------------------------
// real values for the identifiers
fn sk(k: u64) -> PrivateKey { PrivateKey::from_normal_bytes(&Rng::new(0xC18_0000 ^ k).bytes(32)).unwrap() }
const NKEYS: u64 = 600;
thread_local! { static KEY_HASHES: Vec<Ed25519KeyHash> = (0..NKEYS).map(|k| sk(k).to_public().hash()).collect(); }
fn kh(k: u64) -> Ed25519KeyHash { if k < NKEYS { KEY_HASHES.with(|t| t[k as usize].clone()) } else { sk(k).to_public().hash() } }
fn khs(ks: &[u64]) -> Ed25519KeyHashes { let mut s = Ed25519KeyHashes::new(); for k in ks { s.add(&kh(*k)); } s }
thread_local! { static BYRON_KEYS: Vec<Vec<u8>> = (0..10u64).map(|a| Bip32PrivateKey::from_bip39_entropy(&Rng::new(0xB1_0000 ^ a).bytes(32), &[]).as_bytes()).collect(); }
fn byron_key(a: u64) -> Bip32PrivateKey { BYRON_KEYS.with(|t| Bip32PrivateKey::from_bytes(&t[(a % 10) as usize]).unwrap()) }
fn crc32(data: &[u8]) -> u32 {
    let mut crc = 0xffff_ffffu32;
    for b in data { crc ^= *b as u32; for _ in 0..8 { crc = if crc & 1 != 0 { (crc >> 1) ^ 0xedb8_8320 } else { crc >> 1 }; } }
    !crc
}
fn cbor_head(major: u8, n: u64, out: &mut Vec<u8>) {
    let m = major << 5;
    if n < 24 { out.push(m | n as u8) } else if n < 256 { out.push(m | 24); out.push(n as u8) }
    else if n < 65536 { out.push(m | 25); out.extend_from_slice(&(n as u16).to_be_bytes()) }
    else { out.push(m | 26); out.extend_from_slice(&(n as u32).to_be_bytes()) }
}
/// A Daedalus-style Byron address (same construction as harness/src/bin/c13.rs): the attributes carry a derivation-path payload of
/// `dp_len` bytes (and the protocol magic when given).  The library has no public constructor for this style, so the address is
/// assembled on the wire ([#6.24(bytes [root, attributes, 0]), crc32]); the root is arbitrary (sizes depend on the attributes alone).
fn daedalus_style_address(root_seed: u64, dp_len: usize, magic: Option<u32>) -> ByronAddress {
    let mut root = [0u8; 28];
    for (i, b) in root.iter_mut().enumerate() { *b = (root_seed.wrapping_mul(0x9E37_79B9_7F4A_7C15).rotate_left((i as u32 * 5) % 64) >> 7) as u8 ^ i as u8; }
    let mut dp = Vec::new();
    cbor_head(2, dp_len as u64, &mut dp);
    for i in 0..dp_len { dp.push((root_seed as u8).wrapping_add((i as u8).wrapping_mul(7))); }
    let mut payload = Vec::new();
    cbor_head(4, 3, &mut payload);
    cbor_head(2, 28, &mut payload); payload.extend_from_slice(&root);
    cbor_head(5, if magic.is_some() { 2 } else { 1 }, &mut payload);
    cbor_head(0, 1, &mut payload); cbor_head(2, dp.len() as u64, &mut payload); payload.extend_from_slice(&dp);
    if let Some(m) = magic { let mut mb = Vec::new(); cbor_head(0, m as u64, &mut mb); cbor_head(0, 2, &mut payload); cbor_head(2, mb.len() as u64, &mut payload); payload.extend_from_slice(&mb); }
    cbor_head(0, 0, &mut payload);
    let mut addr = Vec::new();
    cbor_head(4, 2, &mut addr); cbor_head(6, 24, &mut addr); cbor_head(2, payload.len() as u64, &mut addr); addr.extend_from_slice(&payload);
    cbor_head(0, crc32(&payload) as u64, &mut addr);
    ByronAddress::from_bytes(addr).expect("hand-built Byron address")
}
/// Byron address ids: 0..3 Icarus style (even: mainnet, no attribute; odd: testnet protocol magic), 4..9 Daedalus style with a
/// derivation-path payload of 1 / 8 / 34 bytes (4..6 without, 7..9 with the protocol magic)
fn is_daedalus(a: u64) -> bool { a % 10 >= 4 }
fn byron(a: u64) -> ByronAddress {
    let a = a % 10;
    if a < 4 {
        let magic = if a % 2 == 0 { 764824073 } else { 1097911063 };
        ByronAddress::icarus_from_key(&byron_key(a).to_public(), magic)
    } else {
        daedalus_style_address(a, [1usize, 8, 34][((a - 4) % 3) as usize], if a >= 7 { Some(1097911063) } else { None })
    }
}
fn bootstrap_witness(hash: &TransactionHash, a: u64) -> BootstrapWitness {
    if is_daedalus(a) {
        let k = LegacyDaedalusPrivateKey::from_bytes(&byron_key(a).as_bytes()).expect("daedalus key");
        make_daedalus_bootstrap_witness(hash, &byron(a), &k)
    } else { make_icarus_bootstrap_witness(hash, &byron(a), &byron_key(a)) }
}
fn oref(o: u64) -> TransactionInput {
    let mut h = vec![0u8; 32];
    let q = (o >> 2) as u32;
    h[28..32].copy_from_slice(&q.to_be_bytes());
    TransactionInput::new(&TransactionHash::from_bytes(h).unwrap(), (o & 3) as u32)
}
fn oref_id(i: &TransactionInput) -> u64 {
    let h = i.transaction_id().to_bytes();
    ((u32::from_be_bytes([h[28], h[29], h[30], h[31]]) as u64) << 2) | (i.index() as u64)
}
/// datum ids 0..9: the integer in its minimal encoding; ids 10+v: the SAME integer v written non-minimally (0x18 v), read from
/// the wire with its bytes preserved: equal as values, different bytes, different datum hashes -> two datums
fn datum(d: u64) -> PlutusData {
    if d >= 10 { PlutusData::from_bytes(vec![0x18, (d - 10) as u8]).unwrap() }
    else { PlutusData::new_integer(&BigInt::from_str(&d.to_string()).unwrap()) }
}
fn datum_id(p: &PlutusData) -> u64 {
    let b = p.to_bytes();
    if b.len() == 1 && b[0] < 24 { b[0] as u64 } else if b.len() == 2 && b[0] == 0x18 { 10 + b[1] as u64 } else { 9999 }
}
fn redeemer(r: u64) -> Redeemer {
    Redeemer::new(&RedeemerTag::new_spend(), &BigNum::from(0u64), &datum(r), &ExUnits::new(&BigNum::from(r), &BigNum::from(r + 1)))
}
fn value(i: usize) -> Value { Value::new(&BigNum::from(2_000_000u64 + i as u64)) }

struct World { native_keys: BTreeMap<u64, Vec<u64>> }
impl World {
    fn note_n(&mut self, n: &NSrc) { if let NSrc::Inline(s, ks, _) = n { self.native_keys.entry(*s).or_insert(ks.clone()); } }
    fn note_w(&mut self, w: &Wit) { if let Wit::Native(n) = w { self.note_n(n) } }
    fn new(c: &Case) -> World {
        let mut w = World { native_keys: BTreeMap::new() };
        for op in c.inputs.iter().chain(c.collateral.iter()) { if let InOp::Native(_, n) = base(op) { w.note_n(n) } }
        for op in &c.certs { w.note_w(&op.wit) }
        for (_, x) in &c.wdrl { w.note_w(x) }
        for (_, _, x) in &c.votes { w.note_w(x) }
        for m in &c.mint { if let MintOp::Native(n) = m { w.note_n(n) } }
        w
    }
    fn native_script(&self, s: u64, ks: Option<&Vec<u64>>) -> NativeScript {
        let keys = ks.cloned().or_else(|| self.native_keys.get(&s).cloned()).unwrap_or_default();
        let mut all = NativeScripts::new();
        for k in &keys { all.add(&NativeScript::new_script_pubkey(&ScriptPubkey::new(&kh(*k)))); }
        all.add(&NativeScript::new_timelock_start(&TimelockStart::new_timelockstart(&BigNum::from(s))));
        NativeScript::new_script_all(&ScriptAll::new(&all))
    }
    /// Plutus script ids 1000+3b, 1001+3b, 1002+3b share the SAME BYTES (byte id b) under the three language versions
    /// (language = id mod 3): three different scripts with three different hashes.
    fn plutus_script(&self, s: u64) -> PlutusScript {
        let mut bytes = vec![0x4du8, 0x01, 0x00, 0x00];
        bytes.extend_from_slice(&((s - 1000) / 3).to_be_bytes());
        match s % 3 { 0 => PlutusScript::new(bytes), 1 => PlutusScript::new_v2(bytes), _ => PlutusScript::new_v3(bytes) }
    }
    fn script_hash(&self, s: u64) -> ScriptHash { if s < 1000 { self.native_script(s, None).hash() } else { self.plutus_script(s).hash() } }
    fn cred(&self, c: &Cred) -> Credential {
        match c { Cred::K(k) => Credential::from_keyhash(&kh(*k)), Cred::S(s) => Credential::from_scripthash(&self.script_hash(*s)) }
    }
    fn nsrc(&self, n: &NSrc) -> NativeScriptSource {
        let (mut src, d) = match n {
            NSrc::Inline(s, ks, d) => (NativeScriptSource::new(&self.native_script(*s, Some(ks))), d),
            NSrc::Ref(r, s, d) => (NativeScriptSource::new_ref_input(&self.script_hash(*s), &oref(*r), 50 + (*r % 50) as usize), d),
        };
        if let Some(d) = d { src.set_required_signers(&khs(d)); }
        src
    }
    fn psrc(&self, p: &PSrc) -> PlutusScriptSource {
        let (mut src, d) = match p {
            PSrc::Inline(s, d) => (PlutusScriptSource::new(&self.plutus_script(*s)), d),
            PSrc::Ref(r, s, d) => {
                // the language and size a reference source declares are the caller's word: they vary with the outpoint
                let lang = match (s + r) % 3 { 0 => Language::new_plutus_v1(), 1 => Language::new_plutus_v2(), _ => Language::new_plutus_v3() };
                (PlutusScriptSource::new_ref_input(&self.script_hash(*s), &oref(*r), &lang, 60 + (*r % 50) as usize), d)
            }
        };
        if let Some(d) = d { src.set_required_signers(&khs(d)); }
        src
    }
    fn pwit(&self, p: &PWit) -> PlutusWitness {
        let src = self.psrc(&p.script);
        match &p.datum {
            Dat::None => PlutusWitness::new_with_ref_without_datum(&src, &redeemer(p.red)),
            Dat::Inline(d) => PlutusWitness::new_with_ref(&src, &DatumSource::new(&datum(*d)), &redeemer(p.red)),
            Dat::Ref(r) => PlutusWitness::new_with_ref(&src, &DatumSource::new_ref_input(&oref(*r)), &redeemer(p.red)),
        }
    }
}

fn anchor(i: u64) -> Anchor {
    let mut h = vec![7u8; 32]; h[0] = i as u8; h[1] = (i >> 8) as u8;
    Anchor::new(&URL::new(format!("https://a.example/{}", i)).unwrap(), &AnchorDataHash::from_bytes(h).unwrap())
}
fn filler28(tag: u8, i: u64) -> Vec<u8> { let mut v = vec![tag; 28]; v[1..9].copy_from_slice(&i.to_be_bytes()); v }

/// A real certificate of CDDL kind `kind`; `aux` feeds every field the witness code does not look at.
fn mk_cert(w: &World, op: &CertOp) -> Certificate {
    let c = w.cred(&op.cred);
    let aux = op.aux;
    let pool = Ed25519KeyHash::from_bytes(filler28(0xA0, aux)).unwrap();
    let coin = BigNum::from(2_000_000u64 + aux);
    let drep = DRep::new_key_hash(&Ed25519KeyHash::from_bytes(filler28(0xDD, aux)).unwrap());
    // every field the witness code ignores is a function of aux; kinds 0 and 1 have no such field, kinds 5 and 6 no credential
    assert!(!(matches!(op.kind, 0 | 1) && aux != 0), "aux must be 0 for certificate kinds 0 and 1");
    assert!(!(matches!(op.kind, 5 | 6) && op.cred != Cred::K(0)), "credential must be K0 for certificate kinds 5 and 6");
    assert!(op.kind != 3 || op.keys.windows(2).all(|w| w[0] < w[1]), "pool owners must be strictly increasing (they are a set)");
    let key_of = |cr: &Cred| match cr { Cred::K(k) => kh(*k), Cred::S(_) => Ed25519KeyHash::from_bytes(filler28(0xEE, aux)).unwrap() };
    match op.kind {
        0 => Certificate::new_stake_registration(&StakeRegistration::new(&c)),
        1 => Certificate::new_stake_deregistration(&StakeDeregistration::new(&c)),
        2 => Certificate::new_stake_delegation(&StakeDelegation::new(&c, &pool)),
        3 => {
            let params = PoolParams::new(&key_of(&op.cred), &VRFKeyHash::from_bytes(vec![3u8; 32]).unwrap(),
                &BigNum::from(1_000_000_000u64 + aux), &BigNum::from(340_000_000u64),
                &UnitInterval::new(&BigNum::from(1u64), &BigNum::from(20u64)),
                &RewardAddress::new(0, &Credential::from_keyhash(&pool)), &khs(&op.keys), &Relays::new(), None);
            Certificate::new_pool_registration(&PoolRegistration::new(&params))
        }
        4 => Certificate::new_pool_retirement(&PoolRetirement::new(&key_of(&op.cred), 100 + aux as u32)),
        5 => {
            let g = op.keys.get(0).map(|k| kh(*k).to_bytes()).unwrap_or_else(|| filler28(0xC0, aux));
            let d = op.keys.get(1).map(|k| kh(*k).to_bytes()).unwrap_or_else(|| filler28(0xC1, aux));
            Certificate::new_genesis_key_delegation(&GenesisKeyDelegation::new(
                &GenesisHash::from_bytes(g).unwrap(), &GenesisDelegateHash::from_bytes(d).unwrap(),
                &VRFKeyHash::from_bytes(vec![(aux % 251) as u8; 32]).unwrap()))
        }
        6 => Certificate::new_move_instantaneous_rewards_cert(&MoveInstantaneousRewardsCert::new(
            &MoveInstantaneousReward::new_to_other_pot(MIRPot::Reserves, &BigNum::from(777_000_000u64 + aux)))),
        7 => Certificate::new_reg_cert(&StakeRegistration::new_with_explicit_deposit(&c, &coin)).unwrap(),
        8 => Certificate::new_unreg_cert(&StakeDeregistration::new_with_explicit_refund(&c, &coin)).unwrap(),
        9 => Certificate::new_vote_delegation(&VoteDelegation::new(&c, &drep)),
        10 => Certificate::new_stake_and_vote_delegation(&StakeAndVoteDelegation::new(&c, &pool, &drep)),
        11 => Certificate::new_stake_registration_and_delegation(&StakeRegistrationAndDelegation::new(&c, &pool, &coin)),
        12 => Certificate::new_vote_registration_and_delegation(&VoteRegistrationAndDelegation::new(&c, &drep, &coin)),
        13 => Certificate::new_stake_vote_registration_and_delegation(&StakeVoteRegistrationAndDelegation::new(&c, &pool, &drep, &coin)),
        14 => Certificate::new_committee_hot_auth(&CommitteeHotAuth::new(&c, &Credential::from_keyhash(&pool))),
        15 => Certificate::new_committee_cold_resign(&CommitteeColdResign::new_with_anchor(&c, &anchor(aux))),
        16 => Certificate::new_drep_registration(&DRepRegistration::new_with_anchor(&c, &coin, &anchor(aux))),
        17 => Certificate::new_drep_deregistration(&DRepDeregistration::new(&c, &coin)),
        18 => Certificate::new_drep_update(&DRepUpdate::new_with_anchor(&c, &anchor(aux))),
        _ => panic!("bad certificate kind"),
    }
}

fn mk_proposal(w: &World, id: u64, scripted: bool) -> VotingProposal {
    let ra = RewardAddress::new(0, &Credential::from_keyhash(&Ed25519KeyHash::from_bytes(filler28(0xD0, id)).unwrap()));
    let action = if scripted {
        let mut tw = TreasuryWithdrawals::new();
        tw.insert(&ra, &BigNum::from(1_000u64 + id));
        GovernanceAction::new_treasury_withdrawals_action(&TreasuryWithdrawalsAction::new_with_policy_hash(&tw, &w.script_hash(1000 + id % 5)))
    } else {
        GovernanceAction::new_info_action(&InfoAction::new())
    };
    VotingProposal::new(&action, &anchor(1000 + id), &ra, &BigNum::from(500_000_000u64))
}

fn add_inops(w: &World, b: &mut TxInputsBuilder, ops: &[InOp]) {
    for (i, op) in ops.iter().enumerate() {
        match op {
            InOp::Key(o, k, false) => b.add_key_input(&kh(*k), &oref(*o), &value(i)),
            InOp::Key(o, k, true) => b.add_regular_input(&EnterpriseAddress::new(0, &Credential::from_keyhash(&kh(*k))).to_address(), &oref(*o), &value(i)).unwrap(),
            InOp::Byron(o, a, false) => b.add_bootstrap_input(&byron(*a), &oref(*o), &value(i)),
            InOp::Byron(o, a, true) => b.add_regular_input(&byron(*a).to_address(), &oref(*o), &value(i)).unwrap(),
            InOp::Native(o, n) => b.add_native_script_input(&w.nsrc(n), &oref(*o), &value(i)),
            InOp::Plutus(o, p) => b.add_plutus_script_input(&w.pwit(p), &oref(*o), &value(i)),
            InOp::Signer(k) => b.add_required_signer(&kh(*k)),
            InOp::Utxo(bx, sref) => {
                let script_addr = |h: &ScriptHash| EnterpriseAddress::new(0, &Credential::from_scripthash(h)).to_address();
                let (o, addr) = match &**bx {
                    InOp::Key(o, k, _) => (*o, EnterpriseAddress::new(0, &Credential::from_keyhash(&kh(*k))).to_address()),
                    InOp::Byron(o, a, _) => (*o, byron(*a).to_address()),
                    InOp::Native(o, n) => (*o, script_addr(&w.script_hash(match n { NSrc::Inline(s, ..) => *s, NSrc::Ref(_, s, _) => *s }))),
                    InOp::Plutus(o, p) => (*o, script_addr(&w.script_hash(match &p.script { PSrc::Inline(s, _) => *s, PSrc::Ref(_, s, _) => *s }))),
                    _ => panic!("utxo form of a signer"),
                };
                let mut out = TransactionOutput::new(&addr, &value(i));
                if let Some(s) = sref {
                    out.set_script_ref(&if *s < 1000 { ScriptRef::new_native_script(&w.native_script(*s, None)) } else { ScriptRef::new_plutus_script(&w.plutus_script(*s)) });
                }
                let utxo = TransactionUnspentOutput::new(&oref(o), &out);
                match &**bx {
                    InOp::Native(_, n) => b.add_native_script_utxo(&utxo, &w.nsrc(n)).unwrap(),
                    InOp::Plutus(_, p) => b.add_plutus_script_utxo(&utxo, &w.pwit(p)).unwrap(),
                    _ => b.add_regular_utxo(&utxo).unwrap(),
                }
            }
        }
    }
}

// ---------------------------------------------------------------------------------------------
// who has to sign, read off the case the way the ledger reads the body: the harness signs with these
fn decl_keys(d: &Option<Vec<u64>>) -> Vec<u64> { d.clone().unwrap_or_default() }
fn nsrc_signers(n: &NSrc) -> Vec<u64> {
    match n { NSrc::Inline(_, ks, None) => ks.clone(), NSrc::Inline(_, _, Some(d)) => d.clone(), NSrc::Ref(_, _, d) => decl_keys(d) }
}
fn psrc_signers(p: &PSrc) -> Vec<u64> { match p { PSrc::Inline(_, d) => decl_keys(d), PSrc::Ref(_, _, d) => decl_keys(d) } }
fn wit_signers(w: &Wit) -> Vec<u64> { match w { Wit::None => vec![], Wit::Native(n) => nsrc_signers(n), Wit::Plutus(p) => psrc_signers(&p.script) } }
fn input_signers(ops: &[InOp], keys: &mut BTreeSet<u64>, boots: &mut BTreeSet<u64>) {
    // the owner of an outpoint is the one of the last call that added it
    let mut last: BTreeMap<u64, &InOp> = BTreeMap::new();
    for op in ops {
        let op = base(op);
        match op {
            InOp::Key(o, ..) | InOp::Byron(o, ..) | InOp::Native(o, _) | InOp::Plutus(o, _) => { last.insert(*o, op); }
            InOp::Signer(k) => { keys.insert(*k); }
            InOp::Utxo(..) => unreachable!(),
        }
    }
    for op in last.values() {
        match op {
            InOp::Key(_, k, _) => { keys.insert(*k); }
            InOp::Byron(_, a, _) => { boots.insert(*a); }
            InOp::Native(_, n) => keys.extend(nsrc_signers(n)),
            InOp::Plutus(_, p) => keys.extend(psrc_signers(&p.script)),
            InOp::Signer(_) | InOp::Utxo(..) => {}
        }
    }
}
fn cred_key(c: &Cred, keys: &mut BTreeSet<u64>) { if let Cred::K(k) = c { keys.insert(*k); } }
fn cert_signers(op: &CertOp, keys: &mut BTreeSet<u64>) {
    match op.kind {
        0 | 6 => {}
        3 => { cred_key(&op.cred, keys); keys.extend(op.keys.iter().cloned()); }
        5 => { if let Some(g) = op.keys.get(0) { keys.insert(*g); } }   // the genesis key signs a genesis delegation
        _ => cred_key(&op.cred, keys),
    }
    keys.extend(wit_signers(&op.wit));
}

// ---------------------------------------------------------------------------------------------
fn list_s(mut v: Vec<u64>) -> String {
    v.sort();
    if v.is_empty() { "-".into() } else { v.iter().map(|x| x.to_string()).collect::<Vec<_>>().join(",") }
}

fn run_case(c: &Case) -> String {
    let w = World::new(c);
    let cfg = TransactionBuilderConfigBuilder::new()
        .fee_algo(&LinearFee::new(&BigNum::from(44u64), &BigNum::from(155381u64)))
        .pool_deposit(&BigNum::from(500_000_000u64)).key_deposit(&BigNum::from(2_000_000u64))
        .max_value_size(5000).max_tx_size(u32::MAX).coins_per_utxo_byte(&BigNum::from(4310u64))
        .ex_unit_prices(&ExUnitPrices::new(&UnitInterval::new(&BigNum::from(577u64), &BigNum::from(10000u64)),
                                           &UnitInterval::new(&BigNum::from(721u64), &BigNum::from(10000000u64))))
        .ref_script_coins_per_byte(&UnitInterval::new(&BigNum::from(15u64), &BigNum::from(1u64)))
        .deduplicate_explicit_ref_inputs_with_regular_inputs(c.dedup)
        .build().unwrap();
    let mut tb = TransactionBuilder::new(&cfg);
    let mut acc = String::new();
    let mut mark = |ok: bool| acc.push(if ok { '1' } else { '0' });

    let mut ib = TxInputsBuilder::new(); add_inops(&w, &mut ib, &c.inputs); tb.set_inputs(&ib);
    let mut cb = TxInputsBuilder::new(); add_inops(&w, &mut cb, &c.collateral);
    if !c.collateral.is_empty() { tb.set_collateral(&cb); }

    // certificates
    let mut certs = CertificatesBuilder::new();
    let mut kept_certs: Vec<&CertOp> = vec![];
    for op in &c.certs {
        let cert = mk_cert(&w, op);
        let r = match &op.wit {
            Wit::None => certs.add(&cert),
            Wit::Native(n) => certs.add_with_native_script(&cert, &w.nsrc(n)),
            Wit::Plutus(p) => certs.add_with_plutus_witness(&cert, &w.pwit(p)),
        };
        if r.is_ok() { kept_certs.push(op); }
        mark(r.is_ok());
    }
    if !c.certs.is_empty() { tb.set_certs_builder(&certs); }
    // withdrawals
    let mut wd = WithdrawalsBuilder::new();
    let mut kept_wd: Vec<(Cred, &Wit)> = vec![];
    for (i, (cr, wit)) in c.wdrl.iter().enumerate() {
        let addr = RewardAddress::new(0, &w.cred(cr));
        let coin = BigNum::from(if c.zero_wd.contains(&i) { 0 } else { 1 + i as u64 });
        let r = match wit {
            Wit::None => wd.add(&addr, &coin),
            Wit::Native(n) => wd.add_with_native_script(&addr, &coin, &w.nsrc(n)),
            Wit::Plutus(p) => wd.add_with_plutus_witness(&addr, &coin, &w.pwit(p)),
        };
        if r.is_ok() { kept_wd.retain(|(c2, _)| c2 != cr); kept_wd.push((cr.clone(), wit)); }   // insert replaces
        mark(r.is_ok());
    }
    if !c.wdrl.is_empty() { tb.set_withdrawals_builder(&wd); }
    // votes
    let mut vb = VotingBuilder::new();
    let mut kept_votes: Vec<(u32, Cred, &Wit)> = vec![];
    for (i, (kind, cr, wit)) in c.votes.iter().enumerate() {
        let voter = match kind {
            0 => Voter::new_constitutional_committee_hot_credential(&w.cred(cr)),
            1 => Voter::new_drep_credential(&w.cred(cr)),
            _ => Voter::new_stake_pool_key_hash(&match cr { Cred::K(k) => kh(*k), Cred::S(s) => Ed25519KeyHash::from_bytes(w.script_hash(*s).to_bytes()).unwrap() }),
        };
        let aid = GovernanceActionId::new(&TransactionHash::from_bytes(vec![9u8; 32]).unwrap(), i as u32);
        let proc_ = VotingProcedure::new(VoteKind::Yes);
        let r = match wit {
            Wit::None => vb.add(&voter, &aid, &proc_),
            Wit::Native(n) => vb.add_with_native_script(&voter, &aid, &proc_, &w.nsrc(n)),
            Wit::Plutus(p) => vb.add_with_plutus_witness(&voter, &aid, &proc_, &w.pwit(p)),
        };
        if r.is_ok() && !kept_votes.iter().any(|(k2, c2, _)| k2 == kind && c2 == cr) { kept_votes.push((*kind, cr.clone(), wit)); }  // first witness stays
        mark(r.is_ok());
    }
    if !c.votes.is_empty() { tb.set_voting_builder(&vb); }
    // proposals
    let mut pb = VotingProposalBuilder::new();
    let mut kept_props: Vec<((u64, bool), &Wit)> = vec![];
    for (id, scripted, wit) in &c.props {
        let prop = mk_proposal(&w, *id, *scripted);
        let r = match wit {
            Wit::Plutus(p) => pb.add_with_plutus_witness(&prop, &w.pwit(p)),
            _ => pb.add(&prop),
        };
        if r.is_ok() { kept_props.retain(|(i2, _)| *i2 != (*id, *scripted)); kept_props.push(((*id, *scripted), wit)); }
        mark(r.is_ok());
    }
    if !c.props.is_empty() { tb.set_voting_proposal_builder(&pb); }
    // mint
    let mut mb = MintBuilder::new();
    let mut kept_mint: Vec<(u64, &MintOp)> = vec![];
    for (i, m) in c.mint.iter().enumerate() {
        let (wit, h) = match m {
            MintOp::Native(n) => (MintWitness::new_native_script(&w.nsrc(n)), match n { NSrc::Inline(s, ..) => *s, NSrc::Ref(_, s, _) => *s }),
            MintOp::Plutus(p, r) => (MintWitness::new_plutus_script(&w.psrc(p), &redeemer(*r)), match p { PSrc::Inline(s, _) => *s, PSrc::Ref(_, s, _) => *s }),
        };
        let (asset, amount) = match &c.mintq { Some(q) => q[i], None => ((i % 3) as u64, 1 + i as i64) };
        let name = AssetName::new(vec![b'a' + asset as u8]).unwrap();
        let r = mb.add_asset(&wit, &name, &Int::new_i32(amount as i32));
        if r.is_ok() && !kept_mint.iter().any(|(h2, _)| *h2 == h) { kept_mint.push((h, m)); }   // first source stays
        mark(r.is_ok());
    }
    if !c.mint.is_empty() { tb.set_mint_builder(&mb); }
    for k in &c.signers { tb.add_required_signer(&kh(*k)); }
    for r in &c.refs { tb.add_reference_input(&oref(*r)); }
    for (i, d) in c.datums.iter().enumerate() {
        let v = if i % 2 == 0 { PlutusData::from_bytes(datum(*d).to_bytes()).unwrap() } else { datum(*d) };
        tb.add_extra_witness_datum(&v);
    }
    tb.set_fee(&BigNum::from(1_000_000u64));

    let fs = match tb.full_size() { Ok(n) => n as i128, Err(_) => return "err:full_size".into() };
    let tx = match tb.build_tx_unsafe() { Ok(t) => t, Err(_) => return "err:build".into() };
    let us = tx.to_bytes().len() as i128;
    let body = tx.body();
    let tx_hash = FixedTransaction::new_from_body_bytes(&body.to_bytes()).unwrap().transaction_hash();

    // who signs
    let mut keys: BTreeSet<u64> = BTreeSet::new();
    let mut boots: BTreeSet<u64> = BTreeSet::new();
    input_signers(&c.inputs, &mut keys, &mut boots);
    input_signers(&c.collateral, &mut keys, &mut boots);
    keys.extend(c.signers.iter().cloned());
    for op in &kept_certs { cert_signers(op, &mut keys); }
    for (cr, wit) in &kept_wd { cred_key(cr, &mut keys); keys.extend(wit_signers(wit)); }
    for (_, cr, wit) in &kept_votes { cred_key(cr, &mut keys); keys.extend(wit_signers(wit)); }
    for (_, wit) in &kept_props { keys.extend(wit_signers(wit)); }
    for (_, m) in &kept_mint { match m { MintOp::Native(n) => keys.extend(nsrc_signers(n)), MintOp::Plutus(p, _) => keys.extend(psrc_signers(p)) } }

    let mut ws = tx.witness_set();
    let mut vk = Vkeywitnesses::new();
    for k in &keys { vk.add(&make_vkey_witness(&tx_hash, &sk(*k))); }
    if !keys.is_empty() { ws.set_vkeys(&vk); }
    let mut bw = BootstrapWitnesses::new();
    for a in &boots { bw.add(&bootstrap_witness(&tx_hash, *a)); }
    if !boots.is_empty() { ws.set_bootstraps(&bw); }
    let signed = Transaction::new(&body, &ws, tx.auxiliary_data());
    let signed_bytes = signed.to_bytes();
    let ss = signed_bytes.len() as i128;
    // the signed transaction survives the wire and every signature verifies against the body hash
    let back = match Transaction::from_bytes(signed_bytes.clone()) { Ok(t) => t, Err(_) => return "err:signed-roundtrip".into() };
    if back.to_bytes() != signed_bytes { return "err:signed-reencode".into(); }
    let bws = back.witness_set();
    let nvk = bws.vkeys().map(|v| v.len()).unwrap_or(0);
    let nbw = bws.bootstraps().map(|v| v.len()).unwrap_or(0);
    if nvk != keys.len() || nbw != boots.len() { return format!("err:witness-count vk={} bw={}", nvk, nbw); }
    if let Some(v) = bws.vkeys() {
        for i in 0..v.len() { let x = v.get(i); if !x.vkey().public_key().verify(&tx_hash.to_bytes(), &x.signature()) { return "err:bad-signature".into(); } }
    }
    if let Some(v) = bws.bootstraps() {
        for i in 0..v.len() { let x = v.get(i); if !x.vkey().public_key().verify(&tx_hash.to_bytes(), &x.signature()) { return "err:bad-bootstrap-signature".into(); } }
    }

    // what the built transaction shows
    let mut native_ids: BTreeMap<Vec<u8>, u64> = BTreeMap::new();
    for s in 0..40u64 { native_ids.insert(w.native_script(s, None).to_bytes(), s); }
    let lang_no = |p: &PlutusScript| -> u8 { match p.language_version().kind() { LanguageKind::PlutusV1 => 0, LanguageKind::PlutusV2 => 1, LanguageKind::PlutusV3 => 2 } };
    let mut plutus_ids: BTreeMap<(Vec<u8>, u8), u64> = BTreeMap::new();
    for s in 1000..1040u64 { let p = w.plutus_script(s); plutus_ids.insert((p.bytes(), lang_no(&p)), s); }
    let mut key_ids: BTreeMap<Vec<u8>, u64> = BTreeMap::new();
    for k in 0..NKEYS { key_ids.insert(kh(k).to_bytes(), k); }
    let wset = tx.witness_set();
    let mut ns = vec![]; if let Some(v) = wset.native_scripts() { for i in 0..v.len() { ns.push(*native_ids.get(&v.get(i).to_bytes()).unwrap_or(&9999)); } }
    let mut ps = vec![]; if let Some(v) = wset.plutus_scripts() { for i in 0..v.len() { { let p = v.get(i); ps.push(*plutus_ids.get(&(p.bytes(), lang_no(&p))).unwrap_or(&9999)); } } }
    let mut dat = vec![]; if let Some(v) = wset.plutus_data() { for i in 0..v.len() { dat.push(datum_id(&v.get(i))); } }
    let mut red: Vec<(u64, u64)> = vec![];
    if let Some(v) = wset.redeemers() {
        for i in 0..v.len() {
            let r = v.get(i);
            let tag = match r.tag().kind() { RedeemerTagKind::Spend => 0, RedeemerTagKind::Mint => 1, RedeemerTagKind::Cert => 2, RedeemerTagKind::Reward => 3, RedeemerTagKind::Vote => 4, RedeemerTagKind::VotingProposal => 5 };
            red.push((tag, r.data().as_integer().map(|b| b.to_str().parse::<u64>().unwrap_or(9999)).unwrap_or(9999)));
        }
    }
    red.sort();
    let red_s = if red.is_empty() { "-".to_string() } else { red.iter().map(|(t, p)| format!("{}:{}", t, p)).collect::<Vec<_>>().join(",") };
    let ins_of = |v: Option<TransactionInputs>| -> Vec<u64> { let mut o = vec![]; if let Some(v) = v { for i in 0..v.len() { o.push(oref_id(&v.get(i))); } } o };
    let refs = ins_of(body.reference_inputs());
    let ins = ins_of(Some(body.inputs()));
    let col = ins_of(body.collateral());
    let mut rs = vec![]; if let Some(v) = body.required_signers() { for i in 0..v.len() { rs.push(*key_ids.get(&v.get(i).to_bytes()).unwrap_or(&9999)); } }

    // policies of the body's mint and the vote redeemers with their indices
    let mut hash_ids: BTreeMap<Vec<u8>, u64> = BTreeMap::new();
    for sid in (0..40u64).chain(1000..1040u64) { hash_ids.insert(w.script_hash(sid).to_bytes(), sid); }
    let mut mp = vec![];
    if let Some(m) = body.mint() { let ks = m.keys(); for i in 0..ks.len() { mp.push(*hash_ids.get(&ks.get(i).to_bytes()).unwrap_or(&9999)); } }
    let mut vred: Vec<(u64, u64)> = vec![];
    if let Some(v) = wset.redeemers() {
        for i in 0..v.len() { let r = v.get(i); if r.tag().kind() == RedeemerTagKind::Vote {
            vred.push((r.index().to_str().parse().unwrap(), datum_id(&r.data()))); } }
    }
    vred.sort();
    let vred_s = if vred.is_empty() { "-".to_string() } else { vred.iter().map(|(t, p)| format!("{}:{}", t, p)).collect::<Vec<_>>().join(",") };
    // the hash-rank table of the case must be the true one
    for (a, n) in &c.attrs { if byron(*a).attributes().len() as u64 != *n { return format!("err:stale-attribute-table {} {}", a, byron(*a).attributes().len()); } }
    let true_hr = hash_ranks(&w, c);
    if !c.hr.is_empty() && c.hr != true_hr { return format!("err:stale-hash-rank-table {:?}", true_hr); }

    format!("ok acc={} dfs={} dss={} sig={} bw={} ns={} ps={} dat={} red={} refs={} ins={} col={} rs={} mp={} vred={}",
        if acc.is_empty() { "-".to_string() } else { acc }, fs - us, ss - us,
        list_s(keys.into_iter().collect()), list_s(boots.into_iter().collect()),
        list_s(ns), list_s(ps), list_s(dat), red_s, list_s(refs), list_s(ins), list_s(col), list_s(rs), list_s(mp), vred_s)
}

/// rank of the 28 hash bytes of every credential that votes (byte order, nothing else)
fn hash_ranks(w: &World, c: &Case) -> Vec<(Cred, u64)> {
    let mut creds: Vec<Cred> = vec![];
    for (_, cr, _) in &c.votes { if !creds.contains(cr) { creds.push(cr.clone()); } }
    let bytes = |cr: &Cred| match cr { Cred::K(k) => kh(*k).to_bytes(), Cred::S(s) => w.script_hash(*s).to_bytes() };
    let mut sorted: Vec<Vec<u8>> = creds.iter().map(|c| bytes(c)).collect();
    sorted.sort(); sorted.dedup();
    creds.iter().map(|cr| { let b = bytes(cr); (cr.clone(), sorted.iter().position(|x| *x == b).unwrap() as u64) }).collect()
}

// ---------------------------------------------------------------------------------------------
// generators
struct G { r: Rng, nkeys: u64, native: Vec<(u64, Vec<u64>)>, plutus: Vec<u64>, norefs: u64 }
impl G {
    fn key(&mut self) -> u64 { self.r.below(self.nkeys) }
    fn datum(&mut self) -> u64 { let v = self.r.below(4); if self.r.chance(1, 3) { 10 + v } else { v } }
    fn keys(&mut self, max: u64) -> Vec<u64> { let n = self.r.below(max + 1); (0..n).map(|_| self.key()).collect() }
    fn decl(&mut self) -> Option<Vec<u64>> { if self.r.chance(1, 2) { None } else { Some(self.keys(3)) } }
    fn refo(&mut self) -> u64 { if self.r.chance(1, 8) { self.r.below(self.norefs) } else { 100 + self.r.below(6) } }
    fn nsrc(&mut self, allow_mixed: bool) -> NSrc {
        let i = self.r.below(self.native.len() as u64) as usize;
        let (s, ks) = self.native[i].clone();
        // by default a script is always handed over the same way (inline for even ids, by reference for odd ids)
        let inline = if allow_mixed { self.r.chance(1, 2) } else { s % 2 == 0 };
        if inline { NSrc::Inline(s, ks, self.decl()) } else { NSrc::Ref(100 + s, s, self.decl()) }
    }
    fn psrc(&mut self, allow_mixed: bool) -> PSrc {
        let s = *self.r.pick(&self.plutus.clone());
        let inline = if allow_mixed { self.r.chance(1, 2) } else { s % 2 == 0 };
        if inline { PSrc::Inline(s, self.decl()) } else { PSrc::Ref(110 + (s % 100), s, self.decl()) }
    }
    fn pwit(&mut self, mixed: bool, with_datum: bool) -> PWit {
        let script = self.psrc(mixed);
        let datum = if !with_datum { Dat::None } else { match self.r.below(3) { 0 => Dat::None, 1 => Dat::Inline(self.datum()), _ => Dat::Ref(self.refo()) } };
        PWit { script, datum, red: self.r.below(3) }
    }
    /// a witness for an item locked by script `s` (matching unless `wrong`)
    fn wit_for(&mut self, s: u64, mixed: bool, wrong: bool) -> Wit {
        let s = if !wrong { s }
                else if s < 1000 { self.native.iter().map(|x| x.0).find(|x| *x != s).unwrap_or(s) }
                else { self.plutus.iter().cloned().find(|x| *x != s).unwrap_or(s) };
        if s < 1000 {
            let ks = self.native.iter().find(|(x, _)| *x == s).map(|(_, k)| k.clone()).unwrap_or_default();
            let inline = if mixed { self.r.chance(1, 2) } else { s % 2 == 0 };
            Wit::Native(if inline { NSrc::Inline(s, ks, self.decl()) } else { NSrc::Ref(100 + s, s, self.decl()) })
        } else {
            let inline = if mixed { self.r.chance(1, 2) } else { s % 2 == 0 };
            let d = self.decl();
            let script = if inline { PSrc::Inline(s, d) } else { PSrc::Ref(110 + (s % 100), s, d) };
            // a datum source is meaningless for these purposes on chain, but the API admits it and the builder collects it
            let datum = match self.r.below(6) { 0 => Dat::Inline(self.datum()), 1 => Dat::Ref(self.refo()), _ => Dat::None };
            Wit::Plutus(PWit { script, datum, red: self.r.below(3) })
        }
    }
    fn script_id(&mut self) -> u64 {
        if self.r.chance(1, 2) { let i = self.r.below(self.native.len() as u64) as usize; self.native[i].0 } else { *self.r.pick(&self.plutus.clone()) }
    }
    fn cred(&mut self, script_pct: u64) -> Cred { if self.r.below(100) < script_pct { Cred::S(self.script_id()) } else { Cred::K(self.key()) } }
    fn inops(&mut self, n: u64, kinds: &[u8], readd: u8, mixed: bool) -> Vec<InOp> {
        // readd: 0 = distinct outpoints, 1 = outpoints may repeat with the same owner, 2 = also with another owner
        let mut ops: Vec<InOp> = vec![];
        let mut owners: BTreeMap<u64, InOp> = BTreeMap::new();
        for _ in 0..n {
            let kind = *self.r.pick(kinds);
            if kind == 4 { ops.push(InOp::Signer(self.key())); continue; }
            let o = if readd == 0 { loop { let o = self.r.below(self.norefs); if !owners.contains_key(&o) { break o; } } } else { self.r.below(self.norefs.min(6)) };
            let op = match kind {
                0 => InOp::Key(o, self.key(), self.r.chance(1, 3)),
                1 => InOp::Byron(o, self.r.below(10), self.r.chance(1, 3)),
                2 => InOp::Native(o, self.nsrc(mixed)),
                _ => InOp::Plutus(o, self.pwit(mixed, true)),
            };
            let op = if readd == 1 {
                // keep the owner of an outpoint that is already there (declared signers / datum / redeemer may change)
                match (owners.get(&o), &op) {
                    (None, _) => op,
                    (Some(InOp::Key(_, k, _)), _) => InOp::Key(o, *k, self.r.chance(1, 3)),
                    (Some(InOp::Byron(_, a, _)), _) => InOp::Byron(o, *a, self.r.chance(1, 3)),
                    (Some(InOp::Native(_, n)), _) => { let (s, ks, r) = match n { NSrc::Inline(s, ks, _) => (*s, ks.clone(), None), NSrc::Ref(r, s, _) => (*s, vec![], Some(*r)) };
                        InOp::Native(o, match r { None => NSrc::Inline(s, ks, self.decl()), Some(r) => NSrc::Ref(r, s, self.decl()) }) }
                    (Some(InOp::Plutus(_, p)), _) => { let mut p2 = p.clone(); p2.red = self.r.below(3); p2.script = match &p.script { PSrc::Inline(s, _) => PSrc::Inline(*s, self.decl()), PSrc::Ref(r, s, _) => PSrc::Ref(*r, *s, self.decl()) }; InOp::Plutus(o, p2) }
                    (Some(InOp::Signer(_)), _) | (Some(InOp::Utxo(..)), _) => op,
                }
            } else { op };
            owners.insert(o, op.clone());
            // a third of the inputs come as UTxOs, most of them carrying some (unrelated or related) reference script
            let op = if self.r.chance(1, 3) {
                let sref = if self.r.chance(3, 4) { Some(self.script_id()) } else { None };
                let b = match op { InOp::Key(o, k, _) => InOp::Key(o, k, false), InOp::Byron(o, a, _) => InOp::Byron(o, a, false), x => x };
                InOp::Utxo(Box::new(b), sref)
            } else { op };
            ops.push(op);
        }
        ops
    }
    fn cert(&mut self, kind: u32, script_pct: u64, mixed: bool, wrong_pct: u64, api_mismatch_pct: u64) -> CertOp {
        let keyed_only = matches!(kind, 3 | 4 | 5 | 6);
        let cred = if matches!(kind, 5 | 6) { Cred::K(0) } else if keyed_only { Cred::K(self.key()) } else { self.cred(script_pct) };
        // pool owners are a set in the library: the case lists them strictly increasing
        let keys = match kind { 3 => { let mut k = self.keys(3); k.sort(); k.dedup(); k } 5 => vec![self.key(), self.key()], _ => vec![] };
        let needs = !matches!(kind, 0 | 3 | 4 | 5 | 6) && matches!(cred, Cred::S(_));
        let mismatch = self.r.below(100) < api_mismatch_pct;
        let wrong = self.r.below(100) < wrong_pct;
        let wit = if needs != mismatch {
            match &cred { Cred::S(s) => self.wit_for(*s, mixed, wrong), Cred::K(_) => { let s = self.script_id(); self.wit_for(s, mixed, false) } }
        } else { Wit::None };
        CertOp { kind, cred, keys, aux: if matches!(kind, 0 | 1) { 0 } else { self.r.below(3) }, wit }
    }
}

fn new_gen(r: &mut Rng, nkeys: u64) -> G {
    let mut g = G { r: Rng::new(r.next()), nkeys, native: vec![], plutus: vec![], norefs: 16 };
    let nn = 2 + g.r.below(4);
    for i in 0..nn { let ks = g.keys(3); g.native.push((1 + i, ks)); }
    let np = 3 + g.r.below(4);
    for i in 0..np { g.plutus.push(1000 + i); }
    g
}
fn finish(mut c: Case) -> Case {
    // table of the Byron addresses the case uses
    let mut used: BTreeSet<u64> = BTreeSet::new();
    for op in c.inputs.iter().chain(c.collateral.iter()) { if let InOp::Byron(_, a, _) = base(op) { used.insert(*a); } }
    c.attrs = used.into_iter().map(|a| (a, byron(a).attributes().len() as u64)).collect();
    let w = World::new(&c);
    c.hr = hash_ranks(&w, &c);
    c
}

fn gen_mix(r: &mut Rng, label: &str, nkeys: u64, size: u64, readd: u8, mixed: bool, wrong_pct: u64) -> Case {
    let mut g = new_gen(r, nkeys);
    let mut c = Case::default();
    c.label = label.into();
    c.dedup = g.r.chance(1, 2);
    let n = g.r.below(size + 1); c.inputs = g.inops(n, &[0, 0, 1, 2, 3, 4], readd, mixed);
    let n = g.r.below(size / 2 + 1); c.collateral = g.inops(n, &[0, 0, 0, 1, 4], readd.min(1), mixed);
    for _ in 0..g.r.below(size + 1) { let k = g.r.below(19) as u32; c.certs.push(g.cert(k, 40, mixed, wrong_pct, 8)); }
    for _ in 0..g.r.below(size / 2 + 1) {
        let cr = g.cred(40); let mism = g.r.chance(1, 12); let wrong = g.r.below(100) < wrong_pct;
        let wit = match &cr { Cred::S(s) if !mism => g.wit_for(*s, mixed, wrong), Cred::K(_) if mism => { let s = g.script_id(); g.wit_for(s, mixed, false) } _ => Wit::None };
        if g.r.chance(1, 6) { c.zero_wd.push(c.wdrl.len()); }
        c.wdrl.push((cr, wit));
    }
    for _ in 0..g.r.below(size / 2 + 1) {
        let kind = g.r.below(3) as u32;
        let cr = if kind == 2 { Cred::K(g.key()) } else { g.cred(40) };
        let mism = g.r.chance(1, 12); let wrong = g.r.below(100) < wrong_pct;
        let wit = match &cr { Cred::S(s) if !mism => g.wit_for(*s, mixed, wrong), Cred::K(_) if mism => { let s = g.script_id(); g.wit_for(s, mixed, false) } _ => Wit::None };
        c.votes.push((kind, cr, wit));
    }
    for _ in 0..g.r.below(size / 3 + 1) {
        let scripted = g.r.chance(1, 2);
        let with = if scripted { !g.r.chance(1, 8) } else { g.r.chance(1, 8) };
        let wd = g.r.chance(1, 4);
        let wit = if with { Wit::Plutus(g.pwit(mixed, wd)) } else { Wit::None };
        c.props.push((g.r.below(4), scripted, wit));
    }
    for _ in 0..g.r.below(size / 2 + 1) {
        c.mint.push(if g.r.chance(1, 2) { MintOp::Native(g.nsrc(mixed)) } else { let p = g.psrc(mixed); MintOp::Plutus(p, g.r.below(2)) });
    }
    c.signers = g.keys(3);
    for _ in 0..g.r.below(3) { let o = g.refo(); c.refs.push(o); }
    for _ in 0..g.r.below(3) { let d = g.datum(); c.datums.push(d); }
    finish(c)
}

fn generate(out: &mut Out) {
    let seed = seed_from_env();
    let mut r = Rng::new(seed ^ 0xC18);
    let thorough = is_thorough();
    let scale = if thorough { 240 } else { 10 };
    let mut emit = |c: Case| { let line = case_line(&c); let toks: Vec<String> = line.split(' ').map(|s| s.to_string()).collect(); let c2 = parse_case(&toks);
        let res = guarded(move || run_case(&c2)); out.emit(&line, &res); };

    // every certificate kind alone, key and script credential, with and without overlap with an input key
    for kind in 0..19u32 {
        for variant in 0..4u64 {
            let mut g = new_gen(&mut r, 3);
            let mut c = Case::default(); c.label = format!("cert{}", kind);
            c.inputs = vec![InOp::Key(0, 0, false)];
            let mut op = g.cert(kind, if variant % 2 == 1 { 100 } else { 0 }, false, 0, 0);
            if variant >= 2 { if let Cred::K(_) = op.cred { op.cred = Cred::K(0); } if kind == 5 { op.keys = vec![0, 1]; } if kind == 3 { op.keys = vec![0, 2]; } }
            if kind == 5 && variant == 1 { op.keys = vec![1, 0]; }
            c.certs.push(op);
            emit(finish(c));
        }
    }
    // general mixtures: well-formed histories (distinct outpoints, one way of supplying each script, matching witnesses)
    for _ in 0..(220 * scale) { let nk = 2 + r.below(7); let size = 1 + r.below(7); emit(gen_mix(&mut r, "mix", nk, size, 0, false, 0)); }
    // heavy overlap: two or three keys shared by every source
    for _ in 0..(120 * scale) { let nk = 1 + r.below(3); emit(gen_mix(&mut r, "overlap", nk, 6, 0, false, 0)); }
    // outpoints added again with the same owner
    for _ in 0..(60 * scale) { let nk = 2 + r.below(5); emit(gen_mix(&mut r, "readd", nk, 6, 1, false, 0)); }
    // outpoints added again with another owner (known class 1 when the count is off)
    for _ in 0..(30 * scale) { let nk = 2 + r.below(5); emit(gen_mix(&mut r, "reown", nk, 5, 2, false, 0)); }
    // ... with many keys, so that the first owner's key is not needed by anything else
    for _ in 0..(15 * scale) {
        let mut g = new_gen(&mut r, 40);
        let mut c = Case::default(); c.label = "reown2".into();
        let n = 2 + g.r.below(4);
        c.inputs = g.inops(n, &[0, 0, 1, 2], 2, false);
        let m = g.r.below(3);
        c.collateral = g.inops(m, &[0, 1], 2, false);
        emit(finish(c));
    }
    // every insertion order of a small overlapping history (inputs builder and certificates)
    for _ in 0..(2 * scale) {
        let mut g = new_gen(&mut r, 3);
        let base_in = g.inops(4, &[0, 1, 2, 3, 4], 1, false);
        let base_certs: Vec<CertOp> = (0..3).map(|_| { let k = g.r.below(19) as u32; g.cert(k, 30, false, 0, 0) }).collect();
        let signers = g.keys(2);
        let perms4: Vec<Vec<usize>> = { let mut v = vec![]; for a in 0..4 { for b in 0..4 { for c in 0..4 { for d in 0..4 {
            if a != b && a != c && a != d && b != c && b != d && c != d { v.push(vec![a, b, c, d]); } } } } } v };
        for (pi, p) in perms4.iter().enumerate() {
            let mut c = Case::default(); c.label = "perm".into();
            c.inputs = p.iter().map(|i| base_in[*i].clone()).collect();
            let q = &perms4[(pi * 7) % 24];
            c.certs = q.iter().filter(|i| **i < 3).map(|i| base_certs[*i].clone()).collect();
            c.signers = signers.clone();
            emit(finish(c));
        }
    }
    // the same script inline here and by reference there (known class 2)
    for _ in 0..(40 * scale) { let nk = 2 + r.below(5); emit(gen_mix(&mut r, "mixed", nk, 5, 0, true, 0)); }
    // witnesses that do not belong to the item's script credential (outside the premises: na)
    for _ in 0..(20 * scale) { let nk = 2 + r.below(5); emit(gen_mix(&mut r, "wrongwit", nk, 5, 0, false, 35)); }
    // many signers: the vkey array header crosses 23/24 and 255/256
    for target in [22u64, 23, 24, 25, 254, 255, 256, 257].iter() {
        if *target > 30 && !thorough && r.chance(1, 2) { continue; }
        let mut c = Case::default(); c.label = "many".into();
        let mut g = new_gen(&mut r, *target);
        // target distinct keys spread over explicit signers, inputs and a pool registration, each at least twice
        let ks: Vec<u64> = (0..*target).collect();
        for (i, k) in ks.iter().enumerate() {
            match i % 3 { 0 => c.signers.push(*k), 1 => c.inputs.push(InOp::Key(i as u64, *k, false)), _ => c.collateral.push(InOp::Key(i as u64, *k, false)) }
        }
        for _ in 0..40 { let k = g.key(); c.signers.push(k); }
        c.certs.push(CertOp { kind: 3, cred: Cred::K(0), keys: ks.iter().cloned().take(30).collect(), aux: 0, wit: Wit::None });  // increasing
        let n = g.r.below(4); c.inputs.extend((0..n).map(|j| InOp::Byron(1000 + j, (j * 3 + *target) % 10, false)));
        emit(finish(c));
    }
    // Byron addresses: one witness per address whatever the number of inputs; Byron collateral
    for _ in 0..(25 * scale) {
        let mut g = new_gen(&mut r, 3);
        let mut c = Case::default(); c.label = "byron".into();
        let n = 1 + g.r.below(6);
        for j in 0..n { let a = g.r.below(10); let reg = g.r.chance(1, 2); c.inputs.push(InOp::Byron(j, a, reg)); }
        if g.r.chance(1, 2) { c.inputs.push(InOp::Key(20, g.key(), false)); }
        let m = g.r.below(3);
        for j in 0..m { let a = g.r.below(10); c.collateral.push(InOp::Byron(if g.r.chance(1, 2) { j } else { 30 + j }, a, false)); }
        emit(finish(c));
    }
    // votes and mint with every kind of source and declared signers
    for _ in 0..(60 * scale) {
        let mut g = new_gen(&mut r, 4);
        let mut c = Case::default(); c.label = "votemint".into();
        c.inputs = vec![InOp::Key(0, g.key(), false)];
        c.collateral = vec![InOp::Key(1, g.key(), false)];
        for _ in 0..(1 + g.r.below(4)) {
            let kind = g.r.below(3) as u32;
            let cr = if kind == 2 { Cred::K(g.key()) } else { g.cred(70) };
            let wit = match &cr { Cred::S(s) => g.wit_for(*s, false, false), _ => Wit::None };
            c.votes.push((kind, cr, wit));
        }
        for _ in 0..(1 + g.r.below(5)) {
            c.mint.push(match g.r.below(8) {
                // a native reference source and a Plutus reference source declared with the SAME script hash (policy kind clash)
                0 => { let s = *g.r.pick(&g.plutus.clone()); MintOp::Native(NSrc::Ref(110 + (s % 100), s, g.decl())) }
                1 => { let i = g.r.below(g.native.len() as u64) as usize; let s = g.native[i].0; MintOp::Plutus(PSrc::Ref(100 + s, s, g.decl()), g.r.below(2)) }
                2..=4 => MintOp::Native(g.nsrc(false)),
                _ => { let p = g.psrc(false); MintOp::Plutus(p, g.r.below(2)) }
            });
        }
        for _ in 0..g.r.below(3) { let with = g.r.chance(2, 3); let wit = if with { Wit::Plutus(g.pwit(false, false)) } else { Wit::None }; c.props.push((g.r.below(4), with, wit)); }
        emit(finish(c));
    }
    // withdrawals of exactly 0 lovelace: the account still has to authorise them
    for _ in 0..(20 * scale) {
        let mut g = new_gen(&mut r, 30);
        let mut c = Case::default(); c.label = "wdzero".into();
        c.inputs = vec![InOp::Key(0, g.key(), false)];
        for _ in 0..(1 + g.r.below(4)) {
            let cr = g.cred(40);
            let wit = match &cr { Cred::S(s) => g.wit_for(*s, false, false), _ => Wit::None };
            if g.r.chance(2, 3) { c.zero_wd.push(c.wdrl.len()); }
            c.wdrl.push((cr, wit));
        }
        emit(finish(c));
    }
    // several voters of one kind with key and script credentials, every order of the calls: the vote redeemers must sit at
    // the voters' positions in the ledger's order (script credentials first)
    for _ in 0..(3 * scale) {
        let mut g = new_gen(&mut r, 6);
        let kind = g.r.below(2) as u32;
        let mut voters: Vec<(u32, Cred, Wit)> = vec![];
        let ps: Vec<u64> = g.plutus.clone();
        for j in 0..3usize {
            let cr = if j == 0 { Cred::S(ps[0]) } else if j == 1 { Cred::K(g.key()) } else if g.r.chance(1, 2) { Cred::S(ps[1]) } else { Cred::K(g.key()) };
            if voters.iter().any(|(_, c2, _)| *c2 == cr) { continue; }
            let wit = match &cr { Cred::S(s) => g.wit_for(*s, false, false), _ => Wit::None };
            voters.push((if j == 2 && g.r.chance(1, 4) { 1 - kind } else { kind }, cr, wit));
        }
        if g.r.chance(1, 2) { voters.push((2, Cred::K(g.key()), Wit::None)); }
        let n = voters.len();
        let mut idx: Vec<usize> = (0..n).collect();
        // all rotations and the reversed order (every relative order of two voters occurs)
        for rot in 0..(2 * n) {
            let mut c = Case::default(); c.label = "voteorder".into();
            c.inputs = vec![InOp::Key(0, g.key(), false)]; c.collateral = vec![InOp::Key(1, g.key(), false)];
            if rot == n { idx.reverse(); }
            idx.rotate_left(1);
            c.votes = idx.iter().map(|i| voters[*i].clone()).collect();
            emit(finish(c));
        }
    }
    // mint quantities: additions that cancel out (the builder must refuse to build), partial cancellations, a rejected zero amount
    for _ in 0..(20 * scale) {
        let mut g = new_gen(&mut r, 5);
        let mut c = Case::default(); c.label = "mintq".into();
        c.inputs = vec![InOp::Key(0, g.key(), false)]; c.collateral = vec![InOp::Key(1, g.key(), false)];
        let a = if g.r.chance(1, 2) { MintOp::Native(g.nsrc(false)) } else { let p = g.psrc(false); MintOp::Plutus(p, 0) };
        let b = { let p = g.psrc(false); MintOp::Plutus(p, 1) };
        let q = 1 + g.r.below(50) as i64;
        let mut ops: Vec<(MintOp, u64, i64)> = match g.r.below(6) {
            0 | 1 => vec![(a.clone(), 0, q), (b.clone(), 0, 3), (a.clone(), 0, -q)],              // cancels: refuse
            2 => vec![(a.clone(), 0, q), (a.clone(), 1, 2), (b.clone(), 0, 3), (a.clone(), 0, -q)],  // one of two assets cancels: refuse
            3 => vec![(a.clone(), 0, q), (b.clone(), 0, 3), (a.clone(), 0, -q), (a.clone(), 0, 7)],  // cancels, then minted again: fine
            4 => vec![(a.clone(), 0, q), (a.clone(), 0, 0), (b.clone(), 1, -4)],                     // zero amount: call rejected
            _ => vec![(a.clone(), 0, q), (b.clone(), 0, 3), (a.clone(), 0, q)],
        };
        if g.r.chance(1, 3) { ops.rotate_left(1); }
        c.mint = ops.iter().map(|x| x.0.clone()).collect();
        c.mintq = Some(ops.iter().map(|x| (x.1, x.2)).collect());
        emit(finish(c));
    }
    // empty builder and single items
    emit(finish(Case { label: "empty".into(), ..Case::default() }));
}

fn main() {
    silence_panics();
    let args: Vec<String> = std::env::args().collect();
    match args.get(1).map(|s| s.as_str()) {
        Some("gen") => { let mut out = Out::new(&args[2]); generate(&mut out); out.finish(); }
        Some("run") => {
            let cases = read_cases(&args[2]);
            let mut o = std::io::BufWriter::new(std::fs::File::create(&args[3]).unwrap());
            use std::io::Write;
            for (idx, toks) in cases {
                let res = guarded(move || { let c = parse_case(&toks); run_case(&c) });
                writeln!(o, "{} {}", idx, res).unwrap();
            }
        }
        _ => { eprintln!("usage: c18 gen <dir> | c18 run <cases> <out>"); std::process::exit(2); }
    }
}
