//! C12 correspondence harness: key / signature / witness / derivation / encoding / EMIP-3 wrappers.
//! `c12 gen <dir>` generates cases from VERIF_SEED / VERIF_TIER and runs the implementation;
//! `c12 run <cases> <out>` runs the implementation on given case lines (replay / corpus).
//!
//! Case line:  <kind> <args…> | <table entry>…
//!   enc <tk> <bytes>                 dec <tk> <fmt> <input>           sign <tk> <key> <msg> <msg2> <key2>
//!   wit <wk> <hash> <key> <dp|~> <magic|~>      derive <root> <n> <idx>…      bip39 <entropy> <password>
//!   x128 <key>                       enc3 <pw> <salt> <nonce> <data>   dec3 <pw> <container>
//!   (type tags tk / formats fmt / witness kinds wk: see coq/Crypto/Obs.v; texts are the hex of their UTF-8 bytes)
//! A table entry `prim/arg/…=result` is one call of an EXTERNAL cryptographic primitive (cryptoxide, ed25519-bip32) made through
//! the cfg(csl_verif) pass-throughs of verif_hooks_c12; the model's cryptographic primitives are instantiated by these tables.
//! bech32 is NOT tabulated: the model computes the text itself (Coq model of the bech32 crate) and it is compared exactly; the
//! bech32 pass-throughs are used only to craft inputs (texts under other HRPs, bad padding, …).
//! Observation: one token per field, `ok:<hex>` | `err` | `panic`; a panic anywhere in a case gives the single token `panic`.
use cardano_serialization_lib::chain_crypto as cc;
use cardano_serialization_lib::chain_crypto::bech32::Bech32;
use cardano_serialization_lib::verif_hooks_c12 as prim;
use cardano_serialization_lib::*;
use csl_verif_harness::util::*;
use std::collections::BTreeMap;

fn hx(b: &[u8]) -> String { hex_or_dash(b) }
fn ok(b: &[u8]) -> String { format!("ok:{}", hx(b)) }
fn okt(s: &str) -> String { ok(s.as_bytes()) }
fn okb(b: bool) -> String { ok(&[if b { 1 } else { 0 }]) }
fn text(b: &[u8]) -> Option<String> { String::from_utf8(b.to_vec()).ok() }

fn sk_repr(k: &PrivateKey) -> Vec<u8> {
    let tag = if k.to_bech32().starts_with("ed25519e_sk") { 1u8 } else { 0u8 };
    let mut v = vec![tag]; v.extend(k.as_bytes()); v
}
fn r_sk(r: Result<PrivateKey, JsError>) -> String { match r { Ok(k) => ok(&sk_repr(&k)), Err(_) => "err".into() } }
fn sk_of(tk: u64, b: &[u8]) -> Result<PrivateKey, JsError> {
    if tk == 0 { PrivateKey::from_normal_bytes(b) } else { PrivateKey::from_extended_bytes(b) }
}

// ---------------- Byron address with given attributes (hand-written CBOR, so that the expected attributes are known) ----------------
fn cbor_head(major: u8, n: u64) -> Vec<u8> {
    let m = major << 5;
    if n < 24 { vec![m | n as u8] }
    else if n < 256 { vec![m | 24, n as u8] }
    else if n < 65536 { let mut v = vec![m | 25]; v.extend(&(n as u16).to_be_bytes()); v }
    else if n < (1 << 32) { let mut v = vec![m | 26]; v.extend(&(n as u32).to_be_bytes()); v }
    else { let mut v = vec![m | 27]; v.extend(&n.to_be_bytes()); v }
}
fn cbor_bytes(b: &[u8]) -> Vec<u8> { let mut v = cbor_head(2, b.len() as u64); v.extend(b); v }
fn crc32(data: &[u8]) -> u32 {
    let mut c: u32 = 0xffff_ffff;
    for b in data { c ^= *b as u32; for _ in 0..8 { c = if c & 1 != 0 { (c >> 1) ^ 0xedb8_8320 } else { c >> 1 }; } }
    !c
}
fn byron_addr_bytes(root: &[u8], dp: &Option<Vec<u8>>, magic: Option<u32>) -> Vec<u8> {
    let mut attrs = cbor_head(5, dp.is_some() as u64 + magic.is_some() as u64);
    if let Some(d) = dp { attrs.extend(cbor_head(0, 1)); attrs.extend(cbor_bytes(d)); }
    if let Some(m) = magic { attrs.extend(cbor_head(0, 2)); attrs.extend(cbor_bytes(&cbor_head(0, m as u64))); }
    let mut payload = cbor_head(4, 3);
    payload.extend(cbor_bytes(root)); payload.extend(attrs); payload.extend(cbor_head(0, 0));
    let mut out = cbor_head(4, 2);
    out.extend(cbor_head(6, 24)); out.extend(cbor_bytes(&payload)); out.extend(cbor_head(0, crc32(&payload) as u64));
    out
}

/// The first token of a case line joins the kind with its numeric selectors (`dec:4:3`, `enc:1`, `sign:0`, `wit:2`) so that the
/// case distribution in the evidence shows every modelled branch; here it is split again.
fn expand(toks: &[String]) -> Vec<String> {
    let mut v: Vec<String> = match toks.first() { Some(f) => f.split(':').map(|s| s.to_string()).collect(), None => vec![] };
    v.extend(toks.iter().skip(1).cloned()); v
}
fn compact(case: &str) -> String {
    let t: Vec<&str> = case.split_whitespace().collect();
    if t[0].starts_with("seq:") { return case.to_string(); }
    let n = match t[0] { "dec" => 2, "enc" | "sign" | "wit" => 1, _ => 0 };
    let head = t[..=n].join(":");
    if t.len() > n + 1 { format!("{} {}", head, t[n + 1..].join(" ")) } else { head }
}
/// observation = class token (`ok` | `err` | `panic`) followed by the fields
fn classed(obs: String) -> String {
    if obs == "err" || obs == "panic" || obs.starts_with("harness-") || obs.starts_with("seq ") { obs } else { format!("ok {}", obs) }
}

// ---------------- the implementation on one case ----------------
fn exec(t: &[&str]) -> String {
    let b = |s: &str| unhex_or_dash(s);
    match t {
        ["enc", tk, bs] => {
            let tk: u64 = tk.parse().unwrap(); let bs = b(bs);
            let mut f: Vec<String> = vec![];
            match tk {
                0 | 1 => match sk_of(tk, &bs) {
                    Err(_) => return "err".into(),
                    Ok(k) => {
                        f.push(ok(&sk_repr(&k))); f.push(okt(&k.to_hex())); f.push(r_sk(PrivateKey::from_hex(&k.to_hex())));
                        f.push(okt(&k.to_bech32())); f.push(r_sk(PrivateKey::from_bech32(&k.to_bech32())));
                    }
                },
                2 => match PublicKey::from_bytes(&bs) {
                    Err(_) => return "err".into(),
                    Ok(k) => {
                        f.push(ok(&k.as_bytes())); f.push(okt(&k.to_hex()));
                        f.push(match PublicKey::from_hex(&k.to_hex()) { Ok(x) => ok(&x.as_bytes()), Err(_) => "err".into() });
                        f.push(okt(&k.to_bech32()));
                        f.push(match PublicKey::from_bech32(&k.to_bech32()) { Ok(x) => ok(&x.as_bytes()), Err(_) => "err".into() });
                    }
                },
                3 => match Ed25519Signature::from_bytes(bs.clone()) {
                    Err(_) => return "err".into(),
                    Ok(k) => {
                        f.push(ok(&k.to_bytes())); f.push(okt(&k.to_hex()));
                        f.push(match Ed25519Signature::from_hex(&k.to_hex()) { Ok(x) => ok(&x.to_bytes()), Err(_) => "err".into() });
                        f.push(okt(&k.to_bech32()));
                        f.push(match Ed25519Signature::from_bech32(&k.to_bech32()) { Ok(x) => ok(&x.to_bytes()), Err(_) => "err".into() });
                    }
                },
                4 => match Bip32PrivateKey::from_bytes(&bs) {
                    Err(_) => return "err".into(),
                    Ok(k) => {
                        f.push(ok(&k.as_bytes())); f.push(okt(&k.to_hex()));
                        f.push(match Bip32PrivateKey::from_hex(&k.to_hex()) { Ok(x) => ok(&x.as_bytes()), Err(_) => "err".into() });
                        f.push(okt(&k.to_bech32()));
                        f.push(match Bip32PrivateKey::from_bech32(&k.to_bech32()) { Ok(x) => ok(&x.as_bytes()), Err(_) => "err".into() });
                    }
                },
                5 => match Bip32PublicKey::from_bytes(&bs) {
                    Err(_) => return "err".into(),
                    Ok(k) => {
                        f.push(ok(&k.as_bytes())); f.push(okt(&k.to_hex()));
                        f.push(match Bip32PublicKey::from_hex(&k.to_hex()) { Ok(x) => ok(&x.as_bytes()), Err(_) => "err".into() });
                        f.push(okt(&k.to_bech32()));
                        f.push(match Bip32PublicKey::from_bech32(&k.to_bech32()) { Ok(x) => ok(&x.as_bytes()), Err(_) => "err".into() });
                    }
                },
                _ => match LegacyDaedalusPrivateKey::from_bytes(&bs) {
                    Err(_) => return "err".into(),
                    Ok(k) => {
                        let inner = cc::SecretKey::<cc::LegacyDaedalus>::from_binary(&bs).unwrap();
                        f.push(ok(&k.as_bytes())); f.push(ok(&k.chaincode())); f.push(ok(&inner.as_ref()[64..]));
                        let s = inner.to_bech32_str();
                        f.push(okt(&s));
                        f.push(match cc::SecretKey::<cc::LegacyDaedalus>::try_from_bech32_str(&s) { Ok(x) => ok(x.as_ref()), Err(_) => "err".into() });
                    }
                },
            }
            f.join(" ")
        }
        ["dec", tk, fmt, input] => {
            let tk: u64 = tk.parse().unwrap(); let fmt: u64 = fmt.parse().unwrap(); let inp = b(input);
            let txt = || text(&inp).expect("utf8 text in case");
            macro_rules! dec3 { ($T:ty, $as:ident) => { match fmt {
                0 => match <$T>::from_bytes(&inp) { Ok(x) => ok(&x.$as()), Err(_) => "err".into() },
                1 => match <$T>::from_hex(&txt()) { Ok(x) => ok(&x.$as()), Err(_) => "err".into() },
                _ => match <$T>::from_bech32(&txt()) { Ok(x) => ok(&x.$as()), Err(_) => "err".into() },
            } } }
            macro_rules! dech { ($T:ty) => { match fmt {
                0 => match <$T>::from_bytes(inp.clone()) { Ok(x) => ok(&x.to_bytes()), Err(_) => "err".into() },
                1 => match <$T>::from_hex(&txt()) { Ok(x) => ok(&x.to_bytes()), Err(_) => "err".into() },
                _ => match <$T>::from_bech32(&txt()) { Ok(x) => ok(&x.to_bytes()), Err(_) => "err".into() },
            } } }
            match tk {
                0 | 1 => r_sk(match fmt { 0 => sk_of(tk, &inp), 1 => PrivateKey::from_hex(&txt()), _ => PrivateKey::from_bech32(&txt()) }),
                2 => dec3!(PublicKey, as_bytes),
                3 => dech!(Ed25519Signature),
                4 => if fmt == 3 { match Bip32PrivateKey::from_128_xprv(&inp) { Ok(x) => ok(&x.as_bytes()), Err(_) => "err".into() } }
                     else { dec3!(Bip32PrivateKey, as_bytes) },
                5 => dec3!(Bip32PublicKey, as_bytes),
                6 => match fmt {
                    0 => match LegacyDaedalusPrivateKey::from_bytes(&inp) { Ok(x) => ok(&x.as_bytes()), Err(_) => "err".into() },
                    _ => match cc::SecretKey::<cc::LegacyDaedalus>::try_from_bech32_str(&txt()) { Ok(x) => ok(x.as_ref()), Err(_) => "err".into() },
                },
                7 => dech!(Ed25519KeyHash),
                _ => dech!(TransactionHash),
            }
        }
        ["sign", tk, key, msg, msg2, key2] => {
            let tk: u64 = tk.parse().unwrap();
            let (k, k2) = match (sk_of(tk, &b(key)), sk_of(tk, &b(key2))) { (Ok(a), Ok(c)) => (a, c), _ => return "err".into() };
            let (m, m2) = (b(msg), b(msg2));
            let pk = k.to_public(); let sg = k.sign(&m);
            [ok(&pk.as_bytes()), ok(&sg.to_bytes()), okb(pk.verify(&m, &sg)), okb(pk.verify(&m2, &sg)), okb(k2.to_public().verify(&m, &sg))].join(" ")
        }
        ["wit", wk, hash, key, dp, magic] => {
            let wk: u64 = wk.parse().unwrap();
            let hb = b(hash);
            let h = TransactionHash::from_bytes(hb.clone()).expect("32-byte hash in case");
            let dp = if *dp == "~" { None } else { Some(b(dp)) };
            let magic: Option<u32> = if *magic == "~" { None } else { Some(magic.parse().unwrap()) };
            if wk <= 1 {
                let k = match sk_of(wk, &b(key)) { Ok(k) => k, Err(_) => return "err".into() };
                let w = make_vkey_witness(&h, &k);
                let (vk, sg) = (w.vkey().public_key(), w.signature());
                [ok(&vk.as_bytes()), ok(&sg.to_bytes()), okb(vk.verify(&hb, &sg)), ok(&w.to_bytes())].join(" ")
            } else {
                let addr = ByronAddress::from_bytes(byron_addr_bytes(&[0x5au8; 28], &dp, magic)).expect("byron address built by the harness");
                let w = if wk == 2 {
                    let k = match Bip32PrivateKey::from_bytes(&b(key)) { Ok(k) => k, Err(_) => return "err".into() };
                    make_icarus_bootstrap_witness(&h, &addr, &k)
                } else {
                    let k = match LegacyDaedalusPrivateKey::from_bytes(&b(key)) { Ok(k) => k, Err(_) => return "err".into() };
                    make_daedalus_bootstrap_witness(&h, &addr, &k)
                };
                let (vk, sg) = (w.vkey().public_key(), w.signature());
                [ok(&vk.as_bytes()), ok(&sg.to_bytes()), okb(vk.verify(&hb, &sg)), ok(&w.chain_code()), ok(&w.attributes()), ok(&w.to_bytes())].join(" ")
            }
        }
        ["derive", root, _n, path @ ..] => {
            let k0 = match Bip32PrivateKey::from_bytes(&b(root)) { Ok(k) => k, Err(_) => return "err".into() };
            let idx: Vec<u32> = path.iter().map(|s| s.parse().unwrap()).collect();
            let mut kf = Bip32PrivateKey::from_bytes(&k0.as_bytes()).unwrap();
            for i in &idx { kf = kf.derive(*i); }
            let pf = kf.to_public();
            let mut p: Result<Bip32PublicKey, JsError> = Ok(k0.to_public());
            for i in &idx { p = match p { Ok(q) => q.derive(*i), e => e }; }
            [ok(&kf.as_bytes()), ok(&pf.as_bytes()),
             match p { Ok(q) => ok(&q.as_bytes()), Err(_) => "err".into() },
             match Bip32PrivateKey::from_bytes(&kf.as_bytes()) { Ok(x) => ok(&x.as_bytes()), Err(_) => "err".into() },
             ok(&kf.to_raw_key().to_public().as_bytes()), ok(&pf.to_raw_key().as_bytes()), ok(&kf.chaincode()), ok(&pf.chaincode())].join(" ")
        }
        ["pubderive", xpub, _n, path @ ..] => {
            let mut p = match Bip32PublicKey::from_bytes(&b(xpub)) { Ok(p) => p, Err(_) => return "err".into() };
            for s in path.iter() { p = match p.derive(s.parse().unwrap()) { Ok(q) => q, Err(_) => return "err".into() }; }
            ok(&p.as_bytes())
        }
        ["seq", _name, rest @ ..] => {
            // the steps run one after the other in this thread; each is guarded on its own so that a panic is one step's observation
            let mut outs: Vec<String> = vec![];
            for st in rest.split(|t| *t == ";") {
                let toks: Vec<String> = expand(&st.iter().map(|x| x.to_string()).collect::<Vec<String>>());
                outs.push(guarded(move || { let tv: Vec<&str> = toks.iter().map(|x| x.as_str()).collect(); classed(exec(&tv)) }));
            }
            format!("seq {}", outs.join(" ; "))
        }
        ["pkhash", pk] => match PublicKey::from_bytes(&b(pk)) { Ok(k) => ok(&k.hash().to_bytes()), Err(_) => "err".into() },
        ["bip39", entropy, password] => {
            let k = Bip32PrivateKey::from_bip39_entropy(&b(entropy), &b(password));
            [ok(&k.as_bytes()), match Bip32PrivateKey::from_bytes(&k.as_bytes()) { Ok(x) => ok(&x.as_bytes()), Err(_) => "err".into() }].join(" ")
        }
        ["x128", key] => {
            let k = match Bip32PrivateKey::from_bytes(&b(key)) { Ok(k) => k, Err(_) => return "err".into() };
            let x = k.to_128_xprv();
            [ok(&x), match Bip32PrivateKey::from_128_xprv(&x) { Ok(y) => ok(&y.as_bytes()), Err(_) => "err".into() }].join(" ")
        }
        ["enc3", tp, ts, tn, td] => {
            let (tp, ts, tn, td) = (text(&b(tp)).unwrap(), text(&b(ts)).unwrap(), text(&b(tn)).unwrap(), text(&b(td)).unwrap());
            match encrypt_with_password(&tp, &ts, &tn, &td) {
                Err(_) => "err".into(),
                Ok(c) => [okt(&c), match decrypt_with_password(&tp, &c) { Ok(p) => okt(&p), Err(_) => "err".into() }].join(" "),
            }
        }
        ["dec3", tp, tc] => {
            let (tp, tc) = (text(&b(tp)).unwrap(), text(&b(tc)).unwrap());
            match decrypt_with_password(&tp, &tc) { Ok(p) => okt(&p), Err(_) => "err".into() }
        }
        _ => "harness-badcase".into(),
    }
}

// ---------------- tables of primitive calls ----------------
struct Tab(BTreeMap<String, String>);
fn quiet<T, F: FnOnce() -> T + std::panic::UnwindSafe>(f: F) -> Option<T> { std::panic::catch_unwind(f).ok() }
impl Tab {
    fn new() -> Self { Tab(BTreeMap::new()) }
    fn put(&mut self, k: String, v: String) { self.0.insert(k, v); }
    fn render(&self) -> String { self.0.iter().map(|(k, v)| format!("{}={}", k, v)).collect::<Vec<_>>().join(" ") }
    fn opt(v: &Option<Vec<u8>>) -> String { match v { Some(x) => hx(x), None => "~".into() } }

    fn ed_keypair_pk(&mut self, k: &[u8]) -> Option<Vec<u8>> {
        if k.len() != 32 { return None; }
        let r = prim::ed_keypair_pk(k); self.put(format!("ed_keypair_pk/{}", hx(k)), hx(&r)); Some(r)
    }
    fn ed_sign(&mut self, k: &[u8], m: &[u8]) -> Option<Vec<u8>> {
        if k.len() != 32 { return None; }
        let r = prim::ed_sign(k, m); self.put(format!("ed_sign/{}/{}", hx(k), hx(m)), hx(&r)); Some(r)
    }
    fn ed_ext_pub(&mut self, e: &[u8]) -> Option<Vec<u8>> {
        if e.len() != 64 { return None; }
        let e2 = e.to_vec();
        let r = quiet(move || prim::ed_ext_pub(&e2))?; self.put(format!("ed_ext_pub/{}", hx(e)), hx(&r)); Some(r)
    }
    fn ed_sign_ext(&mut self, e: &[u8], m: &[u8]) -> Option<Vec<u8>> {
        if e.len() != 64 { return None; }
        let (e2, m2) = (e.to_vec(), m.to_vec());
        let r = quiet(move || prim::ed_sign_ext(&e2, &m2))?; self.put(format!("ed_sign_ext/{}/{}", hx(e), hx(m)), hx(&r)); Some(r)
    }
    fn ed_verify(&mut self, pk: &[u8], m: &[u8], s: &[u8]) -> Option<bool> {
        if pk.len() != 32 || s.len() != 64 { return None; }
        let r = prim::ed_verify(pk, m, s);
        self.put(format!("ed_verify/{}/{}/{}", hx(pk), hx(m), hx(s)), (if r { "1" } else { "0" }).into()); Some(r)
    }
    fn xprv_public(&mut self, k: &[u8]) -> Option<Vec<u8>> {
        let k2 = k.to_vec();
        let r = quiet(move || prim::xprv_public(&k2))?; self.put(format!("xprv_public/{}", hx(k)), hx(&r)); Some(r)
    }
    fn xprv_derive(&mut self, k: &[u8], i: u32) -> Option<Vec<u8>> {
        let k2 = k.to_vec();
        let r = quiet(move || prim::xprv_derive(&k2, i))?; self.put(format!("xprv_derive/{}/{}", hx(k), i), hx(&r)); Some(r)
    }
    fn xpub_derive(&mut self, p: &[u8], i: u32) -> Option<Vec<u8>> {
        let p2 = p.to_vec();
        let r = quiet(move || prim::xpub_derive(&p2, i))?; self.put(format!("xpub_derive/{}/{}", hx(p), i), Tab::opt(&r)); r
    }
    fn kdf(&mut self, pw: &[u8], salt: &[u8]) -> Vec<u8> {
        let r = prim::pbkdf2_sha512(pw, salt, 19162, 32); self.put(format!("kdf/{}/{}", hx(pw), hx(salt)), hx(&r)); r
    }
    fn aead_enc(&mut self, k: &[u8], n: &[u8], p: &[u8]) -> (Vec<u8>, Vec<u8>) {
        let (c, t) = prim::aead_enc(k, n, p); self.put(format!("aead_enc/{}/{}/{}", hx(k), hx(n), hx(p)), format!("{},{}", hx(&c), hx(&t))); (c, t)
    }
    fn aead_dec(&mut self, k: &[u8], n: &[u8], c: &[u8], t: &[u8]) -> Option<Vec<u8>> {
        let r = prim::aead_dec(k, n, c, t); self.put(format!("aead_dec/{}/{}/{}/{}", hx(k), hx(n), hx(c), hx(t)), Tab::opt(&r)); r
    }
}

const HRPS: [&str; 7] = ["ed25519_sk", "ed25519e_sk", "ed25519_pk", "ed25519_sig", "xprv", "xpub", "legacy_xprv"];

fn tabulate(t: &[&str]) -> String { let mut tab = Tab::new(); tabulate_into(&mut tab, t); tab.render() }
fn tabulate_into(tab: &mut Tab, t: &[&str]) {
    let b = |s: &str| unhex_or_dash(s);
    match t {
        ["seq", _name, rest @ ..] => {
            for st in rest.split(|x| *x == ";") {
                let toks: Vec<String> = expand(&st.iter().map(|x| x.to_string()).collect::<Vec<String>>());
                let tv: Vec<&str> = toks.iter().map(|x| x.as_str()).collect();
                tabulate_into(tab, &tv);
            }
        }
        ["pkhash", pk] => { let k = b(pk); if k.len() == 32 { tab.put(format!("blake2b224/{}", hx(&k)), hx(&prim::blake2b224(&k))); } }
        ["pubderive", xpub, _n, path @ ..] => {
            let mut p = Some(b(xpub));
            if p.as_ref().map(|x| x.len()) != Some(64) { return; }
            for s in path.iter() { p = match p { Some(q) => tab.xpub_derive(&q, s.parse().unwrap()), None => None }; }
        }
        // enc / dec need no table: hex and bech32 are modelled concretely (bech32: the Coq model of the crate)
        ["sign", tk, key, msg, msg2, key2] => {
            let (k, m, m2, k2) = (b(key), b(msg), b(msg2), b(key2));
            let (pk, sg, pk2) = if *tk == "0" { (tab.ed_keypair_pk(&k), tab.ed_sign(&k, &m), tab.ed_keypair_pk(&k2)) }
                                else { (tab.ed_ext_pub(&k), tab.ed_sign_ext(&k, &m), tab.ed_ext_pub(&k2)) };
            if let (Some(pk), Some(sg)) = (&pk, &sg) {
                tab.ed_verify(pk, &m, sg); tab.ed_verify(pk, &m2, sg);
                if let Some(pk2) = &pk2 { tab.ed_verify(pk2, &m, sg); }
            }
        }
        ["wit", wk, hash, key, _dp, _magic] => {
            let (h, k) = (b(hash), b(key));
            let (pk, sg) = if *wk == "0" { (tab.ed_keypair_pk(&k), tab.ed_sign(&k, &h)) }
                           else if *wk == "1" { (tab.ed_ext_pub(&k), tab.ed_sign_ext(&k, &h)) }
                           else if k.len() >= 64 { (tab.ed_ext_pub(&k[..64]), tab.ed_sign_ext(&k[..64], &h)) } else { (None, None) };
            if let (Some(pk), Some(sg)) = (&pk, &sg) { tab.ed_verify(pk, &h, sg); }
        }
        ["derive", root, _n, path @ ..] => {
            let mut k = b(root);
            let mut p = tab.xprv_public(&k);
            for s in path.iter() {
                let i: u32 = s.parse().unwrap();
                p = match p { Some(q) => tab.xpub_derive(&q, i), None => None };
                k = match tab.xprv_derive(&k, i) { Some(x) => x, None => return };
            }
            tab.xprv_public(&k);
            if k.len() >= 64 { tab.ed_ext_pub(&k[..64]); }
        }
        ["bip39", entropy, password] => {
            let (e, pw) = (b(entropy), b(password));
            let r = prim::pbkdf2_sha512(&pw, &e, 4096, 96);
            tab.put(format!("pbkdf2_bip39/{}/{}", hx(&pw), hx(&e)), hx(&r));
            let n = prim::xprv_normalize3(&r);
            tab.put(format!("xprv_normalize3/{}", hx(&r)), hx(&n));
        }
        ["x128", key] => { tab.xprv_public(&b(key)); }
        ["enc3", tp, ts, tn, td] => {
            let d = |s: &str| text(&b(s)).and_then(|x| hex::decode(x).ok());
            if let (Some(pw), Some(salt), Some(nonce), Some(data)) = (d(tp), d(ts), d(tn), d(td)) {
                if salt.len() == 32 && nonce.len() == 12 && !pw.is_empty() {
                    let key = tab.kdf(&pw, &salt);
                    let (c, tg) = tab.aead_enc(&key, &nonce, &data);
                    tab.aead_dec(&key, &nonce, &c, &tg);
                }
            }
        }
        ["dec3", tp, tc] => {
            let d = |s: &str| text(&b(s)).and_then(|x| hex::decode(x).ok());
            if let (Some(pw), Some(c)) = (d(tp), d(tc)) {
                if c.len() >= 60 {
                    let key = tab.kdf(&pw, &c[..32]);
                    tab.aead_dec(&key, &c[32..44], &c[60..], &c[44..60]);
                }
            }
        }
        _ => {}
    }
}

// ---------------- generators (inputs are built from the primitives only, never from the implementation under test) ----------------
fn bip39_root(entropy: &[u8], password: &[u8]) -> Vec<u8> { prim::xprv_normalize3(&prim::pbkdf2_sha512(password, entropy, 4096, 96)) }
fn x128_of(k: &[u8]) -> Vec<u8> { [k[..64].to_vec(), prim::ed_ext_pub(&k[..64]), k[64..].to_vec()].concat() }
/// a root at the top of the admissible scalar range: scalar = 0x5f ff … f8 (bits 255/254/253 = 0,1,0), children carry into bit 253
fn top_xprv(r: &mut Rng) -> Vec<u8> {
    let mut v = r.bytes(96); for i in 1..31 { v[i] = 0xff; } v[0] = 0xf8; v[31] = if r.chance(1, 2) { 0x5f } else { 0x7f }; v
}
fn valid_xprv(r: &mut Rng) -> Vec<u8> {
    match r.below(4) {
        0 => { let mut v = r.bytes(96); v[0] &= 0xf8; v[31] = (v[31] & 0x3f) | 0x40; v }          // bits forced by hand
        1 => prim::xprv_normalize3(&r.bytes(96)),
        2 => { let n = *r.pick(&[12usize, 16, 20, 24, 32]); let pwl = r.below(12) as usize;
               bip39_root(&r.bytes(n), &r.bytes(pwl)) }
        _ => { let mut k = prim::xprv_normalize3(&r.bytes(96)); for _ in 0..r.range(1, 3) { k = prim::xprv_derive(&k, idx(r)); } k }
    }
}
fn valid_ext(r: &mut Rng) -> Vec<u8> {
    match r.below(3) {
        0 => { let mut v = r.bytes(64); v[31] &= 0x7f; v }                                        // any scalar below 2^255
        1 => { let mut v = r.bytes(64); v[0] &= 0xf8; v[31] = (v[31] & 0x3f) | 0x40; v }          // clamped
        _ => valid_xprv(r)[..64].to_vec(),
    }
}
fn valid_legacy(r: &mut Rng) -> Vec<u8> {
    // half of them NOT clamped (any scalar below 2^255 is accepted by the library and must sign verifiably)
    let mut v = r.bytes(96); if r.chance(1, 2) { v[0] &= 0xf8; v[31] = (v[31] & 0x1f) | 0x40; } else { v[31] &= 0x7f; } v
}
fn idx(r: &mut Rng) -> u32 {
    const E: [u32; 12] = [0, 1, 2, 44, 1852, 0x7fff_ffff, 0x8000_0000, 0x8000_0001, 0x8000_0000 + 1852, 0x8000_0000 + 1815, u32::MAX - 1, u32::MAX];
    match r.below(4) { 0 => *r.pick(&E), 1 => r.below(1 << 31) as u32, 2 => (r.below(1 << 31) as u32) | 0x8000_0000, _ => r.below(50) as u32 }
}
fn soft_idx(r: &mut Rng) -> u32 { match r.below(3) { 0 => *r.pick(&[0u32, 1, 2, 1852, 0x7fff_ffff, 0x7fff_fffe]), 1 => r.below(1 << 31) as u32, _ => r.below(30) as u32 } }
fn msg(r: &mut Rng) -> Vec<u8> { let n = *r.pick(&[0usize, 1, 2, 31, 32, 33, 64, 100, 1000]); r.bytes(n) }
fn valid_of(tk: u64, r: &mut Rng) -> Vec<u8> {
    match tk { 0 => r.bytes(32), 1 => valid_ext(r), 2 => prim::ed_keypair_pk(&r.bytes(32)), 3 => prim::ed_sign(&r.bytes(32), &r.bytes(8)),
               4 => valid_xprv(r), 5 => prim::xprv_public(&valid_xprv(r)), 6 => valid_legacy(r), 7 => r.bytes(28), _ => r.bytes(32) }
}
fn size_of(tk: u64) -> usize { match tk { 0 => 32, 1 => 64, 2 => 32, 3 => 64, 4 => 96, 5 => 64, 6 => 96, 7 => 28, _ => 32 } }
fn mutate_case(s: &str, r: &mut Rng) -> String {
    // change the case of letters of a hex / bech32 text: all upper, or one letter only (mixed)
    if r.chance(1, 2) { s.to_uppercase() }
    else { let mut c: Vec<char> = s.chars().collect(); let n = c.len().max(1);
           for _ in 0..20 { let i = r.below(n as u64) as usize; if i < c.len() && c[i].is_ascii_lowercase() { c[i] = c[i].to_ascii_uppercase(); break; } }
           c.into_iter().collect() }
}
fn th(s: &str) -> String { hx(s.as_bytes()) }

/// One `seq:<name> step ; step ; …` line per relation pattern. Every step is an ordinary case; the model treats each step on its
/// own, so a result that depends on what was called before is a disagreement.
fn sequences(r: &mut Rng) -> Vec<String> {
    let seq = |name: &str, steps: Vec<String>| format!("seq:{} {}", name, steps.iter().map(|s| compact(s)).collect::<Vec<_>>().join(" ; "));
    let hexs = |b: &[u8]| th(&hex::encode(b));
    let der = |k: &[u8], path: &[u32]| format!("derive {} {} {}", hx(k), path.len(), path.iter().map(|i| i.to_string()).collect::<Vec<_>>().join(" "));
    let pder = |p: &[u8], path: &[u32]| format!("pubderive {} {} {}", hx(p), path.len(), path.iter().map(|i| i.to_string()).collect::<Vec<_>>().join(" "));
    let mut v = vec![];
    let a = valid_xprv(r);
    let with_cc = |k: &[u8], cc: &[u8]| [k[..64].to_vec(), cc.to_vec()].concat();
    let b_cc = with_cc(&a, &r.bytes(32));                 // same key part, other chain code
    let c_key = with_cc(&valid_xprv(r), &a[64..]);        // other key, same chain code
    let (i, j) = (soft_idx(r), soft_idx(r));
    let (pa, pb, pc) = (prim::xprv_public(&a), prim::xprv_public(&b_cc), prim::xprv_public(&c_key));
    v.push(seq("samekey-othercc", vec![der(&a, &[i]), der(&b_cc, &[i]), der(&a, &[i]), pder(&pb, &[i]), pder(&pa, &[i]), pder(&pb, &[i, j])]));
    v.push(seq("samecc-otherkey", vec![der(&a, &[i]), der(&c_key, &[i]), pder(&pa, &[i]), pder(&pc, &[i]), pder(&pa, &[i])]));
    v.push(seq("sameparent-otherindex", vec![der(&a, &[i]), der(&a, &[j]), der(&a, &[i]), pder(&pa, &[j]), pder(&pa, &[i]), pder(&pa, &[i | 0x8000_0000]), pder(&pa, &[i])]));
    v.push(seq("sameindex-otherparent", vec![pder(&pa, &[i]), pder(&pc, &[i]), pder(&pb, &[i]), der(&c_key, &[i, j]), der(&a, &[i, j]), der(&b_cc, &[i, j])]));
    v.push(seq("repeat", vec![der(&a, &[i, j]), der(&a, &[i, j]), pder(&pa, &[i, j]), pder(&pa, &[i, j]), der(&a, &[i, j])]));
    { // a wallet-like scan account/role/0..n from the public side interleaved with private derivations of two accounts sharing key material
        let acct_a = { let mut k = a.clone(); for h in [0x8000_0000u32 + 1852, 0x8000_0000 + 1815, 0x8000_0000] { k = prim::xprv_derive(&k, h); } k };
        let acct_b = with_cc(&acct_a, &r.bytes(32));
        let (qa, qb) = (prim::xprv_public(&acct_a), prim::xprv_public(&acct_b));
        let mut steps = vec![];
        for n in 0..3u32 { steps.push(pder(&qa, &[0, n])); steps.push(pder(&qb, &[0, n])); steps.push(der(&acct_b, &[0, n])); steps.push(der(&acct_a, &[0, n])); }
        v.push(seq("scan-interleaved", steps));
    }
    { // the same key bytes used as different key kinds one after the other
        let h = r.bytes(32); let m = r.bytes(40);
        let leg = { let mut k = a.clone(); k[31] &= 0x5f; k };
        v.push(seq("kinds", vec![
            format!("sign 1 {} {} {} {}", hx(&a[..64]), hx(&m), hx(&h), hx(&a[..64])), format!("sign 0 {} {} {} {}", hx(&a[..32]), hx(&m), hx(&h), hx(&a[32..64])),
            format!("wit 2 {} {} ~ ~", hx(&h), hx(&a)), format!("wit 3 {} {} ~ 1", hx(&h), hx(&leg)), format!("wit 1 {} {} ~ ~", hx(&h), hx(&a[..64])),
            format!("wit 0 {} {} ~ ~", hx(&h), hx(&a[..32])), format!("wit 2 {} {} ~ ~", hx(&h), hx(&b_cc)), format!("wit 2 {} {} ~ ~", hx(&h), hx(&a)),
            format!("x128 {}", hx(&a)), format!("x128 {}", hx(&b_cc)), format!("dec 4 3 {}", hx(&x128_of(&a))), format!("dec 4 3 {}", hx(&x128_of(&b_cc))),
            format!("enc 4 {}", hx(&a)), format!("enc 6 {}", hx(&leg)), format!("enc 1 {}", hx(&a[..64])), format!("enc 5 {}", hx(&pa)), format!("enc 5 {}", hx(&pb)),
        ]));
        // one bech32 payload under several HRPs decoded as several types in turn
        let u5 = prim::b32_to_base32(&a);
        let (sx, sl) = (prim::b32_encode("xprv", &u5).unwrap(), prim::b32_encode("legacy_xprv", &u5).unwrap());
        v.push(seq("hrps", vec![format!("dec 4 2 {}", th(&sx)), format!("dec 6 2 {}", th(&sx)), format!("dec 6 2 {}", th(&sl)), format!("dec 4 2 {}", th(&sl)),
                                format!("dec 4 2 {}", th(&sx)), format!("dec 8 2 {}", th(&sx)), format!("dec 1 2 {}", th(&sx))]));
    }
    { // encryption / decryption under different passwords, salts and nonces one after the other
        let (pw1, pw2) = (r.bytes(6), r.bytes(6)); let (s1, s2) = (r.bytes(32), r.bytes(32)); let (n1, n2) = (r.bytes(12), r.bytes(12));
        let dl = *r.pick(&[0usize, 1, 20, 64]); let d = r.bytes(dl);
        let cont = |pw: &[u8], s: &[u8], n: &[u8]| { let k = prim::pbkdf2_sha512(pw, s, 19162, 32); let (c, t) = prim::aead_enc(&k, n, &d); [s.to_vec(), n.to_vec(), t, c].concat() };
        let (c11, c21) = (cont(&pw1, &s1, &n1), cont(&pw2, &s1, &n1));
        v.push(seq("passwords", vec![
            format!("enc3 {} {} {} {}", hexs(&pw1), hexs(&s1), hexs(&n1), hexs(&d)), format!("enc3 {} {} {} {}", hexs(&pw2), hexs(&s1), hexs(&n1), hexs(&d)),
            format!("dec3 {} {}", hexs(&pw2), hexs(&c11)), format!("dec3 {} {}", hexs(&pw1), hexs(&c11)), format!("dec3 {} {}", hexs(&pw1), hexs(&c21)),
            format!("dec3 {} {}", hexs(&pw2), hexs(&c21)), format!("dec3 {} {}", hexs(&pw2), hexs(&c21)),
            format!("enc3 {} {} {} {}", hexs(&pw1), hexs(&s2), hexs(&n1), hexs(&d)), format!("enc3 {} {} {} {}", hexs(&pw1), hexs(&s1), hexs(&n2), hexs(&d)),
            format!("enc3 {} {} {} {}", hexs(&pw1), hexs(&s1), hexs(&n1), hexs(&d)), format!("dec3 {} {}", hexs(&pw1), hexs(&c11[..c11.len().max(61) - 1])),
            format!("dec3 {} {}", hexs(&pw1), hexs(&c11)),
        ]));
    }
    // ---- consecutive calls whose arguments are RELATED by prefix / extension / one-byte change / length change ----
    let flip = |b: &[u8], i: usize| { let mut x = b.to_vec(); if !x.is_empty() { let j = i % x.len(); x[j] ^= 1; } x };
    let ext = |b: &[u8], e: u8| { let mut x = b.to_vec(); x.push(e); x };
    { // passwords: prefix, extension, empty, zero-extension (HMAC pads its key with zeros: the SAME key), one byte changed
        let pwl = *r.pick(&[2usize, 8, 9, 16]); let pw = { let mut p = r.bytes(pwl); let l = p.len() - 1; if p[l] == 0 { p[l] = 1; } p };
        let (s, n) = (r.bytes(32), r.bytes(12)); let dl = *r.pick(&[0usize, 1, 24]); let d = r.bytes(dl);
        let cont = |pw: &[u8], s: &[u8], n: &[u8]| { let k = prim::pbkdf2_sha512(pw, s, 19162, 32); let (c, t) = prim::aead_enc(&k, n, &d); [s.to_vec(), n.to_vec(), t, c].concat() };
        let c = cont(&pw, &s, &n);
        let dec = |p: &[u8], c: &[u8]| format!("dec3 {} {}", hexs(p), hexs(c));
        let enc = |p: &[u8], s: &[u8], n: &[u8]| format!("enc3 {} {} {} {}", hexs(p), hexs(s), hexs(n), hexs(&d));
        let half = &pw[..pw.len() / 2];
        v.push(seq("related-passwords", vec![
            enc(&pw, &s, &n), dec(&pw, &c), dec(half, &c), dec(&pw, &c), dec(&ext(&pw, 0x31), &c), dec(&[], &c), dec(&pw, &c), dec(&pw[..pw.len() - 1], &c),
            dec(&ext(&pw, 0), &c), dec(&ext(&ext(&pw, 0), 0), &c), dec(&flip(&pw, 0), &c), dec(&flip(&pw, pw.len() - 1), &c), dec(&pw, &c),
            enc(half, &s, &n), enc(&ext(&pw, 0x31), &s, &n), enc(&ext(&pw, 0), &s, &n), enc(&pw, &s, &n), dec(&pw[1..], &c), dec(&pw, &c),
        ]));
        // salts / nonces related by one byte, by prefix, by extension (hex inputs of different lengths); containers of related salts in a row
        let (s2, n2) = (flip(&s, 31), flip(&n, 0));
        let (c2, c3) = (cont(&pw, &s2, &n), cont(&pw, &s, &n2));
        v.push(seq("related-salts", vec![
            enc(&pw, &s, &n), enc(&pw, &s2, &n), enc(&pw, &s[..31], &n), enc(&pw, &ext(&s, 0), &n), enc(&pw, &s, &n[..11]), enc(&pw, &s, &ext(&n, 0)), enc(&pw, &s, &n2),
            enc(&pw, &s, &n), dec(&pw, &c), dec(&pw, &c2), dec(&pw, &c3), dec(&pw, &c), dec(&pw, &[s2.clone(), c[32..].to_vec()].concat()),
            dec(&pw, &[s.clone(), n2.clone(), c[44..].to_vec()].concat()), dec(&pw, &c[..c.len().max(61) - 1]), dec(&pw, &ext(&c, 0)), dec(&pw, &c),
            format!("dec3 {} {}", th(&hex::encode(&pw)[..2 * pw.len() - 1]), hexs(&c)), format!("dec3 {} {}", th(&format!("{}0", hex::encode(&pw))), hexs(&c)), dec(&pw, &c),
        ]));
    }
    { // derivation: neighbouring indices, hardened twin, path prefix / extension, parent with one byte of key or chain code changed
        let k = valid_xprv(r); let i = soft_idx(r) & 0x7fff_fffe; let j = soft_idx(r);
        let kc = flip(&k, 64 + (r.below(32) as usize)); let kk = { let mut x = k.clone(); x[5] ^= 0x10; x };
        let (p, pc) = (prim::xprv_public(&k), prim::xprv_public(&kc)); let pk1 = flip(&p, 3);
        v.push(seq("related-derive", vec![
            der(&k, &[i]), der(&k, &[i + 1]), der(&k, &[i | 0x8000_0000]), der(&k, &[i]), der(&k, &[i, j]), der(&k, &[i]), der(&k, &[]), der(&kc, &[i]), der(&kk, &[i]), der(&k, &[i]),
            pder(&p, &[i]), pder(&p, &[i + 1]), pder(&pc, &[i]), pder(&pk1, &[i]), pder(&p, &[i, j]), pder(&p, &[i]), pder(&p[..63], &[i]), pder(&p, &[i]),
            format!("bip39 {} {}", hx(&k[..16]), hx(&k[16..20])), format!("bip39 {} {}", hx(&k[..16]), hx(&k[16..19])), format!("bip39 {} {}", hx(&k[..15]), hx(&k[16..20])),
            format!("bip39 {} {}", hx(&k[..16]), hx(&k[16..20])),
        ]));
    }
    { // text decoders: the same text damaged, truncated, extended, re-cased, under the sibling HRP, then again unchanged
        let key = valid_ext(r); let u5 = prim::b32_to_base32(&key);
        let s = prim::b32_encode("ed25519e_sk", &u5).unwrap(); let sn = prim::b32_encode("ed25519_sk", &u5).unwrap();
        let s32 = prim::b32_encode("ed25519_sk", &prim::b32_to_base32(&key[..32])).unwrap();
        let dmg = { let mut c: Vec<char> = s.chars().collect(); let i = c.len() - 3; c[i] = if c[i] == 'q' { 'p' } else { 'q' }; c.into_iter().collect::<String>() };
        let h = hex::encode(&key);
        v.push(seq("related-texts", vec![
            format!("dec 1 2 {}", th(&s)), format!("dec 1 2 {}", th(&dmg)), format!("dec 1 2 {}", th(&s[..s.len() - 1])), format!("dec 1 2 {}", th(&format!("{}q", s))),
            format!("dec 1 2 {}", th(&s.to_uppercase())), format!("dec 1 2 {}", th(&sn)), format!("dec 0 2 {}", th(&s32)), format!("dec 1 2 {}", th(&s)), format!("dec 4 2 {}", th(&s)),
            format!("dec 1 1 {}", th(&h)), format!("dec 1 1 {}", th(&h[..h.len() - 2])), format!("dec 1 1 {}", th(&h[..64])), format!("dec 1 1 {}", th(&format!("{}00", h))),
            format!("dec 1 1 {}", th(&h[..h.len() - 1])), format!("dec 1 1 {}", th(&h.to_uppercase())), format!("dec 1 1 {}", th(&h)),
            format!("dec 7 2 {}", th(&prim::b32_encode("hash", &prim::b32_to_base32(&key[..28])).unwrap())), format!("dec 7 2 {}", th(&prim::b32_encode("hash", &prim::b32_to_base32(&key[..29])).unwrap())),
            format!("dec 7 2 {}", th(&prim::b32_encode("hash", &prim::b32_to_base32(&key[..28])).unwrap())),
        ]));
    }
    { // signing: message prefixes / extensions / one byte changed, key with one byte changed, in a row under the same key
        let k = r.bytes(32); let e = valid_ext(r); let m = r.bytes(33);
        let sg = |tk: u8, k: &[u8], m: &[u8], m2: &[u8], k2: &[u8]| format!("sign {} {} {} {} {}", tk, hx(k), hx(m), hx(m2), hx(k2));
        let e2 = { let mut x = e.clone(); x[40] ^= 1; x };
        v.push(seq("related-sign", vec![
            sg(0, &k, &m, &m[..32], &flip(&k, 7)), sg(0, &k, &m[..32], &m, &k), sg(0, &k, &ext(&m, 0), &m, &flip(&k, 0)), sg(0, &k, &[], &[0], &k), sg(0, &k, &m, &flip(&m, 5), &k),
            sg(1, &e, &m, &m[..32], &e2), sg(1, &e2, &m, &m, &e), sg(1, &e, &m[..1], &m[..2], &e), sg(1, &e, &m, &ext(&m, 0), &e),
            format!("wit 0 {} {} ~ ~", hx(&m[..32]), hx(&k)), format!("wit 0 {} {} ~ ~", hx(&flip(&m[..32], 0)), hx(&k)), format!("wit 0 {} {} ~ ~", hx(&m[..32]), hx(&k)),
            format!("pkhash {}", hx(&prim::ed_keypair_pk(&k))), format!("pkhash {}", hx(&flip(&prim::ed_keypair_pk(&k), 31))), format!("pkhash {}", hx(&prim::ed_keypair_pk(&k))),
        ]));
    }
    v
}

fn gen(dir: &str) {
    let seed = seed_from_env();
    let thorough = is_thorough();
    let mut r = Rng::new(seed ^ 0xC12);
    let mut out = Out::new(dir);
    let emit = |out: &mut Out, case: String| {
        let toks: Vec<String> = expand(&compact(&case).split_whitespace().map(|s| s.to_string()).collect::<Vec<String>>());
        let tv: Vec<&str> = toks.iter().map(|s| s.as_str()).collect();
        let table = tabulate(&tv);
        let toks2 = toks.clone();
        let res = guarded(move || { let tv: Vec<&str> = toks2.iter().map(|s| s.as_str()).collect(); classed(exec(&tv)) });
        out.emit(&format!("{} | {}", compact(&case), table), &res);
    };
    let scale = if thorough { 30 } else { 3 };
    let lens: [usize; 22] = [0, 1, 27, 28, 29, 31, 32, 33, 59, 60, 61, 63, 64, 65, 95, 96, 97, 127, 128, 129, 130, 200];

    // --- enc: every type, valid values and structurally invalid ones ---
    for tk in 0..7u64 {
        for _ in 0..(12 * scale) { let v = valid_of(tk, &mut r); emit(&mut out, format!("enc {} {}", tk, hx(&v))); }
        for l in lens.iter() { let v = r.bytes(*l); emit(&mut out, format!("enc {} {}", tk, hx(&v))); }
        // right size, every structure bit flipped in turn
        for bit in [(0usize, 1u8), (0, 2), (0, 4), (31, 0x40), (31, 0x80), (31, 0x20)] {
            let mut v = valid_of(tk, &mut r); if v.len() > bit.0 { v[bit.0] ^= bit.1; } emit(&mut out, format!("enc {} {}", tk, hx(&v)));
        }
        for fill in [0u8, 0xff, 0x7f, 0x80] { emit(&mut out, format!("enc {} {}", tk, hx(&vec![fill; size_of(tk)]))); }
    }
    // --- dec: bytes / hex / bech32 / 128-byte form, valid and malformed ---
    for tk in 0..9u64 {
        let sz = size_of(tk);
        for l in lens.iter().chain([sz - 1, sz, sz + 1].iter()) { let v = r.bytes(*l); emit(&mut out, format!("dec {} 0 {}", tk, hx(&v))); }
        for _ in 0..(3 * scale) { let v = valid_of(tk, &mut r); emit(&mut out, format!("dec {} 0 {}", tk, hx(&v))); emit(&mut out, format!("dec {} 0 {}", tk, hx(&v[..v.len() - 1]))); }
        if tk != 6 {
            for _ in 0..(6 * scale) {
                let v = valid_of(tk, &mut r); let h = hex::encode(&v);
                let t = match r.below(8) {
                    0 => h.clone(), 1 => mutate_case(&h, &mut r), 2 => h[..h.len() - 1].to_string(), 3 => format!("{}0", h),
                    4 => { let mut c: Vec<char> = h.chars().collect(); let i = r.below(c.len() as u64) as usize; c[i] = *r.pick(&['g', 'z', ' ', 'G', '/', ':', '@', '`']); c.into_iter().collect() }
                    5 => format!("0x{}", h), 6 => format!("{}{}", h, hex::encode(r.bytes(1))), _ => h[2..].to_string(),
                };
                emit(&mut out, format!("dec {} 1 {}", tk, th(&t)));
            }
            emit(&mut out, format!("dec {} 1 -", tk));
            // PrivateKey::from_hex accepts both sizes whatever the tag
            if tk <= 1 { for l in [32usize, 64, 96] { let mut v = r.bytes(l); if l == 64 { v[31] &= 0x7f; } emit(&mut out, format!("dec {} 1 {}", tk, th(&hex::encode(&v)))); } }
        }
        // bech32: own HRP, every other HRP, arbitrary HRP, wrong payload size, damaged text, bad padding
        let own = if tk <= 6 { HRPS[tk as usize] } else { "hash" };
        for _ in 0..(3 * scale) {
            let v = valid_of(tk, &mut r);
            let u5 = prim::b32_to_base32(&v);
            let good = prim::b32_encode(own, &u5).unwrap();
            emit(&mut out, format!("dec {} 2 {}", tk, th(&good)));
            emit(&mut out, format!("dec {} 2 {}", tk, th(&good.to_uppercase())));
            emit(&mut out, format!("dec {} 2 {}", tk, th(&mutate_case(&good, &mut r))));
            for h in HRPS.iter().chain(["addr", "x", "script", "ed25519_sk1", "ED25519_PK"].iter()) {
                if let Some(s) = prim::b32_encode(h, &u5) { emit(&mut out, format!("dec {} 2 {}", tk, th(&s))); }
            }
            // damaged: one character changed, truncated, extended
            let mut c: Vec<char> = good.chars().collect(); let i = r.below(c.len() as u64) as usize;
            c[i] = if c[i] == 'q' { 'p' } else { 'q' }; let dmg: String = c.into_iter().collect();
            emit(&mut out, format!("dec {} 2 {}", tk, th(&dmg)));
            emit(&mut out, format!("dec {} 2 {}", tk, th(&good[..good.len() - 1])));
            // payload of another size under the right HRP
            for l in [0usize, 1, sz - 1, sz + 1, 2 * sz] { let s = prim::b32_encode(own, &prim::b32_to_base32(&r.bytes(l))).unwrap(); emit(&mut out, format!("dec {} 2 {}", tk, th(&s))); }
            // 5-bit groups that do not regroup into bytes: non-zero padding bits, or more than 4 padding bits
            let mut bad = u5.clone(); let last = bad.len() - 1; bad[last] |= 1;
            if let Some(s) = prim::b32_encode(own, &bad) { emit(&mut out, format!("dec {} 2 {}", tk, th(&s))); }
            let mut bad2 = u5.clone(); bad2.push(0);
            if let Some(s) = prim::b32_encode(own, &bad2) { emit(&mut out, format!("dec {} 2 {}", tk, th(&s))); }
            let n5 = r.range(1, 60) as usize; let any: Vec<u8> = (0..n5).map(|_| r.below(32) as u8).collect();
            if let Some(s) = prim::b32_encode(own, &any) { emit(&mut out, format!("dec {} 2 {}", tk, th(&s))); }
        }
        for junk in ["", "1", "xprv", "xprv1", "xprv1qqqqqq", "hash1", "a12uel5l", "?1ezyfcl", "ed25519_sk1\u{e9}qqqqqq"] { emit(&mut out, format!("dec {} 2 {}", tk, th(junk))); }
    }
    // 128-byte form
    for l in lens.iter() { let v = r.bytes(*l); emit(&mut out, format!("dec 4 3 {}", hx(&v))); }
    for _ in 0..(10 * scale) {
        let k = valid_xprv(&mut r);
        let x = x128_of(&k);
        emit(&mut out, format!("dec 4 3 {}", hx(&x)));
        let mut y = x.clone(); let i = r.range(64, 95) as usize; y[i] ^= 1; emit(&mut out, format!("dec 4 3 {}", hx(&y)));   // embedded public key is not read
        let mut y = x.clone(); y[31] ^= *r.pick(&[0x40u8, 0x80]); emit(&mut out, format!("dec 4 3 {}", hx(&y)));
        let mut y = x.clone(); y.push(r.next() as u8); emit(&mut out, format!("dec 4 3 {}", hx(&y)));
        emit(&mut out, format!("dec 4 3 {}", hx(&x[..127])));
        emit(&mut out, format!("x128 {}", hx(&k)));
    }
    // --- sign / verify ---
    for _ in 0..(40 * scale) {
        let tk = r.below(2);
        let k = valid_of(tk, &mut r);
        let m = msg(&mut r);
        let m2 = match r.below(4) { 0 => m.clone(), 1 => { let mut x = m.clone(); if x.is_empty() { x.push(0) } else { let i = r.below(x.len() as u64) as usize; x[i] ^= 1 << r.below(8); } x }
                                    2 => { let mut x = m.clone(); x.push(0); x } _ => msg(&mut r) };
        let k2 = if r.chance(1, 5) { k.clone() } else { valid_of(tk, &mut r) };
        emit(&mut out, format!("sign {} {} {} {} {}", tk, hx(&k), hx(&m), hx(&m2), hx(&k2)));
    }
    for _ in 0..(3 * scale) { // extended scalars at and beyond 2^255
        let mut k = r.bytes(64); k[31] |= 0x80; let k2 = valid_ext(&mut r);
        emit(&mut out, format!("sign 1 {} {} {} {}", hx(&k), hx(&r.bytes(32)), hx(&r.bytes(32)), hx(&k2)));
        let mut k = r.bytes(64); k[31] = 0x7f; emit(&mut out, format!("sign 1 {} {} {} {}", hx(&k), hx(&r.bytes(32)), hx(&r.bytes(32)), hx(&k2)));
        let bl = *r.pick(&[31usize, 33, 63, 65]); let bk = r.bytes(bl);
        emit(&mut out, format!("sign {} {} {} {} {}", r.below(2), hx(&bk), "00", "01", hx(&k2)));
    }
    // --- witnesses ---
    for _ in 0..(30 * scale) {
        let wk = r.below(6).min(3);
        let key = match wk { 0 => r.bytes(32), 1 => valid_ext(&mut r), 2 => valid_xprv(&mut r), _ => valid_legacy(&mut r) };
        let dp = if r.chance(1, 2) { "~".to_string() } else { let n = *r.pick(&[0usize, 1, 23, 24, 28, 40, 255, 256]); hx(&r.bytes(n)) };
        let magic = if r.chance(1, 3) { "~".to_string() } else { (*r.pick(&[0u32, 1, 2, 23, 24, 255, 256, 65535, 65536, 764824073, 1097911063, u32::MAX])).to_string() };
        emit(&mut out, format!("wit {} {} {} {} {}", wk, hx(&r.bytes(32)), hx(&key), dp, magic));
    }
    for wk in [1u64, 3] { let mut key = if wk == 1 { r.bytes(64) } else { r.bytes(96) }; key[31] |= 0x80;
        emit(&mut out, format!("wit {} {} {} ~ ~", wk, hx(&r.bytes(32)), hx(&key))); }
    emit(&mut out, format!("wit 2 {} {} ~ 764824073", hx(&r.bytes(32)), hx(&{ let mut k = valid_xprv(&mut r); k[0] |= 1; k })));
    // --- derivation along paths up to depth 6 ---
    for _ in 0..(40 * scale) {
        let root = valid_xprv(&mut r);
        let depth = r.below(7) as usize;
        let style = r.below(4);
        let path: Vec<String> = (0..depth).map(|_| match style { 0 | 1 => soft_idx(&mut r), 2 => idx(&mut r) | 0x8000_0000, _ => idx(&mut r) }.to_string()).collect();
        emit(&mut out, format!("derive {} {} {}", hx(&root), depth, path.join(" ")));
    }
    { // the CIP-1852 path m/1852'/1815'/0'/0/0 and its public continuation from the account key
        let root = valid_xprv(&mut r);
        emit(&mut out, format!("derive {} 5 {} {} {} 0 0", hx(&root), 0x8000_0000u32 + 1852, 0x8000_0000u32 + 1815, 0x8000_0000u32));
        let acct = { let mut k = root.clone(); for i in [0x8000_0000u32 + 1852, 0x8000_0000 + 1815, 0x8000_0000] { k = prim::xprv_derive(&k, i); } k };
        emit(&mut out, format!("derive {} 2 0 0", hx(&acct)));
        emit(&mut out, format!("derive {} 2 2 0", hx(&acct)));
        emit(&mut out, format!("derive {} 0", hx(&r.bytes(96))));
    }
    for _ in 0..(6 * scale) { // children of roots at the top of the admissible scalar range must still round-trip
        let root = top_xprv(&mut r); let depth = r.range(1, 6) as usize;
        let path: Vec<String> = (0..depth).map(|_| idx(&mut r).to_string()).collect();
        emit(&mut out, format!("derive {} {} {}", hx(&root), depth, path.join(" ")));
        emit(&mut out, format!("enc 4 {}", hx(&root)));
    }
    for _ in 0..(6 * scale) {
        let xp = match r.below(4) { 0 => r.bytes(64), 1 => { let l = *r.pick(&[0usize, 32, 63, 65, 96]); r.bytes(l) } _ => prim::xprv_public(&valid_xprv(&mut r)) };
        let depth = r.below(5) as usize; let hard = r.chance(1, 4);
        let path: Vec<String> = (0..depth).map(|_| if hard { idx(&mut r) } else { soft_idx(&mut r) }.to_string()).collect();
        emit(&mut out, format!("pubderive {} {} {}", hx(&xp), depth, path.join(" ")));
    }
    for _ in 0..(5 * scale) {
        let l = *r.pick(&[32usize, 32, 32, 32, 32, 0, 31, 33, 28, 64]); let pk = if r.chance(1, 2) && l == 32 { prim::ed_keypair_pk(&r.bytes(32)) } else { r.bytes(l) };
        emit(&mut out, format!("pkhash {}", hx(&pk)));
    }
    // --- sequences of calls in this one thread with deliberately related arguments (hidden state between calls) ---
    for _ in 0..(4 * scale) { for s in sequences(&mut r) { emit(&mut out, s); } }
    for _ in 0..(8 * scale) {
        let n = *r.pick(&[0usize, 12, 16, 20, 24, 28, 32, 64]); let pwl = *r.pick(&[0usize, 0, 1, 8, 40]);
        emit(&mut out, format!("bip39 {} {}", hx(&r.bytes(n)), hx(&r.bytes(pwl))));
    }
    // --- EMIP-3 ---
    let hexs = |b: &[u8]| th(&hex::encode(b));
    for _ in 0..(25 * scale) {
        let pwl = *r.pick(&[1usize, 1, 4, 8, 32, 100]); let dl = *r.pick(&[0usize, 0, 1, 2, 15, 16, 17, 63, 64, 65, 200]);
        let (pw, salt, nonce, data) = (r.bytes(pwl), r.bytes(32), r.bytes(12), r.bytes(dl));
        emit(&mut out, format!("enc3 {} {} {} {}", hexs(&pw), hexs(&salt), hexs(&nonce), hexs(&data)));
    }
    for _ in 0..(2 * scale) {
        let (pw, salt, nonce, data) = (r.bytes(4), r.bytes(32), r.bytes(12), r.bytes(5));
        for (sl, nl, pl) in [(31usize, 12usize, 4usize), (33, 12, 4), (0, 12, 4), (32, 11, 4), (32, 13, 4), (32, 0, 4), (32, 12, 0), (12, 32, 4)] {
            emit(&mut out, format!("enc3 {} {} {} {}", hexs(&r.bytes(pl)), hexs(&r.bytes(sl)), hexs(&r.bytes(nl)), hexs(&data)));
        }
        let good = [hex::encode(&pw), hex::encode(&salt), hex::encode(&nonce), hex::encode(&data)];
        for pos in 0..4 {
            for bad in 0..3 {
                let mut a = good.clone();
                a[pos] = match bad { 0 => format!("{}g", &a[pos][..a[pos].len() - 1]), 1 => a[pos][..a[pos].len() - 1].to_string(), _ => a[pos].to_uppercase() };
                emit(&mut out, format!("enc3 {} {} {} {}", th(&a[0]), th(&a[1]), th(&a[2]), th(&a[3])));
            }
        }
    }
    for _ in 0..(6 * scale) {
        // a genuine container assembled from the primitives, then every field damaged in turn
        let pwl = *r.pick(&[1usize, 4, 8, 32]); let dl = *r.pick(&[0usize, 1, 2, 16, 33, 64]);
        let (pw, salt, nonce, data) = (r.bytes(pwl), r.bytes(32), r.bytes(12), r.bytes(dl));
        let key = prim::pbkdf2_sha512(&pw, &salt, 19162, 32);
        let (ct, tag) = prim::aead_enc(&key, &nonce, &data);
        let cont: Vec<u8> = [salt.clone(), nonce.clone(), tag.clone(), ct.clone()].concat();
        emit(&mut out, format!("dec3 {} {}", hexs(&pw), hexs(&cont)));
        emit(&mut out, format!("dec3 {} {}", th(&hex::encode(&pw).to_uppercase()), th(&hex::encode(&cont).to_uppercase())));
        for region in [(0usize, 32usize), (32, 44), (44, 60), (60, cont.len())] {
            if region.1 > region.0 { let mut c = cont.clone(); let i = r.range(region.0 as u64, region.1 as u64 - 1) as usize; c[i] ^= 1 << r.below(8); emit(&mut out, format!("dec3 {} {}", hexs(&pw), hexs(&c))); }
        }
        let mut pw2 = pw.clone(); pw2[0] ^= 1; emit(&mut out, format!("dec3 {} {}", hexs(&pw2), hexs(&cont)));
        emit(&mut out, format!("dec3 - {}", hexs(&cont)));
        emit(&mut out, format!("dec3 {} {}", hexs(&pw), hexs(&cont[..cont.len() - 1])));
        let mut c = cont.clone(); c.push(r.next() as u8); emit(&mut out, format!("dec3 {} {}", hexs(&pw), hexs(&c)));
        // fields in another order: nonce | salt | tag | ct and salt | tag | nonce | ct
        emit(&mut out, format!("dec3 {} {}", hexs(&pw), hexs(&[nonce.clone(), salt.clone(), tag.clone(), ct.clone()].concat())));
        emit(&mut out, format!("dec3 {} {}", hexs(&pw), hexs(&[salt.clone(), tag.clone(), nonce.clone(), ct.clone()].concat())));
        emit(&mut out, format!("dec3 {} {}", hexs(&pw), hexs(&[salt.clone(), nonce.clone(), ct.clone(), tag.clone()].concat())));
        let h = hex::encode(&cont);
        emit(&mut out, format!("dec3 {} {}", hexs(&pw), th(&h[..h.len() - 1])));
        emit(&mut out, format!("dec3 {} {}", hexs(&pw), th(&format!("{}zz", &h[..h.len() - 2]))));
    }
    for l in [0usize, 1, 31, 32, 44, 59, 60, 61, 62, 76] { emit(&mut out, format!("dec3 {} {}", hexs(&r.bytes(3)), hexs(&r.bytes(l)))); }
    out.finish();
}

fn main() {
    silence_panics();
    let args: Vec<String> = std::env::args().collect();
    match args.get(1).map(|s| s.as_str()) {
        Some("gen") => gen(&args[2]),
        Some("run") => {
            let mut o = String::new();
            for (idx, toks) in read_cases(&args[2]) {
                let toks: Vec<String> = expand(&toks.into_iter().take_while(|t| t != "|").collect::<Vec<String>>());
                let res = guarded(move || { let tv: Vec<&str> = toks.iter().map(|s| s.as_str()).collect(); classed(exec(&tv)) });
                o.push_str(&format!("{} {}\n", idx, res));
            }
            std::fs::write(&args[3], o).unwrap();
        }
        Some("table") => { // print the primitive table of a case given on the command line (for writing corpus cases by hand)
            let tv: Vec<&str> = args[2..].iter().map(|s| s.as_str()).collect();
            println!("{} | {}", compact(&tv.join(" ")), tabulate(&tv));
        }
        Some("witnesses") => { // the corpus lines: witnesses of the repaired defects and hand-picked corners, with their tables
            let hexs = |b: &[u8]| th(&hex::encode(b));
            let key96: Vec<u8> = { let mut v: Vec<u8> = (0..96u8).collect(); v[0] = 0x08; v[31] = 0x5f; v };
            let x128 = x128_of(&key96);
            let h28 = prim::b32_to_base32(&[7u8; 28]);
            let mut badpad = h28.clone(); let l = badpad.len() - 1; badpad[l] |= 1;
            let mut toolong = h28.clone(); toolong.push(0);
            let ext_hi = { let mut v = vec![0x11u8; 64]; v[31] = 0xff; v };
            let leg_hi = { let mut v = vec![0x22u8; 96]; v[31] = 0x80; v };
            let (pw, salt, nonce) = (vec![0x70u8, 0x77], vec![1u8; 32], vec![2u8; 12]);
            let lines: Vec<String> = vec![
                format!("dec 4 3 {}", hx(&x128[..127])), format!("dec 4 3 -"), format!("dec 4 3 {}", hx(&x128[..96])),
                format!("dec 4 3 {}", hx(&[x128.clone(), vec![0u8]].concat())), format!("dec 4 3 {}", hx(&x128)), format!("x128 {}", hx(&key96)),
                format!("dec 7 2 {}", th(&prim::b32_encode("hash", &badpad).unwrap())), format!("dec 8 2 {}", th(&prim::b32_encode("script", &toolong).unwrap())),
                format!("dec 7 2 {}", th(&prim::b32_encode("anyprefix", &h28).unwrap())),
                format!("enc 1 {}", hx(&ext_hi)), format!("sign 1 {} 00 01 {}", hx(&ext_hi), hx(&vec![0x11u8; 64])),
                format!("wit 1 {} {} ~ ~", hx(&[9u8; 32]), hx(&ext_hi)), format!("wit 3 {} {} ~ ~", hx(&[9u8; 32]), hx(&leg_hi)), format!("enc 6 {}", hx(&leg_hi)),
                format!("enc3 {} {} {} -", hexs(&pw), hexs(&salt), hexs(&nonce)),
                format!("enc3 {} {} {} {}", hexs(&pw), hexs(&salt), hexs(&nonce), hexs(&[0x41])),
                format!("wit 2 {} {} {} 1097911063", hx(&[9u8; 32]), hx(&key96), hx(&[0x83, 0x58, 0x1c])),
                format!("wit 3 {} {} {} ~", hx(&[9u8; 32]), hx(&{ let mut v = vec![0x22u8; 96]; v[31] = 0x40; v }), hx(&vec![0xabu8; 30])),
                format!("derive {} 5 {} {} {} 0 0", hx(&key96), 0x8000_0000u32 + 1852, 0x8000_0000u32 + 1815, 0x8000_0000u32),
                // known finding C12-bit253-root-child-overflow: scalar 2^255 - 8 (bit 253 set) is accepted, its child is no valid key
                format!("derive {} 1 0", hx(&{ let mut v = vec![0xffu8; 96]; v[0] = 0xf8; v[31] = 0x7f; for b in v[64..].iter_mut() { *b = 0x33; } v })),
                // the top of the ADMISSIBLE range (bit 253 clear): children carry into bit 253 and must still round-trip
                format!("derive {} 2 0 {}", hx(&{ let mut v = vec![0xffu8; 96]; v[0] = 0xf8; v[31] = 0x5f; for b in v[64..].iter_mut() { *b = 0x33; } v }), 0x8000_0000u32),
            ];
            for (i, l) in lines.iter().enumerate() {
                let tv: Vec<&str> = l.split_whitespace().collect();
                println!("w{} {} | {}", i, compact(l), tabulate(&tv));
            }
        }
        _ => { eprintln!("usage: c12 gen <dir> | run <cases> <out> | table <case tokens…> | witnesses"); std::process::exit(2); }
    }
}
