//! probe (temporary)
use cardano_serialization_lib::*;
use csl_verif_harness::util::*;

fn main() {
    
    // row 5: from_128_xprv short input
    for n in [0usize, 1, 95, 96, 127, 128, 129, 200] {
        let v = vec![0x40u8; n];
        let r = guarded(move || match Bip32PrivateKey::from_128_xprv(&v) { Ok(k) => format!("ok {}", k.to_hex()), Err(_) => "err".into() });
        println!("from_128_xprv len {} -> {}", n, &r[..r.len().min(40)]);
    }
    // row 13: empty plaintext
    let pw = "70617373";
    let salt = "00".repeat(32);
    let nonce = "00".repeat(12);
    for data in ["", "00", "0011"] {
        let e = encrypt_with_password(pw, &salt, &nonce, data).unwrap();
        let d = guarded(move || match decrypt_with_password(pw, &e) { Ok(p) => format!("ok [{}]", p), Err(_) => "err".into() });
        println!("emip3 data [{}] -> {}", data, d);
    }
    // row 22: hash from_bech32 with bad padding. Build: valid bech32 with data of 1 u5 (non-zero padding / too few bits)
    let h = Ed25519KeyHash::from_bytes(vec![7u8; 28]).unwrap();
    let good = h.to_bech32("hash").unwrap();
    println!("good {}", good);
    // candidates: known valid bech32 test vectors from BIP173 whose data is not byte-aligned
    for s in ["a12uel5l", "abcdef1qpzry9x8gf2tvdw0s3jn54khce6mua7lmqqqxw", "split1checkupstagehandshakeupstreamerranterredcaperred2y9e3w", "?1ezyfcl", good.as_str()] {
        let s2 = s.to_string();
        let r = guarded(move || match Ed25519KeyHash::from_bech32(&s2) { Ok(k) => format!("ok {}", k.to_hex()), Err(_) => "err".into() });
        println!("hash from_bech32 {} -> {}", s, r);
    }
    // extended keys with arbitrary bytes: sign/verify
    silence_panics();
    let mut r = Rng::new(1);
    let (mut n_top, mut p_top, mut bad_top, mut n_lo, mut p_lo, mut bad_lo) = (0,0,0,0,0,0);
    for _ in 0..2000 {
        let kb = r.bytes(64);
        let m = r.bytes(32);
        let kb2 = kb.clone();
        let res = guarded(move || { let k = PrivateKey::from_extended_bytes(&kb2).unwrap(); let s = k.sign(&m); if k.to_public().verify(&m, &s) { "ok".into() } else { "bad".into() } });
        let top = kb[31] & 0x80 != 0;
        if top { n_top += 1; if res == "panic" { p_top += 1 } else if res == "bad" { bad_top += 1 } }
        else { n_lo += 1; if res == "panic" { p_lo += 1 } else if res == "bad" { bad_lo += 1 } }
    }
    println!("top-bit-set keys {}: panic {} bad {}; others {}: panic {} bad {}", n_top, p_top, bad_top, n_lo, p_lo, bad_lo);
    // legacy daedalus with arbitrary bytes
    let kb = vec![0xffu8; 96];
    let res = guarded(move || { let k = LegacyDaedalusPrivateKey::from_bytes(&kb).unwrap();
        let a = ByronAddress::from_base58("Ae2tdPwUPEZ3MHKkpT5Bpj549vrRH7nBqYjNXnCV8G2Bc2YxNcGHEa8ykDp").unwrap();
        let w = make_daedalus_bootstrap_witness(&TransactionHash::from_bytes(vec![1u8;32]).unwrap(), &a, &k); hex::encode(w.to_bytes()) });
    println!("daedalus ff key: {}", &res[..res.len().min(60)]);
}
