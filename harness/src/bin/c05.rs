//! C05 correspondence harness: value conservation of built transactions.
//! `c05 gen <dir>` generates scenarios from VERIF_SEED / VERIF_TIER and runs the implementation;
//! `c05 run <cases> <out>` runs the implementation on given case lines (replay / corpus).
//!
//! Case line:
//!   <label> CFG <pool_deposit> <key_deposit> <prefer_pure 0|1> <do_not_burn 0|1> <coins_per_byte> <max_value_size> <max_tx_size> <fee_a> <fee_b>
//!           U <n> { <id> VALUE }*   OPS <n> { OP }*
//!   VALUE := <coin> <k|~> { <policy hex> <name hex|-|!> <qty> }*k        (~ = no multiasset; entries applied with set_asset;
//!            name `!` = MultiAsset::insert(policy, empty Assets), i.e. `policy => {}`)
//!   OP    := in <id> | out <addr> <extra> VALUE | certs <n|~> { <tag> <coin|~> }* | wd <n|~> { <addr> <coin> }*
//!          | props <n|~> { <deposit> }* | mint <overwrite 0|1> <policy hex> <name hex|-> <amount>
//!          | don <c> | treas <c> | fee <c> | minfee <c> | change <addr> <extra>
//!          | selchange <strategy 0..3> <addr> <extra> <k> { <id> }* | build
//!          | col <k> { <id> }*                                    set_collateral
//!          | pct <strategy> <addr> <extra> <pct> <k> { <id> }*     add_inputs_from_and_change_with_collateral_return
//!          | mintout <policy> <name> <amount> <addr> <extra> <coin>   add_mint_asset_and_output
//!          | mintoutmin <policy> <name> <amount> <addr> <extra>      add_mint_asset_and_output_min_required_coin
//!          | addmint <policy> <name> <amount>                      add_mint_asset (deprecated)
//!          | dmint <scripts 0|1> <k> { <policy> <name> <amount> }*  set_mint (deprecated)
//!          | dcerts <k> { <tag> <coin|~> <script 0|1> }*           set_certs (deprecated)
//!          | dwd <k> { <addr> <coin> <script 0|1> }*               set_withdrawals (deprecated)
//!          | rmmint                                                 remove_mint_builder
//!          | setmintasset <policy> <k> { <name> <amount> }*        set_mint_asset (deprecated)
//!          | kprops <k> { <identity> <deposit> }*                  VotingProposalBuilder::add per item (same identity and deposit = the same proposal)
//!   addr  = address id (>= 1; kind and bytes are a function of the id), extra = 0 none, 1 datum hash, 2 inline datum,
//!           3 script ref, 4 inline datum + script ref.  UTxO id i is outpoint (hash(i), i mod 7) locked by key address.
//! Result line (implementation):
//!   ok R <n> {ok|t|f|err|panic}*  S <fee|~> <nouts> {<addr> <extra> VALUE}* <nins> {<id>}* COL <k> {<id>}* <~ | <addr> VALUE> <total|~>  TX <~ | BODY>
//!      ORA <nops> { <k> {<site> <answer|e>}*k <~ | <ok 0|1> <m> {<id>}*m> }*
//!      TXB <~ | hex of tx.to_bytes()>  AT <n> {<addr id> <address bytes hex>}*  RT <n> {<reward id> <reward address bytes hex>}*
//!   BODY := <nin> {id}* <nout> {<addr> <extra> VALUE}* <fee> <ncert> {<tag> <coin|~>}* <nwd> {<addr> <coin>}*
//!           <nmint> {<policy> <name> <qty>}* <nprops> {<deposit>}* <donation>
//! The ORA section is what hook H2 (rust/src/verif_oracle.rs) recorded per operation: the model consumes it as its
//! size/fee oracle; everything else is compared exactly with the model's own result.
#![allow(deprecated)]
use cardano_serialization_lib::verif_hooks::verif_set_rng_script;
use cardano_serialization_lib::verif_oracle::*;
use cardano_serialization_lib::*;
use csl_verif_harness::util::*;
use std::collections::HashMap;
use std::panic::AssertUnwindSafe;

fn bn(s: &str) -> BigNum { BigNum::from_str(s).expect("u64 in case") }
fn b64(v: u64) -> BigNum { BigNum::from(v) }

fn fill(i: u64, domain: u8, n: usize) -> Vec<u8> {
    let mut r = Rng::new(i ^ ((domain as u64) << 40) ^ 0xC05C05);
    let mut v = r.bytes(n);
    v[0] = domain;
    v
}
fn keyhash(i: u64, d: u8) -> Ed25519KeyHash { Ed25519KeyHash::from_bytes(fill(i, d, 28)).unwrap() }
fn scripthash(i: u64, d: u8) -> ScriptHash { ScriptHash::from_bytes(fill(i, d, 28)).unwrap() }
fn kcred(i: u64, d: u8) -> Credential { Credential::from_keyhash(&keyhash(i, d)) }
fn anchor(i: u64, d: u8) -> Anchor {
    Anchor::new(&URL::new(format!("https://a.example/{}", i)).unwrap(), &AnchorDataHash::from_bytes(fill(i, d, 32)).unwrap())
}
fn drep(i: u64) -> DRep {
    match i % 4 {
        0 => DRep::new_always_abstain(),
        1 => DRep::new_always_no_confidence(),
        2 => DRep::new_key_hash(&keyhash(i, 9)),
        _ => DRep::new_script_hash(&scripthash(i, 9)),
    }
}

/// the six minting policies: native scripts (one signature each); policy id = script hash
fn policy_script(i: u64) -> NativeScript { NativeScript::new_script_pubkey(&ScriptPubkey::new(&keyhash(1000 + i, 10))) }
const N_POLICIES: u64 = 6;

/// address id -> address (id >= 1).  Kinds: enterprise key, base key/key, pointer, base key/script, one Byron address.
fn address(id: u64) -> Address {
    match id % 5 {
        0 => EnterpriseAddress::new(0, &kcred(id, 20)).to_address(),
        1 => BaseAddress::new(1, &kcred(id, 20), &kcred(id, 21)).to_address(),
        2 => PointerAddress::new(0, &kcred(id, 20), &Pointer::new_pointer(&b64(id * 1000), &b64(3), &b64(id))).to_address(),
        3 => BaseAddress::new(0, &kcred(id, 20), &Credential::from_scripthash(&scripthash(id, 22))).to_address(),
        _ => {
            if id == 4 {
                ByronAddress::from_base58("Ae2tdPwUPEZ5uzkzh1o2DHECiUi3iugvnnKHRisPgRRP3CTF4KCMvy54Xd3").unwrap().to_address()
            } else {
                EnterpriseAddress::new(1, &kcred(id, 20)).to_address()
            }
        }
    }
}
/// UTxOs are locked by key addresses (regular inputs); id 4 mod 5 gives the Byron address for id 4
fn utxo_address(id: u64) -> Address { address(id) }
fn utxo_input(id: u64) -> TransactionInput {
    let mut h = fill(id, 30, 32);
    h[1..9].copy_from_slice(&id.to_be_bytes());
    TransactionInput::new(&TransactionHash::from_bytes(h).unwrap(), (id % 7) as u32)
}
fn utxo_id_of(input: &TransactionInput) -> u64 {
    let h = input.transaction_id().to_bytes();
    let mut a = [0u8; 8];
    a.copy_from_slice(&h[1..9]);
    u64::from_be_bytes(a)
}

fn datum_hash() -> DataHash { DataHash::from_bytes(vec![0xd7; 32]).unwrap() }
fn inline_datum() -> PlutusData { PlutusData::new_integer(&BigInt::from_str("1234567890123").unwrap()) }
fn ref_script() -> ScriptRef { ScriptRef::new_native_script(&policy_script(77)) }

fn mk_output(addr: u64, extra: u64, v: &Value) -> TransactionOutput {
    let mut o = TransactionOutput::new(&address(addr), v);
    match extra {
        1 => o.set_data_hash(&datum_hash()),
        2 => o.set_plutus_data(&inline_datum()),
        3 => o.set_script_ref(&ref_script()),
        4 => { o.set_plutus_data(&inline_datum()); o.set_script_ref(&ref_script()); }
        _ => {}
    }
    o
}
fn amount_builder(addr: u64, extra: u64) -> TransactionOutputAmountBuilder {
    let mut b = TransactionOutputBuilder::new().with_address(&address(addr));
    match extra {
        1 => { b = b.with_data_hash(&datum_hash()); }
        2 => { b = b.with_plutus_data(&inline_datum()); }
        3 => { b = b.with_script_ref(&ref_script()); }
        4 => { b = b.with_plutus_data(&inline_datum()).with_script_ref(&ref_script()); }
        _ => {}
    }
    b.next().unwrap()
}
fn extra_of(o: &TransactionOutput) -> u64 {
    match (o.has_data_hash(), o.has_plutus_data(), o.has_script_ref()) {
        (true, _, false) => 1,
        (false, true, false) => 2,
        (false, false, true) => 3,
        (false, true, true) => 4,
        (false, false, false) => 0,
        _ => 9,
    }
}

/// A real certificate of CDDL kind `tag` (key credentials, pairwise distinct through `i`).
fn mk_cert(tag: u32, coin: Option<BigNum>, i: u64) -> Certificate { mk_cert_s(tag, coin, i, false) }
fn mk_cert_s(tag: u32, coin: Option<BigNum>, i: u64, script: bool) -> Certificate {
    let c = if script { Credential::from_scripthash(&scripthash(i, 1)) } else { kcred(i, 1) };
    let pool = keyhash(i, 2);
    let odd = i % 2 == 1;
    let amt = || coin.clone().expect("coin for this kind");
    match tag {
        0 => Certificate::new_stake_registration(&StakeRegistration::new(&c)),
        1 => Certificate::new_stake_deregistration(&StakeDeregistration::new(&c)),
        2 => Certificate::new_stake_delegation(&StakeDelegation::new(&c, &pool)),
        3 => {
            let mut owners = Ed25519KeyHashes::new();
            owners.add(&keyhash(i, 3));
            let params = PoolParams::new(&pool, &VRFKeyHash::from_bytes(fill(i, 4, 32)).unwrap(),
                &b64(1_000_000_000 + i), &b64(340_000_000), &UnitInterval::new(&b64(1), &b64(20)),
                &RewardAddress::new(0, &kcred(i, 5)), &owners, &Relays::new(), None);
            Certificate::new_pool_registration(&PoolRegistration::new(&params))
        }
        4 => Certificate::new_pool_retirement(&PoolRetirement::new(&pool, 100 + i as u32)),
        5 => Certificate::new_genesis_key_delegation(&GenesisKeyDelegation::new(
            &GenesisHash::from_bytes(fill(i, 6, 28)).unwrap(), &GenesisDelegateHash::from_bytes(fill(i, 7, 28)).unwrap(),
            &VRFKeyHash::from_bytes(fill(i, 8, 32)).unwrap())),
        6 => Certificate::new_move_instantaneous_rewards_cert(&MoveInstantaneousRewardsCert::new(
            &MoveInstantaneousReward::new_to_other_pot(MIRPot::Reserves, &b64(777_000_000 + i)))),
        7 => Certificate::new_reg_cert(&StakeRegistration::new_with_explicit_deposit(&c, &amt())).unwrap(),
        8 => Certificate::new_unreg_cert(&StakeDeregistration::new_with_explicit_refund(&c, &amt())).unwrap(),
        9 => Certificate::new_vote_delegation(&VoteDelegation::new(&c, &drep(i))),
        10 => Certificate::new_stake_and_vote_delegation(&StakeAndVoteDelegation::new(&c, &pool, &drep(i))),
        11 => Certificate::new_stake_registration_and_delegation(&StakeRegistrationAndDelegation::new(&c, &pool, &amt())),
        12 => Certificate::new_vote_registration_and_delegation(&VoteRegistrationAndDelegation::new(&c, &drep(i), &amt())),
        13 => Certificate::new_stake_vote_registration_and_delegation(
            &StakeVoteRegistrationAndDelegation::new(&c, &pool, &drep(i), &amt())),
        14 => Certificate::new_committee_hot_auth(&CommitteeHotAuth::new(&c, &kcred(i, 11))),
        15 => Certificate::new_committee_cold_resign(&if odd { CommitteeColdResign::new(&c) } else { CommitteeColdResign::new_with_anchor(&c, &anchor(i, 12)) }),
        16 => Certificate::new_drep_registration(&if odd { DRepRegistration::new(&c, &amt()) } else { DRepRegistration::new_with_anchor(&c, &amt(), &anchor(i, 12)) }),
        17 => Certificate::new_drep_deregistration(&DRepDeregistration::new(&c, &amt())),
        18 => Certificate::new_drep_update(&if odd { DRepUpdate::new(&c) } else { DRepUpdate::new_with_anchor(&c, &anchor(i, 12)) }),
        _ => panic!("bad tag"),
    }
}
fn tag_has_coin(tag: u32) -> bool { matches!(tag, 7 | 8 | 11 | 12 | 13 | 16 | 17) }

/// (CDDL tag, explicit coin) of a certificate read back from a transaction body
fn cert_tag_coin(c: &Certificate) -> (u32, Option<BigNum>) {
    match c.kind() {
        CertificateKind::StakeRegistration => { let x = c.as_stake_registration().or(c.as_reg_cert()).unwrap(); match x.coin() { Some(v) => (7, Some(v)), None => (0, None) } }
        CertificateKind::StakeDeregistration => { let x = c.as_stake_deregistration().or(c.as_unreg_cert()).unwrap(); match x.coin() { Some(v) => (8, Some(v)), None => (1, None) } }
        CertificateKind::StakeDelegation => (2, None),
        CertificateKind::PoolRegistration => (3, None),
        CertificateKind::PoolRetirement => (4, None),
        CertificateKind::GenesisKeyDelegation => (5, None),
        CertificateKind::MoveInstantaneousRewardsCert => (6, None),
        CertificateKind::VoteDelegation => (9, None),
        CertificateKind::StakeAndVoteDelegation => (10, None),
        CertificateKind::StakeRegistrationAndDelegation => (11, Some(c.as_stake_registration_and_delegation().unwrap().coin())),
        CertificateKind::VoteRegistrationAndDelegation => (12, Some(c.as_vote_registration_and_delegation().unwrap().coin())),
        CertificateKind::StakeVoteRegistrationAndDelegation => (13, Some(c.as_stake_vote_registration_and_delegation().unwrap().coin())),
        CertificateKind::CommitteeHotAuth => (14, None),
        CertificateKind::CommitteeColdResign => (15, None),
        CertificateKind::DRepRegistration => (16, Some(c.as_drep_registration().unwrap().coin())),
        CertificateKind::DRepDeregistration => (17, Some(c.as_drep_deregistration().unwrap().coin())),
        CertificateKind::DRepUpdate => (18, None),
    }
}

fn mk_proposal(deposit: &BigNum, i: u64) -> VotingProposal {
    let action = match i % 3 {
        0 => GovernanceAction::new_info_action(&InfoAction::new()),
        1 => GovernanceAction::new_no_confidence_action(&NoConfidenceAction::new()),
        _ => GovernanceAction::new_new_constitution_action(&NewConstitutionAction::new(&Constitution::new(&anchor(i, 13)))),
    };
    VotingProposal::new(&action, &anchor(i, 14), &RewardAddress::new(0, &kcred(i, 15)), deposit)
}
/// reward account id = credential index (id mod 8) + 8 * network code (0 -> network 0, 1 -> network 1, 2 -> network 5)
/// + 32 if the credential is a (native) script: the same credential on two networks gives two accounts
fn reward_is_script(id: u64) -> bool { id >= 32 }
fn reward_script(id: u64) -> NativeScript { policy_script(200 + id % 8) }
fn reward_address(id: u64) -> RewardAddress {
    let net = [0u8, 1, 5][((id / 8) % 3) as usize];
    if reward_is_script(id) { RewardAddress::new(net, &Credential::from_scripthash(&reward_script(id).hash())) }
    else { RewardAddress::new(net, &kcred(id % 8, 16)) }
}
/// a small pool: 3 credentials x {key, script} x 3 networks, so that same-credential / different-network pairs are frequent
fn gen_reward_id(r: &mut Rng) -> u64 { r.range(1, 3) + 8 * r.below(3) + if r.chance(1, 4) { 32 } else { 0 } }

// ------------------------------------------------------------------------------------------------
// scenario data

/// entry (policy, EMPTY_POLICY, _) = the policy is inserted with an empty asset map (`policy => {}`); token `!` in a case line
fn empty_policy_marker() -> Vec<u8> { vec![0xEE; 40] }
#[derive(Clone, Debug)]
struct Val { coin: BigNum, assets: Option<Vec<(Vec<u8>, Vec<u8>, BigNum)>> }
impl Val {
    fn ada(c: u64) -> Val { Val { coin: b64(c), assets: None } }
    fn to_value(&self) -> Value {
        let mut v = Value::new(&self.coin);
        if let Some(es) = &self.assets {
            let mut ma = MultiAsset::new();
            for (p, n, q) in es {
                if *n == empty_policy_marker() { ma.insert(&ScriptHash::from_bytes(p.clone()).unwrap(), &Assets::new()); continue; }
                ma.set_asset(&ScriptHash::from_bytes(p.clone()).unwrap(), &AssetName::new(n.clone()).unwrap(), q);
            }
            v.set_multiasset(&ma);
        }
        v
    }
    fn show(&self) -> String {
        let mut s = self.coin.to_str();
        match &self.assets {
            None => s.push_str(" ~"),
            Some(es) => {
                s.push_str(&format!(" {}", es.len()));
                for (p, n, q) in es {
                    if *n == empty_policy_marker() { s.push_str(&format!(" {} ! 0", hex::encode(p))); }
                    else { s.push_str(&format!(" {} {} {}", hex::encode(p), hex_or_dash(n), q.to_str())); }
                }
            }
        }
        s
    }
}
fn show_value(v: &Value) -> String {
    let mut s = v.coin().to_str();
    match v.multiasset() {
        None => s.push_str(" ~"),
        Some(ma) => {
            let mut es = vec![];
            let pols = ma.keys();
            for i in 0..pols.len() {
                let p = pols.get(i);
                let assets = ma.get(&p).unwrap();
                let names = assets.keys();
                for j in 0..names.len() {
                    let n = names.get(j);
                    es.push(format!("{} {} {}", hex::encode(p.to_bytes()), hex_or_dash(&n.name()), assets.get(&n).unwrap().to_str()));
                }
            }
            // a policy with an empty asset map has no entries: it is rendered as k entries only; mark their presence
            let empties = (0..pols.len()).filter(|i| ma.get(&pols.get(*i)).unwrap().len() == 0).count();
            s.push_str(&format!(" {}", es.len()));
            for e in es { s.push(' '); s.push_str(&e); }
            if empties > 0 { s.push_str(&format!(" E{}", empties)); }
        }
    }
    s
}

#[derive(Clone, Debug)]
enum Op {
    In(u64),
    Out(u64, u64, Val),
    Certs(Option<Vec<(u32, Option<BigNum>)>>),
    Wd(Option<Vec<(u64, BigNum)>>),
    Props(Option<Vec<BigNum>>),
    Mint(bool, Vec<u8>, Vec<u8>, String),
    Don(BigNum), Treas(BigNum), Fee(BigNum), MinFee(BigNum),
    Change(u64, u64),
    SelChange(u32, u64, u64, Vec<u64>),
    Build,
    Col(Vec<u64>),
    Pct(u32, u64, u64, BigNum, Vec<u64>),
    MintOut(Vec<u8>, Vec<u8>, String, u64, u64, BigNum),
    MintOutMin(Vec<u8>, Vec<u8>, String, u64, u64),
    AddMint(Vec<u8>, Vec<u8>, String),
    DMint(bool, Vec<(Vec<u8>, Vec<u8>, String)>),
    DCerts(Vec<(u32, Option<BigNum>, bool)>),
    DWd(Vec<(u64, BigNum, bool)>),
    KProps(Vec<(u64, BigNum)>),
    RmMint,
    SetMintAsset(Vec<u8>, Vec<(Vec<u8>, String)>),
}
fn opt_bn_s(o: &Option<BigNum>) -> String { match o { Some(v) => v.to_str(), None => "~".into() } }
impl Op {
    fn show(&self) -> String {
        match self {
            Op::In(i) => format!("in {}", i),
            Op::Out(a, e, v) => format!("out {} {} {}", a, e, v.show()),
            Op::Certs(None) => "certs ~".into(),
            Op::Certs(Some(cs)) => { let mut s = format!("certs {}", cs.len()); for (t, c) in cs { s.push_str(&format!(" {} {}", t, opt_bn_s(c))); } s }
            Op::Wd(None) => "wd ~".into(),
            Op::Wd(Some(ws)) => { let mut s = format!("wd {}", ws.len()); for (a, c) in ws { s.push_str(&format!(" {} {}", a, c.to_str())); } s }
            Op::Props(None) => "props ~".into(),
            Op::Props(Some(ps)) => { let mut s = format!("props {}", ps.len()); for d in ps { s.push_str(&format!(" {}", d.to_str())); } s }
            Op::Mint(ow, p, n, a) => format!("mint {} {} {} {}", *ow as u8, hex::encode(p), hex_or_dash(n), a),
            Op::Don(c) => format!("don {}", c.to_str()),
            Op::Treas(c) => format!("treas {}", c.to_str()),
            Op::Fee(c) => format!("fee {}", c.to_str()),
            Op::MinFee(c) => format!("minfee {}", c.to_str()),
            Op::Change(a, e) => format!("change {} {}", a, e),
            Op::SelChange(st, a, e, ids) => { let mut s = format!("selchange {} {} {} {}", st, a, e, ids.len()); for i in ids { s.push_str(&format!(" {}", i)); } s }
            Op::Build => "build".into(),
            Op::Col(ids) => { let mut s = format!("col {}", ids.len()); for i in ids { s.push_str(&format!(" {}", i)); } s }
            Op::Pct(st, a, e, pct, ids) => { let mut s = format!("pct {} {} {} {} {}", st, a, e, pct.to_str(), ids.len()); for i in ids { s.push_str(&format!(" {}", i)); } s }
            Op::MintOut(p, n, amt, a, e, c) => format!("mintout {} {} {} {} {} {}", hex::encode(p), hex_or_dash(n), amt, a, e, c.to_str()),
            Op::MintOutMin(p, n, amt, a, e) => format!("mintoutmin {} {} {} {} {}", hex::encode(p), hex_or_dash(n), amt, a, e),
            Op::AddMint(p, n, amt) => format!("addmint {} {} {}", hex::encode(p), hex_or_dash(n), amt),
            Op::DMint(ok, es) => { let mut s = format!("dmint {} {}", *ok as u8, es.len()); for (p, n, a) in es { s.push_str(&format!(" {} {} {}", hex::encode(p), hex_or_dash(n), a)); } s }
            Op::DCerts(cs) => { let mut s = format!("dcerts {}", cs.len()); for (t, c, sc) in cs { s.push_str(&format!(" {} {} {}", t, opt_bn_s(c), *sc as u8)); } s }
            Op::RmMint => "rmmint".into(),
            Op::SetMintAsset(p, es) => { let mut s = format!("setmintasset {} {}", hex::encode(p), es.len()); for (n, a) in es { s.push_str(&format!(" {} {}", hex_or_dash(n), a)); } s }
            Op::KProps(ps) => { let mut s = format!("kprops {}", ps.len()); for (i, d) in ps { s.push_str(&format!(" {} {}", i, d.to_str())); } s }
            Op::DWd(ws) => { let mut s = format!("dwd {}", ws.len()); for (a, c, sc) in ws { s.push_str(&format!(" {} {} {}", a, c.to_str(), *sc as u8)); } s }
        }
    }
}

#[derive(Clone, Debug)]
struct Cfg { pool: BigNum, key: BigNum, pure_: bool, noburn: bool, cpb: BigNum, maxval: u32, maxtx: u32, a: BigNum, b: BigNum }
#[derive(Clone, Debug)]
struct Scenario { label: String, cfg: Cfg, utxos: Vec<(u64, Val)>, ops: Vec<Op> }
impl Scenario {
    fn show(&self) -> String {
        let c = &self.cfg;
        let mut s = format!("{} CFG {} {} {} {} {} {} {} {} {} U {}", self.label, c.pool.to_str(), c.key.to_str(), c.pure_ as u8, c.noburn as u8,
            c.cpb.to_str(), c.maxval, c.maxtx, c.a.to_str(), c.b.to_str(), self.utxos.len());
        for (i, v) in &self.utxos { s.push_str(&format!(" {} {}", i, v.show())); }
        s.push_str(&format!(" OPS {}", self.ops.len()));
        for o in &self.ops { s.push(' '); s.push_str(&o.show()); }
        s
    }
}

struct P<'a> { t: &'a [String], i: usize }
impl<'a> P<'a> {
    fn next(&mut self) -> &'a str { let s = &self.t[self.i]; self.i += 1; s.as_str() }
    fn expect(&mut self, s: &str) { assert_eq!(self.next(), s, "case syntax"); }
    fn u64(&mut self) -> u64 { self.next().parse().unwrap() }
    fn count(&mut self) -> Option<usize> { let s = self.next(); if s == "~" { None } else { Some(s.parse().unwrap()) } }
    fn opt_bn(&mut self) -> Option<BigNum> { let s = self.next(); if s == "~" { None } else { Some(bn(s)) } }
    fn val(&mut self) -> Val {
        let coin = bn(self.next());
        let assets = self.count().map(|k| (0..k).map(|_| {
            let p = hex::decode(self.next()).unwrap(); let nt = self.next(); let n = if nt == "!" { empty_policy_marker() } else { unhex_or_dash(nt) }; let q = bn(self.next()); (p, n, q) }).collect());
        Val { coin, assets }
    }
}
fn parse(toks: &[String]) -> Scenario {
    let mut p = P { t: toks, i: 0 };
    let label = p.next().to_string();
    p.expect("CFG");
    let cfg = Cfg { pool: bn(p.next()), key: bn(p.next()), pure_: p.next() == "1", noburn: p.next() == "1", cpb: bn(p.next()),
        maxval: p.next().parse().unwrap(), maxtx: p.next().parse().unwrap(), a: bn(p.next()), b: bn(p.next()) };
    p.expect("U");
    let n = p.count().unwrap();
    let utxos = (0..n).map(|_| { let id = p.u64(); (id, p.val()) }).collect();
    p.expect("OPS");
    let n = p.count().unwrap();
    let mut ops = vec![];
    for _ in 0..n {
        let op = match p.next() {
            "in" => Op::In(p.u64()),
            "out" => { let a = p.u64(); let e = p.u64(); Op::Out(a, e, p.val()) }
            "certs" => Op::Certs(p.count().map(|k| (0..k).map(|_| { let t: u32 = p.next().parse().unwrap(); (t, p.opt_bn()) }).collect())),
            "wd" => Op::Wd(p.count().map(|k| (0..k).map(|_| { let a = p.u64(); (a, bn(p.next())) }).collect())),
            "props" => Op::Props(p.count().map(|k| (0..k).map(|_| bn(p.next())).collect())),
            "mint" => { let ow = p.next() == "1"; let pol = hex::decode(p.next()).unwrap(); let n = unhex_or_dash(p.next()); Op::Mint(ow, pol, n, p.next().to_string()) }
            "don" => Op::Don(bn(p.next())),
            "treas" => Op::Treas(bn(p.next())),
            "fee" => Op::Fee(bn(p.next())),
            "minfee" => Op::MinFee(bn(p.next())),
            "change" => { let a = p.u64(); Op::Change(a, p.u64()) }
            "selchange" => { let st: u32 = p.next().parse().unwrap(); let a = p.u64(); let e = p.u64(); let k = p.count().unwrap(); Op::SelChange(st, a, e, (0..k).map(|_| p.u64()).collect()) }
            "build" => Op::Build,
            "col" => { let k = p.count().unwrap(); Op::Col((0..k).map(|_| p.u64()).collect()) }
            "pct" => { let st: u32 = p.next().parse().unwrap(); let a = p.u64(); let e = p.u64(); let pct = bn(p.next()); let k = p.count().unwrap(); Op::Pct(st, a, e, pct, (0..k).map(|_| p.u64()).collect()) }
            "mintout" => { let pol = hex::decode(p.next()).unwrap(); let n = unhex_or_dash(p.next()); let amt = p.next().to_string(); let a = p.u64(); let e = p.u64(); Op::MintOut(pol, n, amt, a, e, bn(p.next())) }
            "mintoutmin" => { let pol = hex::decode(p.next()).unwrap(); let n = unhex_or_dash(p.next()); let amt = p.next().to_string(); let a = p.u64(); Op::MintOutMin(pol, n, amt, a, p.u64()) }
            "addmint" => { let pol = hex::decode(p.next()).unwrap(); let n = unhex_or_dash(p.next()); Op::AddMint(pol, n, p.next().to_string()) }
            "dmint" => { let ok = p.next() == "1"; let k = p.count().unwrap(); Op::DMint(ok, (0..k).map(|_| { let pol = hex::decode(p.next()).unwrap(); let n = unhex_or_dash(p.next()); (pol, n, p.next().to_string()) }).collect()) }
            "dcerts" => { let k = p.count().unwrap(); Op::DCerts((0..k).map(|_| { let t: u32 = p.next().parse().unwrap(); let c = p.opt_bn(); (t, c, p.next() == "1") }).collect()) }
            "rmmint" => Op::RmMint,
            "setmintasset" => { let pol = hex::decode(p.next()).unwrap(); let k = p.count().unwrap(); Op::SetMintAsset(pol, (0..k).map(|_| { let n = unhex_or_dash(p.next()); (n, p.next().to_string()) }).collect()) }
            "kprops" => { let k = p.count().unwrap(); Op::KProps((0..k).map(|_| { let i = p.u64(); (i, bn(p.next())) }).collect()) }
            "dwd" => { let k = p.count().unwrap(); Op::DWd((0..k).map(|_| { let a = p.u64(); let c = bn(p.next()); (a, c, p.next() == "1") }).collect()) }
            x => panic!("bad op {}", x),
        };
        ops.push(op);
    }
    Scenario { label, cfg, utxos, ops }
}

// ------------------------------------------------------------------------------------------------
// running a scenario on the implementation

struct World {
    tb: TransactionBuilder,
    utxos: HashMap<u64, Val>,
    addr_ids: HashMap<Vec<u8>, u64>,
    rw_ids: HashMap<Vec<u8>, u64>,
    policy_idx: HashMap<Vec<u8>, u64>,
}
fn note_addr(w: &mut World, id: u64) { w.addr_ids.insert(address(id).to_bytes(), id); }

fn show_output(w: &World, o: &TransactionOutput) -> String {
    let a = w.addr_ids.get(&o.address().to_bytes()).cloned().unwrap_or(0);
    format!("{} {} {}", a, extra_of(o), show_value(&o.amount()))
}

fn new_world(sc: &Scenario) -> World {
    let c = &sc.cfg;
    let cfg = TransactionBuilderConfigBuilder::new()
        .fee_algo(&LinearFee::new(&c.a, &c.b))
        .pool_deposit(&c.pool).key_deposit(&c.key)
        .max_value_size(c.maxval).max_tx_size(c.maxtx)
        .coins_per_utxo_byte(&c.cpb)
        .prefer_pure_change(c.pure_)
        .do_not_burn_extra_change(c.noburn)
        .build().unwrap();
    let mut policy_idx = HashMap::new();
    for i in 0..N_POLICIES { policy_idx.insert(policy_script(i).hash().to_bytes(), i); }
    World { tb: TransactionBuilder::new(&cfg), utxos: sc.utxos.iter().cloned().collect(),
            addr_ids: HashMap::new(), rw_ids: HashMap::new(), policy_idx }
}

fn utxo(w: &World, id: u64) -> Option<TransactionUnspentOutput> {
    w.utxos.get(&id).map(|v| TransactionUnspentOutput::new(&utxo_input(id), &TransactionOutput::new(&utxo_address(id), &v.to_value())))
}

fn change_datum(extra: u64) -> Option<OutputDatum> {
    match extra { 1 => Some(OutputDatum::new_data_hash(&datum_hash())), 2 | 4 => Some(OutputDatum::new_data(&inline_datum())), _ => None }
}

struct OpRec { res: String, tape: Vec<(u8, Option<u64>)>, sel: Option<(bool, Vec<u64>)>, attempts: usize }

fn res_unit(r: Result<Result<(), JsError>, ()>) -> String { match r { Ok(Ok(())) => "ok".into(), Ok(Err(_)) => "err".into(), Err(()) => "panic".into() } }
fn res_bool(r: Result<Result<bool, JsError>, ()>) -> String { match r { Ok(Ok(true)) => "t".into(), Ok(Ok(false)) => "f".into(), Ok(Err(_)) => "err".into(), Err(()) => "panic".into() } }
fn catch<T, F: FnOnce() -> T>(f: F) -> Result<T, ()> { std::panic::catch_unwind(AssertUnwindSafe(f)).map_err(|_| ()) }

fn run_op(w: &mut World, op: &Op, last_tx: &mut Option<Transaction>) -> OpRec {
    match op {
        Op::In(id) => {
            let r = match utxo(w, *id) {
                Some(u) => catch(|| { let o = u.output(); w.tb.add_regular_input(&o.address(), &u.input(), &o.amount()) }),
                None => Ok(Err(JsError::from_str("no such utxo"))),
            };
            OpRec { res: res_unit(r), tape: vec![], sel: None, attempts: 0 }
        }
        Op::Out(a, e, v) => {
            note_addr(w, *a);
            let o = mk_output(*a, *e, &v.to_value());
            verif_oracle_start();
            let r = catch(|| w.tb.add_output(&o));
            OpRec { res: res_unit(r), tape: verif_oracle_take(), sel: None, attempts: 0 }
        }
        Op::Certs(cs) => {
            match cs {
                None => w.tb.remove_certs(),
                Some(cs) => {
                    let mut b = CertificatesBuilder::new();
                    for (i, (t, c)) in cs.iter().enumerate() { b.add(&mk_cert(*t, c.clone(), i as u64)).expect("distinct key-credential certificates"); }
                    w.tb.set_certs_builder(&b);
                }
            }
            OpRec { res: "ok".into(), tape: vec![], sel: None, attempts: 0 }
        }
        Op::Wd(ws) => {
            match ws {
                None => w.tb.remove_withdrawals(),
                Some(ws) => {
                    let mut b = WithdrawalsBuilder::new();
                    for (a, c) in ws {
                        w.rw_ids.insert(reward_address(*a).to_address().to_bytes(), *a);
                        if reward_is_script(*a) { b.add_with_native_script(&reward_address(*a), c, &NativeScriptSource::new(&reward_script(*a))).expect("script reward address"); }
                        else { b.add(&reward_address(*a), c).expect("key reward address"); }
                    }
                    w.tb.set_withdrawals_builder(&b);
                }
            }
            OpRec { res: "ok".into(), tape: vec![], sel: None, attempts: 0 }
        }
        Op::Props(ps) => {
            // there is no remove; ~ installs an empty builder?  No: ~ is never generated after a Some; it is a no-op here
            if let Some(ps) = ps {
                let mut b = VotingProposalBuilder::new();
                for (i, d) in ps.iter().enumerate() { b.add(&mk_proposal(d, i as u64)).expect("proposal without script"); }
                w.tb.set_voting_proposal_builder(&b);
            }
            OpRec { res: "ok".into(), tape: vec![], sel: None, attempts: 0 }
        }
        Op::Mint(ow, p, n, amt) => {
            let r = catch(|| -> Result<(), JsError> {
                let idx = *w.policy_idx.get(p).ok_or(JsError::from_str("unknown policy"))?;
                let wit = MintWitness::new_native_script(&NativeScriptSource::new(&policy_script(idx)));
                let name = AssetName::new(n.clone())?;
                let amount = Int::from_str(amt)?;
                let mut mb = w.tb.get_mint_builder().unwrap_or(MintBuilder::new());
                if *ow { mb.set_asset(&wit, &name, &amount)?; } else { mb.add_asset(&wit, &name, &amount)?; }
                w.tb.set_mint_builder(&mb);
                Ok(())
            });
            OpRec { res: res_unit(r), tape: vec![], sel: None, attempts: 0 }
        }
        Op::Don(c) => { w.tb.set_donation(c); OpRec { res: "ok".into(), tape: vec![], sel: None, attempts: 0 } }
        Op::Treas(c) => { let r = catch(|| w.tb.set_current_treasury_value(c)); OpRec { res: res_unit(r), tape: vec![], sel: None, attempts: 0 } }
        Op::Fee(c) => { w.tb.set_fee(c); OpRec { res: "ok".into(), tape: vec![], sel: None, attempts: 0 } }
        Op::MinFee(c) => { w.tb.set_min_fee(c); OpRec { res: "ok".into(), tape: vec![], sel: None, attempts: 0 } }
        Op::Change(a, e) => {
            note_addr(w, *a);
            let addr = address(*a);
            verif_oracle_start();
            let r = catch(|| match change_datum(*e) {
                Some(d) => w.tb.add_change_if_needed_with_datum(&addr, &d),
                None => w.tb.add_change_if_needed(&addr),
            });
            let tape = verif_oracle_take().into_iter().filter(|(s, _)| *s != b'C').collect();
            OpRec { res: res_bool(r), tape, sel: None, attempts: 0 }
        }
        Op::SelChange(st, a, e, ids) => {
            note_addr(w, *a);
            let mut avail = TransactionUnspentOutputs::new();
            for id in ids { if let Some(u) = utxo(w, *id) { avail.add(&u); } }
            let strategy = |s: u32| match s { 0 => CoinSelectionStrategyCIP2::LargestFirst, 1 => CoinSelectionStrategyCIP2::RandomImprove,
                2 => CoinSelectionStrategyCIP2::LargestFirstMultiAsset, _ => CoinSelectionStrategyCIP2::RandomImproveMultiAsset };
            let script: Vec<u64> = { let mut r = Rng::new(ids.len() as u64 * 31 + *a); (0..4096).map(|_| r.next() >> 8).collect() };
            // what the selection alone does (on a copy, same scripted random draws)
            let before: Vec<u64> = { let ins = verif_builder_inputs(&w.tb); (0..ins.len()).map(|i| utxo_id_of(&ins.get(i))).collect() };
            let mut copy = w.tb.clone();
            verif_set_rng_script(Some(script.clone()));
            let sel_r = catch(|| copy.add_inputs_from(&avail, strategy(*st)));
            let after: Vec<u64> = { let ins = verif_builder_inputs(&copy); (0..ins.len()).map(|i| utxo_id_of(&ins.get(i))).collect() };
            let added: Vec<u64> = after.into_iter().filter(|i| !before.contains(i)).collect();
            let sel_ok = matches!(sel_r, Ok(Ok(())));
            let mut cc = ChangeConfig::new(&address(*a));
            if let Some(d) = change_datum(*e) { cc = cc.change_plutus_data(&d); }
            if *e == 3 || *e == 4 { cc = cc.change_script_ref(&ref_script()); }
            verif_set_rng_script(Some(script));
            verif_oracle_start();
            let r = catch(|| w.tb.add_inputs_from_and_change(&avail, strategy(*st), &cc));
            let all = verif_oracle_take();
            verif_set_rng_script(None);
            // answers before the first change attempt belong to the coin selection (C08's model), not to this model
            let from = all.iter().position(|(s, _)| *s == b'C').unwrap_or(all.len());
            let tape = all[from..].iter().cloned().filter(|(s, _)| *s != b'C').collect();
            let attempts = all.iter().filter(|(s, _)| *s == b'C').count();
            OpRec { res: res_bool(r), tape, sel: Some((sel_ok, added)), attempts }
        }
        Op::Col(ids) => {
            let mut b = TxInputsBuilder::new();
            for id in ids { if let Some(u) = utxo(w, *id) { let o = u.output(); b.add_regular_input(&o.address(), &u.input(), &o.amount()).expect("key address"); } }
            w.tb.set_collateral(&b);
            OpRec { res: "ok".into(), tape: vec![], sel: None, attempts: 0 }
        }
        Op::Pct(st, a, e, pct, ids) => {
            note_addr(w, *a);
            let mut avail = TransactionUnspentOutputs::new();
            for id in ids { if let Some(u) = utxo(w, *id) { avail.add(&u); } }
            let strategy = |s: u32| match s { 0 => CoinSelectionStrategyCIP2::LargestFirst, 1 => CoinSelectionStrategyCIP2::RandomImprove,
                2 => CoinSelectionStrategyCIP2::LargestFirstMultiAsset, _ => CoinSelectionStrategyCIP2::RandomImproveMultiAsset };
            let script: Vec<u64> = { let mut r = Rng::new(ids.len() as u64 * 37 + *a); (0..4096).map(|_| r.next() >> 8).collect() };
            // what the selection alone does: on a copy carrying the same placeholder collateral fields
            let before: Vec<u64> = { let ins = verif_builder_inputs(&w.tb); (0..ins.len()).map(|i| utxo_id_of(&ins.get(i))).collect() };
            // the collateral inputs' total, as the entry point computes it
            let col_total: Option<Value> = {
                let (cins, _, _) = verif_builder_collateral(&w.tb);
                let mut b = TxInputsBuilder::new();
                for i in 0..cins.len() { if let Some(u) = utxo(w, utxo_id_of(&cins.get(i))) { let o = u.output(); b.add_regular_input(&o.address(), &u.input(), &o.amount()).expect("key address"); } }
                b.total_value().ok()
            };
            let sel = match &col_total {
                None => None,
                Some(total) => {
                    let mut copy = w.tb.clone();
                    copy.set_total_collateral(&total.coin());
                    copy.set_collateral_return(&TransactionOutput::new(&address(*a), total));
                    verif_set_rng_script(Some(script.clone()));
                    let sel_r = catch(|| copy.add_inputs_from(&avail, strategy(*st)));
                    let after: Vec<u64> = { let ins = verif_builder_inputs(&copy); (0..ins.len()).map(|i| utxo_id_of(&ins.get(i))).collect() };
                    let added: Vec<u64> = after.into_iter().filter(|i| !before.contains(i)).collect();
                    Some((matches!(sel_r, Ok(Ok(()))), added))
                }
            };
            let mut cc = ChangeConfig::new(&address(*a));
            if let Some(d) = change_datum(*e) { cc = cc.change_plutus_data(&d); }
            if *e == 3 || *e == 4 { cc = cc.change_script_ref(&ref_script()); }
            verif_set_rng_script(Some(script));
            verif_oracle_start();
            let r = catch(|| w.tb.add_inputs_from_and_change_with_collateral_return(&avail, strategy(*st), &cc, pct));
            let all = verif_oracle_take();
            verif_set_rng_script(None);
            let from = all.iter().position(|(s, _)| *s == b'C').unwrap_or(all.len());
            let tape = all[from..].iter().cloned().filter(|(s, _)| *s != b'C').collect();
            let attempts = all.iter().filter(|(s, _)| *s == b'C').count();
            OpRec { res: res_unit(r), tape, sel, attempts }
        }
        Op::MintOut(p, n, amt, a, e, coin) => {
            note_addr(w, *a);
            verif_oracle_start();
            let r = catch(|| -> Result<(), JsError> {
                let idx = *w.policy_idx.get(p).ok_or(JsError::from_str("unknown policy"))?;
                let name = AssetName::new(n.clone())?;
                let amount = Int::from_str(amt)?;
                w.tb.add_mint_asset_and_output(&policy_script(idx), &name, &amount, &amount_builder(*a, *e), coin)
            });
            OpRec { res: res_unit(r), tape: verif_oracle_take(), sel: None, attempts: 0 }
        }
        Op::MintOutMin(p, n, amt, a, e) => {
            note_addr(w, *a);
            verif_oracle_start();
            let r = catch(|| -> Result<(), JsError> {
                let idx = *w.policy_idx.get(p).ok_or(JsError::from_str("unknown policy"))?;
                let name = AssetName::new(n.clone())?;
                let amount = Int::from_str(amt)?;
                w.tb.add_mint_asset_and_output_min_required_coin(&policy_script(idx), &name, &amount, &amount_builder(*a, *e))
            });
            OpRec { res: res_unit(r), tape: verif_oracle_take(), sel: None, attempts: 0 }
        }
        Op::AddMint(p, n, amt) => {
            let r = catch(|| -> Result<(), JsError> {
                let idx = *w.policy_idx.get(p).ok_or(JsError::from_str("unknown policy"))?;
                let name = AssetName::new(n.clone())?;
                let amount = Int::from_str(amt)?;
                w.tb.add_mint_asset(&policy_script(idx), &name, &amount)
            });
            OpRec { res: res_unit(r), tape: vec![], sel: None, attempts: 0 }
        }
        Op::DMint(ok, es) => {
            let r = catch(|| -> Result<(), JsError> {
                let mut mint = Mint::new();
                let mut scripts = NativeScripts::new();
                for (p, n, amt) in es {
                    let idx = *w.policy_idx.get(p).ok_or(JsError::from_str("unknown policy"))?;
                    let script = policy_script(idx);
                    mint.insert(&script.hash(), &MintAssets::new_from_entry(&AssetName::new(n.clone())?, &Int::from_str(amt)?)?);
                    if *ok { scripts.add(&script); }
                }
                w.tb.set_mint(&mint, &scripts)
            });
            OpRec { res: res_unit(r), tape: vec![], sel: None, attempts: 0 }
        }
        Op::DCerts(cs) => {
            let r = catch(|| -> Result<(), JsError> {
                let mut coll = Certificates::new();
                for (i, (t, c, sc)) in cs.iter().enumerate() { coll.add(&mk_cert_s(*t, c.clone(), i as u64, *sc)); }
                w.tb.set_certs(&coll)
            });
            OpRec { res: res_unit(r), tape: vec![], sel: None, attempts: 0 }
        }
        Op::SetMintAsset(p, es) => {
            let r = catch(|| -> Result<(), JsError> {
                let idx = *w.policy_idx.get(p).ok_or(JsError::from_str("unknown policy"))?;
                let mut ma = MintAssets::new();
                for (n, a) in es { ma.insert(&AssetName::new(n.clone())?, &Int::from_str(a)?)?; }
                w.tb.set_mint_asset(&policy_script(idx), &ma)
            });
            // queries in between (no effect on the builder)
            let _ = catch(|| { let _ = w.tb.get_mint_builder(); let _ = w.tb.get_mint_scripts(); let _ = w.tb.get_mint(); });
            OpRec { res: res_unit(r), tape: vec![], sel: None, attempts: 0 }
        }
        Op::RmMint => { w.tb.remove_mint_builder(); OpRec { res: "ok".into(), tape: vec![], sel: None, attempts: 0 } }
        Op::KProps(ps) => {
            // the same (identity, deposit) gives the identical VotingProposal: added twice it is in the builder once
            let mut b = VotingProposalBuilder::new();
            for (i, d) in ps { b.add(&mk_proposal(d, *i)).expect("proposal without script"); }
            w.tb.set_voting_proposal_builder(&b);
            OpRec { res: "ok".into(), tape: vec![], sel: None, attempts: 0 }
        }
        Op::DWd(ws) => {
            let mut rw: HashMap<Vec<u8>, u64> = HashMap::new();
            let r = catch(|| -> Result<(), JsError> {
                let mut coll = Withdrawals::new();
                for (a, c, sc) in ws {
                    let ra = if *sc { RewardAddress::new(0, &Credential::from_scripthash(&scripthash(*a, 16))) } else { reward_address(*a) };
                    rw.insert(ra.to_address().to_bytes(), *a);
                    coll.insert(&ra, c);
                }
                w.tb.set_withdrawals(&coll)
            });
            for (k, v) in rw { w.rw_ids.insert(k, v); }
            OpRec { res: res_unit(r), tape: vec![], sel: None, attempts: 0 }
        }
        Op::Build => {
            verif_oracle_start();
            let r = catch(|| w.tb.build_tx());
            let tape = verif_oracle_take();
            let res = match r { Ok(Ok(tx)) => { *last_tx = Some(tx); "ok".to_string() } Ok(Err(_)) => "err".into(), Err(()) => "panic".into() };
            OpRec { res, tape, sel: None, attempts: 0 }
        }
    }
}

fn show_body(w: &World, tx: &Transaction) -> String {
    // the transaction as a consumer would read it: from its bytes
    let tx = Transaction::from_bytes(tx.to_bytes()).expect("built transaction re-reads");
    let b = tx.body();
    let mut s = String::new();
    let ins = b.inputs();
    s.push_str(&format!("{}", ins.len()));
    for i in 0..ins.len() { s.push_str(&format!(" {}", utxo_id_of(&ins.get(i)))); }
    let outs = b.outputs();
    s.push_str(&format!(" {}", outs.len()));
    for i in 0..outs.len() { s.push(' '); s.push_str(&show_output(w, &outs.get(i))); }
    s.push_str(&format!(" {}", b.fee().to_str()));
    match b.certs() {
        None => s.push_str(" 0"),
        Some(cs) => { s.push_str(&format!(" {}", cs.len())); for i in 0..cs.len() { let (t, c) = cert_tag_coin(&cs.get(i)); s.push_str(&format!(" {} {}", t, opt_bn_s(&c))); } }
    }
    match b.withdrawals() {
        None => s.push_str(" 0"),
        Some(ws) => {
            // the ledger's reward-account order is not part of this model: printed sorted by address id
            let keys = ws.keys();
            let mut es: Vec<(u64, String)> = (0..keys.len()).map(|i| {
                let k = keys.get(i);
                let id = (1..200u64).find(|a| reward_address(*a).to_address().to_bytes() == k.to_address().to_bytes()).unwrap_or(0);
                (id, ws.get(&k).unwrap().to_str())
            }).collect();
            es.sort();
            s.push_str(&format!(" {}", es.len()));
            for (id, c) in es { s.push_str(&format!(" {} {}", id, c)); }
        }
    }
    match b.mint() {
        None => s.push_str(" 0"),
        Some(m) => {
            let mut es = vec![];
            let pols = m.keys();
            for i in 0..pols.len() {
                let p = pols.get(i);
                // Mint::get returns every entry of that policy; MintBuilder emits one
                if (0..i).any(|j| pols.get(j) == p) { continue; }
                let mas = m.get(&p).unwrap();
                for k in 0..mas.len() {
                    let ma = mas.get(k).unwrap();
                    let names = ma.keys();
                    for j in 0..names.len() { let n = names.get(j); es.push(format!("{} {} {}", hex::encode(p.to_bytes()), hex_or_dash(&n.name()), ma.get(&n).unwrap().to_str())); }
                }
            }
            s.push_str(&format!(" {}", es.len()));
            for e in es { s.push(' '); s.push_str(&e); }
        }
    }
    match b.voting_proposals() {
        None => s.push_str(" 0"),
        Some(ps) => {
            // a set in the body (its order is not part of this model): printed sorted by deposit
            let mut ds: Vec<u64> = (0..ps.len()).map(|i| ps.get(i).deposit().into()).collect();
            ds.sort();
            s.push_str(&format!(" {}", ds.len()));
            for d in ds { s.push_str(&format!(" {}", d)); }
        }
    }
    s.push_str(&format!(" {}", b.donation().map(|d| d.to_str()).unwrap_or("0".into())));
    s
}

/// which way the first balancing operation went, as far as the public API shows it (only used to label the case
/// for the evidence's case distribution)
fn shape_of(w: &World, pre: &Option<(Value, Value, BigNum, usize)>, res: &str) -> String {
    match res {
        "err" => return "err".into(),
        "panic" => return "panic".into(),
        _ => {}
    }
    let (tin, tout, fee, n_before) = match pre { Some(x) => x.clone(), None => return "pre-err".into() };
    let outs = verif_builder_outputs(&w.tb);
    let added: Vec<TransactionOutput> = (n_before..outs.len()).map(|i| outs.get(i)).collect();
    let has_assets = |o: &TransactionOutput| o.amount().multiasset().map(|m| m.len() > 0).unwrap_or(false);
    if res == "f" {
        let exact = tout.checked_add(&Value::new(&fee)).map(|x| x == tin).unwrap_or(false);
        return if exact { "exact".into() } else { "burn".into() };
    }
    match added.len() {
        0 => if res == "ok" { "noout".into() } else { "topup-only".into() },
        1 => if has_assets(&added[0]) { "assets1".into() } else { "single".into() },
        n => if !has_assets(&added[n - 1]) { "assetsN+pure".into() } else if n == 2 && !has_assets(&added[0]) { "assets1+x".into() } else { "assetsN".into() },
    }
}

fn exec(sc: &Scenario) -> String { exec_shape(sc).0 }

fn exec_shape(sc: &Scenario) -> (String, String) {
    let mut w = new_world(sc);
    let mut recs = vec![];
    let mut last_tx = None;
    let mut shape: Option<String> = None;
    for op in &sc.ops {
        let balancing = matches!(op, Op::Change(..) | Op::SelChange(..) | Op::Pct(..)) && shape.is_none();
        let pre = if balancing {
            catch(|| -> Option<(Value, Value, BigNum, usize)> {
                Some((w.tb.get_total_input().ok()?, w.tb.get_total_output().ok()?, w.tb.min_fee().ok()?, verif_builder_outputs(&w.tb).len()))
            }).ok().flatten()
        } else { None };
        let rec = run_op(&mut w, op, &mut last_tx);
        if balancing {
            let policy = match (&w.tb.get_fee_if_set(), sc.ops.iter().any(|o| matches!(o, Op::Fee(_))), sc.ops.iter().any(|o| matches!(o, Op::MinFee(_)))) {
                (_, true, true) => "feeboth", (_, true, false) => "exactly", (_, false, true) => "notless", _ => "unspec" };
            let retry = if rec.attempts > 1 { "+retry" } else if rec.sel.as_ref().map(|s| !s.0).unwrap_or(false) { "+selerr" } else { "" };
            shape = Some(format!("{}/{}{}", shape_of(&w, &pre, &rec.res), policy, retry));
        }
        recs.push(rec);
    }
    let shape = shape.unwrap_or("none".into());
    (exec_rest(sc, w, recs, last_tx), shape)
}

fn exec_rest(_sc: &Scenario, w: World, recs: Vec<OpRec>, last_tx: Option<Transaction>) -> String {
    let mut s = format!("ok R {}", recs.len());
    for r in &recs { s.push(' '); s.push_str(&r.res); }
    // the builder's state
    s.push_str(&format!(" S {}", w.tb.get_fee_if_set().map(|f| f.to_str()).unwrap_or("~".into())));
    let outs = verif_builder_outputs(&w.tb);
    s.push_str(&format!(" {}", outs.len()));
    for i in 0..outs.len() { s.push(' '); s.push_str(&show_output(&w, &outs.get(i))); }
    let ins = verif_builder_inputs(&w.tb);
    s.push_str(&format!(" {}", ins.len()));
    for i in 0..ins.len() { s.push_str(&format!(" {}", utxo_id_of(&ins.get(i)))); }
    {
        let (cins, cret, ctot) = verif_builder_collateral(&w.tb);
        s.push_str(&format!(" COL {}", cins.len()));
        for i in 0..cins.len() { s.push_str(&format!(" {}", utxo_id_of(&cins.get(i)))); }
        match cret { None => s.push_str(" ~"), Some(o) => { let a = w.addr_ids.get(&o.address().to_bytes()).cloned().unwrap_or(0); s.push_str(&format!(" {} {}", a, show_value(&o.amount()))); } }
        s.push_str(&format!(" {}", ctot.map(|c| c.to_str()).unwrap_or("~".into())));
    }
    match &last_tx { None => s.push_str(" TX ~"), Some(tx) => { s.push_str(" TX "); s.push_str(&show_body(&w, tx)); } }
    s.push_str(&format!(" ORA {}", recs.len()));
    for r in &recs {
        s.push_str(&format!(" {}", r.tape.len()));
        for (site, a) in &r.tape { s.push_str(&format!(" {} {}", *site as char, a.map(|v| v.to_string()).unwrap_or("e".into()))); }
        match &r.sel { None => s.push_str(" ~"), Some((ok, ids)) => { s.push_str(&format!(" {} {}", *ok as u8, ids.len())); for i in ids { s.push_str(&format!(" {}", i)); } } }
    }
    // for the judge: the bytes of the built transaction (read by the model side's own CBOR reader, not by the library)
    // and the scenario's identifier tables (address bytes -> id, reward account bytes -> id), sorted
    match &last_tx { None => s.push_str(" TXB ~"), Some(tx) => s.push_str(&format!(" TXB {}", hex::encode(tx.to_bytes()))) }
    let mut at: Vec<(u64, String)> = w.addr_ids.iter().map(|(k, v)| (*v, hex::encode(k))).collect();
    at.sort();
    s.push_str(&format!(" AT {}", at.len()));
    for (id, h) in at { s.push_str(&format!(" {} {}", id, h)); }
    let mut rt: Vec<(u64, String)> = w.rw_ids.iter().map(|(k, v)| (*v, hex::encode(k))).collect();
    rt.sort();
    s.push_str(&format!(" RT {}", rt.len()));
    for (id, h) in rt { s.push_str(&format!(" {} {}", id, h)); }
    s
}

fn exec_line(toks: &[String]) -> String {
    let sc = parse(toks);
    guarded(AssertUnwindSafe(|| exec(&sc)))
}

// ------------------------------------------------------------------------------------------------
// generators

const NAMES: [&[u8]; 8] = [b"", b"a", b"tok", b"NFT-0001", b"NFT-0002", b"\x00\xff", b"thirty-two-byte-long-asset-name!", b"zz"];

fn policy_bytes(i: u64) -> Vec<u8> { policy_script(i % N_POLICIES).hash().to_bytes() }
fn gen_name(r: &mut Rng) -> Vec<u8> {
    if r.chance(3, 4) { NAMES[r.below(8) as usize].to_vec() } else { let n = r.below(33) as usize; r.bytes(n) }
}
fn gen_coin(r: &mut Rng, kind: u32) -> u64 {
    match kind {
        0 => r.range(1_000_000, 50_000_000),
        1 => r.range(900_000, 3_000_000),
        2 => { let w = *r.pick(&[23u64, 255, 65535, 0xffff_ffff, 1 << 40]); w.saturating_add(r.below(5_000_000)) }
        _ => r.u64_edge(),
    }
}
fn gen_assets(r: &mut Rng, n_assets: u64, n_pol: u64, big: bool) -> Option<Vec<(Vec<u8>, Vec<u8>, BigNum)>> {
    if n_assets == 0 { return if r.chance(1, 10) { Some(vec![]) } else { None }; }
    let mut es = vec![];
    for k in 0..n_assets {
        let p = policy_bytes(r.below(n_pol.max(1)));
        let n = if big { let mut v = format!("asset-number-{:04}-padding-pad", k).into_bytes(); v.truncate(32); v } else { gen_name(r) };
        let q = match r.below(40) { 0..=4 => 1, 5..=9 => r.u64_edge() >> r.below(40), 10..=14 => r.below(1 << 33), 15 => 0, _ => r.range(1, 1000) };
        es.push((p, n, b64(q)));
    }
    Some(es)
}
/// one step of a mint history: any mint entry point, on a small pool of policies / names (so that steps meet on the same lines)
fn gen_mint_step(r: &mut Rng, utxos: &[(u64, Val)]) -> Op {
    let held: Vec<(Vec<u8>, Vec<u8>)> = utxos.iter().filter_map(|(_, v)| v.assets.as_ref()).flat_map(|es| es.iter())
        .filter(|e| e.1 != empty_policy_marker() && u64::from(e.2) > 0).map(|e| (e.0.clone(), e.1.clone())).collect();
    let pick_line = |r: &mut Rng| -> (Vec<u8>, Vec<u8>) {
        if !held.is_empty() && r.chance(1, 3) { r.pick(&held).clone() } else { (policy_bytes(r.below(2)), NAMES[r.below(3) as usize + 1].to_vec()) } };
    let amount = |r: &mut Rng| -> String { match r.below(6) { 0 => format!("-{}", r.range(1, 5)), 1 => "0".into(), _ => format!("{}", r.range(1, 5000)) } };
    let (p, n) = pick_line(r);
    match r.below(9) {
        0 | 1 => { let k = r.range(1, 2); let mut es = vec![(n, amount(r))]; if k == 2 { es.push((pick_line(r).1, amount(r))); } Op::SetMintAsset(p, es) }
        2 => Op::Mint(r.chance(1, 2), p, n, amount(r)),
        3 => Op::AddMint(p, n, amount(r)),
        4 => { let (p2, n2) = pick_line(r); Op::DMint(r.chance(7, 8), vec![(p, n, amount(r)), (p2, n2, amount(r))]) }
        5 => Op::MintOut(p, n, amount(r), r.range(1, 30), 0, b64(r.range(1_200_000, 3_000_000))),
        6 => Op::MintOutMin(p, n, amount(r), r.range(1, 30), 0),
        7 => Op::RmMint,
        _ => { let k = r.range(1, 2); let mut es = vec![(n, amount(r))]; if k == 2 { es.push((pick_line(r).1, amount(r))); } Op::SetMintAsset(p, es) }
    }
}

/// a UTxO amount with entries that stand for nothing, in every layout: a zero quantity before / after / between positive
/// assets of the same policy (name order: length, then bytes), several zeros, a zero-only policy next to a positive one,
/// `policy => {}`, an all-zero multiasset, Some(empty multiasset)
fn gen_degenerate_assets(r: &mut Rng) -> Option<Vec<(Vec<u8>, Vec<u8>, BigNum)>> {
    let p0 = policy_bytes(r.below(N_POLICIES));
    let p1 = policy_bytes(r.below(N_POLICIES));
    let pos = |r: &mut Rng| b64(r.range(1, 900));
    let (a, b, c, d): (Vec<u8>, Vec<u8>, Vec<u8>, Vec<u8>) = (b"a".to_vec(), b"b".to_vec(), b"tok".to_vec(), b"NFT-0001".to_vec());
    let z = b64(0);
    let mut es: Vec<(Vec<u8>, Vec<u8>, BigNum)> = match r.below(12) {
        0 => vec![(p0.clone(), a, z), (p0.clone(), b, pos(r))],                                        // zero before
        1 => vec![(p0.clone(), a, pos(r)), (p0.clone(), c, z)],                                        // zero after
        2 => vec![(p0.clone(), a, pos(r)), (p0.clone(), b, z), (p0.clone(), c, pos(r))],               // zero between
        3 => vec![(p0.clone(), a, z), (p0.clone(), b, pos(r)), (p0.clone(), c, z), (p0.clone(), d, z)], // several zeros
        4 => vec![(p0.clone(), a, z), (p1.clone(), b, pos(r))],                                        // zero-only policy + positive policy
        5 => vec![(p0.clone(), empty_policy_marker(), z), (p1.clone(), b, pos(r))],                    // policy => {} + positive policy
        6 => vec![(p0.clone(), empty_policy_marker(), z)],                                             // only policy => {}
        7 => vec![(p0.clone(), a, z), (p1.clone(), b, z)],                                             // all-zero multiasset
        8 => vec![],                                                                                   // Some(empty multiasset)
        9 => vec![(p0.clone(), Vec::new(), z), (p0.clone(), a, pos(r)), (p1.clone(), c, pos(r)), (p1.clone(), d, z)],
        10 => vec![(p0.clone(), c, pos(r)), (p0.clone(), a, z)],                                       // given out of order
        _ => { let mut v = gen_assets(r, 4, 3, false).unwrap_or_default(); if !v.is_empty() { let k = r.below(v.len() as u64) as usize; v[k].2 = b64(0); } v }
    };
    if r.chance(1, 4) { shuffle(r, &mut es); }
    Some(es)
}

fn gen_cfg(r: &mut Rng) -> Cfg {
    let (a, b) = *r.pick(&[(44u64, 155381u64), (44, 155381), (44, 155381), (0, 0), (1, 0), (0, 200000), (500, 1000)]);
    Cfg { pool: b64(*r.pick(&[500_000_000u64, 0, 1, 2_000_000])), key: b64(*r.pick(&[2_000_000u64, 0, 400_000])),
          pure_: r.chance(1, 3), noburn: r.chance(1, 4),
          cpb: b64(*r.pick(&[4310u64, 4310, 4310, 1, 0, 34482, 100])), maxval: *r.pick(&[5000u32, 5000, 4000, 300, 150, 80]),
          maxtx: *r.pick(&[16384u32, 16384, 16384, 100000, 400]), a: b64(a), b: b64(b) }
}
fn shuffle<T>(r: &mut Rng, v: &mut Vec<T>) { for i in (1..v.len()).rev() { let j = r.below(i as u64 + 1) as usize; v.swap(i, j); } }

fn gen_certs(r: &mut Rng, edge: bool) -> Vec<(u32, Option<BigNum>)> {
    let n = r.range(1, 5);
    // an explicit amount of exactly 0 is a value of its own (not "absent")
    (0..n).map(|_| { let t = if r.chance(1, 4) { *r.pick(&[7u32, 8, 7, 8, 16, 17]) } else { r.below(19) as u32 };
                     let c = if tag_has_coin(t) { Some(b64(if r.chance(1, 5) { 0 } else if edge { r.u64_edge() } else { r.range(0, 5_000_000) })) } else { None }; (t, c) }).collect()
}

/// value totals of the pieces (for steering scenarios towards a given change shape); None on overflow
fn sum_u64(xs: &[u64]) -> Option<u64> { xs.iter().try_fold(0u64, |a, x| a.checked_add(*x)) }

fn gen_scenario(r: &mut Rng, stream: u32) -> Scenario {
    let mut cfg = gen_cfg(r);
    let mut utxos: Vec<(u64, Val)> = vec![];
    let mut pre: Vec<Op> = vec![];
    let mut post: Vec<Op> = vec![];
    let edge = stream == 6;
    let label;
    let n_utxo = match stream { 5 => r.range(3, 40), 7 => r.range(2, 12), 8 => r.range(1, 4), _ => r.range(1, 6) };
    let with_assets = (matches!(stream, 2 | 3 | 4 | 5) && r.chance(4, 5)) || (stream == 7 && r.chance(1, 2));
    let n_pol = r.range(1, 6);
    if stream == 3 { cfg.maxval = *r.pick(&[300u32, 200, 150, 120, 5000]); cfg.maxtx = 100000; }
    for k in 0..n_utxo {
        let id = 5 * (k + 1) + r.below(4);                        // never 4 mod 5 except the Byron one below
        let kind = if edge { 3 } else if stream == 1 { 1 } else { *r.pick(&[0u32, 0, 0, 2]) };
        let coin = gen_coin(r, kind);
        let n_assets = if with_assets { match stream { 3 => r.range(5, 30), _ => r.below(5) } } else { 0 };
        let assets = if stream == 8 || (matches!(stream, 5 | 7) && r.chance(1, 4)) { if r.chance(4, 5) { gen_degenerate_assets(r) } else { gen_assets(r, n_assets, n_pol, false) } }
                     else { gen_assets(r, n_assets, n_pol, stream == 3) };
        utxos.push((id, Val { coin: b64(coin), assets }));
    }
    if r.chance(1, 12) { utxos.push((4, Val::ada(r.range(2_000_000, 9_000_000)))); }
    // operations before balancing
    if stream != 5 && stream != 7 { for (id, _) in &utxos { pre.push(Op::In(*id)); } }
    let n_out = r.below(4);
    for _ in 0..n_out {
        let coin = gen_coin(r, if edge { 3 } else { 1 });
        let assets = if with_assets && r.chance(1, 2) {
            // part of what some UTxO holds
            let (_, v) = r.pick(&utxos).clone();
            v.assets.map(|es| es.into_iter().filter_map(|(p, n, q)| { if r.chance(1, 2) { return None; } let q64: u64 = q.into(); Some((p, n, b64(if r.chance(1, 2) { q64 } else { q64 / 2 + 1 }))) }).collect::<Vec<_>>())
        } else { None };
        pre.push(Op::Out(r.range(1, 30), *r.pick(&[0u64, 0, 0, 1, 2, 3, 4]), Val { coin: b64(coin), assets }));
    }
    if matches!(stream, 4 | 6) || r.chance(1, 6) {
        if r.chance(1, 2) { pre.push(Op::Certs(Some(gen_certs(r, edge)))); }
        if r.chance(1, 2) { let n = r.range(1, 4); pre.push(Op::Wd(Some((0..n).map(|_| (gen_reward_id(r), b64(if edge { r.u64_edge() } else { r.range(0, 3_000_000) }))).collect()))); }
        if r.chance(1, 3) {
            let n = r.range(1, 2);
            if r.chance(1, 2) { pre.push(Op::Props(Some((0..n).map(|_| b64(if edge { r.u64_edge() } else { r.range(0, 4_000_000) })).collect()))); }
            else {
                // with identities: the same proposal may be added more than once
                let mut ps: Vec<(u64, BigNum)> = (0..n).map(|i| (i, b64(if edge { r.u64_edge() } else { r.range(0, 4_000_000) }))).collect();
                if r.chance(2, 3) { let x = ps[r.below(ps.len() as u64) as usize].clone(); ps.push(x); }
                if r.chance(1, 4) { let x = ps[0].clone(); ps.push((x.0, b64(u64::from(x.1) / 2 + 1))); }
                pre.push(Op::KProps(ps));
            }
        }
        if r.chance(1, 3) { pre.push(Op::Don(b64(if edge { r.u64_edge() } else { r.range(0, 2_000_000) }))); }
        if r.chance(1, 4) { pre.push(Op::Treas(b64(r.below(3) * 1_000_000_000))); }
        if r.chance(1, 8) { pre.push(Op::Certs(None)); }
        if r.chance(1, 8) { pre.push(Op::Wd(None)); }
        // mint and burn: burn what a UTxO holds, mint fresh names
        let n_mint = r.below(4);
        for _ in 0..n_mint {
            let burn = r.chance(1, 2);
            let holders: Vec<&(Vec<u8>, Vec<u8>, BigNum)> = utxos.iter().filter_map(|(_, v)| v.assets.as_ref()).flat_map(|es| es.iter()).filter(|e| e.1 != empty_policy_marker()).collect();
            if burn && !holders.is_empty() {
                let (p, n, q) = (*r.pick(&holders)).clone();
                let q64: u64 = q.into();
                let amt = if r.chance(1, 2) { q64 } else { r.range(1, q64.max(1)) };
                pre.push(Op::Mint(r.chance(1, 4), p, n, format!("-{}", amt)));
            } else {
                let amt: i128 = match r.below(12) { 0 | 1 => r.u64_edge() as i128, 2 | 3 => -(r.range(1, 50) as i128), 4 => 0,
                    5 => *r.pick(&[-(1i128 << 64), -(1i128 << 64) + 1, (1i128 << 64) - 1, -(1i128 << 63), 1i128 << 63, -(1i128 << 64) - 1, 1i128 << 64]),
                    _ => r.range(1, 1_000_000) as i128 };
                pre.push(Op::Mint(r.chance(1, 4), policy_bytes(r.below(N_POLICIES)), gen_name(r), format!("{}", amt)));
            }
        }
    }
    // mint / burn HISTORIES on an asset that a UTxO holds: several individually legal add_asset / set_asset / add_mint_asset
    // steps whose running sum lands on +-2^64, +-(2^64-1), +-2^63 or 0 (kept in order: they go in front of the balancing step)
    let mut hist: Vec<Op> = vec![];
    if matches!(stream, 2 | 4 | 6) && r.chance(1, 3) {
        let holders: Vec<(Vec<u8>, Vec<u8>)> = utxos.iter().filter_map(|(_, v)| v.assets.as_ref()).flat_map(|es| es.iter())
            .filter(|e| e.1 != empty_policy_marker() && u64::from(e.2) > 0).map(|e| (e.0.clone(), e.1.clone())).collect();
        let (p, n) = if !holders.is_empty() && r.chance(5, 6) { r.pick(&holders).clone() } else { (policy_bytes(r.below(N_POLICIES)), gen_name(r)) };
        let two64: i128 = 1i128 << 64;
        let target: i128 = *r.pick(&[-two64, -two64, -(two64 - 1), -(1i128 << 63), 0, 1i128 << 63, two64 - 1, two64, -two64 - 1, -5]);
        let k = r.range(2, 4);
        let mut steps: Vec<i128> = vec![];
        let mut sum: i128 = 0;
        for _ in 0..k - 1 {
            // a legal, non-zero step on the way to the target (same sign, not beyond it); towards 0: anything small
            let rest = target - sum;
            let a: i128 = if rest == 0 { let x = r.range(1, 1000) as i128; if r.chance(1, 2) { x } else { -x } }
                          else { let m = rest.unsigned_abs(); let mag = if m <= 1 { 1 } else { 1 + (r.next() as u128 | ((r.next() as u128) << 64)) % (m - 1).max(1) };
                                 let mag = mag.min((two64 - 1) as u128) as i128; if rest > 0 { mag } else { -mag } };
            steps.push(a); sum += a;
        }
        let last = target - sum;
        if last != 0 { steps.push(last); }
        for (i, a) in steps.iter().enumerate() {
            let txt = format!("{}", a);
            hist.push(match r.below(4) { 0 => Op::AddMint(p.clone(), n.clone(), txt), 1 if i == 0 => Op::Mint(true, p.clone(), n.clone(), txt), _ => Op::Mint(false, p.clone(), n.clone(), txt) });
        }
    }
    // mint histories over ALL mint entry points in sequence (set_mint_builder via `mint`, set_mint, set_mint_asset,
    // add_mint_asset, add_mint_asset_and_output*, remove_mint_builder), 2-4 steps on a small pool of (policy, name), kept in order
    if matches!(stream, 0 | 2 | 4 | 6 | 8) && r.chance(1, 3) {
        let steps = r.range(2, 4);
        for _ in 0..steps { let op = gen_mint_step(r, &utxos); hist.push(op); }
    }
    // phase 2 entry points: mint together with an output, deprecated setters
    if matches!(stream, 4 | 6 | 7) || r.chance(1, 10) {
        let nm = r.below(3);
        for _ in 0..nm {
            let amt: i128 = match r.below(8) { 0 => 0, 1 => -(r.range(1, 9) as i128), 2 => r.u64_edge() as i128, _ => r.range(1, 100_000) as i128 };
            let (p, n) = (policy_bytes(r.below(N_POLICIES)), gen_name(r));
            match r.below(3) {
                0 => pre.push(Op::MintOut(p, n, format!("{}", amt), r.range(1, 30), *r.pick(&[0u64, 0, 1, 2, 3]), b64(gen_coin(r, if edge { 3 } else { 1 })))),
                1 => pre.push(Op::MintOutMin(p, n, format!("{}", amt), r.range(1, 30), *r.pick(&[0u64, 0, 1, 2, 4]))),
                _ => pre.push(Op::AddMint(p, n, format!("{}", if r.chance(1, 3) { -amt } else { amt }))),
            }
        }
        if r.chance(1, 4) {
            let k = r.range(1, 3);
            let es = (0..k).map(|_| { let a: i128 = match r.below(6) { 0 => -(1i128 << 64), 1 => -(r.range(1, 50) as i128), _ => r.range(1, 1_000_000) as i128 }; (policy_bytes(r.below(N_POLICIES)), gen_name(r), format!("{}", a)) }).collect();
            // a Mint is a list: the same (policy, name) may occur twice, and set_mint then keeps the later quantity
            let mut es: Vec<(Vec<u8>, Vec<u8>, String)> = es;
            if r.chance(1, 2) { let (p0, n0, _) = es[0].clone(); es.push((p0, n0, format!("{}", r.range(1, 999)))); }
            pre.push(Op::DMint(r.chance(5, 6), es));
        }
        if r.chance(1, 3) { let cs = gen_certs(r, edge); let any_script = r.chance(1, 4); pre.push(Op::DCerts(cs.into_iter().map(|(t, c)| (t, c, any_script && r.chance(1, 2))).collect())); }
        if r.chance(1, 3) { let n = r.range(1, 3); let any_script = r.chance(1, 4); pre.push(Op::DWd((0..n).map(|_| (r.range(1, 6), b64(if edge { r.u64_edge() } else { r.range(0, 3_000_000) }), any_script && r.chance(1, 2))).collect())); }
    }
    if r.chance(1, 5) { pre.push(if r.chance(1, 2) { Op::Fee(b64(*r.pick(&[170_000u64, 200_000, 1_000_000, 0, 5_000_000]))) } else { Op::MinFee(b64(*r.pick(&[170_000u64, 250_000, 1_000_000, 0, 5_000_000]))) }); }
    shuffle(r, &mut pre);
    let change_addr = r.range(1, 30);
    match stream {
        7 => {
            // collateral inputs (ADA-only mostly), then balancing with the collateral return
            let ids: Vec<u64> = utxos.iter().map(|(i, _)| *i).collect();
            let ncol = r.range(0, 3);
            let mut cols = vec![];
            for k in 0..ncol {
                let id = 400 + 5 * k + r.below(4);
                let coin = if r.chance(1, 8) { r.u64_edge() } else { r.range(1_000_000, 20_000_000) };
                let na = r.range(1, 3);
                let assets = if r.chance(1, 4) { gen_degenerate_assets(r) } else if r.chance(1, 6) { gen_assets(r, na, n_pol, false) } else { None };
                utxos.push((id, Val { coin: b64(coin), assets }));
                cols.push(id);
            }
            pre.push(Op::Col(cols));
            if r.chance(1, 3) { pre.push(Op::In(*r.pick(&ids))); }
            post.push(Op::Pct(r.below(4) as u32, change_addr, *r.pick(&[0u64, 0, 1, 2, 3, 4]), b64(*r.pick(&[150u64, 150, 100, 0, 1, 1000, 1 << 40, u64::MAX])), ids));
            label = "pct";
        }
        5 => {
            let ids: Vec<u64> = utxos.iter().map(|(i, _)| *i).collect();
            // some inputs may already be in the builder
            if r.chance(1, 3) { pre.push(Op::In(*r.pick(&ids))); }
            post.push(Op::SelChange(r.below(4) as u32, change_addr, *r.pick(&[0u64, 0, 1, 2, 3, 4]), ids));
            label = "sel";
        }
        _ => {
            post.push(Op::Change(change_addr, *r.pick(&[0u64, 0, 0, 1, 2])));
            label = match stream { 0 => "ada", 1 => "tight", 2 => "assets", 3 => "pack", 4 => "mix", 8 => "degen", _ => "edge" };
        }
    }
    if r.chance(1, 10) { post.push(Op::Change(change_addr, 0)); }           // a second change attempt
    // mutations AFTER the balancing step and before build_tx (the final balance check has to see them): 0-2 operations
    // drawn from every mutator that takes part in the balance (and a few that do not)
    if r.chance(1, 3) {
        let has = |f: &dyn Fn(&Op) -> bool| pre.iter().any(|o| f(o));
        let n_mut = r.range(1, 2);
        for _ in 0..n_mut {
            // half of the time: take away something that is there
            let mut present: Vec<Op> = vec![];
            if has(&|o| matches!(o, Op::Wd(Some(_)) | Op::DWd(_))) { present.push(Op::Wd(None)); }
            if has(&|o| matches!(o, Op::Certs(Some(_)) | Op::DCerts(_))) { present.push(Op::Certs(None)); }
            if has(&|o| matches!(o, Op::Mint(..) | Op::AddMint(..) | Op::DMint(..) | Op::MintOut(..) | Op::MintOutMin(..))) { present.push(Op::RmMint); present.push(gen_mint_step(r, &utxos)); }
            if !present.is_empty() && r.chance(1, 2) { let k = r.below(present.len() as u64) as usize; post.push(present[k].clone()); continue; }
            let m = match r.below(16) {
                0 | 1 => if has(&|o| matches!(o, Op::Wd(Some(_)) | Op::DWd(_))) || r.chance(1, 3) { Op::Wd(None) } else { Op::Wd(Some(vec![(gen_reward_id(r), b64(r.range(1, 2_000_000))), (gen_reward_id(r), b64(r.range(1, 2_000_000)))])) },
                2 | 3 => if has(&|o| matches!(o, Op::Certs(Some(_)) | Op::DCerts(_))) || r.chance(1, 3) { Op::Certs(None) } else { Op::Certs(Some(gen_certs(r, false))) },
                4 => if r.chance(1, 2) { Op::RmMint } else { gen_mint_step(r, &utxos) },
                5 => if r.chance(1, 2) { gen_mint_step(r, &utxos) } else { Op::Don(b64(r.range(0, 2_000_000))) },
                55 => Op::Don(b64(r.range(0, 2_000_000))),
                6 => Op::Treas(b64(r.below(3) * 1_000_000_000)),
                7 => Op::Wd(Some(vec![(gen_reward_id(r), b64(r.range(0, 2_000_000))), (gen_reward_id(r), b64(r.range(1, 2_000_000)))])),
                8 => Op::Out(r.range(1, 30), 0, Val::ada(r.range(1_000_000, 3_000_000))),
                9 => { let (id, _) = r.pick(&utxos).clone(); Op::In(id) },
                10 => if r.chance(1, 2) { Op::Fee(b64(r.range(150_000, 2_000_000))) } else { Op::MinFee(b64(r.range(150_000, 2_000_000))) },
                11 => Op::KProps(vec![(0, b64(r.range(0, 3_000_000)))]),
                12 => Op::Props(Some(vec![b64(r.range(1, 3_000_000))])),
                13 => Op::Mint(false, policy_bytes(r.below(N_POLICIES)), gen_name(r), format!("{}", r.range(1, 1000))),
                14 => Op::DWd(vec![(r.range(1, 6), b64(r.range(1, 2_000_000)), false)]),
                _ => Op::Col(vec![]),
            };
            post.push(m);
        }
    }
    if r.chance(1, 15) { post.push(Op::Out(r.range(1, 30), 0, Val::ada(1_500_000))); }   // edits after balancing
    post.push(Op::Build);
    let mut ops = pre; ops.extend(hist); ops.extend(post);
    Scenario { label: label.to_string(), cfg, utxos, ops }
}

/// steer a scenario towards the exact / burn branches: dry-run everything before the change operation, then set the
/// amount of one fresh ADA-only UTxO so that inputs = outputs + fee + delta
fn steer(sc: &Scenario, delta: i64, r: &mut Rng) -> Option<Scenario> {
    let pos = sc.ops.iter().position(|o| matches!(o, Op::Change(..)))?;
    let fresh = 900 + r.below(50) * 5;
    let mut s2 = sc.clone();
    s2.utxos.push((fresh, Val::ada(1)));
    s2.ops.insert(pos, Op::In(fresh));
    let mut w = new_world(&s2);
    let mut last = None;
    for op in &s2.ops[..pos + 1] { run_op(&mut w, op, &mut last); }
    let r_ = catch(|| -> Option<u64> {
        let tin = w.tb.get_total_input().ok()?; let tout = w.tb.get_total_output().ok()?; let fee = w.tb.min_fee().ok()?;
        let need: u64 = tout.coin().checked_add(&fee).ok()?.into();
        let have: u64 = tin.coin().into();
        let x = (need as i128) - (have as i128 - 1) + delta as i128;
        if x >= 1 && x < (1i128 << 63) { Some(x as u64) } else { None }
    }).ok()??;
    s2.utxos.last_mut().unwrap().1 = Val::ada(r_);
    s2.label = format!("{}-steer", sc.label);
    Some(s2)
}

fn main() {
    if std::env::var("C05_LOUD").is_err() { silence_panics(); }
    let args: Vec<String> = std::env::args().collect();
    match args.get(1).map(|s| s.as_str()) {
        Some("gen") => {
            let mut out = Out::new(&args[2]);
            let mut r = Rng::new(seed_from_env());
            let n = if is_thorough() { 100000 } else { 2400 };
            for k in 0..n {
                let stream = match k % 16 { 0 | 1 => 0, 2 => 1, 3 | 4 => 2, 5 | 6 => 3, 7 | 8 => 4, 9 | 10 => 5, 11 => 6, 12 | 13 => 7, _ => 8 };
                let mut sc = gen_scenario(&mut r, stream);
                if matches!(stream, 0 | 1 | 2 | 4) && r.chance(1, 2) {
                    let delta = *r.pick(&[0i64, 0, 0, 0, 1, 1000, 500_000, 900_000, 1_200_000, -1, 2_000_000]);
                    if let Some(s2) = steer(&sc, delta, &mut r) { sc = s2; }
                }
                // label = generator stream : how the first balancing operation went on the implementation
                let shape = std::panic::catch_unwind(AssertUnwindSafe(|| exec_shape(&sc).1)).unwrap_or("scenario-panic".into());
                sc.label = format!("{}:{}", sc.label, shape);
                let line = sc.show();
                let toks: Vec<String> = line.split_whitespace().map(|s| s.to_string()).collect();
                let res = exec_line(&toks);
                out.emit(&line, &res);
            }
            out.finish();
        }
        Some("run") => {
            let cases = read_cases(&args[2]);
            let mut f = std::io::BufWriter::new(std::fs::File::create(&args[3]).unwrap());
            use std::io::Write;
            for (idx, toks) in cases { writeln!(f, "{} {}", idx, exec_line(&toks)).unwrap(); }
        }
        _ => { eprintln!("usage: c05 gen <dir> | c05 run <cases> <out>"); std::process::exit(2); }
    }
}
