//! C06 correspondence harness: the fee set by the transaction builder is always sufficient.
//! `c06 gen <dir>` generates scenarios from VERIF_SEED / VERIF_TIER and runs the implementation;
//! `c06 run <cases> <out>` runs the implementation on given case lines (replay / corpus).
//! (C06_LOUD=1 keeps the panic messages.)
//!
//! Case line (one line, space separated):
//!   <label> CFG <pool_deposit> <key_deposit> <prefer_pure 0|1> <do_not_burn 0|1> <cpb> <max_value_size> <max_tx_size> <fee_a> <fee_b>
//!           PR <~ | mem_num mem_den step_num step_den> <~ | ref_num ref_den>
//!           [DD <0|1>]
//!           U <n> { <id> <kind> <mem> <steps> <refsize> VALUE }*
//!           OB <n> { <addr> <extra> <obase> }*
//!           OPS <n> { OP }*
//!   VALUE := <coin> <k|~> { <policy hex> <name hex|-> <qty> }*k          (~ = no multiasset; entries applied with set_asset)
//!   OP    := in <id> | out <addr> <extra> VALUE | certs <n|~> { <tag> <coin|~> }* | wd <n|~> { <addr> <coin> }*
//!          | props <n|~> { <deposit> }* | mint <overwrite 0|1> <policy hex> <name hex|-> <amount>
//!          | don <c> | treas <c> | fee <c> | minfee <c> | change <addr> <extra>
//!          | selchange <strategy 0..3> <addr> <extra> <k> { <id> }* | build
//!          | x <tag> <n>          tag = sig | coll | colltotal | collret | ref | refplain | meta | ttl | datum
//!          | xr <id> <size>
//!   addr  = address id of a destination (>= 1; kind and bytes are a function of the id: enterprise, base, pointer,
//!           base with script stake part, one Byron address (id 4)); these addresses never sign.
//!   extra = 0 none, 1 datum hash, 2 inline datum, 3 script ref, 4 inline datum + script ref.
//!   PR    = ex-unit prices and reference-script price per byte of the builder configuration (~ = not configured).
//!   DD    = deduplicate_explicit_ref_inputs_with_regular_inputs of the builder configuration (absent = 0; always generated).
//!   U     = the UTxO table.  UTxO id i is outpoint (hash(i), i mod 7).  kind:
//!           0 key address (enterprise or base by (id/2) mod 2), payment key kh(id mod 12)
//!           1 Byron / Icarus address of bip32 key (id mod 3); protocol magic mainnet (no attributes) when (id/3) even,
//!             testnet 1097911063 (the address and its bootstrap witness carry the network-magic attribute) when odd:
//!             six distinct addresses, number id mod 6
//!           2 native script: (id/2) even -> ScriptPubkey kh(id mod 12); odd -> ScriptAll [kh(id mod 12), kh((id+1) mod 12)];
//!             but for (id/4) mod 3 = 2 the SHARED script ScriptAny [kh(g), kh(g+1)], g = id mod 3, whose source DECLARES its
//!             signer (set_required_signers): [kh(g)] when (id/12) even, [kh(g+1)] when odd -- that declared key signs
//!           3 Plutus V2 script in the witness set, INLINE datum on the UTxO (PlutusWitness::new_without_datum)
//!           4 Plutus V2 script in the witness set, WITNESS datum (PlutusWitness::new; datum = bytes of length 1 + id mod 40)
//!           5 Plutus V2 script BY REFERENCE, inline datum (new_with_ref_without_datum)
//!           6 Plutus V2 script BY REFERENCE, witness datum (new_with_ref + DatumSource::new)
//!           7 the Plutus script that kinds 5/6 with the same <refsize> reference, but INLINE in the witness set, inline datum
//!           8 the same with a witness datum
//!           9 native script BY REFERENCE (NativeScriptSource::new_ref_input, script_size = <refsize>): the script is
//!             ScriptPubkey kh(S mod 12) for even S = <refsize>, ScriptAll [kh(S mod 12), kh((S+1) mod 12)] for odd S; its
//!             keys are declared (set_required_signers) and sign
//!           3..8: spend redeemer with ExUnits(<mem>, <steps>); mem = steps = 0 for kinds 0..2 and 9.
//!           <refsize>, kinds 5..9: names the script (equal sizes = one script, one hash); for 5/6/9 it is also the declared
//!           script_size, and the reference outpoint is f(class, <refsize>, id mod 2), class = plutus (5/6) | native (9):
//!           two such UTxOs with ids of different parity name two DIFFERENT reference UTxOs carrying the same script.
//!           Kinds 5..9 carry no script_ref of their own (0 reference-script bytes for the spent UTxO itself).
//!           <refsize> > 0, kinds 0..4: the UTxO's OWN output carries a script_ref (content a function of id) with
//!           ScriptRef::to_unwrapped_bytes().len() = <refsize>; its kind by id mod 4: 0 native script (ScriptAll of key
//!           hashes and 3-byte time locks), 1 Plutus V1, 2 Plutus V2, 3 Plutus V3.
//!   in id = the UTxO goes into ONE TxInputsBuilder (all kinds), re-installed with set_inputs after each `in`.  Route (a
//!           static function of the case; XR = the ids that have an `xr` op anywhere in OPS):
//!           UTxO form (add_regular_utxo / add_native_script_utxo / add_plutus_script_utxo with the UTxO's output) for
//!             kinds 0..4 with refsize > 0 unless (id in XR and id mod 3 != 0), and for refsize = 0 (or kinds 5..9) with odd id;
//!           ADDRESS form otherwise: add_key_input (id mod 4 = 0) / add_regular_input (else) for kind 0, add_bootstrap_input
//!             (id mod 4 = 0) / add_regular_input for kind 1, add_native_script_input, add_plutus_script_input.  (An input with
//!             its own script_ref in address form: the builder learns the script size only from the xr registration.)
//!           selchange offers kind-0 and kind-1 UTxOs (with their own script_ref, if any); never one that is in XR.
//!   xr id size = add_script_reference_input(outpoint of UTxO id, size): an explicit reference input with a DECLARED script
//!           size.  The UTxO may also be spent (before or after), be a collateral, or neither; a second xr for the same id
//!           overwrites the declared size.
//!   OB    = for every (addr, extra) pair of an out / change / selchange op, in order of first occurrence:
//!           obase = |output(addr, extra, ADA-only value 0)| - 1  (the bytes of such an output outside its Value)
//!   x sig k        add_required_signer(kh(k))
//!   x coll id      UTxO id (kind 0 or 1) becomes a collateral input (set_collateral; address form, no script_ref)
//!   x colltotal n  set_total_collateral(n)
//!   x collret a    set_collateral_return(output(address a, 2000000 lovelace))
//!   x ref size     add_script_reference_input(fresh outpoint, size)     (fresh: numbered by the count of x ref ops so far)
//!   x refplain n   add_reference_input(outpoint number n)
//!   x meta n       metadatum label 674 := list of texts (64-byte chunks) with n bytes in all
//!   x ttl n        set_ttl_bignum(n)
//!   x datum n      add_extra_witness_datum(bytes [0xd0 + n mod 16; n])
//!   Keys: sk(k) is a real Ed25519 key, kh(k) its hash.  Certificate number i of a `certs` op has credential kh((i + 5) mod 12)
//!   (tag 4: that key is the pool operator); for i mod 4 = 3 and tag in {1,2,8,9,16,17,18} the credential is the SCRIPT hash of
//!   ScriptPubkey kh((i + 5) mod 12), added with add_with_native_script (that key signs).
//!   Withdrawal <addr>: 21..31 -> script credential = hash of ScriptPubkey kh(addr - 20), add_with_native_script (that key
//!   signs); 41..51 -> script credential = hash of a Plutus V2 script (bytes depend on addr), add_with_plutus_witness without
//!   datum, Reward redeemer with ExUnits(addr * 1000, addr * 1000000); 61..71 -> the Plutus script BY REFERENCE that kinds
//!   5/6 of refsize S = WDREF[addr - 61] use, WDREF = [100, 2500, 14000, 25599, 25600, 25601, 51200, 60000, 200000, 3, 30],
//!   reference outpoint f(plutus, S, 0) (the one an even-id kind-5/6 UTxO of that size names), same redeemer convention;
//!   otherwise key credential kh(addr mod 12).
//!   Minting policy i is ScriptPubkey kh(1000 + i).  Before the first change / selchange op, when a Plutus input or Plutus
//!   withdrawal is present, the harness calls calc_script_data_hash (dummy V2 cost model) so that build_tx passes its pre-checks.
//!
//! Result line (implementation):
//!   ok R <n> {ok|t|f|err|panic}*
//!      S <fee|~> <nouts> {<addr> <extra> VALUE}* <nins> {<id>}*
//!      FIN <full_size|~> <min_fee_pub|~>
//!      TX  <~ | <fee> <signed_size> <nvkeys> <nboot> <mem> <steps> <refsize>>
//!      UNS <~ | <fee> <signed_size> <nvkeys> <nboot> <mem> <steps> <refsize>>
//!      POL <u | n <r> | e <f>>
//!      ORA <nops> { <k> {<site> <answer|e>}*k <~ | <ok 0|1> <m> {<id>}*m> <K|~> }*
//!   R    result per op.   S the builder's state at the end.   FIN full_size() and the public min_fee() at the end.
//!   TX   the transaction of the LAST build op when that op succeeded, REALLY signed: one vkey witness per distinct key the
//!        ledger requires (payment keys of key inputs and key collateral, keys of native-script inputs, certificate
//!        credentials (all generated tags but 0; the key of a native-script credential), withdrawal keys (the key of a
//!        native-script reward credential; none for Plutus), required signers, minting-policy keys), one bootstrap
//!        witness per distinct Byron address among inputs and collateral.  The signing set is read off the BODY (inputs,
//!        collateral, certs, withdrawals, mint, required_signers) and the scenario's UTxO table, never off the builder's own
//!        counting.  mem / steps = sums over the redeemers of the witness set; refsize = the LEDGER rule on the body: over
//!        the set of outpoints body.inputs + body.reference_inputs (each once) the true script bytes on the outpoint: a
//!        scenario UTxO of kinds 0..4 -> its <refsize> (not what an xr declared), a reference outpoint f(class, S, v) of a
//!        by-reference script (kinds 5/6/9, withdrawals 61..71) -> S, a fresh `x ref` outpoint -> its size, `x refplain`
//!        outpoints and the spent UTxOs of kinds 5..9 themselves -> 0.
//!   UNS  the same figures for build_tx_unsafe() at the very end (when a fee is set and it succeeds).
//!   POL  the fee request at the end: u nothing, n r = the last of the fee/minfee ops was minfee r, e f = it was fee f.
//!   ORA  per op what hook H5 (rust/src/verif_oracle.rs) recorded (sites F A S T; marker C filtered; for selchange only the
//!        part from the first C on), the coin selection's own outcome for selchange, and K:
//!        K = |fake full transaction| - |fee integer| - |outputs array (header + outputs)| of the builder the change
//!        algorithm starts from: measured on a clone (set_fee 0) immediately before a change / build op; for selchange on a
//!        clone AFTER add_inputs_from (the state at the first C marker; ~ when the selection failed).  ~ for other ops.
//!   If the scenario panics outside a guarded op the line is `panic`.
#![allow(deprecated)]
use cardano_serialization_lib::verif_hooks::verif_set_rng_script;
use cardano_serialization_lib::verif_oracle::*;
use cardano_serialization_lib::*;
use csl_verif_harness::util::*;
use std::cell::RefCell;
use std::collections::{BTreeSet, HashMap};
use std::panic::AssertUnwindSafe;

fn bn(s: &str) -> BigNum { BigNum::from_str(s).expect("u64 in case") }
fn b64(v: u64) -> BigNum { BigNum::from(v) }
fn u64of(b: &BigNum) -> u64 { b.clone().into() }

fn fill(i: u64, domain: u8, n: usize) -> Vec<u8> {
    let mut r = Rng::new(i ^ ((domain as u64) << 40) ^ 0xC06C06);
    let mut v = r.bytes(n);
    v[0] = domain;
    v
}
/// hashes that never sign (delegation targets, destination addresses ...)
fn keyhash(i: u64, d: u8) -> Ed25519KeyHash { Ed25519KeyHash::from_bytes(fill(i, d, 28)).unwrap() }
fn scripthash(i: u64, d: u8) -> ScriptHash { ScriptHash::from_bytes(fill(i, d, 28)).unwrap() }
fn kcred(i: u64, d: u8) -> Credential { Credential::from_keyhash(&keyhash(i, d)) }
fn anchor(i: u64, d: u8) -> Anchor {
    Anchor::new(&URL::new(format!("https://a.example/{}", i)).unwrap(), &AnchorDataHash::from_bytes(fill(i, d, 32)).unwrap())
}
fn drep(i: u64) -> DRep {
    match i % 4 {
        0 => DRep::new_always_abstain(),
        1 => DRep::new_always_no_confidence(),
        2 => DRep::new_key_hash(&keyhash(i, 9)),
        _ => DRep::new_script_hash(&scripthash(i, 9)),
    }
}

// ------------------------------------------------------------------------------------------------
// real keys
const POOL: u64 = 12;
const CERT_OFFSET: u64 = 5;
const N_POLICIES: u64 = 6;
fn sk(k: u64) -> PrivateKey { PrivateKey::from_normal_bytes(&Rng::new(0xC06_0000 ^ k).bytes(32)).unwrap() }
thread_local! {
    static KEY_HASHES: RefCell<HashMap<u64, Ed25519KeyHash>> = RefCell::new(HashMap::new());
    static BYRON_KEYS: Vec<Vec<u8>> = (0..3u64).map(|a| Bip32PrivateKey::from_bip39_entropy(&entropy_from(a), &[]).as_bytes()).collect();
}
fn kh(k: u64) -> Ed25519KeyHash {
    KEY_HASHES.with(|t| t.borrow_mut().entry(k).or_insert_with(|| sk(k).to_public().hash()).clone())
}
fn key_cred(k: u64) -> Credential { Credential::from_keyhash(&kh(k)) }
fn entropy_from(a: u64) -> Vec<u8> { Rng::new(0xB1_0000 ^ a).bytes(32) }
fn byron_key(a: u64) -> Bip32PrivateKey { BYRON_KEYS.with(|t| Bip32PrivateKey::from_bytes(&t[(a % 3) as usize]).unwrap()) }
/// Byron address number a = id mod 9: key a mod 3; 0..2 mainnet Icarus (no attributes), 3..5 testnet-magic Icarus (network-magic attribute), 6..8 Daedalus
const TESTNET_MAGIC: u32 = 1097911063;
/// numbers 6..8: legacy Daedalus-style mainnet addresses (their attributes hold the 30-byte HD derivation-path payload:
/// 34 attribute bytes); the bootstrap witness the harness attaches copies the attributes of the address it is for
const DAEDALUS: [&str; 3] = [
    "DdzFFzCqrhsrcTVhLygT24QwTnNqQqQ8mZrq5jykUzMveU26sxaH529kMpo7VhPrt5pwW3dXeB2k3EEvKcNBRmzCfcQ7dTkyGzTs658C",
    "DdzFFzCqrht4it4GYgBp4J39FNnKBsPFejSppARXHCf2gGiTJcwXzpRvgDmxPvKQ8aZZmVqcLUz5L66a8Ja46pfKVtFRaKyn9eKdvpaC",
    "DdzFFzCqrhsvNQtyViTvEdGxfdc5T1E5RorzFWjYodqjhFDy8fQxfDPccmTc4ePbvkiwvRkR8dtqQ1SHpH53fDSoxD17fo9f6WkRjjAA"];
fn byron_addr(a: u64) -> ByronAddress {
    let a = a % 9;
    if a >= 6 { return ByronAddress::from_base58(DAEDALUS[(a - 6) as usize]).unwrap(); }
    let magic = if a < 3 { NetworkInfo::mainnet().protocol_magic() } else { TESTNET_MAGIC };
    ByronAddress::icarus_from_key(&byron_key(a).to_public(), magic)
}

/// the six minting policies: native scripts (one signature each, a real key); policy id = script hash
fn policy_script(i: u64) -> NativeScript { NativeScript::new_script_pubkey(&ScriptPubkey::new(&kh(1000 + i))) }
/// policies with an odd index are supplied BY REFERENCE INPUT (outpoint ref_outpoint(43, i), declared script size 0 so that the
/// reference-script fee of the model is unaffected) and DECLARE their signers: the policy key and key 400 + i, which nothing
/// else requires; even indices: the script inline
fn mint_by_ref(i: u64) -> bool { i % 2 == 1 }
fn mint_declared(i: u64) -> Vec<u64> { if mint_by_ref(i) { vec![1000 + i, 400 + i] } else { vec![1000 + i] } }
fn mint_source(i: u64) -> NativeScriptSource {
    if !mint_by_ref(i) { return NativeScriptSource::new(&policy_script(i)); }
    let mut src = NativeScriptSource::new_ref_input(&policy_script(i).hash(), &ref_outpoint(43, i), 0);
    let mut ks = Ed25519KeyHashes::new();
    for k in mint_declared(i) { ks.add(&kh(k)); }
    src.set_required_signers(&ks);
    src
}

/// address id -> destination address (id >= 1).  Kinds: enterprise key, base key/key, pointer, base key/script, one Byron address.
fn address(id: u64) -> Address {
    match id % 5 {
        0 => EnterpriseAddress::new(0, &kcred(id, 20)).to_address(),
        1 => BaseAddress::new(1, &kcred(id, 20), &kcred(id, 21)).to_address(),
        2 => PointerAddress::new(0, &kcred(id, 20), &Pointer::new_pointer(&b64(id * 1000), &b64(3), &b64(id))).to_address(),
        3 => BaseAddress::new(0, &kcred(id, 20), &Credential::from_scripthash(&scripthash(id, 22))).to_address(),
        _ => {
            if id == 4 {
                ByronAddress::from_base58("Ae2tdPwUPEZ5uzkzh1o2DHECiUi3iugvnnKHRisPgRRP3CTF4KCMvy54Xd3").unwrap().to_address()
            } else {
                EnterpriseAddress::new(1, &kcred(id, 20)).to_address()
            }
        }
    }
}
fn utxo_input(id: u64) -> TransactionInput {
    let mut h = fill(id, 30, 32);
    h[1..9].copy_from_slice(&id.to_be_bytes());
    TransactionInput::new(&TransactionHash::from_bytes(h).unwrap(), (id % 7) as u32)
}
fn utxo_id_of(input: &TransactionInput) -> u64 {
    let h = input.transaction_id().to_bytes();
    let mut a = [0u8; 8];
    a.copy_from_slice(&h[1..9]);
    u64::from_be_bytes(a)
}
/// outpoints that are never spent: reference inputs
fn ref_outpoint(domain: u8, n: u64) -> TransactionInput {
    TransactionInput::new(&TransactionHash::from_bytes(fill(n, domain, 32)).unwrap(), (n % 4) as u32)
}

fn datum_hash() -> DataHash { DataHash::from_bytes(vec![0xd7; 32]).unwrap() }
fn inline_datum() -> PlutusData { PlutusData::new_integer(&BigInt::from_str("1234567890123").unwrap()) }
fn ref_script() -> ScriptRef { ScriptRef::new_native_script(&policy_script(77)) }

fn mk_output(addr: u64, extra: u64, v: &Value) -> TransactionOutput {
    let mut o = TransactionOutput::new(&address(addr), v);
    match extra {
        1 => o.set_data_hash(&datum_hash()),
        2 => o.set_plutus_data(&inline_datum()),
        3 => o.set_script_ref(&ref_script()),
        4 => { o.set_plutus_data(&inline_datum()); o.set_script_ref(&ref_script()); }
        _ => {}
    }
    o
}
fn obase(addr: u64, extra: u64) -> usize { mk_output(addr, extra, &Value::new(&b64(0))).to_bytes().len() - 1 }
fn extra_of(o: &TransactionOutput) -> u64 {
    match (o.has_data_hash(), o.has_plutus_data(), o.has_script_ref()) {
        (true, _, false) => 1,
        (false, true, false) => 2,
        (false, false, true) => 3,
        (false, true, true) => 4,
        (false, false, false) => 0,
        _ => 9,
    }
}

// UTxO owners ------------------------------------------------------------------------------------
fn utxo_key(id: u64) -> u64 { id % POOL }
fn utxo_address(id: u64, kind: u32) -> Option<Address> {
    match kind {
        0 => Some(if (id / 2) % 2 == 0 { EnterpriseAddress::new(1, &key_cred(utxo_key(id))).to_address() }
                  else { BaseAddress::new(1, &key_cred(utxo_key(id)), &key_cred((id + 5) % POOL)).to_address() }),
        1 => Some(byron_addr(id % 9).to_address()),
        _ => None,
    }
}
/// kind 2 with a script shared between ids (ScriptAny of two keys) and a declared signer
fn native_shared(id: u64) -> bool { (id / 4) % 3 == 2 }
/// the keys that sign for a kind-2 input: all keys of its own script, or the one its source declares
fn utxo_native_keys(id: u64) -> Vec<u64> {
    if native_shared(id) { vec![id % 3 + (id / 12) % 2] }
    else if (id / 2) % 2 == 0 { vec![utxo_key(id)] } else { vec![utxo_key(id), (utxo_key(id) + 1) % POOL] }
}
fn pubkey_script(k: u64) -> NativeScript { NativeScript::new_script_pubkey(&ScriptPubkey::new(&kh(k))) }
fn utxo_native_script(id: u64) -> NativeScript {
    if native_shared(id) {
        let mut any = NativeScripts::new();
        for k in [id % 3, id % 3 + 1] { any.add(&pubkey_script(k)); }
        return NativeScript::new_script_any(&ScriptAny::new(&any));
    }
    let ks = utxo_native_keys(id);
    if ks.len() == 1 { pubkey_script(ks[0]) } else {
        let mut all = NativeScripts::new();
        for k in &ks { all.add(&pubkey_script(*k)); }
        NativeScript::new_script_all(&ScriptAll::new(&all))
    }
}
fn utxo_native_source(id: u64) -> NativeScriptSource {
    let mut src = NativeScriptSource::new(&utxo_native_script(id));
    if native_shared(id) {
        let mut ks = Ed25519KeyHashes::new();
        for k in utxo_native_keys(id) { ks.add(&kh(k)); }
        src.set_required_signers(&ks);
    }
    src
}
fn plutus_script(id: u64) -> PlutusScript {
    let mut bytes = vec![0x4du8, 0x01, 0x00, 0x00];
    bytes.extend_from_slice(&(id % 2).to_be_bytes());
    PlutusScript::new_v2(bytes)
}
fn witness_datum(id: u64) -> PlutusData { PlutusData::new_bytes(vec![0xa0 + (id % 16) as u8; 1 + (id % 40) as usize]) }
/// by-reference scripts are named by their size S: the Plutus V2 script of kinds 5..8 and withdrawals 61..71, the native
/// script of kind 9; the reference UTxO carrying it is f(class, S, variant)
fn ref_plutus_script(s: u64) -> PlutusScript {
    let mut bytes = vec![0x4fu8, 0x01, 0x00, 0x00];
    bytes.extend_from_slice(&s.to_be_bytes());
    PlutusScript::new_v2(bytes)
}
fn ref_native_keys(s: u64) -> Vec<u64> { if s % 2 == 0 { vec![s % POOL] } else { vec![s % POOL, (s + 1) % POOL] } }
fn ref_native_script(s: u64) -> NativeScript {
    let ks = ref_native_keys(s);
    if ks.len() == 1 { pubkey_script(ks[0]) } else {
        let mut all = NativeScripts::new();
        for k in &ks { all.add(&pubkey_script(*k)); }
        NativeScript::new_script_all(&ScriptAll::new(&all))
    }
}
fn script_ref_outpoint(native: bool, s: u64, variant: u64) -> TransactionInput { ref_outpoint(if native { 42 } else { 41 }, s * 2 + variant % 2) }
/// signers DECLARED on a Plutus script source that sits in a reference input (set_required_signers): keys nothing else in
/// the scenarios requires (200.., 300..); they must sign, so the builder has to count them
fn ref_plutus_declared(id: u64) -> Vec<u64> {
    match id % 3 { 0 => vec![200 + id % 7], 1 => vec![200 + id % 7, 210 + id % 5], _ => vec![] }
}
fn wd_ref_declared(a: u64) -> Vec<u64> { if a % 2 == 1 { vec![300 + a] } else { vec![] } }
fn ref_plutus_source(s: u64, variant: u64, declared: &[u64]) -> PlutusScriptSource {
    let mut src = PlutusScriptSource::new_ref_input(&ref_plutus_script(s).hash(), &script_ref_outpoint(false, s, variant), &Language::new_plutus_v2(), s as usize);
    if !declared.is_empty() {
        let mut ks = Ed25519KeyHashes::new();
        for k in declared { ks.add(&kh(*k)); }
        src.set_required_signers(&ks);
    }
    src
}
fn ref_native_source(s: u64, variant: u64) -> NativeScriptSource {
    let mut src = NativeScriptSource::new_ref_input(&ref_native_script(s).hash(), &script_ref_outpoint(true, s, variant), s as usize);
    let mut ks = Ed25519KeyHashes::new();
    for k in ref_native_keys(s) { ks.add(&kh(k)); }
    src.set_required_signers(&ks);
    src
}
const WDREF: [u64; 11] = [100, 2500, 14000, 25599, 25600, 25601, 51200, 60000, 200000, 3, 30];
fn plutus_witness(u: &U) -> PlutusWitness {
    let data = PlutusData::new_integer(&BigInt::from_str(&u.id.to_string()).unwrap());
    let red = Redeemer::new(&RedeemerTag::new_spend(), &b64(0), &data, &ExUnits::new(&b64(u.mem), &b64(u.steps)));
    match u.kind {
        3 => PlutusWitness::new_without_datum(&plutus_script(u.id), &red),
        4 => PlutusWitness::new(&plutus_script(u.id), &witness_datum(u.id), &red),
        5 => PlutusWitness::new_with_ref_without_datum(&ref_plutus_source(u.refsize, u.id, &ref_plutus_declared(u.id)), &red),
        6 => PlutusWitness::new_with_ref(&ref_plutus_source(u.refsize, u.id, &ref_plutus_declared(u.id)), &DatumSource::new(&witness_datum(u.id)), &red),
        7 => PlutusWitness::new_without_datum(&ref_plutus_script(u.refsize), &red),
        _ => PlutusWitness::new(&ref_plutus_script(u.refsize), &witness_datum(u.id), &red),
    }
}
/// the script_ref a UTxO of kinds 0..4 carries itself, of exactly `refsize` bytes as "script" of the CDDL; its kind by
/// id mod 4.  Plutus V1/V2/V3: [lang, bytes]: 2 + |head(len)| + len.  Native: [0, [1, [n key hashes, m time locks]]]:
/// 4 + |head(n + m)| + 32 n + 3 m with the least m (< 32) that fits.
fn bstr_head(l: usize) -> usize { if l < 24 { 1 } else if l < 256 { 2 } else if l < 65536 { 3 } else { 5 } }
fn own_ref_len(refsize: u64) -> Option<usize> {
    [1usize, 2, 3, 5].iter().find_map(|h| { let l = (refsize as usize).checked_sub(2 + h)?; if bstr_head(l) == *h { Some(l) } else { None } })
}
fn own_native_params(refsize: u64) -> Option<(usize, usize)> {
    [1usize, 2, 3].iter().find_map(|h| {
        let rest = (refsize as usize).checked_sub(4 + h)?;
        let m = (rest * 11) % 32;                       // 3 m = rest (mod 32)
        let n = rest.checked_sub(3 * m)? / 32;
        if bstr_head(n + m) == *h { Some((n, m)) } else { None }
    })
}
fn own_script_ref(id: u64, refsize: u64) -> Option<ScriptRef> {
    if id % 4 == 0 {
        let (n, m) = own_native_params(refsize)?;
        let mut all = NativeScripts::new();
        for i in 0..n as u64 {
            let mut h = vec![61u8; 28];
            h[1..9].copy_from_slice(&id.to_be_bytes()); h[9..17].copy_from_slice(&i.to_be_bytes());
            all.add(&NativeScript::new_script_pubkey(&ScriptPubkey::new(&Ed25519KeyHash::from_bytes(h).unwrap())));
        }
        for i in 0..m as u64 { all.add(&NativeScript::new_timelock_start(&TimelockStart::new_timelockstart(&b64(i % 24)))); }
        Some(ScriptRef::new_native_script(&NativeScript::new_script_all(&ScriptAll::new(&all))))
    } else {
        let len = own_ref_len(refsize)?;
        let bytes = if len == 0 { vec![] } else { fill(id, 60, len) };
        Some(ScriptRef::new_plutus_script(&match id % 4 { 1 => PlutusScript::new(bytes), 2 => PlutusScript::new_v2(bytes), _ => PlutusScript::new_v3(bytes) }))
    }
}
/// the output a UTxO holds, as the builder is shown it in UTxO form
fn utxo_output(u: &U) -> Result<TransactionOutput, JsError> {
    let script_addr = |h: &ScriptHash| EnterpriseAddress::new(1, &Credential::from_scripthash(h)).to_address();
    let addr = match u.kind {
        0 | 1 => utxo_address(u.id, u.kind).unwrap(),
        2 => script_addr(&utxo_native_script(u.id).hash()),
        3 | 4 => script_addr(&plutus_script(u.id).hash()),
        5..=8 => script_addr(&ref_plutus_script(u.refsize).hash()),
        9 => script_addr(&ref_native_script(u.refsize).hash()),
        _ => return Err(JsError::from_str("unknown utxo kind")),
    };
    let mut o = TransactionOutput::new(&addr, &u.val.to_value());
    match u.kind { 3 | 5 | 7 => o.set_plutus_data(&inline_datum()), 4 | 6 | 8 => o.set_data_hash(&hash_plutus_data(&witness_datum(u.id))), _ => {} }
    if u.kind <= 4 && u.refsize > 0 {
        let sr = own_script_ref(u.id, u.refsize).ok_or(JsError::from_str("no own script_ref of that size"))?;
        assert_eq!(sr.to_unwrapped_bytes().len() as u64, u.refsize, "own script_ref size");
        o.set_script_ref(&sr);
    }
    Ok(o)
}
fn has_own_ref(u: &U) -> bool { u.kind <= 4 && u.refsize > 0 }

/// A real certificate of CDDL kind `tag`; its credential is the real key kh((i + CERT_OFFSET) mod POOL).
fn cert_key(i: u64) -> u64 { (i + CERT_OFFSET) % POOL }
fn cert_is_scripted(tag: u32, i: u64) -> bool { i % 4 == 3 && matches!(tag, 1 | 2 | 8 | 9 | 16 | 17 | 18) }
fn mk_cert(tag: u32, coin: Option<BigNum>, i: u64) -> Certificate {
    let c = if cert_is_scripted(tag, i) { Credential::from_scripthash(&pubkey_script(cert_key(i)).hash()) } else { key_cred(cert_key(i)) };
    let pool = keyhash(i, 2);
    let odd = i % 2 == 1;
    let amt = || coin.clone().expect("coin for this kind");
    match tag {
        0 => Certificate::new_stake_registration(&StakeRegistration::new(&c)),
        1 => Certificate::new_stake_deregistration(&StakeDeregistration::new(&c)),
        2 => Certificate::new_stake_delegation(&StakeDelegation::new(&c, &pool)),
        4 => Certificate::new_pool_retirement(&PoolRetirement::new(&kh(cert_key(i)), 100 + i as u32)),
        7 => Certificate::new_reg_cert(&StakeRegistration::new_with_explicit_deposit(&c, &amt())).unwrap(),
        8 => Certificate::new_unreg_cert(&StakeDeregistration::new_with_explicit_refund(&c, &amt())).unwrap(),
        9 => Certificate::new_vote_delegation(&VoteDelegation::new(&c, &drep(i))),
        16 => Certificate::new_drep_registration(&if odd { DRepRegistration::new(&c, &amt()) } else { DRepRegistration::new_with_anchor(&c, &amt(), &anchor(i, 12)) }),
        17 => Certificate::new_drep_deregistration(&DRepDeregistration::new(&c, &amt())),
        18 => Certificate::new_drep_update(&if odd { DRepUpdate::new(&c) } else { DRepUpdate::new_with_anchor(&c, &anchor(i, 12)) }),
        _ => panic!("certificate tag outside the C06 set"),
    }
}
const CERT_TAGS: [u32; 10] = [0, 1, 2, 4, 7, 8, 9, 16, 17, 18];
fn tag_has_coin(tag: u32) -> bool { matches!(tag, 7 | 8 | 11 | 12 | 13 | 16 | 17) }

/// the credential that has to witness a certificate read back from a body (ledger table, the kinds generated here)
fn cert_witness_cred(c: &Certificate) -> Option<Credential> {
    match c.kind() {
        CertificateKind::StakeRegistration => { let x = c.as_stake_registration().or(c.as_reg_cert()).unwrap(); if x.coin().is_some() { Some(x.stake_credential()) } else { None } }
        CertificateKind::StakeDeregistration => Some(c.as_stake_deregistration().or(c.as_unreg_cert()).unwrap().stake_credential()),
        CertificateKind::StakeDelegation => Some(c.as_stake_delegation().unwrap().stake_credential()),
        CertificateKind::PoolRetirement => Some(Credential::from_keyhash(&c.as_pool_retirement().unwrap().pool_keyhash())),
        CertificateKind::VoteDelegation => Some(c.as_vote_delegation().unwrap().stake_credential()),
        CertificateKind::DRepRegistration => Some(c.as_drep_registration().unwrap().voting_credential()),
        CertificateKind::DRepDeregistration => Some(c.as_drep_deregistration().unwrap().voting_credential()),
        CertificateKind::DRepUpdate => Some(c.as_drep_update().unwrap().voting_credential()),
        k => panic!("certificate kind {:?} outside the C06 set", k),
    }
}

fn mk_proposal(deposit: &BigNum, i: u64) -> VotingProposal {
    let action = match i % 3 {
        0 => GovernanceAction::new_info_action(&InfoAction::new()),
        1 => GovernanceAction::new_no_confidence_action(&NoConfidenceAction::new()),
        _ => GovernanceAction::new_new_constitution_action(&NewConstitutionAction::new(&Constitution::new(&anchor(i, 13)))),
    };
    VotingProposal::new(&action, &anchor(i, 14), &RewardAddress::new(0, &kcred(i, 15)), deposit)
}
fn wd_plutus_script(id: u64) -> PlutusScript { PlutusScript::new_v2(vec![0x4e, 0x01, 0x00, 0x00, id as u8, (id >> 8) as u8]) }
fn reward_address(id: u64) -> RewardAddress {
    match id {
        21..=31 => RewardAddress::new(1, &Credential::from_scripthash(&pubkey_script(id - 20).hash())),
        41..=51 => RewardAddress::new(1, &Credential::from_scripthash(&wd_plutus_script(id).hash())),
        61..=71 => RewardAddress::new(1, &Credential::from_scripthash(&ref_plutus_script(WDREF[(id - 61) as usize]).hash())),
        _ => RewardAddress::new(1, &key_cred(id % POOL)),
    }
}

// ------------------------------------------------------------------------------------------------
// scenario data

#[derive(Clone, Debug)]
struct Val { coin: BigNum, assets: Option<Vec<(Vec<u8>, Vec<u8>, BigNum)>> }
impl Val {
    fn ada(c: u64) -> Val { Val { coin: b64(c), assets: None } }
    fn to_value(&self) -> Value {
        let mut v = Value::new(&self.coin);
        if let Some(es) = &self.assets {
            let mut ma = MultiAsset::new();
            for (p, n, q) in es {
                ma.set_asset(&ScriptHash::from_bytes(p.clone()).unwrap(), &AssetName::new(n.clone()).unwrap(), q);
            }
            v.set_multiasset(&ma);
        }
        v
    }
    fn show(&self) -> String {
        let mut s = self.coin.to_str();
        match &self.assets {
            None => s.push_str(" ~"),
            Some(es) => {
                s.push_str(&format!(" {}", es.len()));
                for (p, n, q) in es { s.push_str(&format!(" {} {} {}", hex::encode(p), hex_or_dash(n), q.to_str())); }
            }
        }
        s
    }
}
fn show_value(v: &Value) -> String {
    let mut s = v.coin().to_str();
    match v.multiasset() {
        None => s.push_str(" ~"),
        Some(ma) => {
            let mut es = vec![];
            let pols = ma.keys();
            for i in 0..pols.len() {
                let p = pols.get(i);
                let assets = ma.get(&p).unwrap();
                let names = assets.keys();
                for j in 0..names.len() {
                    let n = names.get(j);
                    es.push(format!("{} {} {}", hex::encode(p.to_bytes()), hex_or_dash(&n.name()), assets.get(&n).unwrap().to_str()));
                }
            }
            let empties = (0..pols.len()).filter(|i| ma.get(&pols.get(*i)).unwrap().len() == 0).count();
            s.push_str(&format!(" {}", es.len()));
            for e in es { s.push(' '); s.push_str(&e); }
            if empties > 0 { s.push_str(&format!(" E{}", empties)); }
        }
    }
    s
}

#[derive(Clone, Debug)]
struct U { id: u64, kind: u32, mem: u64, steps: u64, refsize: u64, val: Val }
impl U { fn key(id: u64, val: Val) -> U { U { id, kind: 0, mem: 0, steps: 0, refsize: 0, val } } }

#[derive(Clone, Debug)]
enum Op {
    In(u64),
    Out(u64, u64, Val),
    Certs(Option<Vec<(u32, Option<BigNum>)>>),
    Wd(Option<Vec<(u64, BigNum)>>),
    Props(Option<Vec<BigNum>>),
    Mint(bool, Vec<u8>, Vec<u8>, String),
    Don(BigNum), Treas(BigNum), Fee(BigNum), MinFee(BigNum),
    Change(u64, u64),
    SelChange(u32, u64, u64, Vec<u64>),
    Build,
    X(String, u64),
    Xr(u64, u64),
}
fn opt_bn_s(o: &Option<BigNum>) -> String { match o { Some(v) => v.to_str(), None => "~".into() } }
impl Op {
    fn show(&self) -> String {
        match self {
            Op::In(i) => format!("in {}", i),
            Op::Out(a, e, v) => format!("out {} {} {}", a, e, v.show()),
            Op::Certs(None) => "certs ~".into(),
            Op::Certs(Some(cs)) => { let mut s = format!("certs {}", cs.len()); for (t, c) in cs { s.push_str(&format!(" {} {}", t, opt_bn_s(c))); } s }
            Op::Wd(None) => "wd ~".into(),
            Op::Wd(Some(ws)) => { let mut s = format!("wd {}", ws.len()); for (a, c) in ws { s.push_str(&format!(" {} {}", a, c.to_str())); } s }
            Op::Props(None) => "props ~".into(),
            Op::Props(Some(ps)) => { let mut s = format!("props {}", ps.len()); for d in ps { s.push_str(&format!(" {}", d.to_str())); } s }
            Op::Mint(ow, p, n, a) => format!("mint {} {} {} {}", *ow as u8, hex::encode(p), hex_or_dash(n), a),
            Op::Don(c) => format!("don {}", c.to_str()),
            Op::Treas(c) => format!("treas {}", c.to_str()),
            Op::Fee(c) => format!("fee {}", c.to_str()),
            Op::MinFee(c) => format!("minfee {}", c.to_str()),
            Op::Change(a, e) => format!("change {} {}", a, e),
            Op::SelChange(st, a, e, ids) => { let mut s = format!("selchange {} {} {} {}", st, a, e, ids.len()); for i in ids { s.push_str(&format!(" {}", i)); } s }
            Op::Build => "build".into(),
            Op::X(t, n) => format!("x {} {}", t, n),
            Op::Xr(i, n) => format!("xr {} {}", i, n),
        }
    }
    fn is_balancing(&self) -> bool { matches!(self, Op::Change(..) | Op::SelChange(..)) }
}

#[derive(Clone, Debug)]
struct Cfg { pool: BigNum, key: BigNum, pure_: bool, noburn: bool, cpb: BigNum, maxval: u32, maxtx: u32, a: BigNum, b: BigNum,
             prices: Option<[u64; 4]>, refprice: Option<[u64; 2]>, dd: bool }
#[derive(Clone, Debug)]
struct Scenario { label: String, cfg: Cfg, utxos: Vec<U>, ops: Vec<Op> }
impl Scenario {
    fn out_shapes(&self) -> Vec<(u64, u64)> {
        let mut v: Vec<(u64, u64)> = vec![];
        for o in &self.ops {
            let p = match o { Op::Out(a, e, _) => (*a, *e), Op::Change(a, e) => (*a, *e), Op::SelChange(_, a, e, _) => (*a, *e), _ => continue };
            if !v.contains(&p) { v.push(p); }
        }
        v
    }
    fn show(&self) -> String {
        let c = &self.cfg;
        let mut s = format!("{} CFG {} {} {} {} {} {} {} {} {}", self.label, c.pool.to_str(), c.key.to_str(), c.pure_ as u8, c.noburn as u8,
            c.cpb.to_str(), c.maxval, c.maxtx, c.a.to_str(), c.b.to_str());
        s.push_str(" PR");
        match c.prices { None => s.push_str(" ~"), Some(p) => s.push_str(&format!(" {} {} {} {}", p[0], p[1], p[2], p[3])) }
        match c.refprice { None => s.push_str(" ~"), Some(p) => s.push_str(&format!(" {} {}", p[0], p[1])) }
        s.push_str(&format!(" DD {}", c.dd as u8));
        s.push_str(&format!(" U {}", self.utxos.len()));
        for u in &self.utxos { s.push_str(&format!(" {} {} {} {} {} {}", u.id, u.kind, u.mem, u.steps, u.refsize, u.val.show())); }
        let obs = self.out_shapes();
        s.push_str(&format!(" OB {}", obs.len()));
        for (a, e) in obs { s.push_str(&format!(" {} {} {}", a, e, obase(a, e))); }
        s.push_str(&format!(" OPS {}", self.ops.len()));
        for o in &self.ops { s.push(' '); s.push_str(&o.show()); }
        s
    }
}

struct P<'a> { t: &'a [String], i: usize }
impl<'a> P<'a> {
    fn next(&mut self) -> &'a str { let s = &self.t[self.i]; self.i += 1; s.as_str() }
    fn peek(&self) -> &'a str { self.t[self.i].as_str() }
    fn expect(&mut self, s: &str) { assert_eq!(self.next(), s, "case syntax"); }
    fn u64(&mut self) -> u64 { self.next().parse().unwrap() }
    fn count(&mut self) -> Option<usize> { let s = self.next(); if s == "~" { None } else { Some(s.parse().unwrap()) } }
    fn opt_bn(&mut self) -> Option<BigNum> { let s = self.next(); if s == "~" { None } else { Some(bn(s)) } }
    fn val(&mut self) -> Val {
        let coin = bn(self.next());
        let assets = self.count().map(|k| (0..k).map(|_| {
            let p = hex::decode(self.next()).unwrap(); let n = unhex_or_dash(self.next()); let q = bn(self.next()); (p, n, q) }).collect());
        Val { coin, assets }
    }
}
fn parse(toks: &[String]) -> Scenario {
    let mut p = P { t: toks, i: 0 };
    let label = p.next().to_string();
    p.expect("CFG");
    let mut cfg = Cfg { pool: bn(p.next()), key: bn(p.next()), pure_: p.next() == "1", noburn: p.next() == "1", cpb: bn(p.next()),
        maxval: p.next().parse().unwrap(), maxtx: p.next().parse().unwrap(), a: bn(p.next()), b: bn(p.next()), prices: None, refprice: None, dd: false };
    p.expect("PR");
    if p.peek() == "~" { p.next(); } else { cfg.prices = Some([p.u64(), p.u64(), p.u64(), p.u64()]); }
    if p.peek() == "~" { p.next(); } else { cfg.refprice = Some([p.u64(), p.u64()]); }
    if p.peek() == "DD" { p.next(); cfg.dd = p.next() == "1"; }
    p.expect("U");
    let n = p.count().unwrap();
    let utxos = (0..n).map(|_| U { id: p.u64(), kind: p.u64() as u32, mem: p.u64(), steps: p.u64(), refsize: p.u64(), val: p.val() }).collect();
    p.expect("OB");
    let n = p.count().unwrap();
    for _ in 0..n { p.u64(); p.u64(); p.u64(); }      // part of the case for the model; the implementation does not need it
    p.expect("OPS");
    let n = p.count().unwrap();
    let mut ops = vec![];
    for _ in 0..n {
        let op = match p.next() {
            "in" => Op::In(p.u64()),
            "out" => { let a = p.u64(); let e = p.u64(); Op::Out(a, e, p.val()) }
            "certs" => Op::Certs(p.count().map(|k| (0..k).map(|_| { let t: u32 = p.next().parse().unwrap(); (t, p.opt_bn()) }).collect())),
            "wd" => Op::Wd(p.count().map(|k| (0..k).map(|_| { let a = p.u64(); (a, bn(p.next())) }).collect())),
            "props" => Op::Props(p.count().map(|k| (0..k).map(|_| bn(p.next())).collect())),
            "mint" => { let ow = p.next() == "1"; let pol = hex::decode(p.next()).unwrap(); let n = unhex_or_dash(p.next()); Op::Mint(ow, pol, n, p.next().to_string()) }
            "don" => Op::Don(bn(p.next())),
            "treas" => Op::Treas(bn(p.next())),
            "fee" => Op::Fee(bn(p.next())),
            "minfee" => Op::MinFee(bn(p.next())),
            "change" => { let a = p.u64(); Op::Change(a, p.u64()) }
            "selchange" => { let st: u32 = p.next().parse().unwrap(); let a = p.u64(); let e = p.u64(); let k = p.count().unwrap(); Op::SelChange(st, a, e, (0..k).map(|_| p.u64()).collect()) }
            "build" => Op::Build,
            "x" => { let t = p.next().to_string(); Op::X(t, p.u64()) }
            "xr" => { let i = p.u64(); Op::Xr(i, p.u64()) }
            x => panic!("bad op {}", x),
        };
        ops.push(op);
    }
    Scenario { label, cfg, utxos, ops }
}

// ------------------------------------------------------------------------------------------------
// running a scenario on the implementation

struct World {
    tb: TransactionBuilder,
    mint: MintBuilder,
    ib: TxInputsBuilder,
    coll: TxInputsBuilder,
    utxos: HashMap<u64, U>,
    addr_ids: HashMap<Vec<u8>, u64>,
    policy_idx: HashMap<Vec<u8>, u64>,
    key_ids: HashMap<Vec<u8>, u64>,
    native_keys: HashMap<Vec<u8>, u64>,
    plutus_in: bool,
    plutus_wd: bool,
    sdh_set: bool,
    n_xref: u64,
    /// ids that have an xr op somewhere in the scenario
    xr_ids: BTreeSet<u64>,
    /// outpoints that are never spent (reference outpoints of kind-5/6 scripts, x ref, x refplain): true script bytes there
    ref_bytes: HashMap<Vec<u8>, u64>,
}
fn note_addr(w: &mut World, id: u64) { w.addr_ids.insert(address(id).to_bytes(), id); }

fn show_output(w: &World, o: &TransactionOutput) -> String {
    let a = w.addr_ids.get(&o.address().to_bytes()).cloned().unwrap_or(0);
    format!("{} {} {}", a, extra_of(o), show_value(&o.amount()))
}

fn new_world(sc: &Scenario) -> World {
    let c = &sc.cfg;
    let mut cb = TransactionBuilderConfigBuilder::new()
        .fee_algo(&LinearFee::new(&c.a, &c.b))
        .pool_deposit(&c.pool).key_deposit(&c.key)
        .max_value_size(c.maxval).max_tx_size(c.maxtx)
        .coins_per_utxo_byte(&c.cpb)
        .prefer_pure_change(c.pure_)
        .do_not_burn_extra_change(c.noburn)
        .deduplicate_explicit_ref_inputs_with_regular_inputs(c.dd);
    if let Some(p) = c.prices {
        cb = cb.ex_unit_prices(&ExUnitPrices::new(&UnitInterval::new(&b64(p[0]), &b64(p[1])), &UnitInterval::new(&b64(p[2]), &b64(p[3]))));
    }
    if let Some(p) = c.refprice { cb = cb.ref_script_coins_per_byte(&UnitInterval::new(&b64(p[0]), &b64(p[1]))); }
    let cfg = cb.build().unwrap();
    let mut policy_idx = HashMap::new();
    let mut key_ids = HashMap::new();
    for i in 0..N_POLICIES { policy_idx.insert(policy_script(i).hash().to_bytes(), i); key_ids.insert(kh(1000 + i).to_bytes(), 1000 + i); }
    let mut native_keys = HashMap::new();
    for k in 0..POOL { key_ids.insert(kh(k).to_bytes(), k); native_keys.insert(pubkey_script(k).hash().to_bytes(), k); }
    let xr_ids: BTreeSet<u64> = sc.ops.iter().filter_map(|o| match o { Op::Xr(i, _) => Some(*i), _ => None }).collect();
    let mut ref_bytes = HashMap::new();
    for i in 0..N_POLICIES { if mint_by_ref(i) { ref_bytes.insert(ref_outpoint(43, i).to_bytes(), 0u64); } }
    for u in &sc.utxos {
        if matches!(u.kind, 5 | 6 | 9) { ref_bytes.insert(script_ref_outpoint(u.kind == 9, u.refsize, u.id).to_bytes(), u.refsize); }
    }
    for o in &sc.ops {
        if let Op::Wd(Some(ws)) = o { for (a, _) in ws { if let 61..=71 = *a { let z = WDREF[(*a - 61) as usize]; ref_bytes.insert(script_ref_outpoint(false, z, 0).to_bytes(), z); } } }
    }
    World { tb: TransactionBuilder::new(&cfg), mint: MintBuilder::new(), ib: TxInputsBuilder::new(), coll: TxInputsBuilder::new(),
            utxos: sc.utxos.iter().map(|u| (u.id, u.clone())).collect(),
            addr_ids: HashMap::new(), policy_idx, key_ids, native_keys, plutus_in: false, plutus_wd: false, sdh_set: false, n_xref: 0, xr_ids, ref_bytes }
}

/// key and Byron UTxOs as coin selection sees them (with the script_ref they carry, if any)
fn sel_utxo(w: &World, id: u64) -> Option<TransactionUnspentOutput> {
    let u = w.utxos.get(&id)?;
    if u.kind > 1 { return None; }
    Some(TransactionUnspentOutput::new(&utxo_input(id), &utxo_output(u).ok()?))
}

fn change_datum(extra: u64) -> Option<OutputDatum> {
    match extra { 1 => Some(OutputDatum::new_data_hash(&datum_hash())), 2 | 4 => Some(OutputDatum::new_data(&inline_datum())), _ => None }
}

struct OpRec { res: String, tape: Vec<(u8, Option<u64>)>, sel: Option<(bool, Vec<u64>)>, k: Option<u64> }
fn plain(res: String) -> OpRec { OpRec { res, tape: vec![], sel: None, k: None } }

/// C06_ERRS=1: the error messages of failing operations go to stderr (debugging aid)
fn note_err(e: &JsError) { if std::env::var("C06_ERRS").is_ok() { eprintln!("   err: {}", e.to_string().chars().take(300).collect::<String>()); } }
fn res_unit(r: Result<Result<(), JsError>, ()>) -> String { match r { Ok(Ok(())) => "ok".into(), Ok(Err(e)) => { note_err(&e); "err".into() } Err(()) => "panic".into() } }
fn res_bool(r: Result<Result<bool, JsError>, ()>) -> String { match r { Ok(Ok(true)) => "t".into(), Ok(Ok(false)) => "f".into(), Ok(Err(e)) => { note_err(&e); "err".into() } Err(()) => "panic".into() } }
fn catch<T, F: FnOnce() -> T>(f: F) -> Result<T, ()> { std::panic::catch_unwind(AssertUnwindSafe(f)).map_err(|_| ()) }

fn uint_width(v: u64) -> usize { if v < 24 { 1 } else if v < 256 { 2 } else if v < 65536 { 3 } else if v < (1u64 << 32) { 5 } else { 9 } }

/// bytes of the fake full transaction outside the fee integer and the outputs array
fn measure_k(tb: &TransactionBuilder) -> Option<u64> {
    catch(|| -> Option<u64> {
        let mut c = tb.clone();
        c.set_fee(&b64(0));
        let size = c.full_size().ok()?;
        let f = u64of(&c.get_fee_if_set()?);
        let outs = verif_builder_outputs(tb);
        let outs_bytes: usize = (0..outs.len()).map(|i| outs.get(i).to_bytes().len()).sum();
        size.checked_sub(uint_width(f))?.checked_sub(uint_width(outs.len() as u64))?.checked_sub(outs_bytes).map(|k| k as u64)
    }).ok().flatten()
}

/// build_tx wants a script data hash when Plutus inputs are present; it is a body field, so it is set before the first
/// balancing operation measures anything
fn prepare_balancing(w: &mut World) {
    if (w.plutus_in || w.plutus_wd) && !w.sdh_set {
        let mut cm = CostModel::new();
        for i in 0..10 { let _ = cm.set(i, &Int::new_i32(1000 + i as i32)); }
        let mut cms = Costmdls::new();
        cms.insert(&Language::new_plutus_v2(), &cm);
        let ok = matches!(catch(|| w.tb.calc_script_data_hash(&cms)), Ok(Ok(())));
        if !ok { w.tb.set_script_data_hash(&ScriptDataHash::from_bytes(vec![0x5d; 32]).unwrap()); }
        w.sdh_set = true;
    }
}

fn run_op(w: &mut World, op: &Op, last_tx: &mut Option<Transaction>) -> OpRec {
    match op {
        Op::In(id) => {
            let r = match w.utxos.get(id).cloned() {
                Some(u) => {
                    let (input, value) = (utxo_input(u.id), u.val.to_value());
                    let utxo_form = if has_own_ref(&u) { !(w.xr_ids.contains(&u.id) && u.id % 3 != 0) } else { u.id % 2 == 1 };
                    let ib = &mut w.ib;
                    let r = catch(|| -> Result<(), JsError> {
                        if utxo_form {
                            let tu = TransactionUnspentOutput::new(&input, &utxo_output(&u)?);
                            match u.kind {
                                0 | 1 => ib.add_regular_utxo(&tu),
                                2 => ib.add_native_script_utxo(&tu, &utxo_native_source(u.id)),
                                9 => ib.add_native_script_utxo(&tu, &ref_native_source(u.refsize, u.id)),
                                _ => ib.add_plutus_script_utxo(&tu, &plutus_witness(&u)),
                            }
                        } else {
                            match u.kind {
                                0 => { if u.id % 4 == 0 { ib.add_key_input(&kh(utxo_key(u.id)), &input, &value); Ok(()) }
                                       else { ib.add_regular_input(&utxo_address(u.id, 0).unwrap(), &input, &value) } }
                                1 => { if u.id % 4 == 0 { ib.add_bootstrap_input(&byron_addr(u.id % 9), &input, &value); Ok(()) }
                                       else { ib.add_regular_input(&byron_addr(u.id % 9).to_address(), &input, &value) } }
                                2 => { ib.add_native_script_input(&utxo_native_source(u.id), &input, &value); Ok(()) }
                                3..=8 => { ib.add_plutus_script_input(&plutus_witness(&u), &input, &value); Ok(()) }
                                9 => { ib.add_native_script_input(&ref_native_source(u.refsize, u.id), &input, &value); Ok(()) }
                                _ => Err(JsError::from_str("unknown utxo kind")),
                            }
                        }
                    });
                    w.tb.set_inputs(&w.ib);
                    if matches!(r, Ok(Ok(()))) && matches!(u.kind, 3..=8) { w.plutus_in = true; }
                    r
                }
                None => Ok(Err(JsError::from_str("no such utxo"))),
            };
            plain(res_unit(r))
        }
        Op::Out(a, e, v) => {
            note_addr(w, *a);
            let o = mk_output(*a, *e, &v.to_value());
            verif_oracle_start();
            let r = catch(|| w.tb.add_output(&o));
            OpRec { res: res_unit(r), tape: verif_oracle_take(), sel: None, k: None }
        }
        Op::Certs(cs) => {
            match cs {
                None => w.tb.remove_certs(),
                Some(cs) => {
                    let mut b = CertificatesBuilder::new();
                    for (i, (t, c)) in cs.iter().enumerate() {
                        let cert = mk_cert(*t, c.clone(), i as u64);
                        if cert_is_scripted(*t, i as u64) { b.add_with_native_script(&cert, &NativeScriptSource::new(&pubkey_script(cert_key(i as u64)))).expect("script-credential certificate"); }
                        else { b.add(&cert).expect("distinct key-credential certificates"); }
                    }
                    w.tb.set_certs_builder(&b);
                }
            }
            plain("ok".into())
        }
        Op::Wd(ws) => {
            match ws {
                None => { w.tb.remove_withdrawals(); w.plutus_wd = false; }
                Some(ws) => {
                    let mut b = WithdrawalsBuilder::new();
                    for (a, c) in ws {
                        let addr = reward_address(*a);
                        match *a {
                            21..=31 => b.add_with_native_script(&addr, c, &NativeScriptSource::new(&pubkey_script(*a - 20))).expect("native-script reward address"),
                            41..=51 => {
                                let red = Redeemer::new(&RedeemerTag::new_reward(), &b64(0), &PlutusData::new_integer(&BigInt::from_str(&a.to_string()).unwrap()),
                                    &ExUnits::new(&b64(*a * 1000), &b64(*a * 1_000_000)));
                                b.add_with_plutus_witness(&addr, c, &PlutusWitness::new_without_datum(&wd_plutus_script(*a), &red)).expect("Plutus reward address")
                            }
                            61..=71 => {
                                let red = Redeemer::new(&RedeemerTag::new_reward(), &b64(0), &PlutusData::new_integer(&BigInt::from_str(&a.to_string()).unwrap()),
                                    &ExUnits::new(&b64(*a * 1000), &b64(*a * 1_000_000)));
                                let src = ref_plutus_source(WDREF[(*a - 61) as usize], 0, &wd_ref_declared(*a));
                                b.add_with_plutus_witness(&addr, c, &PlutusWitness::new_with_ref_without_datum(&src, &red)).expect("Plutus reward address (by reference)")
                            }
                            _ => b.add(&addr, c).expect("key reward address"),
                        }
                    }
                    w.plutus_wd = ws.iter().any(|(a, _)| matches!(*a, 41..=51 | 61..=71));
                    w.tb.set_withdrawals_builder(&b);
                }
            }
            plain("ok".into())
        }
        Op::Props(ps) => {
            if let Some(ps) = ps {
                let mut b = VotingProposalBuilder::new();
                for (i, d) in ps.iter().enumerate() { b.add(&mk_proposal(d, i as u64)).expect("proposal without script"); }
                w.tb.set_voting_proposal_builder(&b);
            }
            plain("ok".into())
        }
        Op::Mint(ow, p, n, amt) => {
            let r = catch(|| -> Result<(), JsError> {
                let idx = *w.policy_idx.get(p).ok_or(JsError::from_str("unknown policy"))?;
                let wit = MintWitness::new_native_script(&mint_source(idx));
                let name = AssetName::new(n.clone())?;
                let amount = Int::from_str(amt)?;
                if *ow { w.mint.set_asset(&wit, &name, &amount)?; } else { w.mint.add_asset(&wit, &name, &amount)?; }
                w.tb.set_mint_builder(&w.mint);
                Ok(())
            });
            plain(res_unit(r))
        }
        Op::Don(c) => { w.tb.set_donation(c); plain("ok".into()) }
        Op::Treas(c) => { let r = catch(|| w.tb.set_current_treasury_value(c)); plain(res_unit(r)) }
        Op::Fee(c) => { w.tb.set_fee(c); plain("ok".into()) }
        Op::MinFee(c) => { w.tb.set_min_fee(c); plain("ok".into()) }
        Op::X(tag, n) => {
            let r: Result<Result<(), JsError>, ()> = match tag.as_str() {
                "sig" => { w.key_ids.insert(kh(*n).to_bytes(), *n); w.tb.add_required_signer(&kh(*n)); Ok(Ok(())) }
                "coll" => match w.utxos.get(n).cloned() {
                    Some(u) if u.kind <= 1 => {
                        let r = catch(|| w.coll.add_regular_input(&utxo_address(u.id, u.kind).unwrap(), &utxo_input(u.id), &u.val.to_value()));
                        w.tb.set_collateral(&w.coll);
                        r
                    }
                    _ => Ok(Err(JsError::from_str("no such key / Byron utxo"))),
                },
                "colltotal" => { w.tb.set_total_collateral(&b64(*n)); Ok(Ok(())) }
                "collret" => { w.tb.set_collateral_return(&TransactionOutput::new(&address(*n), &Value::new(&b64(2_000_000)))); Ok(Ok(())) }
                "datum" => { w.tb.add_extra_witness_datum(&PlutusData::new_bytes(vec![0xd0 + (*n % 16) as u8; *n as usize])); Ok(Ok(())) }
                "ref" => { let o = ref_outpoint(50, w.n_xref); w.tb.add_script_reference_input(&o, *n as usize); w.ref_bytes.insert(o.to_bytes(), *n); w.n_xref += 1; Ok(Ok(())) }
                "refplain" => { let o = ref_outpoint(51, *n); w.tb.add_reference_input(&o); w.ref_bytes.insert(o.to_bytes(), 0); Ok(Ok(())) }
                "meta" => catch(|| -> Result<(), JsError> {
                    let mut list = MetadataList::new();
                    let mut left = *n as usize;
                    while left > 0 { let c = left.min(64); list.add(&TransactionMetadatum::new_text("m".repeat(c))?); left -= c; }
                    w.tb.add_metadatum(&b64(674), &TransactionMetadatum::new_list(&list));
                    Ok(())
                }),
                "ttl" => { w.tb.set_ttl_bignum(&b64(*n)); Ok(Ok(())) }
                t => panic!("bad x tag {}", t),
            };
            plain(res_unit(r))
        }
        Op::Xr(id, size) => {
            let r = if w.utxos.contains_key(id) { w.tb.add_script_reference_input(&utxo_input(*id), *size as usize); Ok(Ok(())) }
                    else { Ok(Err(JsError::from_str("no such utxo"))) };
            plain(res_unit(r))
        }
        Op::Change(a, e) => {
            note_addr(w, *a);
            prepare_balancing(w);
            let k = measure_k(&w.tb);
            let addr = address(*a);
            verif_oracle_start();
            let r = catch(|| match change_datum(*e) {
                Some(d) => w.tb.add_change_if_needed_with_datum(&addr, &d),
                None => w.tb.add_change_if_needed(&addr),
            });
            let tape = verif_oracle_take().into_iter().filter(|(s, _)| *s != b'C').collect();
            OpRec { res: res_bool(r), tape, sel: None, k }
        }
        Op::SelChange(st, a, e, ids) => {
            note_addr(w, *a);
            prepare_balancing(w);
            let mut avail = TransactionUnspentOutputs::new();
            for id in ids { if let Some(u) = sel_utxo(w, *id) { avail.add(&u); } }
            let strategy = |s: u32| match s { 0 => CoinSelectionStrategyCIP2::LargestFirst, 1 => CoinSelectionStrategyCIP2::RandomImprove,
                2 => CoinSelectionStrategyCIP2::LargestFirstMultiAsset, _ => CoinSelectionStrategyCIP2::RandomImproveMultiAsset };
            let script: Vec<u64> = { let mut r = Rng::new(ids.len() as u64 * 31 + *a); (0..4096).map(|_| r.next() >> 8).collect() };
            // what the selection alone does (on a copy, same scripted random draws)
            let before: Vec<u64> = { let ins = verif_builder_inputs(&w.tb); (0..ins.len()).map(|i| utxo_id_of(&ins.get(i))).collect() };
            let mut copy = w.tb.clone();
            verif_set_rng_script(Some(script.clone()));
            let sel_r = catch(|| copy.add_inputs_from(&avail, strategy(*st)));
            let after: Vec<u64> = { let ins = verif_builder_inputs(&copy); (0..ins.len()).map(|i| utxo_id_of(&ins.get(i))).collect() };
            let added: Vec<u64> = after.into_iter().filter(|i| !before.contains(i)).collect();
            let sel_ok = matches!(sel_r, Ok(Ok(())));
            // the state the change algorithm starts from
            let k = if sel_ok { measure_k(&copy) } else { None };
            let mut cc = ChangeConfig::new(&address(*a));
            if let Some(d) = change_datum(*e) { cc = cc.change_plutus_data(&d); }
            if *e == 3 || *e == 4 { cc = cc.change_script_ref(&ref_script()); }
            verif_set_rng_script(Some(script));
            verif_oracle_start();
            let r = catch(|| w.tb.add_inputs_from_and_change(&avail, strategy(*st), &cc));
            let all = verif_oracle_take();
            verif_set_rng_script(None);
            // answers before the first change attempt belong to the coin selection, not to this model
            let from = all.iter().position(|(s, _)| *s == b'C').unwrap_or(all.len());
            let tape = all[from..].iter().cloned().filter(|(s, _)| *s != b'C').collect();
            OpRec { res: res_bool(r), tape, sel: Some((sel_ok, added)), k }
        }
        Op::Build => {
            let k = measure_k(&w.tb);
            verif_oracle_start();
            let r = catch(|| w.tb.build_tx());
            let tape = verif_oracle_take();
            let res = match r { Ok(Ok(tx)) => { *last_tx = Some(tx); "ok".to_string() } Ok(Err(e)) => { note_err(&e); *last_tx = None; "err".into() } Err(()) => { *last_tx = None; "panic".into() } };
            OpRec { res, tape, sel: None, k }
        }
    }
}

/// Sign `tx` with every key the ledger requires for its body and report
/// `<fee> <signed_size> <nvkeys> <nboot> <mem> <steps> <refsize>`.
fn signed_figures(w: &World, tx: &Transaction) -> String {
    let body = tx.body();
    let tx_hash = FixedTransaction::new_from_body_bytes(&body.to_bytes()).expect("body re-reads").transaction_hash();
    let mut keys: BTreeSet<u64> = BTreeSet::new();
    let mut boots: BTreeSet<u64> = BTreeSet::new();
    let key_of = |h: &Ed25519KeyHash| -> u64 { *w.key_ids.get(&h.to_bytes()).expect("key hash of the body is one of the scenario's keys") };
    let mut owner = |id: u64| {
        let u = w.utxos.get(&id).expect("input of the body is a UTxO of the scenario");
        match u.kind {
            0 => { keys.insert(utxo_key(id)); }
            1 => { boots.insert(id % 9); }
            2 => { keys.extend(utxo_native_keys(id)); }
            9 => { keys.extend(ref_native_keys(u.refsize)); }
            5 | 6 => { keys.extend(ref_plutus_declared(id)); }
            _ => {}
        }
    };
    // a credential that has to authorise something: its key, the key of its native script, nothing for a Plutus script
    let cred_key = |c: &Credential| -> Option<u64> {
        match (c.to_keyhash(), c.to_scripthash()) {
            (Some(h), _) => Some(key_of(&h)),
            (_, Some(h)) => w.native_keys.get(&h.to_bytes()).cloned().or_else(|| {
                assert!((41..=51).any(|a| wd_plutus_script(a).hash() == h) || WDREF.iter().any(|z| ref_plutus_script(*z).hash() == h), "script credential of the body is one of the scenario's scripts"); None }),
            _ => None,
        }
    };
    let ins = body.inputs();
    for i in 0..ins.len() { owner(utxo_id_of(&ins.get(i))); }
    if let Some(col) = body.collateral() { for i in 0..col.len() { owner(utxo_id_of(&col.get(i))); } }
    if let Some(rs) = body.required_signers() { for i in 0..rs.len() { keys.insert(key_of(&rs.get(i))); } }
    if let Some(cs) = body.certs() { for i in 0..cs.len() { if let Some(k) = cert_witness_cred(&cs.get(i)).and_then(|c| cred_key(&c)) { keys.insert(k); } } }
    if let Some(ws) = body.withdrawals() {
        let ks = ws.keys();
        for i in 0..ks.len() {
            let cred = ks.get(i).payment_cred();
            if let Some(k) = cred_key(&cred) { keys.insert(k); }
            // a Plutus withdrawal by reference: the signers declared on its script source
            if let Some(h) = cred.to_scripthash() {
                if let Some(a) = (61u64..=71).find(|a| ref_plutus_script(WDREF[(*a - 61) as usize]).hash() == h) { keys.extend(wd_ref_declared(a)); }
            }
        }
    }
    if let Some(m) = body.mint() {
        let ps = m.keys();
        for i in 0..ps.len() { keys.extend(mint_declared(*w.policy_idx.get(&ps.get(i).to_bytes()).expect("minted policy is one of the six"))); }
    }
    let mut ws = tx.witness_set();
    if !keys.is_empty() {
        let mut vk = Vkeywitnesses::new();
        for k in &keys { vk.add(&make_vkey_witness(&tx_hash, &sk(*k))); }
        ws.set_vkeys(&vk);
    }
    if !boots.is_empty() {
        let mut bw = BootstrapWitnesses::new();
        for a in &boots { bw.add(&make_icarus_bootstrap_witness(&tx_hash, &byron_addr(*a), &byron_key(*a))); }
        ws.set_bootstraps(&bw);
    }
    let signed = Transaction::new(&body, &ws, tx.auxiliary_data());
    let bytes = signed.to_bytes();
    // what was attached, as a reader of the wire sees it
    let back = Transaction::from_bytes(bytes.clone()).expect("signed transaction re-reads");
    let bws = back.witness_set();
    let nvk = bws.vkeys().map(|v| v.len()).unwrap_or(0);
    let nbw = bws.bootstraps().map(|v| v.len()).unwrap_or(0);
    assert!(nvk == keys.len() && nbw == boots.len(), "witness count after the wire");
    if let Some(v) = bws.vkeys() { for i in 0..v.len() { let x = v.get(i); assert!(x.vkey().public_key().verify(&tx_hash.to_bytes(), &x.signature()), "signature"); } }
    let (mut mem, mut steps) = (0u128, 0u128);
    if let Some(rs) = tx.witness_set().redeemers() {
        for i in 0..rs.len() { let e = rs.get(i).ex_units(); mem += u64of(&e.mem()) as u128; steps += u64of(&e.steps()) as u128; }
    }
    // the ledger's reference-script bytes: every outpoint of inputs + reference inputs once, the script its output really holds
    let mut outpoints: BTreeSet<Vec<u8>> = BTreeSet::new();
    let mut refsize: u64 = 0;
    let mut count = |o: &TransactionInput| {
        if !outpoints.insert(o.to_bytes()) { return; }
        let id = utxo_id_of(o);
        refsize += match w.utxos.get(&id) {
            Some(u) if utxo_input(id).to_bytes() == o.to_bytes() => if has_own_ref(u) { u.refsize } else { 0 },
            _ => *w.ref_bytes.get(&o.to_bytes()).expect("reference input of the body is an outpoint of the scenario"),
        };
    };
    for i in 0..ins.len() { count(&ins.get(i)); }
    if let Some(rs) = body.reference_inputs() { for i in 0..rs.len() { count(&rs.get(i)); } }
    format!("{} {} {} {} {} {} {}", body.fee().to_str(), bytes.len(), nvk, nbw, mem, steps, refsize)
}

/// which way the first balancing operation went, as far as the public API shows it (only used to label the case
/// for the evidence's case distribution)
fn shape_of(w: &World, pre: &Option<(Value, Value, BigNum, usize)>, res: &str) -> String {
    match res {
        "err" => return "err".into(),
        "panic" => return "panic".into(),
        _ => {}
    }
    let (tin, tout, fee, n_before) = match pre { Some(x) => x.clone(), None => return "pre-err".into() };
    let outs = verif_builder_outputs(&w.tb);
    let added: Vec<TransactionOutput> = (n_before..outs.len()).map(|i| outs.get(i)).collect();
    let has_assets = |o: &TransactionOutput| o.amount().multiasset().map(|m| m.len() > 0).unwrap_or(false);
    if res == "f" {
        let exact = tout.checked_add(&Value::new(&fee)).map(|x| x == tin).unwrap_or(false);
        return if exact { "exact".into() } else { "burn".into() };
    }
    match added.len() {
        0 => "topup-only".into(),
        1 => if has_assets(&added[0]) { "assets1".into() } else { "single".into() },
        n => if !has_assets(&added[n - 1]) { "assetsN+pure".into() } else if n == 2 && !has_assets(&added[0]) { "assets1+x".into() } else { "assetsN".into() },
    }
}

fn exec_shape(sc: &Scenario) -> (String, String) {
    let mut w = new_world(sc);
    let mut recs = vec![];
    let mut last_tx = None;
    let mut shape: Option<String> = None;
    for op in &sc.ops {
        let balancing = op.is_balancing() && shape.is_none();
        let pre = if balancing {
            catch(|| -> Option<(Value, Value, BigNum, usize)> {
                Some((w.tb.get_total_input().ok()?, w.tb.get_total_output().ok()?, w.tb.min_fee().ok()?, verif_builder_outputs(&w.tb).len()))
            }).ok().flatten()
        } else { None };
        let rec = run_op(&mut w, op, &mut last_tx);
        if balancing {
            let policy = match (sc.ops.iter().any(|o| matches!(o, Op::Fee(_))), sc.ops.iter().any(|o| matches!(o, Op::MinFee(_)))) {
                (true, true) => "feeboth", (true, false) => "exactly", (false, true) => "notless", _ => "unspec" };
            shape = Some(format!("{}/{}", shape_of(&w, &pre, &rec.res), policy));
        }
        recs.push(rec);
    }
    let shape = shape.unwrap_or("none".into());
    (exec_rest(sc, w, recs, last_tx), shape)
}

fn opt_s<T: std::fmt::Display>(o: Option<T>) -> String { o.map(|v| v.to_string()).unwrap_or("~".into()) }

fn exec_rest(sc: &Scenario, w: World, recs: Vec<OpRec>, last_tx: Option<Transaction>) -> String {
    let mut s = format!("ok R {}", recs.len());
    for r in &recs { s.push(' '); s.push_str(&r.res); }
    // the builder's state
    s.push_str(&format!(" S {}", w.tb.get_fee_if_set().map(|f| f.to_str()).unwrap_or("~".into())));
    let outs = verif_builder_outputs(&w.tb);
    s.push_str(&format!(" {}", outs.len()));
    for i in 0..outs.len() { s.push(' '); s.push_str(&show_output(&w, &outs.get(i))); }
    let ins = verif_builder_inputs(&w.tb);
    s.push_str(&format!(" {}", ins.len()));
    for i in 0..ins.len() { s.push_str(&format!(" {}", utxo_id_of(&ins.get(i)))); }
    let full = catch(|| w.tb.full_size().ok()).ok().flatten();
    let minfee = catch(|| w.tb.min_fee().ok()).ok().flatten().map(|f| f.to_str());
    s.push_str(&format!(" FIN {} {}", opt_s(full), opt_s(minfee)));
    match &last_tx { None => s.push_str(" TX ~"), Some(tx) => { s.push_str(" TX "); s.push_str(&signed_figures(&w, tx)); } }
    let uns = if w.tb.get_fee_if_set().is_some() { catch(|| w.tb.build_tx_unsafe().ok()).ok().flatten() } else { None };
    match &uns { None => s.push_str(" UNS ~"), Some(tx) => { s.push_str(" UNS "); s.push_str(&signed_figures(&w, tx)); } }
    let pol = sc.ops.iter().rev().find_map(|o| match o { Op::Fee(f) => Some(format!("e {}", f.to_str())), Op::MinFee(r) => Some(format!("n {}", r.to_str())), _ => None });
    s.push_str(&format!(" POL {}", pol.unwrap_or("u".into())));
    s.push_str(&format!(" ORA {}", recs.len()));
    for r in &recs {
        s.push_str(&format!(" {}", r.tape.len()));
        for (site, a) in &r.tape { s.push_str(&format!(" {} {}", *site as char, a.map(|v| v.to_string()).unwrap_or("e".into()))); }
        match &r.sel { None => s.push_str(" ~"), Some((ok, ids)) => { s.push_str(&format!(" {} {}", *ok as u8, ids.len())); for i in ids { s.push_str(&format!(" {}", i)); } } }
        s.push_str(&format!(" {}", opt_s(r.k)));
    }
    s
}

fn exec_line(toks: &[String]) -> String {
    let sc = parse(toks);
    guarded(AssertUnwindSafe(|| exec_shape(&sc).0))
}

// ------------------------------------------------------------------------------------------------
// generators

const NAMES: [&[u8]; 8] = [b"", b"a", b"tok", b"NFT-0001", b"NFT-0002", b"\x00\xff", b"thirty-two-byte-long-asset-name!", b"zz"];

fn policy_bytes(i: u64) -> Vec<u8> { policy_script(i % N_POLICIES).hash().to_bytes() }
fn gen_name(r: &mut Rng) -> Vec<u8> {
    if r.chance(3, 4) { NAMES[r.below(8) as usize].to_vec() } else { let n = r.below(33) as usize; r.bytes(n) }
}
fn gen_coin(r: &mut Rng, kind: u32) -> u64 {
    match kind {
        0 => r.range(1_000_000, 50_000_000),
        1 => r.range(900_000, 3_000_000),
        2 => { let w = *r.pick(&[23u64, 255, 65535, 0xffff_ffff, 1 << 40]); w.saturating_add(r.below(5_000_000)) }
        _ => r.u64_edge(),
    }
}
fn gen_assets(r: &mut Rng, n_assets: u64, n_pol: u64, big: bool) -> Option<Vec<(Vec<u8>, Vec<u8>, BigNum)>> {
    if n_assets == 0 { return if r.chance(1, 10) { Some(vec![]) } else { None }; }
    let mut es = vec![];
    for k in 0..n_assets {
        let p = policy_bytes(r.below(n_pol.max(1)));
        let n = if big { let mut v = format!("asset-number-{:04}-padding-pad", k).into_bytes(); v.truncate(32); v } else { gen_name(r) };
        let q = match r.below(40) { 0..=4 => 1, 5..=9 => r.u64_edge() >> r.below(40), 10..=14 => r.below(1 << 33), 15 => 0, _ => r.range(1, 1000) };
        es.push((p, n, b64(q)));
    }
    Some(es)
}
const MAINNET_PRICES: [u64; 4] = [577, 10000, 721, 10000000];
/// ex-unit prices [mem_num, mem_den, step_num, step_den]: mainnet, equal denominators above 1, non-reduced fractions,
/// prices above 1, zero numerators, random ones (the ex-unit fee is ceil(mem * mem_price + steps * step_price))
fn gen_prices(r: &mut Rng) -> [u64; 4] {
    match r.below(10) {
        0 | 1 | 2 => MAINNET_PRICES,
        3 => *r.pick(&[[577u64, 10000, 721, 10000], [3, 7, 5, 7], [1, 1000, 1, 1000], [1, 2, 1, 2], [99, 100, 1, 100]]),
        4 => *r.pick(&[[6u64, 4, 9, 6], [10, 100, 4, 8], [1154, 20000, 1442, 20000000], [7, 7, 0, 3]]),
        5 => *r.pick(&[[1u64, 1, 1, 1000], [0, 1, 0, 1], [0, 5, 3, 5], [2, 1, 3, 1]]),
        _ => {
            let d1 = r.range(1, 1000);
            let d2 = if r.chance(1, 2) { d1 } else { r.range(1, 100000) };
            let k = if r.chance(1, 4) { r.range(2, 6) } else { 1 };
            [r.below(2 * d1) * k, d1 * k, r.below(d2 + 1), d2]
        }
    }
}
fn gen_cfg(r: &mut Rng) -> Cfg {
    let (a, b) = *r.pick(&[(44u64, 155381u64), (44, 155381), (44, 155381), (44, 155381), (1, 0), (44, 0), (500, 1000), (0, 200000), (1000000, 5)]);
    Cfg { pool: b64(*r.pick(&[500_000_000u64, 0, 1, 2_000_000])), key: b64(*r.pick(&[2_000_000u64, 0, 400_000])),
          pure_: r.chance(1, 3), noburn: r.chance(1, 4),
          cpb: b64(*r.pick(&[4310u64, 4310, 4310, 4310, 1, 0, 100, 34482, 1000])), maxval: *r.pick(&[5000u32, 5000, 4000, 300, 150, 80]),
          maxtx: *r.pick(&[16384u32, 16384, 16384, 16384, 16384, 16384, 100000, 100000, 400, 1200]), a: b64(a), b: b64(b),
          prices: if r.chance(1, 2) { Some(MAINNET_PRICES) } else { None },
          refprice: if r.chance(1, 2) { Some([15, 1]) } else { None }, dd: false }
}
fn shuffle<T>(r: &mut Rng, v: &mut Vec<T>) { for i in (1..v.len()).rev() { let j = r.below(i as u64 + 1) as usize; v.swap(i, j); } }

/// shuffle, but keep the xr ops in their order among themselves (of two xr ops for one id the LAST declared size counts)
fn shuffle_ops(r: &mut Rng, pre: &mut Vec<Op>) {
    let xs: Vec<Op> = pre.iter().filter(|o| matches!(o, Op::Xr(..))).cloned().collect();
    shuffle(r, pre);
    let mut k = 0;
    for o in pre.iter_mut() { if matches!(o, Op::Xr(..)) { *o = xs[k].clone(); k += 1; } }
}

fn gen_certs(r: &mut Rng, edge: bool) -> Vec<(u32, Option<BigNum>)> {
    let n = r.range(1, 5);
    (0..n).map(|_| { let t = *r.pick(&CERT_TAGS); let c = if tag_has_coin(t) { Some(b64(if r.chance(1, 5) { 0 } else if edge { r.u64_edge() } else { r.range(0, 5_000_000) })) } else { None }; (t, c) }).collect()
}

const REF_SIZES: [u64; 12] = [0, 1, 100, 2500, 2500, 14000, 25599, 25600, 25601, 51200, 60000, 200000];

/// a size an own script_ref can have (2 + |head(len)| + len for some len), around the 25600-byte tiers of the fee
fn gen_own_ref(r: &mut Rng, id: u64) -> u64 {
    let mut t = *r.pick(&[3u64, 30, 100, 2500, 2500, 14000, 25599, 25600, 25601, 51200, 60000, 200000]) + r.below(3);
    while own_script_ref_reachable(id, t).is_none() { t += 1; }
    t
}
fn own_script_ref_reachable(id: u64, t: u64) -> Option<()> { if id % 4 == 0 { own_native_params(t).map(|_| ()) } else { own_ref_len(t).map(|_| ()) } }
fn gen_collateral(r: &mut Rng, utxos: &mut Vec<U>, pre: &mut Vec<Op>) {
    let cid = 800 + r.below(12);
    let ckind = if r.chance(1, 3) { 1 } else { 0 };
    utxos.push(U { id: cid, kind: ckind, mem: 0, steps: 0, refsize: 0, val: Val::ada(5_000_000) });
    pre.push(Op::X("coll".into(), cid));
    if r.chance(1, 3) {
        let which = r.below(3);
        if which != 1 { pre.push(Op::X("colltotal".into(), *r.pick(&[3_000_000u64, 5_000_000, 23, 1 << 32]))); }
        if which != 0 { pre.push(Op::X("collret".into(), r.range(1, 30))); }
    }
}

/// explicit reference inputs on the scenario's own UTxOs (`xr`): on a UTxO that is spent (the shuffle puts the xr before
/// or after its `in`), on the collateral, or on an extra UTxO that is not spent; the declared size is mostly the size of
/// the script_ref the UTxO really carries.  Also draws the de-duplication flag of the configuration.
fn gen_xr(r: &mut Rng, cfg: &mut Cfg, utxos: &mut Vec<U>, pre: &mut Vec<Op>, allow: bool) {
    let mut any = false;
    if allow && r.chance(1, 5) {
        for _ in 0..r.range(1, 2) {
            let spent: Vec<u64> = pre.iter().filter_map(|o| match o { Op::In(i) => Some(*i), _ => None })
                .filter(|i| utxos.iter().any(|u| u.id == *i && u.kind <= 4)).collect();
            let coll: Vec<u64> = pre.iter().filter_map(|o| match o { Op::X(t, i) if t == "coll" => Some(*i), _ => None }).collect();
            let id = match r.below(8) {
                0..=4 if !spent.is_empty() => *r.pick(&spent),
                5 | 6 if !coll.is_empty() => *r.pick(&coll),
                _ => { let id = 700 + r.below(60); if !utxos.iter().any(|u| u.id == id) { utxos.push(U::key(id, Val::ada(3_000_000))); } id }
            };
            let u = utxos.iter_mut().find(|u| u.id == id).unwrap();
            if u.refsize == 0 && r.chance(4, 5) { u.refsize = gen_own_ref(r, id); }
            let truth = u.refsize;
            let at_least = |r: &mut Rng| if r.chance(3, 4) { truth } else { truth + *r.pick(&[1u64, 100, 25600]) };
            if r.chance(1, 6) { let first = *r.pick(&[0u64, truth / 2, truth, truth + 7, 25600]); pre.push(Op::Xr(id, first)); }
            let last = at_least(r);
            pre.push(Op::Xr(id, last));
            any = true;
        }
        if cfg.refprice.is_none() && !r.chance(1, 6) { cfg.refprice = Some(*r.pick(&[[15u64, 1u64], [15, 1], [44, 1], [1, 3]])); }
    }
    cfg.dd = if any { r.chance(1, 2) } else { r.chance(1, 6) };
}

/// the witness-relevant extras: Byron / native-script / Plutus UTxOs (some carrying a script_ref of their own), collateral,
/// required signers, reference inputs, extra datums, metadata, ttl.  Ops are appended to `pre` (which the caller shuffles).
fn decorate(r: &mut Rng, cfg: &mut Cfg, utxos: &mut Vec<U>, pre: &mut Vec<Op>, full: bool, plutus_wd: bool, wd_ref: Option<u64>) {
    if full && r.chance(1, 6) {
        // one Byron input, or two or three with addresses of both kinds (with and without the network-magic attribute)
        let n = if r.chance(1, 2) { r.range(2, 3) } else { 1 };
        let mut ids: Vec<u64> = vec![210 + r.below(30)];
        while (ids.len() as u64) < n {
            let id = 210 + r.below(30);
            if ids.contains(&id) || (ids.len() == 1 && (id / 3) % 2 == (ids[0] / 3) % 2) { continue; }
            ids.push(id);
        }
        for id in ids {
            let refsize = if r.chance(1, 3) { gen_own_ref(r, id) } else { 0 };
            utxos.push(U { id, kind: 1, mem: 0, steps: 0, refsize, val: Val::ada(r.range(2_000_000, 9_000_000)) }); pre.push(Op::In(id));
        }
    }
    if full && r.chance(1, 6) {
        let ids: Vec<u64> = if r.chance(1, 3) {
            // two inputs locked by the same script whose sources declare different signers; the two keys are, when
            // possible, keys that nothing else of the scenario so far needs
            let mut used: BTreeSet<u64> = utxos.iter().flat_map(|u| match u.kind { 0 => vec![utxo_key(u.id)], 2 => utxo_native_keys(u.id), _ => vec![] }).collect();
            for o in pre.iter() {
                match o {
                    Op::X(t, k) if t == "sig" => { used.insert(*k); }
                    Op::Wd(Some(ws)) => for (a, _) in ws { used.insert(match *a { 21..=31 => *a - 20, 41..=51 | 61..=71 => 99, _ => *a % POOL }); },
                    Op::Certs(Some(cs)) => for i in 0..cs.len() as u64 { used.insert(cert_key(i)); },
                    _ => {}
                }
            }
            let free: Vec<u64> = (0..3u64).filter(|g| !used.contains(g) && !used.contains(&(g + 1))).collect();
            let g = if free.is_empty() { r.below(3) } else { *r.pick(&free) };
            let j = match g { 0 => 1, 1 => 2, _ => *r.pick(&[0u64, 3]) };
            vec![12 * *r.pick(&[30u64, 32]) + 8 + j, 12 * 31 + 8 + j]
        } else {
            let base = 300 + r.below(24);
            if r.chance(1, 4) { vec![base, base + 25] } else { vec![base] }
        };
        for id in ids {
            let refsize = if r.chance(1, 4) { gen_own_ref(r, id) } else { 0 };
            utxos.push(U { id, kind: 2, mem: 0, steps: 0, refsize, val: Val::ada(r.range(2_000_000, 9_000_000)) }); pre.push(Op::In(id));
        }
    }
    let mut datum_rank = 0;      // 2: an input with a witness datum (kinds 4 / 6), 1: other Plutus inputs
    let plutus_inputs = full && (r.chance(1, 5) || (wd_ref.is_some() && r.chance(1, 2)));
    if plutus_inputs {
        // (kind, id, refsize) of the Plutus inputs
        let mut specs: Vec<(u32, u64, u64)> = vec![];
        let b = 400 + 2 * r.below(10);                                   // even
        let by_ref = wd_ref.is_some() || r.chance(1, 2);
        if by_ref {
            // the script named by size z: by reference (5 / 6), or the same script inline (7 / 8)
            let z = match wd_ref { Some(z) if r.chance(3, 4) => z, _ => *r.pick(&REF_SIZES[1..]) + r.below(3) };
            let dat = |r: &mut Rng, k: u32| if r.chance(1, 2) { k } else { k + 1 };        // inline datum or witness datum
            if r.chance(1, 2) {
                // the same script on several inputs (the inputs are ordered by id in the builder)
                match r.below(5) {
                    0 => { specs.push((dat(r, 5), b, z)); specs.push((dat(r, 5), b + 1, z)); }               // two different reference UTxOs
                    1 => { specs.push((dat(r, 5), b + 3, z)); specs.push((dat(r, 5), b, z)); }
                    2 => { specs.push((dat(r, 7), b + r.below(2), z)); specs.push((dat(r, 5), b + 2 + r.below(2), z)); }   // inline first, reference second
                    3 => { specs.push((dat(r, 5), b + r.below(2), z)); specs.push((dat(r, 7), b + 2 + r.below(2), z)); }   // reference first, inline second
                    _ => { specs.push((5, b, z)); specs.push((6, b + 2, z)); }                                  // the same reference UTxO twice
                }
                if r.chance(1, 3) { let k = *r.pick(&[5u32, 6, 7, 8]); specs.push((k, b + 4 + r.below(3), z)); }
            } else {
                specs.push((dat(r, 5), b + r.below(2), z));
                if r.chance(1, 4) { let z2 = *r.pick(&REF_SIZES[1..]) + r.below(3); specs.push((dat(r, 5), b + 21, z2)); }
                if r.chance(1, 6) { specs.push((dat(r, 7), b + 30 + r.below(2), *r.pick(&REF_SIZES[1..]))); }       // inline only
            }
            cfg.refprice = if r.chance(1, 8) { None } else { Some(*r.pick(&[[15u64, 1u64], [15, 1], [44, 1], [1, 3]])) };
            if cfg.maxtx < 16384 && !r.chance(1, 4) { cfg.maxtx = 16384; }
        } else {
            let n = if r.chance(1, 4) { 2 } else { 1 };
            for j in 0..n { let id = b + r.below(2) + j * 21; let k = *r.pick(&[3u32, 4, 4]); specs.push((k, id, if r.chance(1, 4) { gen_own_ref(r, id) } else { 0 })); }
        }
        for (kind, id, refsize) in specs {
            datum_rank = datum_rank.max(if matches!(kind, 4 | 6 | 8) { 2 } else { 1 });
            let mem = match r.below(6) { 0 => 0, 1 => r.u64_edge() >> 24, _ => r.range(1000, 14_000_000) };
            let steps = match r.below(6) { 0 => 0, 1 => r.u64_edge() >> 20, _ => r.range(100_000, 10_000_000_000) };
            utxos.push(U { id, kind, mem, steps, refsize, val: Val::ada(r.range(2_000_000, 9_000_000)) });
            pre.push(Op::In(id));
        }
    }
    // native scripts by reference; two of the same size and different parity name two reference UTxOs
    if full && r.chance(1, 8) {
        let z = *r.pick(&REF_SIZES[1..]) + r.below(3);
        let b = 500 + 2 * r.below(20);
        let ids = if r.chance(1, 3) { vec![b, b + 1 + 2 * r.below(2)] } else if r.chance(1, 6) { vec![b, b + 2] } else { vec![b + r.below(2)] };
        for id in ids { utxos.push(U { id, kind: 9, mem: 0, steps: 0, refsize: z, val: Val::ada(r.range(2_000_000, 9_000_000)) }); pre.push(Op::In(id)); }
        if cfg.refprice.is_none() && !r.chance(1, 5) { cfg.refprice = Some([15, 1]); }
    }
    if wd_ref.is_some() && cfg.refprice.is_none() && !r.chance(1, 5) { cfg.refprice = Some([15, 1]); }
    if plutus_inputs || plutus_wd {
        cfg.prices = if r.chance(1, 10) { None } else { Some(gen_prices(r)) };
        if !r.chance(1, 12) { gen_collateral(r, utxos, pre); }
    } else if full && r.chance(1, 8) {
        // collateral without Plutus inputs: the body still carries it and its owner has to sign
        gen_collateral(r, utxos, pre);
    }
    let (dn, dd) = match datum_rank { 2 => (1, 3), 1 => (1, 6), _ => (1, 30) };
    if r.chance(dn, dd) { for _ in 0..r.range(1, 2) { pre.push(Op::X("datum".into(), *r.pick(&[1u64, 5, 23, 24, 40, 64, 65, 255, 256, 300]))); } }
    if r.chance(1, 6) { for _ in 0..r.range(1, 2) { pre.push(Op::X("sig".into(), r.below(POOL))); } }
    if full && r.chance(1, 8) {
        for _ in 0..r.range(1, 2) { pre.push(Op::X("ref".into(), *r.pick(&REF_SIZES))); }
        if cfg.refprice.is_none() && !r.chance(1, 5) { cfg.refprice = Some([15, 1]); }
    }
    // UTxOs that carry a script_ref of their own: their bytes enter the reference-script fee
    if utxos.iter().any(has_own_ref) && cfg.refprice.is_none() && !r.chance(1, 6) { cfg.refprice = Some([15, 1]); }
    if r.chance(1, 10) { pre.push(Op::X("meta".into(), *r.pick(&[1u64, 10, 64, 65, 200, 1200, 3000]))); }
    if r.chance(1, 2) { pre.push(Op::X("ttl".into(), match r.below(4) { 0 => r.u64_edge(), _ => r.range(1_000_000, 200_000_000) })); }
    if full && r.chance(1, 12) { pre.push(Op::X("refplain".into(), r.below(50))); }
}

fn gen_scenario(r: &mut Rng, stream: u32) -> Scenario {
    let mut cfg = gen_cfg(r);
    let mut utxos: Vec<U> = vec![];
    let mut pre: Vec<Op> = vec![];
    let mut post: Vec<Op> = vec![];
    let edge = stream == 6;
    let label;
    let n_utxo = match stream { 5 => r.range(3, 40), _ => r.range(1, 6) };
    let with_assets = matches!(stream, 2 | 3 | 4 | 5) && r.chance(4, 5);
    let n_pol = r.range(1, 6);
    if stream == 3 { cfg.maxval = *r.pick(&[300u32, 200, 150, 120, 5000]); cfg.maxtx = 100000; }
    let a64 = u64of(&cfg.a);
    for k in 0..n_utxo {
        let id = 5 * (k + 1) + r.below(4);
        let kind = if edge { 3 } else if stream == 1 { 1 } else { *r.pick(&[0u32, 0, 0, 2]) };
        let mut coin = gen_coin(r, kind);
        if k == 0 && a64 > 10_000 && !edge { coin = coin.saturating_add(a64.saturating_mul(4000)); }     // fees of hundreds of ADA
        let n_assets = if with_assets { match stream { 3 => r.range(5, 30), _ => r.below(5) } } else { 0 };
        // coin selection is offered Byron UTxOs and UTxOs carrying a script_ref as well
        let (ukind, refsize) = if stream == 5 { (if r.chance(1, 3) { 1 } else { 0 }, if r.chance(1, 3) { gen_own_ref(r, id) } else { 0 }) }
                               else { (0, if r.chance(1, 8) { gen_own_ref(r, id) } else { 0 }) };
        utxos.push(U { id, kind: ukind, mem: 0, steps: 0, refsize, val: Val { coin: b64(coin), assets: gen_assets(r, n_assets, n_pol, stream == 3) } });
    }
    let mut plutus_wd = false;
    let mut wd_ref: Option<u64> = None;
    let key_ids: Vec<u64> = utxos.iter().map(|u| u.id).collect();
    // operations before balancing
    if stream != 5 { for id in &key_ids { pre.push(Op::In(*id)); } }
    let n_out = r.below(4);
    for _ in 0..n_out {
        let coin = gen_coin(r, if edge { 3 } else { 1 });
        let assets = if with_assets && r.chance(1, 2) {
            // part of what some UTxO holds
            let v = r.pick(&utxos).val.clone();
            v.assets.map(|es| es.into_iter().filter_map(|(p, n, q)| { if r.chance(1, 2) { return None; } let q64: u64 = q.into(); Some((p, n, b64(if r.chance(1, 2) { q64 } else { q64 / 2 + 1 }))) }).collect::<Vec<_>>())
        } else { None };
        // far above mainnet's price per byte the minimum ADA is several ADA: scale (1 in 10 stay below the minimum)
        let cpb = u64of(&cfg.cpb);
        let coin = if cpb > 4310 && !edge && !r.chance(1, 10) { coin.saturating_add(cpb.saturating_mul(330)) } else { coin };
        pre.push(Op::Out(r.range(1, 30), *r.pick(&[0u64, 0, 0, 1, 2, 3, 4]), Val { coin: b64(coin), assets }));
    }
    if matches!(stream, 4 | 6) || r.chance(1, 6) {
        if r.chance(1, 2) { pre.push(Op::Certs(Some(gen_certs(r, edge)))); }
        if r.chance(1, 2) {
            // distinct reward accounts: key credentials, now and then a native-script or a Plutus credential
            let n = r.range(1, 3) as usize;
            let mut ids: Vec<u64> = vec![];
            if r.chance(1, 5) { ids.push(21 + r.below(11)); }
            if r.chance(1, 6) { ids.push(41 + r.below(11)); plutus_wd = true; }
            if r.chance(1, 6) { let a = 61 + r.below(11); ids.push(a); plutus_wd = true; wd_ref = Some(WDREF[(a - 61) as usize]); }
            while ids.len() < n { let a = r.range(1, 11); if !ids.contains(&a) { ids.push(a); } }
            shuffle(r, &mut ids);
            pre.push(Op::Wd(Some(ids.into_iter().map(|a| (a, b64(if r.chance(1, 4) { 0 } else if edge { r.u64_edge() } else { r.range(0, 3_000_000) }))).collect())));
        }
        if r.chance(1, 3) { pre.push(Op::Don(b64(if edge { r.u64_edge() } else { r.range(0, 2_000_000) }))); }
        if r.chance(1, 4) { pre.push(Op::Treas(b64(r.below(3) * 1_000_000_000))); }
        if r.chance(1, 8) { pre.push(Op::Certs(None)); }
        if r.chance(1, 8) { pre.push(Op::Wd(None)); }
        // mint and burn: burn what a UTxO holds, mint fresh names
        let n_mint = r.below(4);
        for _ in 0..n_mint {
            let burn = r.chance(1, 2);
            let holders: Vec<&(Vec<u8>, Vec<u8>, BigNum)> = utxos.iter().filter_map(|u| u.val.assets.as_ref()).flat_map(|es| es.iter()).collect();
            if burn && !holders.is_empty() {
                let (p, n, q) = (*r.pick(&holders)).clone();
                let q64: u64 = q.into();
                let amt = if r.chance(1, 2) { q64 } else { r.range(1, q64.max(1)) };
                pre.push(Op::Mint(r.chance(1, 4), p, n, format!("-{}", amt)));
            } else {
                let amt: i128 = match r.below(12) { 0 | 1 => r.u64_edge() as i128, 2 | 3 => -(r.range(1, 50) as i128), 4 => 0,
                    5 => *r.pick(&[-(1i128 << 64), -(1i128 << 64) + 1, (1i128 << 64) - 1, -(1i128 << 63), 1i128 << 63, -(1i128 << 64) - 1, 1i128 << 64]),
                    _ => r.range(1, 1_000_000) as i128 };
                pre.push(Op::Mint(r.chance(1, 4), policy_bytes(r.below(N_POLICIES)), gen_name(r), format!("{}", amt)));
            }
        }
    }
    if r.chance(1, 5) { pre.push(if r.chance(1, 2) { Op::Fee(b64(*r.pick(&[170_000u64, 200_000, 1_000_000, 0, 5_000_000]))) } else { Op::MinFee(b64(*r.pick(&[170_000u64, 250_000, 1_000_000, 0, 5_000_000]))) }); }
    decorate(r, &mut cfg, &mut utxos, &mut pre, true, plutus_wd, wd_ref);
    gen_xr(r, &mut cfg, &mut utxos, &mut pre, stream != 5);
    shuffle_ops(r, &mut pre);
    let change_addr = r.range(1, 30);
    match stream {
        5 => {
            // some inputs may already be in the builder
            if r.chance(1, 3) { pre.push(Op::In(*r.pick(&key_ids))); }
            post.push(Op::SelChange(r.below(4) as u32, change_addr, *r.pick(&[0u64, 0, 1, 2, 3, 4]), key_ids.clone()));
            label = "sel";
        }
        _ => {
            post.push(Op::Change(change_addr, *r.pick(&[0u64, 0, 0, 1, 2])));
            label = match stream { 0 => "ada", 1 => "tight", 2 => "assets", 3 => "pack", 4 => "mix", _ => "edge" };
        }
    }
    if r.chance(1, 10) { post.push(Op::Change(change_addr, 0)); }           // a second change attempt
    if r.chance(1, 15) { post.push(Op::Out(r.range(1, 30), 0, Val::ada(1_500_000))); }   // edits after balancing
    post.push(Op::Build);
    let mut ops = pre; ops.extend(post);
    Scenario { label: label.to_string(), cfg, utxos, ops }
}

/// run the scenario's operations before position `upto` on a fresh builder
fn dry(sc: &Scenario, upto: usize) -> World {
    let mut w = new_world(sc);
    let mut last = None;
    for op in &sc.ops[..upto] { run_op(&mut w, op, &mut last); }
    w
}
/// inputs - outputs - public min_fee of the state before the first change op (what a change output could hold), as i128
fn slack_before_change(sc: &Scenario, pos: usize) -> Option<i128> {
    let mut w = dry(sc, pos);
    catch(move || -> Option<i128> {
        prepare_balancing(&mut w);
        let tin = w.tb.get_total_input().ok()?; let tout = w.tb.get_total_output().ok()?; let fee = w.tb.min_fee().ok()?;
        Some(u64of(&tin.coin()) as i128 - u64of(&tout.coin()) as i128 - u64of(&fee) as i128)
    }).ok().flatten()
}
/// run through the first change op: (coin of the last output it added, fee it set)
fn after_change(sc: &Scenario, pos: usize) -> Option<(Option<u64>, u64)> {
    let mut w = dry(sc, pos);
    let n_before = verif_builder_outputs(&w.tb).len();
    let mut last = None;
    let rec = run_op(&mut w, &sc.ops[pos], &mut last);
    if rec.res != "t" && rec.res != "f" { return None; }
    let outs = verif_builder_outputs(&w.tb);
    let coin = if outs.len() > n_before { Some(u64of(&outs.get(outs.len() - 1).amount().coin())) } else { None };
    Some((coin, u64of(&w.tb.get_fee_if_set()?)))
}

/// steer a scenario towards the exact / burn branches: dry-run everything before the change operation, then make
/// inputs = outputs + fee + delta by lowering the coin of one key UTxO that is an input, or, when the inputs are short,
/// by adding one fresh ADA-only UTxO
fn steer(sc: &Scenario, delta: i64, r: &mut Rng) -> Option<Scenario> {
    let pos = sc.ops.iter().position(|o| matches!(o, Op::Change(..)))?;
    let slack = slack_before_change(sc, pos)?;
    let mut s2 = sc.clone();
    let cut = slack - delta as i128;
    if cut > 0 {
        let used: Vec<u64> = sc.ops[..pos].iter().filter_map(|o| match o { Op::In(i) => Some(*i), _ => None }).collect();
        let mut cut = cut;
        for u in s2.utxos.iter_mut().filter(|u| u.kind == 0 && used.contains(&u.id)) {
            let take = cut.min(u64of(&u.val.coin) as i128 - 1).max(0);
            u.val.coin = b64((u64of(&u.val.coin) as i128 - take) as u64);
            cut -= take;
        }
        if cut > 0 { return None; }
    } else if cut < 0 {
        if -cut >= (1i128 << 63) { return None; }
        let fresh = 900 + r.below(50) * 5;
        s2.utxos.push(U::key(fresh, Val::ada((-cut) as u64)));
        s2.ops.insert(pos, Op::In(fresh));
    }
    s2.label = format!("{}-steer", sc.label);
    Some(s2)
}

/// `width`: boundary-directed scenarios.  The coin of the change output, the fee, or the number of outputs sits next to
/// a CBOR width boundary.
fn gen_width(r: &mut Rng) -> Scenario {
    let (a, b, meta) = match r.below(9) {
        0 | 1 | 2 => (44u64, 155381u64, None),
        3 => (44, 0, Some(r.range(1100, 1300))),          // fee ~ 44 * 1.45 kB: next to 2^16
        4 => (1, 65000, Some(r.range(1, 500))),           // fee = 65000 + size: next to 2^16
        5 | 6 => (r.range(10_000_000, 20_000_000), 0, None),  // fee >= 2^32
        7 => (1, 0, None),
        _ => (500, 1000, None),
    };
    let cpb = *r.pick(&[0u64, 1, 0, 1, 100, 4310]);
    let mut cfg = Cfg { pool: b64(500_000_000), key: b64(2_000_000), pure_: r.chance(1, 2), noburn: r.chance(1, 4), cpb: b64(cpb),
        maxval: 5000, maxtx: 16384, a: b64(a), b: b64(b), prices: if r.chance(1, 2) { Some(MAINNET_PRICES) } else { None },
        refprice: if r.chance(1, 2) { Some([15, 1]) } else { None }, dd: false };
    let n_tok = *r.pick(&[0u64, 0, 1, 2]);
    let assets = if n_tok == 0 { None } else {
        Some((0..n_tok).map(|k| (policy_bytes(k * r.below(2)), NAMES[(1 + k + r.below(3)) as usize].to_vec(), b64(*r.pick(&[1u64, 5, 1000, 1 << 33])))).collect::<Vec<_>>())
    };
    let mut utxos = vec![U::key(5 + r.below(4), Val { coin: b64(1), assets })];
    let mut pre = vec![Op::In(utxos[0].id)];
    if r.chance(1, 3) {
        let id = 10 + r.below(4);
        utxos.push(U::key(id, Val::ada(r.range(1, 50_000))));
        pre.push(Op::In(id));
    }
    let n_out = if cpb <= 1 && r.chance(1, 5) { r.range(22, 25) } else { r.below(3) };
    for _ in 0..n_out {
        let coin = if cpb <= 1 { r.range(400, 5000) } else if cpb == 100 { r.range(30_000, 90_000) } else { r.range(1_000_000, 3_000_000) };
        pre.push(Op::Out(r.range(1, 30), *r.pick(&[0u64, 0, 0, 0, 1, 2]), Val::ada(coin)));
    }
    if let Some(m) = meta { pre.push(Op::X("meta".into(), m)); }
    decorate(r, &mut cfg, &mut utxos, &mut pre, false, false, None);
    gen_xr(r, &mut cfg, &mut utxos, &mut pre, true);
    let head = pre.remove(0);
    shuffle_ops(r, &mut pre);
    pre.insert(0, head);
    let pos = pre.len();
    let mut ops = pre;
    ops.push(Op::Change(r.range(1, 30), *r.pick(&[0u64, 0, 0, 1, 2])));
    ops.push(Op::Build);
    let mut sc = Scenario { label: "width".into(), cfg, utxos, ops };
    // where the change coin should land
    // (a change output below the minimum ADA is not created: boundaries below it only now and then)
    let min_ada_about = cpb * if n_tok > 0 { 330 } else { 230 };
    let mut boundary = *r.pick(&[1u64 << 16, 1 << 16, 1 << 16, 1 << 32, 1 << 32, 1 << 32, 24, 256, 5_000_000_000, 10_000_000_000_000]);
    if boundary < min_ada_about && !r.chance(1, 8) { boundary = *r.pick(&[1u64 << 32, 1 << 32, 1 << 32, 5_000_000_000, 10_000_000_000_000]); }
    let target = if boundary > (1u64 << 32) { boundary + r.below(1_000_000) } else { boundary + r.below(7) - 3 };
    let set_x = |sc: &mut Scenario, x: i128| { if x >= 1 && x < (1i128 << 63) { sc.utxos[0].val.coin = b64(x as u64); true } else { false } };
    let adjust = |sc: &mut Scenario, pos: usize| {
        if let Some((Some(c), _)) = after_change(sc, pos) {
            let x = u64of(&sc.utxos[0].val.coin) as i128 + target as i128 - c as i128;
            set_x(sc, x);
        }
    };
    if let Some(slack) = slack_before_change(&sc, pos) {
        // slack was measured with x = 1
        set_x(&mut sc, 1 - slack + target as i128);
        adjust(&mut sc, pos);
        adjust(&mut sc, pos);
    }
    // fee policy around the fee the builder arrives at
    let fee_now = after_change(&sc, pos).map(|(_, f)| f).unwrap_or(200_000);
    let around = |r: &mut Rng, c: u64, d: u64| (c as i128 + r.below(2 * d + 1) as i128 - d as i128).max(0) as u64;
    let policy = match r.below(8) {
        0 | 1 | 2 => None,
        3 | 4 => Some(Op::MinFee(b64(around(r, fee_now, 300)))),
        5 => { let c = *r.pick(&[1u64 << 16, 1 << 32]); Some(Op::MinFee(b64(around(r, c, 3)))) }
        _ => Some(Op::Fee(b64(around(r, fee_now, 2000)))),
    };
    if let Some(p) = policy {
        let at = 1 + r.below(pos as u64) as usize;
        sc.ops.insert(at, p);
        adjust(&mut sc, pos + 1);
    }
    sc
}

/// `late`: the fee request changes AFTER the change was computed
fn gen_late(r: &mut Rng) -> Scenario {
    let base = if r.chance(1, 4) { 2 } else { 0 };
    let mut sc = gen_scenario(r, base);
    sc.label = "late".into();
    let pos = match sc.ops.iter().position(|o| matches!(o, Op::Change(..))) { Some(p) => p, None => return sc };
    sc.ops.truncate(pos + 1);
    if !r.chance(1, 4) { sc.ops.retain(|o| !matches!(o, Op::Fee(_) | Op::MinFee(_))); }
    let pos = sc.ops.len() - 1;
    let f = after_change(&sc, pos).map(|(_, f)| f).unwrap_or(180_000);
    let v = match r.below(8) { 0 => f.saturating_sub(5000), 1 => f.saturating_sub(1), 2 | 3 => f, 4 => f + 1, 5 => f + 5000, 6 => 0, _ => f.saturating_mul(2) };
    sc.ops.push(if r.chance(1, 2) { Op::Fee(b64(v)) } else { Op::MinFee(b64(v)) });
    if r.chance(1, 10) { sc.ops.push(Op::Change(r.range(1, 30), 0)); }
    sc.ops.push(Op::Build);
    sc
}

fn main() {
    if std::env::var("C06_LOUD").is_err() { silence_panics(); }
    let args: Vec<String> = std::env::args().collect();
    match args.get(1).map(|s| s.as_str()) {
        Some("gen") => {
            let mut out = Out::new(&args[2]);
            let mut r = Rng::new(seed_from_env());
            let n = if is_thorough() { 25000 } else { 1500 };
            for k in 0..n {
                // 16 slots: width 4, late 1, ada 2, tight 1, assets 2, pack 1, mix 2, sel 2, edge 1
                let stream: u32 = match k % 16 { 0 | 4 | 8 | 12 => 7, 1 => 8, 2 | 9 => 0, 3 => 1, 5 | 10 => 2, 6 => 3, 7 | 13 => 4, 11 | 14 => 5, _ => 6 };
                let mut sc = match stream { 7 => gen_width(&mut r), 8 => gen_late(&mut r), s => gen_scenario(&mut r, s) };
                if (matches!(stream, 0 | 1) && r.chance(1, 2)) || (matches!(stream, 2 | 4) && r.chance(1, 6)) {
                    let delta = *r.pick(&[0i64, 0, 0, 0, 1, 1000, 500_000, 900_000, 1_200_000, -1, 2_000_000]);
                    if let Some(s2) = steer(&sc, delta, &mut r) { sc = s2; }
                }
                // the scenario as the replay will read it
                let line0 = sc.show();
                let toks: Vec<String> = line0.split_whitespace().map(|s| s.to_string()).collect();
                let mut sc = parse(&toks);
                assert_eq!(sc.show(), line0, "case line round trip");
                // label = generator stream : how the first balancing operation went on the implementation
                let (res, shape) = std::panic::catch_unwind(AssertUnwindSafe(|| exec_shape(&sc))).unwrap_or(("panic".into(), "scenario-panic".into()));
                sc.label = format!("{}:{}", sc.label, shape);
                out.emit(&sc.show(), &res);
            }
            out.finish();
        }
        Some("run") => {
            let cases = read_cases(&args[2]);
            let mut f = std::io::BufWriter::new(std::fs::File::create(&args[3]).unwrap());
            use std::io::Write;
            for (idx, toks) in cases { writeln!(f, "{} {}", idx, exec_line(&toks)).unwrap(); }
        }
        _ => { eprintln!("usage: c06 gen <dir> | c06 run <cases> <out>"); std::process::exit(2); }
    }
}
