//! C04 correspondence harness: original bytes and the hashes derived from them are preserved.
//! Cases come from the model-side generator (`<dir>/model_cases.txt`, see ocaml/c04_driver.ml); this binary
//! completes the signing oracles (what `make_*_witness` returns for a key and the Blake2b-256 of a claimed
//! preimage), runs the library and reports what it observed.
//!
//! Case kinds
//!   tx  <hex> <op>*                          FixedTransaction::from_bytes, then the operations
//!   txn <body> <wits> <0|1> <aux|~> <op>*    FixedTransaction::new / new_with_auxiliary
//!   txb <body> <op>*                         FixedTransaction::new_from_body_bytes
//!   pd  <hex>                                PlutusData::from_bytes -> to_bytes, hash_plutus_data
//!   pdl <hex>                                PlutusList::from_bytes -> to_bytes
//!   fb  <hex>                                FixedTransactionBody::from_bytes -> original_bytes, tx_hash
//!   fws <hex> <av|ab op>*                    FixedTxWitnessesSet::from_bytes, add_*_witness, to_bytes, tx_witnesses_set
//!   fbs <hex>                                FixedTransactionBodies::from_bytes -> every original_bytes / tx_hash
//!   blk <hex> <claimed header bytes>         FixedBlock::from_bytes -> bodies as above, block_hash
//!   vblk <hex> <claimed header bytes>        FixedVersionedBlock::from_bytes -> era code + the same
//!     observation: ok [era=<code>] n=<count> o=<orig,orig,...|-> hq=<y|n per body: tx_hash is Blake2b-256 of orig>
//!                  [bh=<the bytes block_hash is Blake2b-256 of, among the claimed header and the input, or ?hash>]
//! Operations
//!   av:<vk>:<sig>  ab:<vk>:<sig>:<cc>:<attr>  sb:<body>  sw:<wits>  sx:<aux>  vl:<0|1>
//!   sv:<sk32>:<pre>[:<vk>:<sig>]                       sign_and_add_vkey_signature
//!   si:<entropy>:<pre>[:<vk>:<sig>:<cc>:<attr>]        sign_and_add_icarus_bootstrap_signature
//!   sd:<xprv96>:<pre>[:<vk>:<sig>:<cc>:<attr>]         sign_and_add_daedalus_bootstrap_signature
//!   (<pre> = the bytes the generator claims the transaction hash is taken over at that point; the bracketed
//!   part is the oracle value = make_*_witness(blake2b256(<pre>), key), appended here in `gen` mode)
//! Observation
//!   ok b=<raw_body> a=<raw_auxiliary_data|~> w=<raw_witness_set> t=<to_bytes> hp=<bytes whose Blake2b-256
//!   (computed by the implementation below, not by the library) equals transaction_hash, or ?<hash>>
//!   e=<one digit per operation: 1 = it returned an error> v=<is_valid()> bb=<body().to_bytes()>
//!   sc=<- or the accessors that disagree with the raw ones: to_hex, body(), witness_set(), auxiliary_data(),
//!   reloading to_bytes() through from_bytes / from_hex>                                   |  err  |  panic
use cardano_serialization_lib::*;
use csl_verif_harness::util::*;

// ---------------------------------------------------------------- Blake2b (RFC 7693), unkeyed, 32-byte digest
const IV: [u64; 8] = [0x6a09e667f3bcc908, 0xbb67ae8584caa73b, 0x3c6ef372fe94f82b, 0xa54ff53a5f1d36f1,
    0x510e527fade682d1, 0x9b05688c2b3e6c1f, 0x1f83d9abfb41bd6b, 0x5be0cd19137e2179];
const SIGMA: [[usize; 16]; 12] = [
    [0, 1, 2, 3, 4, 5, 6, 7, 8, 9, 10, 11, 12, 13, 14, 15], [14, 10, 4, 8, 9, 15, 13, 6, 1, 12, 0, 2, 11, 7, 5, 3],
    [11, 8, 12, 0, 5, 2, 15, 13, 10, 14, 3, 6, 7, 1, 9, 4], [7, 9, 3, 1, 13, 12, 11, 14, 2, 6, 5, 10, 4, 0, 15, 8],
    [9, 0, 5, 7, 2, 4, 10, 15, 14, 1, 11, 12, 6, 8, 3, 13], [2, 12, 6, 10, 0, 11, 8, 3, 4, 13, 7, 5, 15, 14, 1, 9],
    [12, 5, 1, 15, 14, 13, 4, 10, 0, 7, 6, 3, 9, 2, 8, 11], [13, 11, 7, 14, 12, 1, 3, 9, 5, 0, 15, 4, 8, 6, 2, 10],
    [6, 15, 14, 9, 11, 3, 0, 8, 12, 2, 13, 7, 1, 4, 10, 5], [10, 2, 8, 4, 7, 6, 1, 5, 15, 11, 9, 14, 3, 12, 13, 0],
    [0, 1, 2, 3, 4, 5, 6, 7, 8, 9, 10, 11, 12, 13, 14, 15], [14, 10, 4, 8, 9, 15, 13, 6, 1, 12, 0, 2, 11, 7, 5, 3]];

fn compress(h: &mut [u64; 8], block: &[u8; 128], t: u128, last: bool) {
    let mut m = [0u64; 16];
    for i in 0..16 { let mut w = [0u8; 8]; w.copy_from_slice(&block[8 * i..8 * i + 8]); m[i] = u64::from_le_bytes(w); }
    let mut v = [0u64; 16];
    v[..8].copy_from_slice(h);
    v[8..].copy_from_slice(&IV);
    v[12] ^= t as u64;
    v[13] ^= (t >> 64) as u64;
    if last { v[14] = !v[14]; }
    fn g(v: &mut [u64; 16], a: usize, b: usize, c: usize, d: usize, x: u64, y: u64) {
        v[a] = v[a].wrapping_add(v[b]).wrapping_add(x); v[d] = (v[d] ^ v[a]).rotate_right(32);
        v[c] = v[c].wrapping_add(v[d]); v[b] = (v[b] ^ v[c]).rotate_right(24);
        v[a] = v[a].wrapping_add(v[b]).wrapping_add(y); v[d] = (v[d] ^ v[a]).rotate_right(16);
        v[c] = v[c].wrapping_add(v[d]); v[b] = (v[b] ^ v[c]).rotate_right(63);
    }
    for r in 0..12 {
        let s = &SIGMA[r];
        g(&mut v, 0, 4, 8, 12, m[s[0]], m[s[1]]); g(&mut v, 1, 5, 9, 13, m[s[2]], m[s[3]]);
        g(&mut v, 2, 6, 10, 14, m[s[4]], m[s[5]]); g(&mut v, 3, 7, 11, 15, m[s[6]], m[s[7]]);
        g(&mut v, 0, 5, 10, 15, m[s[8]], m[s[9]]); g(&mut v, 1, 6, 11, 12, m[s[10]], m[s[11]]);
        g(&mut v, 2, 7, 8, 13, m[s[12]], m[s[13]]); g(&mut v, 3, 4, 9, 14, m[s[14]], m[s[15]]);
    }
    for i in 0..8 { h[i] ^= v[i] ^ v[i + 8]; }
}

fn blake2b256(data: &[u8]) -> [u8; 32] {
    let mut h = IV;
    h[0] ^= 0x0101_0000 ^ 32;
    let mut t: u128 = 0;
    let mut off = 0usize;
    while data.len() - off > 128 {
        let mut b = [0u8; 128];
        b.copy_from_slice(&data[off..off + 128]);
        t += 128;
        compress(&mut h, &b, t, false);
        off += 128;
    }
    let mut b = [0u8; 128];
    b[..data.len() - off].copy_from_slice(&data[off..]);
    t += (data.len() - off) as u128;
    compress(&mut h, &b, t, true);
    let mut out = [0u8; 32];
    for i in 0..4 { out[8 * i..8 * i + 8].copy_from_slice(&h[i].to_le_bytes()); }
    out
}

fn blake_selftest() {
    assert_eq!(hex::encode(blake2b256(b"")), "0e5751c026e543b2e8ab2eb06099daa1d1e5df47778f7787faab45cdf12fe3a8");
    assert_eq!(hex::encode(blake2b256(b"abc")), "bddd813c634239723171ef3fee98579b94964e3bb1cb3e427262c8c068d52319");
    // agreement with the library's primitive on a long input (through a public entry point)
    let d = PlutusData::new_bytes((0..200u32).map(|i| (i * 7) as u8).collect());
    assert_eq!(hash_plutus_data(&d).to_bytes(), blake2b256(&d.to_bytes()).to_vec());
}

// ---------------------------------------------------------------- helpers
fn hx(b: &[u8]) -> String { hex_or_dash(b) }
fn uh(s: &str) -> Vec<u8> { unhex_or_dash(s) }

fn vkw_of(vk: &[u8], sg: &[u8]) -> Option<Vkeywitness> {
    let pk = PublicKey::from_bytes(vk).ok()?;
    let sig = Ed25519Signature::from_bytes(sg.to_vec()).ok()?;
    Some(Vkeywitness::new(&Vkey::new(&pk), &sig))
}
fn bw_of(vk: &[u8], sg: &[u8], cc: &[u8], at: &[u8]) -> Option<BootstrapWitness> {
    let pk = PublicKey::from_bytes(vk).ok()?;
    let sig = Ed25519Signature::from_bytes(sg.to_vec()).ok()?;
    Some(BootstrapWitness::new(&Vkey::new(&pk), &sig, cc.to_vec(), at.to_vec()))
}
fn icarus_key(entropy: &[u8]) -> (Bip32PrivateKey, ByronAddress) {
    let k = Bip32PrivateKey::from_bip39_entropy(entropy, &[]);
    let magic = if entropy.first().map(|b| b & 1 == 1).unwrap_or(false) { 764824073 } else { 1097911063 };
    let a = ByronAddress::icarus_from_key(&k.to_public(), magic);
    (k, a)
}
fn daedalus_key(xprv: &[u8]) -> Option<(LegacyDaedalusPrivateKey, ByronAddress)> {
    let k = LegacyDaedalusPrivateKey::from_bytes(xprv).ok()?;
    // any Byron address supplies the attributes; derive one deterministically from the key bytes
    let (_, a) = icarus_key(&xprv[64..96]);
    Some((k, a))
}
fn thash(pre: &[u8]) -> TransactionHash { TransactionHash::from_bytes(blake2b256(pre).to_vec()).unwrap() }

/// gen mode: append the oracle value to signing operations that lack it
fn finalize_op(op: &str) -> String {
    let f: Vec<&str> = op.split(':').collect();
    match f[0] {
        "sv" if f.len() == 3 => {
            match PrivateKey::from_normal_bytes(&uh(f[1])) {
                Ok(sk) => {
                    let w = make_vkey_witness(&thash(&uh(f[2])), &sk);
                    format!("{}:{}:{}", op, hx(&w.vkey().public_key().as_bytes()), hx(&w.signature().to_bytes()))
                }
                Err(_) => op.to_string(),
            }
        }
        "si" if f.len() == 3 => {
            let (k, a) = icarus_key(&uh(f[1]));
            let w = make_icarus_bootstrap_witness(&thash(&uh(f[2])), &a, &k);
            format!("{}:{}:{}:{}:{}", op, hx(&w.vkey().public_key().as_bytes()), hx(&w.signature().to_bytes()),
                    hx(&w.chain_code()), hx(&w.attributes()))
        }
        "sd" if f.len() == 3 => {
            match daedalus_key(&uh(f[1])) {
                Some((k, a)) => {
                    let w = make_daedalus_bootstrap_witness(&thash(&uh(f[2])), &a, &k);
                    format!("{}:{}:{}:{}:{}", op, hx(&w.vkey().public_key().as_bytes()), hx(&w.signature().to_bytes()),
                            hx(&w.chain_code()), hx(&w.attributes()))
                }
                None => op.to_string(),
            }
        }
        _ => op.to_string(),
    }
}

fn finalize(toks: &[String]) -> Vec<String> {
    let nfix = match toks[0].as_str() { "tx" => 2, "txn" => 5, "txb" => 2, _ => return toks.to_vec() };
    let mut out: Vec<String> = toks[..nfix.min(toks.len())].to_vec();
    for op in toks.iter().skip(nfix) { out.push(finalize_op(op)); }
    out
}

/// applies the operations and reports the observation
fn observe(mut tx: FixedTransaction, ops: &[String]) -> String {
    let mut bodies: Vec<Vec<u8>> = vec![tx.raw_body()];
    let mut e = String::new();
    for op in ops {
        let f: Vec<&str> = op.split(':').collect();
        let failed: bool = match f[0] {
            "av" => match vkw_of(&uh(f[1]), &uh(f[2])) { Some(w) => { tx.add_vkey_witness(&w); false } None => return "harness-badop".into() },
            "ab" => match bw_of(&uh(f[1]), &uh(f[2]), &uh(f[3]), &uh(f[4])) { Some(w) => { tx.add_bootstrap_witness(&w); false } None => return "harness-badop".into() },
            "sv" => match PrivateKey::from_normal_bytes(&uh(f[1])) { Ok(sk) => tx.sign_and_add_vkey_signature(&sk).is_err(), Err(_) => return "harness-badop".into() },
            "si" => { let (k, a) = icarus_key(&uh(f[1])); tx.sign_and_add_icarus_bootstrap_signature(&a, &k).is_err() }
            "sd" => match daedalus_key(&uh(f[1])) { Some((k, a)) => tx.sign_and_add_daedalus_bootstrap_signature(&a, &k).is_err(), None => return "harness-badop".into() },
            "sb" => { let b = uh(f[1]); let r = tx.set_body(&b).is_err(); if !r { bodies.push(b); } r }
            #[allow(deprecated)]
            "sw" => tx.set_witness_set(&uh(f[1])).is_err(),
            "sx" => tx.set_auxiliary_data(&uh(f[1])).is_err(),
            "vl" => { tx.set_is_valid(f[1] == "1"); false }
            _ => return "harness-badop".into(),
        };
        e.push(if failed { '1' } else { '0' });
    }
    let body = tx.raw_body();
    let hash = tx.transaction_hash().to_bytes();
    // the bytes the reported hash is taken over: the current body first, then every body seen so far
    let mut hp = format!("?{}", hex::encode(&hash));
    let mut cands: Vec<&Vec<u8>> = vec![&body];
    for b in bodies.iter().rev() { cands.push(b); }
    for c in cands { if blake2b256(c).to_vec() == hash { hp = hx(c); break; } }
    // every other public accessor must tell the same story as the raw accessors
    let mut sc: Vec<&str> = vec![];
    let tb = tx.to_bytes();
    let rw = tx.raw_witness_set();
    let ra = tx.raw_auxiliary_data();
    if tx.to_hex() != hex::encode(&tb) { sc.push("tohex"); }
    match TransactionBody::from_bytes(body.clone()) { Ok(b) => if b != tx.body() { sc.push("body"); }, Err(_) => sc.push("body-reparse") }
    match FixedTxWitnessesSet::from_bytes(rw.clone()) {
        Ok(w) => { if w.tx_witnesses_set() != tx.witness_set() { sc.push("witset"); } if w.to_bytes() != rw { sc.push("witset-bytes"); } }
        Err(_) => sc.push("witset-reparse"),
    }
    match TransactionWitnessSet::from_bytes(rw.clone()) { Ok(w) => if w != tx.witness_set() { sc.push("witset-plain"); }, Err(_) => sc.push("witset-plain-reparse") }
    match (&ra, tx.auxiliary_data()) {
        (Some(a), Some(x)) => match AuxiliaryData::from_bytes(a.clone()) { Ok(y) => if y != x { sc.push("aux"); }, Err(_) => sc.push("aux-reparse") },
        (None, None) => {}
        _ => sc.push("aux-presence"),
    }
    // the serialized transaction loads again to the same raw parts (also through the hex entry point)
    match (FixedTransaction::from_bytes(tb.clone()), FixedTransaction::from_hex(&hex::encode(&tb))) {
        (Ok(t2), Ok(t3)) => {
            if t2.raw_body() != body || t2.raw_witness_set() != rw || t2.raw_auxiliary_data() != ra || t2.is_valid() != tx.is_valid()
               || t2.to_bytes() != tb || t2.transaction_hash() != tx.transaction_hash() { sc.push("reload"); }
            if t3.to_bytes() != tb { sc.push("fromhex"); }
        }
        _ => sc.push("reload-err"),
    }
    format!("ok b={} a={} w={} t={} hp={} e={} v={} bb={} sc={}", hx(&body),
            match &ra { Some(a) => hx(a), None => "~".into() },
            hx(&rw), hx(&tb), hp, if e.is_empty() { "-".into() } else { e },
            if tx.is_valid() { 1 } else { 0 }, hx(&tx.body().to_bytes()),
            if sc.is_empty() { "-".to_string() } else { sc.join(",") })
}

fn exec(toks: &[String]) -> String {
    if toks.is_empty() { return "harness-badcase".into(); }
    match toks[0].as_str() {
        "tx" if toks.len() >= 2 => match FixedTransaction::from_bytes(uh(&toks[1])) {
            Err(_) => "err".into(),
            Ok(tx) => observe(tx, &toks[2..]),
        },
        "txn" if toks.len() >= 5 => {
            let (b, w, v) = (uh(&toks[1]), uh(&toks[2]), toks[3] == "1");
            let r = if toks[4] == "~" { FixedTransaction::new(&b, &w, v) } else { FixedTransaction::new_with_auxiliary(&b, &w, &uh(&toks[4]), v) };
            match r { Err(_) => "err".into(), Ok(tx) => observe(tx, &toks[5..]) }
        }
        "txb" if toks.len() >= 2 => match FixedTransaction::new_from_body_bytes(&uh(&toks[1])) {
            Err(_) => "err".into(),
            Ok(tx) => observe(tx, &toks[2..]),
        },
        "pd" if toks.len() == 2 => match PlutusData::from_bytes(uh(&toks[1])) {
            Err(_) => "err".into(),
            Ok(d) => {
                let t = d.to_bytes();
                let h = hash_plutus_data(&d).to_bytes();
                let hp = if blake2b256(&t).to_vec() == h { hx(&t) } else { format!("?{}", hex::encode(&h)) };
                // the hex entry points and a clone behave identically
                let mut extra = String::new();
                if d.to_hex() != hex::encode(&t) { extra.push_str(" selfcheck:tohex"); }
                if d.clone().to_bytes() != t { extra.push_str(" selfcheck:clone"); }
                format!("ok t={} hp={}{}", hx(&t), hp, extra)
            }
        },
        "pdl" if toks.len() == 2 => match PlutusList::from_bytes(uh(&toks[1])) {
            Err(_) => "err".into(),
            Ok(l) => format!("ok t={}", hx(&l.to_bytes())),
        },
        "fb" if toks.len() == 2 => match FixedTransactionBody::from_bytes(uh(&toks[1])) {
            Err(_) => "err".into(),
            Ok(b) => {
                let o = b.original_bytes();
                let h = b.tx_hash().to_bytes();
                let hp = if blake2b256(&o).to_vec() == h { hx(&o) } else { format!("?{}", hex::encode(&h)) };
                let mut sc: Vec<&str> = vec![];
                match TransactionBody::from_bytes(o.clone()) { Ok(x) => if x != b.transaction_body() { sc.push("body"); }, Err(_) => sc.push("body-reparse") }
                match FixedTransactionBody::from_hex(&toks[1].replace("-", "")) {
                    Ok(c) => if c.original_bytes() != o || c.tx_hash() != b.tx_hash() { sc.push("fromhex"); },
                    Err(_) => sc.push("fromhex-err"),
                }
                format!("ok o={} hp={} bb={} sc={}", hx(&o), hp, hx(&b.transaction_body().to_bytes()), if sc.is_empty() { "-".to_string() } else { sc.join(",") })
            }
        },
        "fws" if toks.len() >= 2 => match FixedTxWitnessesSet::from_bytes(uh(&toks[1])) {
            Err(_) => "err".into(),
            Ok(mut w) => {
                for op in &toks[2..] {
                    let f: Vec<&str> = op.split(':').collect();
                    match f[0] {
                        "av" => match vkw_of(&uh(f[1]), &uh(f[2])) { Some(x) => w.add_vkey_witness(&x), None => return "harness-badop".into() },
                        "ab" => match bw_of(&uh(f[1]), &uh(f[2]), &uh(f[3]), &uh(f[4])) { Some(x) => w.add_bootstrap_witness(&x), None => return "harness-badop".into() },
                        _ => return "harness-badop".into(),
                    }
                }
                let b = w.to_bytes();
                let mut sc: Vec<&str> = vec![];
                match TransactionWitnessSet::from_bytes(b.clone()) { Ok(p) => if p != w.tx_witnesses_set() { sc.push("witset-plain"); }, Err(_) => sc.push("reparse") }
                match FixedTxWitnessesSet::from_bytes(b.clone()) { Ok(p) => if p.to_bytes() != b || p.tx_witnesses_set() != w.tx_witnesses_set() { sc.push("reload"); }, Err(_) => sc.push("reload-err") }
                format!("ok w={} sc={}", hx(&b), if sc.is_empty() { "-".to_string() } else { sc.join(",") })
            }
        },
        "fbs" if toks.len() == 2 => match FixedTransactionBodies::from_bytes(uh(&toks[1])) {
            Err(_) => "err".into(),
            Ok(bs) => format!("ok {}", bodies_obs(&bs)),
        },
        "blk" if toks.len() == 3 => match FixedBlock::from_bytes(uh(&toks[1])) {
            Err(_) => "err".into(),
            Ok(b) => format!("ok {} bh={} {}", bodies_obs(&b.transaction_bodies()), block_hash_pre(&b, &uh(&toks[1]), &uh(&toks[2])), block_rest(&b, &uh(&toks[2]))),
        },
        "vblk" if toks.len() == 3 => match FixedVersionedBlock::from_bytes(uh(&toks[1])) {
            Err(_) => "err".into(),
            Ok(v) => { let b = v.block();
                format!("ok era={} {} bh={} {}", v.era() as u32, bodies_obs(&b.transaction_bodies()), block_hash_pre(&b, &uh(&toks[1]), &uh(&toks[2])), block_rest(&b, &uh(&toks[2]))) }
        },
        _ => "harness-badcase".into(),
    }
}

/// the remaining accessors of a block: counts, and the header view against the header bytes
fn block_rest(b: &FixedBlock, claimed_header: &[u8]) -> String {
    let mut sc: Vec<&str> = vec![];
    if blake2b256(claimed_header).to_vec() == b.block_hash().to_bytes() {
        match Header::from_bytes(claimed_header.to_vec()) { Ok(h) => if h != b.header() { sc.push("header"); }, Err(_) => sc.push("header-reparse") }
    }
    let bs = b.transaction_bodies();
    for i in 0..bs.len() {
        let x = bs.get(i);
        match TransactionBody::from_bytes(x.original_bytes()) { Ok(t) => if t != x.transaction_body() { sc.push("body"); break; }, Err(_) => { sc.push("body-reparse"); break; } }
    }
    format!("nw={} ni={} sc={}", b.transaction_witness_sets().len(), b.invalid_transactions().len(), if sc.is_empty() { "-".to_string() } else { sc.join(",") })
}

fn bodies_obs(bs: &FixedTransactionBodies) -> String {
    let mut o: Vec<String> = vec![];
    let mut hq = String::new();
    for i in 0..bs.len() {
        let b = bs.get(i);
        let ob = b.original_bytes();
        hq.push(if blake2b256(&ob).to_vec() == b.tx_hash().to_bytes() { 'y' } else { 'n' });
        o.push(hx(&ob));
    }
    format!("n={} o={} hq={}", bs.len(), if o.is_empty() { "-".to_string() } else { o.join(",") }, if hq.is_empty() { "-".into() } else { hq })
}

/// the bytes the block hash is taken over: the claimed header slice, else the input or the input without up to
/// 8 trailing bytes, else (versioned block) the input without its 2..10-byte prefix
fn block_hash_pre(b: &FixedBlock, input: &[u8], claimed_header: &[u8]) -> String {
    let h = b.block_hash().to_bytes();
    if blake2b256(claimed_header).to_vec() == h { return hx(claimed_header); }
    for skip in 0..11usize {
        for cut in 0..9usize {
            if skip + cut < input.len() {
                let c = &input[skip..input.len() - cut];
                if blake2b256(c).to_vec() == h { return format!("whole:{}", hx(c)); }
            }
        }
    }
    format!("?{}", hex::encode(&h))
}

fn gen(dir: &str) {
    let mut out = Out::new(dir);
    let path = format!("{}/model_cases.txt", dir);
    if let Ok(txt) = std::fs::read_to_string(&path) {
        for line in txt.lines() {
            let toks: Vec<String> = line.split_whitespace().map(|s| s.to_string()).collect();
            if toks.is_empty() { continue; }
            let t1 = toks.clone();
            let fin = match std::panic::catch_unwind(move || finalize(&t1)) { Ok(f) => f, Err(_) => toks.clone() };
            let t2 = fin.clone();
            let res = guarded(move || exec(&t2));
            out.emit(&fin.join(" "), &res);
        }
    }
    out.finish();
}

fn main() {
    silence_panics();
    blake_selftest();
    let args: Vec<String> = std::env::args().collect();
    match args.get(1).map(|s| s.as_str()) {
        Some("gen") => gen(&args[2]),
        Some("run") => {
            let mut o = String::new();
            for (idx, toks) in read_cases(&args[2]) {
                let res = guarded(move || exec(&toks));
                o.push_str(&format!("{} {}\n", idx, res));
            }
            std::fs::write(&args[3], o).unwrap();
        }
        _ => { eprintln!("usage: c04 gen <dir> | run <cases> <out>"); std::process::exit(2); }
    }
}
