//! C11 correspondence harness: address encodings.
//! `c11 gen <dir>` generates cases from VERIF_SEED / VERIF_TIER and runs the implementation;
//! `c11 run <cases> <out>` runs the implementation on given case lines (replay / corpus).
//!
//! Case lines (after the index):
//!   dec <hex>                 arbitrary bytes: strict parser, accessors, re-encoding, the parser used
//!                             for an address inside a transaction output, ByronAddress::from_bytes,
//!                             RewardAddress as a withdrawals key
//!   enc <desc> <prefix|~>     an address value built through the API (prefix = hex of a bech32 HRP)
//!   b58 <hex>                 Base58 codec on arbitrary bytes (hook H11)
//!   b58d <hex of text>        Base58 decoder on arbitrary text (hook H11)
//!   bech <hrp hex> <hex>      bech32 crate: to_base32, encode, decode, from_base32 (hook H12 pass-throughs)
//!   bech5 <hrp hex> <u5 hex>  the same on arbitrary 5-bit symbols (padding errors of from_base32)
//!   bechd <hex of text>       bech32::decode + from_base32 on arbitrary text
//!   b58a <hex of text>        ByronAddress::is_valid / from_base58 / to_base58 on arbitrary Base58 text
//!   becha <hrp hex> <hex>     Address::from_bech32 of the bech32 text of arbitrary payload bytes
//! Address description <desc> (no spaces):
//!   base:<net>:<k|s>:<hash>:<k|s>:<hash>   ptr:<net>:<k|s>:<hash>:<slot>:<tx>:<cert>
//!   ent:<net>:<k|s>:<hash>   rwd:<net>:<k|s>:<hash>
//!   byr:<root>:<derivation path hex | ~>:<magic | ~>:<type 0..2>   mal:<hex>
//! Observations: `<summary> X=<value> ...`, documented next to the functions below; results are
//! `ok:<desc>` / `err` / `panic`; hex "-" = empty, "~" = absent.
use cardano_serialization_lib::legacy_address::verif_base58;
use cardano_serialization_lib::verif_hooks_c12 as h12;
use cardano_serialization_lib::*;
use csl_verif_harness::util::*;

// ---------------------------------------------------------------- small CBOR / CRC helpers (harness side)
fn crc32(data: &[u8]) -> u32 {
    let mut c: u32 = 0xFFFF_FFFF;
    for b in data {
        c ^= *b as u32;
        for _ in 0..8 { c = if c & 1 == 1 { (c >> 1) ^ 0xEDB8_8320 } else { c >> 1 }; }
    }
    c ^ 0xFFFF_FFFF
}
/// head with the shortest width
fn head(major: u8, arg: u64) -> Vec<u8> {
    let w = if arg < 24 { 0 } else if arg < 256 { 1 } else if arg < 65536 { 2 } else if arg < (1u64 << 32) { 4 } else { 8 };
    head_w(major, arg, w)
}
/// head with an explicit width (0 = immediate, 1/2/4/8 bytes)
fn head_w(major: u8, arg: u64, w: usize) -> Vec<u8> {
    let m = major << 5;
    match w {
        0 => vec![m | (arg as u8 & 0x1f)],
        1 => vec![m | 24, arg as u8],
        2 => { let mut v = vec![m | 25]; v.extend(&(arg as u16).to_be_bytes()); v }
        4 => { let mut v = vec![m | 26]; v.extend(&(arg as u32).to_be_bytes()); v }
        _ => { let mut v = vec![m | 27]; v.extend(&arg.to_be_bytes()); v }
    }
}
fn cbytes(b: &[u8]) -> Vec<u8> { let mut v = head(2, b.len() as u64); v.extend(b); v }
/// read one head: (major, arg, bytes used); None on truncation / reserved / indefinite
fn read_head(b: &[u8]) -> Option<(u8, u64, usize)> {
    let f = *b.get(0)?;
    let (m, ai) = (f >> 5, f & 0x1f);
    let rd = |n: usize| -> Option<u64> { if b.len() < 1 + n { None } else { Some(b[1..1 + n].iter().fold(0u64, |a, x| (a << 8) | *x as u64)) } };
    match ai {
        0..=23 => Some((m, ai as u64, 1)),
        24 => Some((m, rd(1)?, 2)), 25 => Some((m, rd(2)?, 3)), 26 => Some((m, rd(4)?, 5)), 27 => Some((m, rd(8)?, 9)),
        _ => None,
    }
}

// ---------------------------------------------------------------- describing library values
fn hexd(b: &[u8]) -> String { hex_or_dash(b) }
fn cred_desc(c: &Credential) -> String {
    match c.kind() {
        CredKind::Key => format!("k:{}", hexd(&c.to_keyhash().unwrap().to_bytes())),
        CredKind::Script => format!("s:{}", hexd(&c.to_scripthash().unwrap().to_bytes())),
    }
}
/// Fields of a Byron address as the library holds them: root from its canonical bytes, attributes
/// from `attributes()`, type from `byron_address_kind()`.
fn byron_desc(b: &ByronAddress) -> String {
    let bytes = b.to_bytes();
    // 82 d8 18 <bytes head> [ 83 58 1c <root 28> ... ]
    let root = (|| -> Option<Vec<u8>> {
        let (_, _, a) = read_head(&bytes)?;
        let (_, _, t) = read_head(&bytes[a..])?;
        let (_, _, l) = read_head(&bytes[a + t..])?;
        let inner = &bytes[a + t + l..];
        let (_, _, i) = read_head(inner)?;
        let (_, n, j) = read_head(&inner[i..])?;
        Some(inner[i + j..i + j + n as usize].to_vec())
    })().unwrap_or_default();
    let attrs = b.attributes();
    let (mut dp, mut magic): (Option<Vec<u8>>, Option<u64>) = (None, None);
    if let Some((5, n, mut pos)) = read_head(&attrs) {
        for _ in 0..n {
            let (_, key, k) = read_head(&attrs[pos..]).unwrap(); pos += k;
            let (_, len, l) = read_head(&attrs[pos..]).unwrap(); pos += l;
            let v = attrs[pos..pos + len as usize].to_vec(); pos += len as usize;
            if key == 1 { dp = Some(v) } else { magic = read_head(&v).map(|x| x.1) }
        }
    }
    let ty = match b.byron_address_kind() {
        legacy_address::ByronAddressType::ATPubKey => 0,
        legacy_address::ByronAddressType::ATScript => 1,
        legacy_address::ByronAddressType::ATRedeem => 2,
    };
    format!("byr:{}:{}:{}:{}", hexd(&root), dp.map(|d| hexd(&d)).unwrap_or("~".into()),
            magic.map(|m| m.to_string()).unwrap_or("~".into()), ty)
}
fn addr_desc(a: &Address) -> String {
    match a.kind() {
        AddressKind::Base => { let x = BaseAddress::from_address(a).unwrap();
            format!("base:{}:{}:{}", x.network_id(), cred_desc(&x.payment_cred()), cred_desc(&x.stake_cred())) }
        AddressKind::Pointer => { let x = PointerAddress::from_address(a).unwrap(); let p = x.stake_pointer();
            format!("ptr:{}:{}:{}:{}:{}", x.network_id(), cred_desc(&x.payment_cred()),
                    p.slot_bignum().to_str(), p.tx_index_bignum().to_str(), p.cert_index_bignum().to_str()) }
        AddressKind::Enterprise => { let x = EnterpriseAddress::from_address(a).unwrap();
            format!("ent:{}:{}", x.network_id(), cred_desc(&x.payment_cred())) }
        AddressKind::Reward => { let x = RewardAddress::from_address(a).unwrap();
            format!("rwd:{}:{}", x.network_id(), cred_desc(&x.payment_cred())) }
        AddressKind::Byron => byron_desc(&ByronAddress::from_address(a).unwrap()),
        AddressKind::Malformed => format!("mal:{}", hexd(&MalformedAddress::from_address(a).unwrap().original_bytes())),
    }
}
/// kind() / network_id() / payment_cred() as the library reports them
fn acc_desc(a: &Address) -> String {
    let k = match a.kind() { AddressKind::Base => "base", AddressKind::Pointer => "ptr", AddressKind::Enterprise => "ent",
        AddressKind::Reward => "rwd", AddressKind::Byron => "byr", AddressKind::Malformed => "mal" };
    format!("{}/{}/{}", k, a.network_id().map(|n| n.to_string()).unwrap_or("err".into()),
            a.payment_cred().map(|c| cred_desc(&c)).unwrap_or("~".into()))
}
fn res_addr<E>(r: Result<Address, E>) -> String { match r { Ok(a) => format!("ok:{}", addr_desc(&a)), Err(_) => "err".into() } }
fn short(r: &str) -> String {
    if let Some(rest) = r.strip_prefix("ok:") { rest.split(':').next().unwrap().to_string() } else { r.to_string() }
}

// ---------------------------------------------------------------- building values from a description
fn cred_of(k: &str, h: &str) -> Credential {
    let b = unhex_or_dash(h);
    if k == "s" { Credential::from_scripthash(&ScriptHash::from_bytes(b).unwrap()) }
    else { Credential::from_keyhash(&Ed25519KeyHash::from_bytes(b).unwrap()) }
}
/// canonical bytes of a Byron address, written by the harness (the library offers no constructor
/// from parts); the library's own writer is then observed through ByronAddress::to_bytes
fn byron_bytes(root: &[u8], dp: &Option<Vec<u8>>, magic: &Option<u64>, ty: u64) -> Vec<u8> {
    let mut attrs = head(5, dp.is_some() as u64 + magic.is_some() as u64);
    if let Some(d) = dp { attrs.extend(head(0, 1)); attrs.extend(cbytes(d)); }
    if let Some(m) = magic { attrs.extend(head(0, 2)); attrs.extend(cbytes(&head(0, *m))); }
    let mut inner = head(4, 3); inner.extend(cbytes(root)); inner.extend(attrs); inner.extend(head(0, ty));
    let mut out = head(4, 2); out.extend(head(6, 24)); out.extend(cbytes(&inner)); out.extend(head(0, crc32(&inner) as u64));
    out
}
fn build(desc: &str) -> Address {
    let f: Vec<&str> = desc.split(':').collect();
    let bn = |s: &str| BigNum::from_str(s).unwrap();
    match f[0] {
        "base" => BaseAddress::new(f[1].parse().unwrap(), &cred_of(f[2], f[3]), &cred_of(f[4], f[5])).to_address(),
        "ptr" => PointerAddress::new(f[1].parse().unwrap(), &cred_of(f[2], f[3]),
                                     &Pointer::new_pointer(&bn(f[4]), &bn(f[5]), &bn(f[6]))).to_address(),
        "ent" => EnterpriseAddress::new(f[1].parse().unwrap(), &cred_of(f[2], f[3])).to_address(),
        "rwd" => RewardAddress::new(f[1].parse().unwrap(), &cred_of(f[2], f[3])).to_address(),
        "byr" => {
            let dp = if f[2] == "~" { None } else { Some(unhex_or_dash(f[2])) };
            let magic = if f[3] == "~" { None } else { Some(f[3].parse::<u64>().unwrap()) };
            ByronAddress::from_bytes(byron_bytes(&unhex_or_dash(f[1]), &dp, &magic, f[4].parse().unwrap()))
                .expect("harness-built Byron bytes").to_address()
        }
        _ => panic!("desc"),
    }
}

// ---------------------------------------------------------------- the embedded position
/// legacy transaction output [address bytes, coin 1]
fn output_bytes(addr: &[u8]) -> Vec<u8> { let mut v = vec![0x82]; v.extend(cbytes(addr)); v.push(0x01); v }
/// the address bytes inside a serialised legacy output
fn output_addr_bytes(out: &[u8]) -> Option<Vec<u8>> {
    if out.get(0) != Some(&0x82) { return None; }
    let (m, n, k) = read_head(&out[1..])?;
    if m != 2 { return None; }
    out.get(1 + k..1 + k + n as usize).map(|s| s.to_vec())
}
/// (E, W): the address a decoded output holds, and its bytes in the re-serialised output
fn embedded(addr: &[u8]) -> (String, String) {
    match TransactionOutput::from_bytes(output_bytes(addr)) {
        Ok(o) => (format!("ok:{}", addr_desc(&o.address())),
                  output_addr_bytes(&o.to_bytes()).map(|b| hexd(&b)).unwrap_or("~".into())),
        Err(_) => ("err".into(), "~".into()),
    }
}

// ---------------------------------------------------------------- observations
/// dec: S strict result, A accessors, R to_bytes, S2 strict parse of R, E/W embedded, Y ByronAddress::from_bytes,
/// K RewardAddress as the key of a withdrawals map
fn obs_dec(data: Vec<u8>) -> String {
    // every entry point is guarded on its own: a panic is the observation `panic` of that entry point
    fn g<T, F: FnOnce() -> T + std::panic::UnwindSafe>(f: F) -> Option<T> { std::panic::catch_unwind(f).ok() }
    let d = data.clone();
    let (s, a, r, s2) = g(move || {
        match Address::from_bytes(d) {
            Ok(ad) => { let rb = ad.to_bytes();
                (format!("ok:{}", addr_desc(&ad)), acc_desc(&ad), hexd(&rb), res_addr(Address::from_bytes(rb))) }
            Err(_) => ("err".to_string(), "-".to_string(), "~".to_string(), "err".to_string()),
        }
    }).unwrap_or(("panic".into(), "-".into(), "~".into(), "err".into()));
    let d = data.clone();
    let (e, w) = g(move || embedded(&d)).unwrap_or(("panic".into(), "~".into()));
    let hx = hex::encode(&data);
    let h = g(move || res_addr(Address::from_hex(&hx))).unwrap_or("panic".into());
    let d = data.clone();
    let y = g(move || match ByronAddress::from_bytes(d) { Ok(b) => format!("ok:{}", byron_desc(&b)), Err(_) => "err".into() })
        .unwrap_or("panic".into());
    let mut wd = vec![0xa1]; wd.extend(cbytes(&data)); wd.push(0x00);
    let k = g(move || match Withdrawals::from_bytes(wd) {
        Ok(w) if w.len() == 1 => format!("ok:{}", addr_desc(&w.keys().get(0).to_address())),
        _ => "err".into(),
    }).unwrap_or("panic".into());
    format!("{}/{} S={} H={} A={} R={} S2={} E={} W={} Y={} K={}", short(&s), short(&e), s, h, a, r, s2, e, w, y, k)
}
/// b58a: V is_valid, Z from_base58, X to_base58 of what was read
fn obs_b58a(text: &str) -> String {
    let v = ByronAddress::is_valid(text);
    let (z, x) = match ByronAddress::from_base58(text) {
        Ok(b) => (format!("ok:{}", byron_desc(&b)), hexd(b.to_base58().as_bytes())),
        Err(_) => ("err".to_string(), "~".to_string()),
    };
    format!("{} V={} Z={} X={}", if z.starts_with("ok") { "ok" } else { "err" }, v as u8, z, x)
}
/// becha: B the bech32 text of (hrp, payload) made with the crate, Q Address::from_bech32 of it
fn obs_becha(hrp: &str, payload: Vec<u8>) -> String {
    match h12::b32_encode(hrp, &h12::b32_to_base32(&payload)) {
        Some(s) => { let q = res_addr(Address::from_bech32(&s)); format!("{} B={} Q={}", short(&q), hexd(s.as_bytes()), q) }
        None => "refused B=none Q=none".to_string(),
    }
}
fn split_hrp(s: &str) -> String { match s.rfind('1') { Some(i) => s[..i].to_string(), None => String::new() } }
/// enc: T to_bytes, D strict parse of T, M embedded parse of T, A accessors of the value, P default HRP,
/// Q from_bech32(to_bech32(prefix)), X to_base58, Z from_base58(X)
fn obs_enc(desc: &str, prefix: &str) -> String {
    let a = build(desc);
    let t = a.to_bytes();
    let d = res_addr(Address::from_bytes(t.clone()));
    let (m, _) = embedded(&t);
    let p = match a.to_bech32(None) { Ok(s) => hexd(split_hrp(&s).as_bytes()), Err(_) => "err".into() };
    let pf = if prefix == "~" { None } else { Some(String::from_utf8(unhex_or_dash(prefix)).unwrap()) };
    let (bt, q) = match a.to_bech32(pf) { Ok(s) => (hexd(s.as_bytes()), res_addr(Address::from_bech32(&s))), Err(_) => ("none".into(), "none".into()) };
    let (x, z) = match ByronAddress::from_address(&a) {
        Some(b) => { let s = b.to_base58();
            (hexd(s.as_bytes()), match ByronAddress::from_base58(&s) { Ok(b2) => format!("ok:{}", byron_desc(&b2)), Err(_) => "err".into() }) }
        None => ("~".into(), "~".into()),
    };
    format!("{} T={} D={} M={} A={} P={} B={} Q={} X={} Z={}", short(&d), hexd(&t), d, m, acc_desc(&a), p, bt, q, x, z)
}
fn obs_b58(bs: Vec<u8>) -> String {
    let s = verif_base58::encode(&bs);
    let back = match verif_base58::decode(&s) { Ok(b) => format!("ok:{}", hexd(&b)), Err(_) => "err".into() };
    format!("{} N={} O={}", if back.starts_with("ok") { "ok" } else { "err" }, hexd(s.as_bytes()), back)
}
fn obs_b58d(text: Vec<u8>) -> String {
    let s = String::from_utf8_lossy(&text).to_string();
    let r = match verif_base58::decode(&s) { Ok(b) => format!("ok:{}", hexd(&b)), Err(_) => "err".into() };
    format!("{} O={}", if r.starts_with("ok") { "ok" } else { "err" }, r)
}

/// bech / bech5: U symbols, E text of bech32::encode, D bech32::decode of it, F from_base32 of the decoded symbols
fn obs_bech5(hrp: &str, u5: Vec<u8>) -> String {
    let text = h12::b32_encode(hrp, &u5);
    let dec = text.as_ref().and_then(|s| h12::b32_decode(s));
    let back = dec.as_ref().map(|(_, d)| match h12::b32_from_base32(d) { Some(b) => format!("ok:{}", hexd(&b)), None => "err".into() });
    let summary = match (&text, &back) { (None, _) => "refused", (Some(_), Some(b)) if b.starts_with("ok") => "ok", _ => "pad" };
    format!("{} U={} E={} D={} F={}", summary, hexd(&u5),
            text.as_ref().map(|s| hexd(s.as_bytes())).unwrap_or("none".into()),
            dec.as_ref().map(|(h, d)| format!("ok:{}:{}", hexd(h.as_bytes()), hexd(d))).unwrap_or("none".into()),
            back.unwrap_or("~".into()))
}
fn obs_bech(hrp: &str, data: Vec<u8>) -> String { obs_bech5(hrp, h12::b32_to_base32(&data)) }
fn obs_bechd(text: &str) -> String {
    let dec = h12::b32_decode(text);
    let back = dec.as_ref().map(|(_, d)| match h12::b32_from_base32(d) { Some(b) => format!("ok:{}", hexd(&b)), None => "err".into() });
    format!("{} D={} F={}", if dec.is_some() { "ok" } else { "err" },
            dec.as_ref().map(|(h, d)| format!("ok:{}:{}", hexd(h.as_bytes()), hexd(d))).unwrap_or("none".into()),
            back.unwrap_or("~".into()))
}
fn utf8(h: &str) -> String { String::from_utf8(unhex_or_dash(h)).expect("utf-8 text in case") }

fn run_case(toks: &[String]) -> String {
    let t: Vec<String> = toks.to_vec();
    guarded(move || match t[0].as_str() {
        "dec" => obs_dec(unhex_or_dash(&t[1])),
        "enc" => obs_enc(&t[1], &t[2]),
        "b58" => obs_b58(unhex_or_dash(&t[1])),
        "b58d" => obs_b58d(unhex_or_dash(&t[1])),
        "bech" => obs_bech(&utf8(&t[1]), unhex_or_dash(&t[2])),
        "bech5" => obs_bech5(&utf8(&t[1]), unhex_or_dash(&t[2])),
        "bechd" => obs_bechd(&utf8(&t[1])),
        "b58a" => obs_b58a(&String::from_utf8_lossy(&unhex_or_dash(&t[1]))),
        "becha" => obs_becha(&utf8(&t[1]), unhex_or_dash(&t[2])),
        _ => "bad-case".to_string(),
    })
}

// ---------------------------------------------------------------- generators
/// random payload that cannot make cbor_event allocate gigabytes: no 4- or 8-byte string lengths
fn safe_bytes(r: &mut Rng, n: usize) -> Vec<u8> {
    r.bytes(n).into_iter().map(|b| match b { 0x5a | 0x5b | 0x7a | 0x7b => b - 2, _ => b }).collect()
}
fn varnat(mut n: u64) -> Vec<u8> {
    let mut out = vec![(n & 0x7f) as u8]; n >>= 7;
    while n > 0 { out.push((n & 0x7f) as u8 | 0x80); n >>= 7; }
    out.reverse(); out
}
fn rand_cred_desc(r: &mut Rng) -> String { format!("{}:{}", if r.chance(1, 2) { "k" } else { "s" }, hex::encode(r.bytes(28))) }
fn rand_net(r: &mut Rng) -> u64 { if r.chance(9, 10) { r.below(16) } else { *r.pick(&[16u64, 17, 31, 128, 255]) } }
fn rand_shelley_desc(r: &mut Rng, kind: u64) -> String {
    let net = rand_net(r);
    match kind {
        0 => format!("base:{}:{}:{}", net, rand_cred_desc(r), rand_cred_desc(r)),
        1 => format!("ptr:{}:{}:{}:{}:{}", net, rand_cred_desc(r), r.u64_edge(), r.u64_edge(), r.u64_edge()),
        2 => format!("ent:{}:{}", net, rand_cred_desc(r)),
        _ => format!("rwd:{}:{}", net, rand_cred_desc(r)),
    }
}
fn rand_byron_parts(r: &mut Rng) -> (Vec<u8>, Option<Vec<u8>>, Option<u64>, u64) {
    let dp = match r.below(4) { 0 => None, 1 => Some(vec![]), 2 => { let n = r.below(30) as usize; Some(r.bytes(n)) }
        _ => { let n = *r.pick(&[23usize, 24, 25, 255, 256, 300]); Some(r.bytes(n)) } };
    let magic = match r.below(5) { 0 | 1 => None,
        2 => Some(*r.pick(&[764824073u64, 1, 2, 0, 23, 24, 255, 256, 65535, 65536, 4294967295])),
        _ => Some(r.u64_edge() & 0xffff_ffff) };
    (r.bytes(28), dp, magic, r.below(3))
}
fn byron_desc_of(p: &(Vec<u8>, Option<Vec<u8>>, Option<u64>, u64)) -> String {
    format!("byr:{}:{}:{}:{}", hex::encode(&p.0), p.1.as_ref().map(|d| hexd(d)).unwrap_or("~".into()),
            p.2.map(|m| m.to_string()).unwrap_or("~".into()), p.3)
}
fn rand_prefix(r: &mut Rng) -> String {
    match r.below(8) {
        0 | 1 | 2 => "~".into(),
        3 => hexd(r.pick(&["addr", "addr_test", "stake", "x", "script", "pool"]).as_bytes()),
        4 => { let n = r.range(1, 20) as usize; hexd((0..n).map(|_| (b'a' + r.below(26) as u8) as char).collect::<String>().as_bytes()) }
        5 => hexd(r.pick(&["", "Addr", "aDDr", "ad dr", "a\u{7f}"]).as_bytes()),
        6 => hexd("a".repeat(r.range(80, 90) as usize).as_bytes()),
        _ => { let n = r.range(1, 8) as usize; hexd((0..n).map(|_| (33 + r.below(94) as u8) as char).collect::<String>().as_bytes()) }
    }
}

/// non-canonical / broken variants of a Byron address
fn byron_variant(r: &mut Rng, p: &(Vec<u8>, Option<Vec<u8>>, Option<u64>, u64), which: u64) -> Vec<u8> {
    let (root, dp, magic, ty) = p;
    let w = |r: &mut Rng, minimal: usize| -> usize { *r.pick(&[1usize, 2, 4, 8]).max(&minimal) };
    let chunked = |r: &mut Rng, b: &[u8]| -> Vec<u8> {
        let mut v = vec![0x5f]; let cut = r.below(b.len() as u64 + 1) as usize;
        v.extend(cbytes(&b[..cut])); v.extend(cbytes(&b[cut..])); if r.chance(1, 3) { v.extend(cbytes(&[])); } v.push(0xff); v };
    // attributes
    let mut entries: Vec<Vec<u8>> = vec![];
    if let Some(d) = dp { let mut e = head(0, 1); e.extend(cbytes(d)); entries.push(e); }
    if let Some(m) = magic { let mut e = head(0, 2); e.extend(cbytes(&head(0, *m))); entries.push(e); }
    let mut n_entries = entries.len() as u64;
    match which {
        0 => entries.reverse(),                                                       // key order 2, 1
        1 => if let Some(e) = entries.get(0).cloned() { entries.push(e); n_entries += 1 },   // repeated key
        2 => { let mut e = head(0, *r.pick(&[0u64, 3, 24])); e.extend(cbytes(&[1])); entries.push(e); n_entries += 1 }  // unknown key
        3 => { let m = magic.unwrap_or(7); let mut e = head(0, 2); let mut inner = head_w(0, m, 8); inner.extend(r.bytes(2)); e.extend(cbytes(&inner));
               entries.push(e); n_entries += 1 }                                       // magic written wide + junk after it
        4 => { let mut e = head(0, 2); e.extend(cbytes(&head(0, (1u64 << 32) + r.below(5)))); entries.push(e); n_entries += 1 }   // magic beyond u32
        5 => n_entries += 1 + r.below(3),                                              // map announces more than it has
        _ => {}
    }
    let mut attrs = if which == 6 { vec![0xbf] } else if which == 7 { head_w(5, n_entries, w(r, 1)) } else { head(5, n_entries) };
    for e in &entries { attrs.extend(e); }
    if which == 6 { attrs.push(0xff); }
    // inner tuple
    let mut inner = match which { 8 => head(4, *r.pick(&[2u64, 4])), 9 => head_w(4, 3, w(r, 1)), 10 => vec![0x9f], _ => head(4, 3) };
    match which {
        11 => { let mut x = root.clone(); if r.chance(1, 2) { x.push(0) } else { x.pop(); } inner.extend(cbytes(&x)) }   // root not 28 bytes
        12 => inner.extend(chunked(r, root)),
        13 => { inner.extend(head_w(2, 28, w(r, 1))); inner.extend(root) }
        _ => inner.extend(cbytes(root)),
    }
    inner.extend(attrs);
    match which { 14 => inner.extend(head(0, 3 + r.below(30))), 15 => inner.extend(head_w(0, *ty, w(r, 1))), 16 => inner.extend(head(1, *ty)), _ => inner.extend(head(0, *ty)) }
    if which == 17 { let n = r.range(1, 4) as usize; inner.extend(r.bytes(n)); }                 // bytes after the tuple
    // outer
    let mut out = match which { 18 => head(4, *r.pick(&[0u64, 1, 3, 15])), _ => head(4, 2) };
    match which { 19 => out.extend(head(6, *r.pick(&[23u64, 25, 258]))), 20 => out.extend(head_w(6, 24, *r.pick(&[2usize, 4, 8]))), 21 => out.extend(head(2, 24)), _ => out.extend(head(6, 24)) }
    match which {
        22 => out.extend(chunked(r, &inner)),
        23 => { out.extend(head_w(2, inner.len() as u64, w(r, 2))); out.extend(&inner) }
        24 => { out.extend(head_w(2, *r.pick(&[1u64 << 63, (1u64 << 63) + 1, u64::MAX]), 8)); out.extend(&inner) }    // capacity overflow
        25 => { out.extend(head(2, inner.len() as u64 + r.range(1, 1 << 20))); out.extend(&inner) }                 // longer than the input
        26 => { out.extend([0x5f]); out.extend(cbytes(&inner)); out.extend([*r.pick(&[0xf4u8, 0xe0, 0x5f, 0x00])]) }  // bad chunk terminator
        _ => out.extend(cbytes(&inner)),
    }
    let crc = crc32(&inner) as u64;
    match which { 27 => out.extend(head(0, crc ^ (1 << r.below(32)))), 28 => out.extend(head_w(0, crc, 8)), 29 => out.extend(head(1, crc)), 30 => {}, 33 => out.extend(head(0, crc + (1u64 << 32))), _ => out.extend(head(0, crc)) }
    if which == 31 { let n = r.range(1, 3) as usize; out.extend(r.bytes(n)); }                   // bytes after the address
    out
}

fn gen(dir: &str) {
    let seed = seed_from_env();
    let thorough = is_thorough();
    let mut r = Rng::new(seed ^ 0xC11);
    let mut out = Out::new(dir);
    let mut emit = |out: &mut Out, case: String| {
        let toks: Vec<String> = case.split_whitespace().map(|s| s.to_string()).collect();
        let res = run_case(&toks);
        out.emit(&case, &res);
    };
    // 1. all 256 header bytes x total lengths 0..=81 (header + payload 0..80)
    let maxlen = if thorough { 120 } else { 81 };
    emit(&mut out, "dec -".to_string());
    for h in 0..=255u8 {
        for len in 1..=maxlen {
            if !thorough && len > 60 && (h as usize + len) % 3 != 0 { continue; }
            let mut b = vec![h];
            if (0x40..0x60).contains(&h) && len >= 30 {
                // pointer: hash then var-nat shaped bytes
                b.extend(r.bytes(28));
                while b.len() < len { let t = r.below(4) == 0; b.push(if t { r.below(128) as u8 } else { 0x80 | r.below(128) as u8 }); }
                if r.chance(1, 2) { let l = b.len(); b[l - 1] &= 0x7f; }
            } else { b.extend(safe_bytes(&mut r, len - 1)); }
            emit(&mut out, format!("dec {}", hex::encode(&b)));
        }
    }
    // 2. address values of every kind, networks 0..15 and above, key / script, edge pointers, prefixes
    let n_enc = if thorough { 6000 } else { 1500 };
    for i in 0..n_enc {
        let d = if i % 5 == 4 { byron_desc_of(&rand_byron_parts(&mut r)) } else { rand_shelley_desc(&mut r, i % 5) };
        let p = rand_prefix(&mut r);
        emit(&mut out, format!("enc {} {}", d, p));
    }
    for net in 0..16u64 { for k in 0..4u64 { for s in ["k", "s"] {
        let h = hex::encode(r.bytes(28));
        let d = match k { 0 => format!("base:{}:{}:{}:{}:{}", net, s, h, if net % 2 == 0 { "k" } else { "s" }, hex::encode(r.bytes(28))),
            1 => format!("ptr:{}:{}:{}:{}:{}:{}", net, s, h, *r.pick(&[0u64, 127, 128, 16383, 16384, u64::MAX]), r.u64_edge(), r.u64_edge()),
            2 => format!("ent:{}:{}:{}", net, s, h), _ => format!("rwd:{}:{}:{}", net, s, h) };
        emit(&mut out, format!("enc {} ~", d));
    } } }
    for m in [None, Some(764824073u64), Some(1), Some(2), Some(0), Some(42), Some(4294967295)] {
        for dp in [None, Some(vec![]), Some(vec![1u8, 2, 3])] { for ty in 0..3u64 {
            emit(&mut out, format!("enc {} ~", byron_desc_of(&(r.bytes(28), dp.clone(), m, ty))));
    } } }
    // 3. encodings derived from valid ones: trailing bytes, truncations, padded / unterminated / overflowing var-nats
    let n_mut = if thorough { 1500 } else { 300 };
    for i in 0..n_mut {
        let d = rand_shelley_desc(&mut r, i % 4);
        let bytes = std::panic::catch_unwind(|| build(&d).to_bytes()).unwrap_or_default();
        if bytes.is_empty() { continue; }
        let mut t = bytes.clone(); t.extend(safe_bytes(&mut r, 1 + (i as usize % 3)));
        emit(&mut out, format!("dec {}", hex::encode(&t)));
        let cut = r.below(bytes.len() as u64) as usize;
        emit(&mut out, format!("dec {}", hexd(&bytes[..cut])));
        if thorough && i % 10 == 0 { for c in 0..bytes.len() { emit(&mut out, format!("dec {}", hexd(&bytes[..c]))); } }
    }
    for i in 0..n_mut {
        let mut b = vec![0x40 | (r.below(2) as u8) << 4 | r.below(16) as u8]; b.extend(r.bytes(28));
        let mut fields: Vec<Vec<u8>> = (0..3).map(|_| varnat(r.u64_edge())).collect();
        let j = r.below(3) as usize;
        match i % 7 {
            0 => { let mut f = vec![0x80; 1 + r.below(3) as usize]; f.extend(&fields[j]); fields[j] = f }            // padding groups
            1 => { for x in fields[j].iter_mut() { *x |= 0x80 } }                                                    // unterminated
            2 => { let mut f = vec![0x80 | r.range(2, 127) as u8]; f.extend(vec![0xff; 9]); f.push(r.below(128) as u8); fields[j] = f }   // beyond u64
            3 => { fields[j] = vec![0x81, 0xff, 0xff, 0xff, 0xff, 0xff, 0xff, 0xff, 0xff, 0x7f] }                      // exactly 2^64 - 1
            4 => { fields[j] = vec![0x82, 0x80, 0x80, 0x80, 0x80, 0x80, 0x80, 0x80, 0x80, 0x00] }                      // exactly 2^64
            5 => { fields.truncate(j.max(1)) }                                                                      // missing fields
            _ => { let mut f = vec![0x80]; f.extend(&fields[j]); fields[j] = f; fields.push(safe_bytes(&mut r, 1)) }     // padded and trailing
        }
        for f in &fields { b.extend(f); }
        emit(&mut out, format!("dec {}", hex::encode(&b)));
    }
    // 4. Byron: canonical bytes, every non-canonical / broken variant, header 0x8_ with other low nibbles
    let n_byr = if thorough { 40 } else { 8 };
    for _ in 0..n_byr { for which in 0..=34u64 {
        let p = rand_byron_parts(&mut r);
        let v = byron_variant(&mut r, &p, which);
        emit(&mut out, format!("dec {}", hex::encode(&v)));
    } }
    for low in 0..16u8 { let p = rand_byron_parts(&mut r); let mut v = byron_variant(&mut r, &p, 99); v[0] = 0x80 | low;
        emit(&mut out, format!("dec {}", hex::encode(&v))); }
    // non-minimal spellings of the OUTER array head of a Byron address (first byte 0x98..0x9b, 0x9f): not an address
    // header at all (nibble 9) although ByronAddress::from_bytes reads them; alone and combined with re-spelt inner heads;
    // through the bytes / hex / embedded entry points (dec), Base58 (b58a) and bech32 (becha)
    let respell = |v: &[u8], how: u64| -> Vec<u8> {
        let mut o: Vec<u8> = match how { 0 => vec![0x98, 0x02], 1 => vec![0x99, 0x00, 0x02], 2 => vec![0x9a, 0, 0, 0, 2],
            3 => vec![0x9b, 0, 0, 0, 0, 0, 0, 0, 2], 4 => vec![0x9f], 5 => vec![0x98, 0x03], 6 => vec![0x90 | (v[1] & 0x0f)], _ => vec![0x82] };
        o.extend(&v[1..]); if how == 4 { o.push(0xff); } o };
    for rep in 0..(if thorough { 12 } else { 3 }) { for how in 0..7u64 { for inner in [99u64, 20, 23, 28, 13, 9, 7, 15] {
        if rep > 0 && inner != 99 && r.chance(1, 2) { continue; }
        let p = rand_byron_parts(&mut r);
        let v = respell(&byron_variant(&mut r, &p, inner), how);
        emit(&mut out, format!("dec {}", hex::encode(&v)));
        if inner == 99 || rep == 0 {
            emit(&mut out, format!("becha {} {}", hexd(r.pick(&["addr", "addr_test"]).as_bytes()), hex::encode(&v)));
            emit(&mut out, format!("b58a {}", hexd(verif_base58::encode(&v).as_bytes())));
        }
    } } }
    // 5. Base58 codec on arbitrary bytes and text
    let n_b58 = if thorough { 3000 } else { 600 };
    emit(&mut out, "b58 -".to_string());
    for i in 0..n_b58 {
        let z = match i % 4 { 0 => 0, 1 => 1, _ => r.below(6) as usize };
        let n = match i % 5 { 0 => 0, 1 => 1, _ => r.below(60) as usize };
        let mut b = vec![0u8; z]; b.extend(r.bytes(n));
        if n > 0 && i % 3 == 0 { let l = b.len(); b[l - n] = *r.pick(&[0u8, 1, 57, 58, 255]); }
        emit(&mut out, format!("b58 {}", hexd(&b)));
    }
    const ALPHA: &[u8] = b"123456789ABCDEFGHJKLMNPQRSTUVWXYZabcdefghijkmnopqrstuvwxyz";
    for i in 0..n_b58 / 2 {
        let z = r.below(4) as usize; let n = r.below(40) as usize;
        let mut s = vec![b'1'; z]; for _ in 0..n { s.push(*r.pick(ALPHA)); }
        if i % 6 == 0 && !s.is_empty() { let k = r.below(s.len() as u64) as usize; s[k] = *r.pick(&[b'0', b'O', b'I', b'l', b' ', 0xc3]); }
        emit(&mut out, format!("b58d {}", hexd(&s)));
    }
    // 6. the bech32 codec: every data length 0..100 x the prefixes the library uses and arbitrary ones,
    //    arbitrary 5-bit symbols (padding rules), damaged texts
    const LIB_HRPS: &[&str] = &["addr", "addr_test", "stake", "stake_test", "addr_malformed", "ed25519_sk", "ed25519_pk",
        "ed25519e_sk", "xprv", "xpub", "script", "pool", "vrf_vk", "vrf_sk", "kes_vk", "asset", "drep", "cc_hot", "cc_cold", "a", "1", "11", "a1b"];
    let rand_hrp = |r: &mut Rng| -> String {
        match r.below(10) {
            0 | 1 | 2 | 3 => r.pick(LIB_HRPS).to_string(),
            4 => { let n = r.range(1, 12) as usize; (0..n).map(|_| (33 + r.below(94) as u8) as char).filter(|c| !c.is_ascii_uppercase()).collect::<String>() + "x" }
            5 => { let n = r.range(1, 10) as usize; (0..n).map(|_| (b'A' + r.below(26) as u8) as char).collect() }            // upper case: lower-cased
            6 => r.pick(&["", "Ab", "aB1", "a b", "a\u{7f}", "\u{e9}t\u{e9}", "a\u{20ac}"]).to_string(),                                 // refused
            7 => "h".repeat(*r.pick(&[82usize, 83, 84, 90])),                                                                       // length limit 83
            8 => { let n = r.range(1, 8) as usize; (0..n).map(|_| *r.pick(&['1', 'q', '0', '9', '_', '-', '~', '!'])).collect() }
            _ => { let n = r.range(1, 20) as usize; (0..n).map(|_| (b'a' + r.below(26) as u8) as char).collect() }
        }
    };
    let maxd = if thorough { 300 } else { 100 };
    for len in 0..=maxd {
        for k in 0..(if thorough { 6 } else { 3 }) {
            let hrp = if k == 0 { LIB_HRPS[len % LIB_HRPS.len()].to_string() } else { rand_hrp(&mut r) };
            let data = match (len + k) % 4 { 0 => vec![0u8; len], 1 => vec![0xffu8; len], _ => r.bytes(len) };
            emit(&mut out, format!("bech {} {}", hexd(hrp.as_bytes()), hexd(&data)));
        }
    }
    for i in 0..(if thorough { 2000 } else { 400 }) {
        let hrp = rand_hrp(&mut r);
        let n = r.below(if i % 10 == 0 { 200 } else { 40 }) as usize;
        let mut u5: Vec<u8> = (0..n).map(|_| r.below(32) as u8).collect();
        if i % 3 == 0 && n > 0 { u5[n - 1] = 0; }                       // more often a valid zero padding
        emit(&mut out, format!("bech5 {} {}", hexd(hrp.as_bytes()), hexd(&u5)));
    }
    const B32: &[u8] = b"qpzry9x8gf2tvdw0s3jn54khce6mua7l";
    for i in 0..(if thorough { 4000 } else { 800 }) {
        // start from a valid text and damage it
        let hrp = { let h = rand_hrp(&mut r); if h12::b32_encode(&h, &[]).is_some() { h } else { "addr".to_string() } };
        let data = { let n = r.below(40) as usize; r.bytes(n) };
        let mut s: Vec<u8> = h12::b32_encode(&hrp, &h12::b32_to_base32(&data)).unwrap().into_bytes();
        let n = s.len();
        let sep = s.iter().rposition(|c| *c == b'1').unwrap();
        match i % 16 {
            0 => {}                                                                        // untouched
            1 => { let k = r.range(sep as u64 + 1, n as u64 - 1) as usize; let mut c = *r.pick(B32); while c == s[k] { c = *r.pick(B32); } s[k] = c }   // one wrong symbol
            2 => { let k = r.range(sep as u64 + 1, n as u64 - 1) as usize; s[k] = *r.pick(&[b'b', b'i', b'o', b'1', b' ', b'_']) }         // not in the charset
            3 => { s = s.to_ascii_uppercase() }                                            // all upper case: accepted
            4 => { let k = r.range(sep as u64 + 1, n as u64 - 1) as usize; s[k] = s[k].to_ascii_uppercase(); if !s[k].is_ascii_uppercase() { s[n - 1] = s[n - 1].to_ascii_uppercase() } }  // mixed case
            5 => { s.pop(); }                                                              // one symbol short
            6 => { s.truncate(r.below(8) as usize) }                                       // shorter than 8
            7 => { s.remove(sep); }                                                        // separator removed
            8 => { let k = r.below(sep as u64) as usize; let c = s[k]; s[k] = if c.is_ascii_lowercase() { if c == b'z' { b'a' } else { c + 1 } } else { b'a' } }   // wrong HRP character
            9 => { s.extend("\u{e9}".as_bytes()) }                                           // non-ASCII data character
            10 => { s.truncate(sep + 1 + r.below(6) as usize) }                            // data part shorter than the checksum
            11 => { s.insert(r.range(sep as u64 + 1, n as u64) as usize, *r.pick(B32)) }   // one symbol inserted
            12 => { let k = r.range(sep as u64 + 1, n as u64 - 2) as usize; s.swap(k, k + 1) }   // two symbols swapped
            13 => { for c in s[..sep].iter_mut() { *c = c.to_ascii_uppercase() } }          // upper-case HRP, lower-case data
            14 => { s = s.iter().map(|c| if r.chance(1, 2) { c.to_ascii_uppercase() } else { *c }).collect() }
            _ => { s = { let n = r.below(30) as usize; (0..n).map(|_| *r.pick(b"qpzry9x8gf2tvdw0s3jn54khce6mua7l1aAbB1 ")).collect() } }   // noise
        }
        emit(&mut out, format!("bechd {}", hexd(&s)));
    }
    // 7. every text / bytes entry point with bytes after a complete address (and other damage):
    //    Base58 text of Byron bytes, bech32 text of arbitrary payloads
    let n_txt = if thorough { 1500 } else { 300 };
    for i in 0..n_txt {
        let p = rand_byron_parts(&mut r);
        let canon = byron_variant(&mut r, &p, 99);
        let bytes: Vec<u8> = match i % 10 {
            0 => canon.clone(),
            1 | 2 | 3 => { let mut b = canon.clone(); let n = r.range(1, 4) as usize; b.extend(safe_bytes(&mut r, n)); b }       // trailing bytes
            4 => { let mut b = canon.clone(); b.push(0); b }
            5 => { let cut = r.below(canon.len() as u64) as usize; canon[..cut].to_vec() }                          // truncated
            6 => { let w = *r.pick(&[0u64, 1, 3, 7, 9, 13, 15, 17, 20, 23, 28, 31, 33]); byron_variant(&mut r, &p, w) }    // non-canonical / broken (never a huge length)
            7 => { let mut b = vec![0u8; r.range(1, 3) as usize]; b.extend(&canon); b }                             // leading zero bytes -> leading '1's
            8 => { let mut b = canon.clone(); let k = r.below(b.len() as u64) as usize; b[k] ^= 1 << r.below(8); if b.windows(2).any(|w| w[0] == 0x5b || w[0] == 0x5a) { canon.clone() } else { b } }
            _ => { let n = r.below(40) as usize; safe_bytes(&mut r, n) }
        };
        let mut text = verif_base58::encode(&bytes).into_bytes();
        if i % 23 == 22 && !text.is_empty() { let k = r.below(text.len() as u64) as usize; text[k] = *r.pick(&[b'0', b'O', b'I', b'l']); }
        emit(&mut out, format!("b58a {}", hexd(&text)));
    }
    for i in 0..n_txt {
        let d = rand_shelley_desc(&mut r, i % 4);
        let valid = if i % 5 == 4 { let bp = rand_byron_parts(&mut r); byron_variant(&mut r, &bp, 99) }
                    else { std::panic::catch_unwind(|| build(&d).to_bytes()).unwrap_or_default() };
        let payload: Vec<u8> = match i % 6 {
            0 => valid.clone(),
            1 | 2 => { let mut b = valid.clone(); let n = r.range(1, 4) as usize; b.extend(safe_bytes(&mut r, n)); b }
            3 => { let cut = r.below(valid.len().max(1) as u64) as usize; valid[..cut].to_vec() }
            4 => vec![],
            _ => { let n = r.below(70) as usize; let mut b = safe_bytes(&mut r, n); if !b.is_empty() && r.chance(1, 2) { b[0] = *r.pick(&[0x01u8, 0x41, 0x61, 0xe1, 0xf0, 0x90]); } b }
        };
        let hrp = r.pick(&["addr", "addr_test", "stake", "stake_test", "x", "ADDR"]).to_string();
        emit(&mut out, format!("becha {} {}", hexd(hrp.as_bytes()), hexd(&payload)));
    }
    out.finish();
}

fn main() {
    silence_panics();
    let args: Vec<String> = std::env::args().collect();
    match args.get(1).map(|s| s.as_str()) {
        Some("gen") => gen(&args[2]),
        Some("run") => {
            use std::io::Write;
            let mut o = std::io::BufWriter::new(std::fs::File::create(&args[3]).unwrap());
            for (idx, toks) in read_cases(&args[2]) { writeln!(o, "{} {}", idx, run_case(&toks)).unwrap(); }
        }
        _ => { eprintln!("usage: c11 gen <dir> | c11 run <cases> <out>"); std::process::exit(2); }
    }
}
