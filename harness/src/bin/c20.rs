//! C20 correspondence harness: deposit / refund helpers vs the builders.
//! `c20 gen <dir>` generates cases from VERIF_SEED / VERIF_TIER and runs the implementation;
//! `c20 run <cases> <out>` runs the implementation on given case lines (replay / corpus).
//!
//! Case line:  <label> <salt> <pool_deposit> <key_deposit> C <certs> W <withdrawals> P <proposals> I <inputs> O <outputs> D <donation>
//!   certs       = ~ | n { <cddl tag 0..18> <coin | ~> <script 0|1> }*
//!   withdrawals = ~ | n { <script 0|1> <coin> }*
//!   proposals   = ~ | n { <deposit> }*
//!   inputs / outputs = n { <coin> }*        donation = ~ | coin
//! The label only names the generator stream; salt and the position of an item determine every
//! field the deposit code does not look at (credentials, pool parameters, anchors, MIR amounts …),
//! so that items are pairwise distinct and a case replays exactly.
#![allow(deprecated)]
use cardano_serialization_lib::*;
use csl_verif_harness::util::*;

fn bn(s: &str) -> BigNum { BigNum::from_str(s).expect("u64 in case") }

fn fill(salt: u64, i: usize, domain: u8, n: usize) -> Vec<u8> {
    let mut r = Rng::new(salt ^ ((i as u64) << 8) ^ ((domain as u64) << 40) ^ 0xC20C20);
    let mut v = r.bytes(n);
    v[0] = domain; v[1] = i as u8; v[2] = (i >> 8) as u8;
    v
}
fn keyhash(salt: u64, i: usize, d: u8) -> Ed25519KeyHash { Ed25519KeyHash::from_bytes(fill(salt, i, d, 28)).unwrap() }
fn scripthash(salt: u64, i: usize, d: u8) -> ScriptHash { ScriptHash::from_bytes(fill(salt, i, d, 28)).unwrap() }
fn cred(script: bool, salt: u64, i: usize, d: u8) -> Credential {
    if script { Credential::from_scripthash(&scripthash(salt, i, d)) } else { Credential::from_keyhash(&keyhash(salt, i, d)) }
}
fn anchor(salt: u64, i: usize, d: u8) -> Anchor {
    Anchor::new(&URL::new(format!("https://a.example/{}", i)).unwrap(), &AnchorDataHash::from_bytes(fill(salt, i, d, 32)).unwrap())
}
fn drep(salt: u64, i: usize) -> DRep {
    match (salt as usize + i) % 4 {
        0 => DRep::new_always_abstain(),
        1 => DRep::new_always_no_confidence(),
        2 => DRep::new_key_hash(&keyhash(salt, i, 9)),
        _ => DRep::new_script_hash(&scripthash(salt, i, 9)),
    }
}
fn native_source(salt: u64, i: usize) -> NativeScriptSource {
    NativeScriptSource::new(&NativeScript::new_script_pubkey(&ScriptPubkey::new(&keyhash(salt, i, 10))))
}

/// A real certificate of CDDL kind `tag`; `coin` is its explicit amount where the kind has one.
fn mk_cert(tag: u32, coin: Option<BigNum>, script: bool, salt: u64, i: usize) -> Certificate {
    let c = cred(script, salt, i, 1);
    let pool = keyhash(salt, i, 2);
    let odd = (salt as usize + i) % 2 == 1;
    let amt = || coin.clone().expect("coin for this kind");
    match tag {
        0 => Certificate::new_stake_registration(&StakeRegistration::new(&c)),
        1 => Certificate::new_stake_deregistration(&StakeDeregistration::new(&c)),
        2 => Certificate::new_stake_delegation(&StakeDelegation::new(&c, &pool)),
        3 => {
            // pledge / cost are coins that are NOT deposits
            let mut owners = Ed25519KeyHashes::new();
            owners.add(&keyhash(salt, i, 3));
            let params = PoolParams::new(&pool, &VRFKeyHash::from_bytes(fill(salt, i, 4, 32)).unwrap(),
                &BigNum::from(1_000_000_000u64 + i as u64), &BigNum::from(340_000_000u64),
                &UnitInterval::new(&BigNum::from(1u64), &BigNum::from(20u64)),
                &RewardAddress::new(0, &cred(script, salt, i, 5)), &owners, &Relays::new(), None);
            Certificate::new_pool_registration(&PoolRegistration::new(&params))
        }
        4 => Certificate::new_pool_retirement(&PoolRetirement::new(&pool, 100 + i as u32)),
        5 => Certificate::new_genesis_key_delegation(&GenesisKeyDelegation::new(
            &GenesisHash::from_bytes(fill(salt, i, 6, 28)).unwrap(),
            &GenesisDelegateHash::from_bytes(fill(salt, i, 7, 28)).unwrap(),
            &VRFKeyHash::from_bytes(fill(salt, i, 8, 32)).unwrap())),
        6 => {
            // MIR moves coins that are neither deposits nor refunds
            let mir = if odd {
                MoveInstantaneousReward::new_to_other_pot(MIRPot::Reserves, &BigNum::from(777_000_000u64 + i as u64))
            } else {
                let mut m = MIRToStakeCredentials::new();
                m.insert(&c, &Int::new_i32(5_000_000 + i as i32));
                MoveInstantaneousReward::new_to_stake_creds(MIRPot::Treasury, &m)
            };
            Certificate::new_move_instantaneous_rewards_cert(&MoveInstantaneousRewardsCert::new(&mir))
        }
        7 => Certificate::new_reg_cert(&StakeRegistration::new_with_explicit_deposit(&c, &amt())).unwrap(),
        8 => Certificate::new_unreg_cert(&StakeDeregistration::new_with_explicit_refund(&c, &amt())).unwrap(),
        9 => Certificate::new_vote_delegation(&VoteDelegation::new(&c, &drep(salt, i))),
        10 => Certificate::new_stake_and_vote_delegation(&StakeAndVoteDelegation::new(&c, &pool, &drep(salt, i))),
        11 => Certificate::new_stake_registration_and_delegation(&StakeRegistrationAndDelegation::new(&c, &pool, &amt())),
        12 => Certificate::new_vote_registration_and_delegation(&VoteRegistrationAndDelegation::new(&c, &drep(salt, i), &amt())),
        13 => Certificate::new_stake_vote_registration_and_delegation(
            &StakeVoteRegistrationAndDelegation::new(&c, &pool, &drep(salt, i), &amt())),
        14 => Certificate::new_committee_hot_auth(&CommitteeHotAuth::new(&c, &cred(!script && odd, salt, i, 11))),
        15 => Certificate::new_committee_cold_resign(&if odd { CommitteeColdResign::new(&c) } else { CommitteeColdResign::new_with_anchor(&c, &anchor(salt, i, 12)) }),
        16 => Certificate::new_drep_registration(&if odd { DRepRegistration::new(&c, &amt()) } else { DRepRegistration::new_with_anchor(&c, &amt(), &anchor(salt, i, 12)) }),
        17 => Certificate::new_drep_deregistration(&DRepDeregistration::new(&c, &amt())),
        18 => Certificate::new_drep_update(&if odd { DRepUpdate::new(&c) } else { DRepUpdate::new_with_anchor(&c, &anchor(salt, i, 12)) }),
        _ => panic!("bad tag"),
    }
}

fn mk_proposal(deposit: &BigNum, salt: u64, i: usize) -> VotingProposal {
    let action = match (salt as usize + i) % 4 {
        0 => GovernanceAction::new_info_action(&InfoAction::new()),
        1 => GovernanceAction::new_no_confidence_action(&NoConfidenceAction::new()),
        2 => GovernanceAction::new_hard_fork_initiation_action(&HardForkInitiationAction::new(&ProtocolVersion::new(10 + i as u32, 0))),
        _ => GovernanceAction::new_new_constitution_action(&NewConstitutionAction::new(&Constitution::new(&anchor(salt, i, 13)))),
    };
    VotingProposal::new(&action, &anchor(salt, i, 14), &RewardAddress::new(0, &cred(false, salt, i, 15)), deposit)
}

struct Case {
    salt: u64, pool: BigNum, key: BigNum,
    certs: Option<Vec<(u32, Option<BigNum>, bool)>>,
    wdrl: Option<Vec<(bool, BigNum)>>,
    props: Option<Vec<BigNum>>,
    ins: Vec<BigNum>, outs: Vec<BigNum>, donation: Option<BigNum>,
}

struct P<'a> { t: &'a [String], i: usize }
impl<'a> P<'a> {
    fn next(&mut self) -> &'a str { let s = &self.t[self.i]; self.i += 1; s.as_str() }
    fn expect(&mut self, s: &str) { assert_eq!(self.next(), s, "case syntax"); }
    fn count(&mut self) -> Option<usize> { let s = self.next(); if s == "~" { None } else { Some(s.parse().unwrap()) } }
    fn opt_bn(&mut self) -> Option<BigNum> { let s = self.next(); if s == "~" { None } else { Some(bn(s)) } }
}

fn parse(toks: &[String]) -> Case {
    let mut p = P { t: toks, i: 1 };
    let salt: u64 = p.next().parse().unwrap();
    let pool = bn(p.next()); let key = bn(p.next());
    p.expect("C");
    let certs = p.count().map(|n| (0..n).map(|_| {
        let tag: u32 = p.next().parse().unwrap(); let coin = p.opt_bn(); let s = p.next() == "1"; (tag, coin, s) }).collect());
    p.expect("W");
    let wdrl = p.count().map(|n| (0..n).map(|_| { let s = p.next() == "1"; (s, bn(p.next())) }).collect());
    p.expect("P");
    let props = p.count().map(|n| (0..n).map(|_| bn(p.next())).collect());
    p.expect("I");
    let ins = (0..p.count().unwrap()).map(|_| bn(p.next())).collect();
    p.expect("O");
    let outs = (0..p.count().unwrap()).map(|_| bn(p.next())).collect();
    p.expect("D");
    let donation = p.opt_bn();
    Case { salt, pool, key, certs, wdrl, props, ins, outs, donation }
}

fn sc(r: Result<BigNum, JsError>) -> String { match r { Ok(v) => v.to_str(), Err(_) => "err".into() } }
fn sv(r: Result<Value, JsError>) -> String {
    match r { Ok(v) => if v.multiasset().is_some() { "multiasset".into() } else { v.coin().to_str() }, Err(_) => "err".into() }
}
fn okerr<T>(r: &Result<T, JsError>) -> &'static str { if r.is_ok() { "ok" } else { "rej" } }

fn new_tx_builder(c: &Case) -> TransactionBuilder {
    let cfg = TransactionBuilderConfigBuilder::new()
        .fee_algo(&LinearFee::new(&BigNum::from(44u64), &BigNum::from(155381u64)))
        .pool_deposit(&c.pool).key_deposit(&c.key)
        .max_value_size(5000).max_tx_size(u32::MAX)
        .coins_per_utxo_byte(&BigNum::zero())
        .build().unwrap();
    let mut tb = TransactionBuilder::new(&cfg);
    for (i, v) in c.ins.iter().enumerate() {
        let addr = EnterpriseAddress::new(0, &cred(false, c.salt, i, 20)).to_address();
        let input = TransactionInput::new(&TransactionHash::from_bytes(fill(c.salt, i, 21, 32)).unwrap(), i as u32);
        tb.add_regular_input(&addr, &input, &Value::new(v)).unwrap();
    }
    for (i, v) in c.outs.iter().enumerate() {
        let addr = EnterpriseAddress::new(0, &cred(false, c.salt, i, 22)).to_address();
        tb.add_output(&TransactionOutput::new(&addr, &Value::new(v))).unwrap();
    }
    if let Some(d) = &c.donation { tb.set_donation(d); }
    tb
}

fn exec(toks: &[String]) -> String {
    let c = parse(toks);
    // the items themselves
    let certs: Option<Vec<Certificate>> = c.certs.as_ref().map(|v| v.iter().enumerate()
        .map(|(i, (tag, coin, s))| mk_cert(*tag, coin.clone(), *s, c.salt, i)).collect());
    let wdrl: Option<Vec<(RewardAddress, BigNum)>> = c.wdrl.as_ref().map(|v| v.iter().enumerate()
        .map(|(i, (s, coin))| (RewardAddress::new(0, &cred(*s, c.salt, i, 16)), coin.clone())).collect());
    let props: Option<Vec<VotingProposal>> = c.props.as_ref().map(|v| v.iter().enumerate()
        .map(|(i, d)| mk_proposal(d, c.salt, i)).collect());

    // (a) a transaction body carrying them, and the stand-alone helpers
    let mut ins = TransactionInputs::new();
    ins.add(&TransactionInput::new(&TransactionHash::from_bytes(vec![7u8; 32]).unwrap(), 0));
    let mut body = TransactionBody::new_tx_body(&ins, &TransactionOutputs::new(), &BigNum::from(170000u64));
    let mut certs_coll = Certificates::new();
    if let Some(cs) = &certs {
        for x in cs { assert!(certs_coll.add(x), "generated certificates are distinct"); }
        body.set_certs(&certs_coll);
    }
    let mut wdrl_coll = Withdrawals::new();
    if let Some(ws) = &wdrl {
        for (a, v) in ws { assert!(wdrl_coll.insert(a, v).is_none(), "generated reward addresses are distinct"); }
        body.set_withdrawals(&wdrl_coll);
    }
    if let Some(ps) = &props {
        let mut coll = VotingProposals::new();
        for x in ps { assert!(coll.add(x), "generated proposals are distinct"); }
        body.set_voting_proposals(&coll);
    }
    let hd = sc(get_deposit(&body, &c.pool, &c.key));
    let hi = sv(get_implicit_input(&body, &c.pool, &c.key));
    // the same through the wire format (what a wallet does with a received transaction)
    let body2 = TransactionBody::from_bytes(body.to_bytes()).unwrap();
    let hd2 = sc(get_deposit(&body2, &c.pool, &c.key));
    let hi2 = sv(get_implicit_input(&body2, &c.pool, &c.key));

    // (b) the builders
    let mut cb = CertificatesBuilder::new();
    if let Some(cs) = &certs {
        for (i, x) in cs.iter().enumerate() {
            if cb.add(x).is_err() { cb.add_with_native_script(x, &native_source(c.salt, i)).unwrap(); }
        }
    }
    let cd = sc(cb.get_certificates_deposit(&c.pool, &c.key));
    let cr = sv(cb.get_certificates_refund(&c.pool, &c.key));
    let mut wb = WithdrawalsBuilder::new();
    if let Some(ws) = &wdrl {
        for (i, (a, v)) in ws.iter().enumerate() {
            if wb.add(a, v).is_err() { wb.add_with_native_script(a, v, &native_source(c.salt, 1000 + i)).unwrap(); }
        }
    }
    let wt = sv(wb.get_total_withdrawals());
    let mut pb = VotingProposalBuilder::new();
    if let Some(ps) = &props { for x in ps { pb.add(x).unwrap(); } }

    let mut tb = new_tx_builder(&c);
    if certs.is_some() { tb.set_certs_builder(&cb); }
    if wdrl.is_some() { tb.set_withdrawals_builder(&wb); }
    if props.is_some() { tb.set_voting_proposal_builder(&pb); }
    let bd = sc(tb.get_deposit());
    let bi = sv(tb.get_implicit_input());
    let ti = sv(tb.get_total_input());
    let to = sv(tb.get_total_output());
    // the helpers on the body the builder itself produces
    tb.set_fee(&BigNum::from(170000u64));
    let (xd, xi) = match tb.build() {
        Ok(b) => (sc(get_deposit(&b, &c.pool, &c.key)), sv(get_implicit_input(&b, &c.pool, &c.key))),
        Err(_) => ("builderr".to_string(), "builderr".to_string()),
    };

    // (c) the deprecated setters taking the plain collections
    let mut tb2 = new_tx_builder(&c);
    let r1 = if certs.is_some() { tb2.set_certs(&certs_coll) } else { Ok(()) };
    let r2 = if wdrl.is_some() { tb2.set_withdrawals(&wdrl_coll) } else { Ok(()) };
    let (dd, di) = if r1.is_ok() && r2.is_ok() {
        if props.is_some() { tb2.set_voting_proposal_builder(&pb); }
        (sc(tb2.get_deposit()), sv(tb2.get_implicit_input()))
    } else { ("-".to_string(), "-".to_string()) };

    let fields = format!("hd={} hi={} hd2={} hi2={} cd={} cr={} wt={} bd={} bi={} ti={} to={} xd={} xi={} sc={} sw={} dd={} di={}",
        hd, hi, hd2, hi2, cd, cr, wt, bd, bi, ti, to, xd, xi, okerr(&r1), okerr(&r2), dd, di);
    // first token: `ovf` when some figure is an overflow error, `ok` otherwise (only for the case distribution)
    format!("{} {}", if fields.contains("=err") { "ovf" } else { "ok" }, fields)
}

// ------------------------------------------------------------------------------------------------
// generators
const HAS_COIN: [bool; 19] = [false, false, false, false, false, false, false, true, true, false, false, true, true, true, false, false, true, true, false];
const DEPOSIT_TAGS: [u32; 7] = [0, 3, 7, 11, 12, 13, 16];
const REFUND_TAGS: [u32; 3] = [1, 8, 17];

fn small_coin(r: &mut Rng) -> u64 {
    match r.below(8) { 0 => 0, 1 => 2_000_000, 2 => 500_000_000, 3 => r.below(10), 4 => r.below(100_000_000_000), 5 => r.u64_edge(), _ => r.below(5_000_000) }
}
fn param(r: &mut Rng) -> u64 {
    match r.below(8) { 0 => 0, 1 | 2 => 500_000_000, 3 => 2_000_000, 4 => r.u64_edge(), 5 => 1, _ => r.below(1_000_000_000) }
}

struct G { salt: u64, pool: u64, key: u64, certs: Option<Vec<(u32, Option<u64>, bool)>>, wdrl: Option<Vec<(bool, u64)>>,
           props: Option<Vec<u64>>, ins: Vec<u64>, outs: Vec<u64>, donation: Option<u64> }
impl G {
    fn empty(r: &mut Rng) -> G { G { salt: r.next() >> 1, pool: 500_000_000, key: 2_000_000, certs: None, wdrl: None, props: None, ins: vec![], outs: vec![], donation: None } }
    fn line(&self, label: &str) -> String {
        let mut s = format!("{} {} {} {} C", label, self.salt, self.pool, self.key);
        match &self.certs { None => s.push_str(" ~"), Some(v) => { s.push_str(&format!(" {}", v.len()));
            for (t, c, sc) in v { s.push_str(&format!(" {} {} {}", t, c.map(|x| x.to_string()).unwrap_or("~".into()), *sc as u8)); } } }
        s.push_str(" W");
        match &self.wdrl { None => s.push_str(" ~"), Some(v) => { s.push_str(&format!(" {}", v.len()));
            for (sc, c) in v { s.push_str(&format!(" {} {}", *sc as u8, c)); } } }
        s.push_str(" P");
        match &self.props { None => s.push_str(" ~"), Some(v) => { s.push_str(&format!(" {}", v.len())); for c in v { s.push_str(&format!(" {}", c)); } } }
        s.push_str(&format!(" I {}", self.ins.len())); for c in &self.ins { s.push_str(&format!(" {}", c)); }
        s.push_str(&format!(" O {}", self.outs.len())); for c in &self.outs { s.push_str(&format!(" {}", c)); }
        s.push_str(" D "); s.push_str(&self.donation.map(|x| x.to_string()).unwrap_or("~".into()));
        s
    }
}

fn rand_cert(r: &mut Rng, coin: &mut dyn FnMut(&mut Rng) -> u64, script_pct: u64) -> (u32, Option<u64>, bool) {
    let tag = r.below(19) as u32;
    let c = if HAS_COIN[tag as usize] { Some(coin(r)) } else { None };
    (tag, c, r.chance(script_pct, 100))
}

/// split `total` into `n` parts (n >= 1) that sum to it exactly
fn split(r: &mut Rng, total: u128, n: usize) -> Vec<u64> {
    let mut parts = vec![];
    let mut rest = total;
    for k in 0..n {
        let left = (n - k - 1) as u128;
        let lo = rest.saturating_sub(left * u64::MAX as u128);            // the others can take at most u64::MAX each
        let hi = rest.min(u64::MAX as u128);
        let v = if k == n - 1 { rest } else if r.chance(1, 4) { lo } else if r.chance(1, 4) { hi } else { lo + (r.next() as u128) % (hi - lo + 1) };
        assert!(v <= u64::MAX as u128);
        parts.push(v as u64); rest -= v;
    }
    parts
}

fn gen(dir: &str) {
    let seed = seed_from_env();
    let thorough = is_thorough();
    // Rng::new(s + 1) is Rng::new(s) advanced by one draw, so neighbouring seeds would re-synchronise after a few
    // cases; hash the seed once more so that every seed gets an unrelated stream
    let mut r = Rng::new(Rng::new(seed ^ 0xC20).next());
    let mut out = Out::new(dir);
    let emit = |out: &mut Out, case: String| {
        let toks: Vec<String> = case.split_whitespace().map(|s| s.to_string()).collect();
        let res = guarded(move || exec(&toks));
        out.emit(&case, &res);
    };
    let scale = if thorough { 150 } else { 10 };

    // 1. every kind alone (every line of every table), with boundary amounts and both credential kinds
    for tag in 0..19u32 {
        for v in 0..(6 * scale) {
            let mut g = G::empty(&mut r);
            g.pool = param(&mut r); g.key = param(&mut r);
            let c = if HAS_COIN[tag as usize] { Some(if v % 3 == 0 { r.u64_edge() } else { small_coin(&mut r) }) } else { None };
            g.certs = Some(vec![(tag, c, v % 2 == 1)]);
            if v % 6 >= 4 { g.wdrl = Some(vec![(false, small_coin(&mut r))]); g.props = Some(vec![small_coin(&mut r)]); }
            emit(&mut out, g.line(&format!("kind{}", tag)));
        }
    }
    // 2. absent / empty collections in every combination
    for m in 0..27u32 {
        let mut g = G::empty(&mut r);
        g.certs = match m % 3 { 0 => None, 1 => Some(vec![]), _ => Some(vec![rand_cert(&mut r, &mut small_coin, 0)]) };
        g.wdrl = match (m / 3) % 3 { 0 => None, 1 => Some(vec![]), _ => Some(vec![(false, small_coin(&mut r))]) };
        g.props = match (m / 9) % 3 { 0 => None, 1 => Some(vec![]), _ => Some(vec![small_coin(&mut r)]) };
        if m % 2 == 0 { g.donation = Some(small_coin(&mut r)); }
        emit(&mut out, g.line("absent"));
    }
    // 3. random mixtures, realistic amounts (rarely overflowing)
    for _ in 0..(700 * scale) {
        let mut g = G::empty(&mut r);
        g.pool = param(&mut r).min(1 << 40); g.key = param(&mut r).min(1 << 40);
        let mut coin = |r: &mut Rng| match r.below(6) { 0 => 0, 1 => 2_000_000, 2 => 500_000_000, _ => r.below(1_000_000_000_000) };
        let script_pct = if r.chance(1, 2) { 0 } else { 25 };
        if r.chance(9, 10) { let n = r.below(13) as usize; g.certs = Some((0..n).map(|_| rand_cert(&mut r, &mut coin, script_pct)).collect()); }
        if r.chance(7, 10) { let n = r.below(6) as usize; g.wdrl = Some((0..n).map(|_| (r.chance(script_pct, 100), coin(&mut r))).collect()); }
        if r.chance(6, 10) { let n = r.below(5) as usize; g.props = Some((0..n).map(|_| coin(&mut r)).collect()); }
        g.ins = (0..r.below(4)).map(|_| coin(&mut r)).collect();
        g.outs = (0..r.below(4)).map(|_| coin(&mut r)).collect();
        if r.chance(1, 4) { g.donation = Some(coin(&mut r)); }
        emit(&mut out, g.line("mix"));
    }
    // 4. random mixtures with edge-biased 64-bit amounts (frequent overflow somewhere)
    for _ in 0..(300 * scale) {
        let mut g = G::empty(&mut r);
        g.pool = param(&mut r); g.key = param(&mut r);
        let mut coin = |r: &mut Rng| if r.chance(1, 3) { r.u64_edge() } else { small_coin(r) };
        if r.chance(9, 10) { let n = r.below(7) as usize; g.certs = Some((0..n).map(|_| rand_cert(&mut r, &mut coin, 10)).collect()); }
        if r.chance(6, 10) { let n = r.below(4) as usize; g.wdrl = Some((0..n).map(|_| (r.chance(1, 10), coin(&mut r))).collect()); }
        if r.chance(5, 10) { let n = r.below(4) as usize; g.props = Some((0..n).map(|_| coin(&mut r)).collect()); }
        g.ins = (0..r.below(3)).map(|_| coin(&mut r)).collect();
        g.outs = (0..r.below(3)).map(|_| coin(&mut r)).collect();
        if r.chance(1, 4) { g.donation = Some(coin(&mut r)); }
        emit(&mut out, g.line("edge"));
    }
    // 5. totals straddling 2^64 exactly: the deposit side or the refund side sums to 2^64 + d, d in -2..=2,
    //    spread over certificates (explicit amounts and parameters), withdrawals / proposals, in random order
    for _ in 0..(400 * scale) {
        let mut g = G::empty(&mut r);
        let d = r.below(5) as i128 - 2;
        let total = ((1u128 << 64) as i128 + d) as u128;
        let deposit_side = r.chance(1, 2);
        let n_other = r.below(4) as usize;                    // proposals (deposit side) or withdrawals (refund side)
        let n_cert = if n_other == 0 { 2 } else { 1 } + r.below(5) as usize;   // at least two parts: one u64 cannot hold 2^64
        let parts = split(&mut r, total, n_cert + n_other);
        let mut certs: Vec<(u32, Option<u64>, bool)> = vec![];
        let mut pool_set = false; let mut key_set = false;
        g.pool = param(&mut r); g.key = param(&mut r);
        for p in &parts[..n_cert] {
            let tag = if deposit_side { *r.pick(&DEPOSIT_TAGS) } else { *r.pick(&REFUND_TAGS) };
            // parameter-priced kinds: the part becomes the parameter (once), otherwise use an explicit kind
            let (tag, coin) = match tag {
                0 | 1 if !key_set => { key_set = true; g.key = *p; (tag, None) }
                3 if !pool_set => { pool_set = true; g.pool = *p; (tag, None) }
                0 => (7, Some(*p)), 1 => (8, Some(*p)), 3 => (16, Some(*p)),
                t => (t, Some(*p)),
            };
            certs.push((tag, coin, false));
        }
        // neutral certificates in between (must not change any figure; retirement is the known class)
        for _ in 0..r.below(4) {
            let neutral = [2u32, 4, 5, 6, 9, 10, 14, 15, 18];
            let t = *r.pick(&neutral);
            if t == 4 && !deposit_side && !r.chance(1, 4) { continue; }
            let pos = r.below(certs.len() as u64 + 1) as usize;
            certs.insert(pos, (t, None, false));
        }
        // items of the other side, small
        for _ in 0..r.below(3) {
            let tag = if deposit_side { *r.pick(&[8u32, 17]) } else { *r.pick(&[7u32, 11, 12, 13, 16]) };
            let pos = r.below(certs.len() as u64 + 1) as usize;
            certs.insert(pos, (tag, Some(r.below(3_000_000)), false));
        }
        g.certs = Some(certs);
        let other: Vec<u64> = parts[n_cert..].to_vec();
        if deposit_side {
            if n_other > 0 || r.chance(1, 2) { g.props = Some(other); }
            if r.chance(1, 2) { g.wdrl = Some(vec![(false, r.below(1000))]); }
        } else {
            if n_other > 0 || r.chance(1, 2) { g.wdrl = Some(other.into_iter().map(|c| (false, c)).collect()); }
            if r.chance(1, 2) { g.props = Some(vec![r.below(1000)]); }
        }
        if r.chance(1, 3) { g.ins = vec![r.below(3)]; }
        if r.chance(1, 3) { g.outs = vec![r.below(3)]; }
        if r.chance(1, 5) { g.donation = Some(r.below(3)); }
        emit(&mut out, g.line(if deposit_side { "ovf-dep" } else { "ovf-ref" }));
    }
    // 6. balancing totals at the boundary: inputs + implicit input, outputs + deposit + donation
    for _ in 0..(150 * scale) {
        let mut g = G::empty(&mut r);
        let d = r.below(5) as i128 - 2;
        let total = ((1u128 << 64) as i128 + d) as u128;
        let parts = split(&mut r, total, 4);
        if r.chance(1, 2) {
            g.ins = vec![parts[0], parts[1]];
            g.wdrl = Some(vec![(false, parts[2])]);
            g.certs = Some(vec![(17, Some(parts[3]), false)]);
        } else {
            g.outs = vec![parts[0]];
            g.certs = Some(vec![(16, Some(parts[1]), false)]);
            g.props = Some(vec![parts[2]]);
            g.donation = Some(parts[3]);
        }
        emit(&mut out, g.line("ovf-total"));
    }
    // 7. long sequences
    for _ in 0..(10 * scale) {
        let mut g = G::empty(&mut r);
        let n = 40 + r.below(80) as usize;
        let mut coin = |r: &mut Rng| r.below(1u64 << 58);
        g.certs = Some((0..n).map(|_| rand_cert(&mut r, &mut coin, 5)).collect());
        g.wdrl = Some((0..r.below(30)).map(|_| (false, r.below(1u64 << 59))).collect());
        g.props = Some((0..r.below(20)).map(|_| r.below(1u64 << 59)).collect());
        emit(&mut out, g.line("long"));
    }
    out.finish();
}

fn main() {
    if std::env::var("VERIF_DEBUG").is_err() { silence_panics(); }
    let args: Vec<String> = std::env::args().collect();
    match args.get(1).map(|s| s.as_str()) {
        Some("gen") => gen(&args[2]),
        Some("run") => {
            let mut o = String::new();
            for (idx, toks) in read_cases(&args[2]) {
                let res = guarded(move || exec(&toks));
                o.push_str(&format!("{} {}\n", idx, res));
            }
            std::fs::write(&args[3], o).unwrap();
        }
        _ => { eprintln!("usage: c20 gen <dir> | run <cases> <out>"); std::process::exit(2); }
    }
}
