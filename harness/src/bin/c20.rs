//! C20 correspondence harness: deposit / refund helpers vs the builders.
//! `c20 gen <dir>` generates cases from VERIF_SEED / VERIF_TIER and runs the implementation;
//! `c20 run <cases> <out>` runs the implementation on given case lines (replay / corpus).
//!
//! Case line:  <label> <salt> <pool_deposit> <key_deposit> C <certs> W <withdrawals> P <proposals> I <inputs> O <outputs> D <donation>
//!   certs       = ~ | n { <cddl tag 0..18>[/<cred>/<pool>/<var>] <coin | ~> <script 0|1> }*
//!   withdrawals = ~ | n { <script 0|1>[/<credential>[/<network>]] <coin> }*     (network defaults to credential % 2)
//!   proposals   = ~ | n { <deposit>[/<action>/<return address>] }*
//!   inputs / outputs = n { <coin> }*        donation = ~ | coin
//!   optionally, after the donation:  H n { sc<k> | sC<k> | rc | sw<k> | sW<k> | rw }*   a HISTORY applied to the transaction
//!   builders before the final setters of the case: deprecated set_certs / set_certs_builder / remove_certs and the same for
//!   withdrawals, with the stale collection number k (stale_certs / stale_wdrl below).  With a history, an absent collection
//!   is finally removed (remove_certs / remove_withdrawals).  Setters replace (coq/Deposits/History.v): the observation of a
//!   case with a history is the observation of the case, so the driver ignores the section.
//! A proposal's <action> selects the governance action: shape = action % 14 over the seven kinds (info, no confidence,
//! hard fork, new constitution, parameter change, treasury withdrawals, update committee) x prior action id x policy
//! hash, content injective in <action>; the model knows no kind (the deposit is kind-independent).
//! The label only names the generator stream.  The identities after the slashes (small numbers) and the
//! salt determine every field the deposit code does not look at: <cred> the stake / DRep / committee
//! credential (reward-account credential of a pool registration), <pool> the pool operator, <var>
//! everything else (other pool parameters, retirement epoch, DRep choice, anchor, MIR amounts, genesis
//! hashes, hot credential); without them item number i has identity i everywhere, so items are pairwise
//! different in every field.  Two items are equal Rust values iff their keys in coq/Deposits/Ident.v
//! (cert_key / wd_key / prop_key) are equal: mk_cert uses exactly the identities uses_cred / uses_pool /
//! uses_var list for the kind, injectively.  Items are added in order to the plain collections
//! (Certificates / Withdrawals / VotingProposals) and to the builders; equal certificates / proposals are
//! merged (or rejected) by the library, a second amount for a reward account replaces the first.
#![allow(deprecated)]
use cardano_serialization_lib::*;
use csl_verif_harness::util::*;

fn bn(s: &str) -> BigNum { BigNum::from_str(s).expect("u64 in case") }

fn fill(salt: u64, i: usize, domain: u8, n: usize) -> Vec<u8> {
    let mut r = Rng::new(salt ^ ((i as u64) << 8) ^ ((domain as u64) << 40) ^ 0xC20C20);
    let mut v = r.bytes(n);
    v[0] = domain; v[1] = i as u8; v[2] = (i >> 8) as u8;
    v
}
fn keyhash(salt: u64, i: usize, d: u8) -> Ed25519KeyHash { Ed25519KeyHash::from_bytes(fill(salt, i, d, 28)).unwrap() }
fn scripthash(salt: u64, i: usize, d: u8) -> ScriptHash { ScriptHash::from_bytes(fill(salt, i, d, 28)).unwrap() }
fn cred(script: bool, salt: u64, i: usize, d: u8) -> Credential {
    if script { Credential::from_scripthash(&scripthash(salt, i, d)) } else { Credential::from_keyhash(&keyhash(salt, i, d)) }
}
fn anchor(salt: u64, i: usize, d: u8) -> Anchor {
    Anchor::new(&URL::new(format!("https://a.example/{}", i)).unwrap(), &AnchorDataHash::from_bytes(fill(salt, i, d, 32)).unwrap())
}
/// DRep choice: content-free variants only for var 2 / 3, otherwise a hash determined by var (injective in var)
fn drep(salt: u64, var: usize) -> DRep {
    match var {
        2 => DRep::new_always_abstain(),
        3 => DRep::new_always_no_confidence(),
        v if v % 2 == 0 => DRep::new_key_hash(&keyhash(salt, v, 9)),
        v => DRep::new_script_hash(&scripthash(salt, v, 9)),
    }
}
fn native_source(salt: u64, i: usize) -> NativeScriptSource {
    NativeScriptSource::new(&NativeScript::new_script_pubkey(&ScriptPubkey::new(&keyhash(salt, i, 10))))
}

#[derive(Clone, Copy, Debug)]
struct Id { cred: usize, pool: usize, var: usize }

/// A real certificate of CDDL kind `tag`; `coin` is its explicit amount where the kind has one.
/// Uses exactly the identities listed by uses_cred / uses_pool / uses_var of coq/Deposits/Ident.v.
fn mk_cert(tag: u32, coin: Option<BigNum>, script: bool, salt: u64, id: Id) -> Certificate {
    let c = cred(script, salt, id.cred, 1);
    let pool = keyhash(salt, id.pool, 2);
    let var = id.var;
    let amt = || coin.clone().expect("coin for this kind");
    match tag {
        0 => Certificate::new_stake_registration(&StakeRegistration::new(&c)),
        1 => Certificate::new_stake_deregistration(&StakeDeregistration::new(&c)),
        2 => Certificate::new_stake_delegation(&StakeDelegation::new(&c, &pool)),
        3 => {
            // pledge / cost are coins that are NOT deposits; operator = pool, reward account = cred, the rest = var
            // bit 1 of var only decides the insertion order of the two owners (Ed25519KeyHashes compares in insertion order:
            // two different certificates); everything else comes from var with that bit cleared
            let swap = var & 2 != 0;
            let var = var & !2usize;
            let mut owners = Ed25519KeyHashes::new();
            let (o1, o2) = (keyhash(salt, var, 3), keyhash(salt, var, 28));
            if swap { owners.add(&o2); owners.add(&o1); } else { owners.add(&o1); owners.add(&o2); }
            let mut relays = Relays::new();
            if var % 3 == 1 { relays.add(&Relay::new_single_host_name(&SingleHostName::new(Some(3001), &DNSRecordAorAAAA::new(format!("r{}.example", var)).unwrap()))); }
            let metadata = if var % 2 == 1 { Some(PoolMetadata::new(&URL::new(format!("https://p.example/{}", var)).unwrap(),
                &PoolMetadataHash::from_bytes(fill(salt, var, 27, 32)).unwrap())) } else { None };
            let params = PoolParams::new(&pool, &VRFKeyHash::from_bytes(fill(salt, var, 4, 32)).unwrap(),
                &BigNum::from(1_000_000_000u64 + var as u64), &BigNum::from(340_000_000u64 + 1_000_000 * (var % 5) as u64),
                &UnitInterval::new(&BigNum::from(1u64 + (var % 4) as u64), &BigNum::from(20u64)),
                &RewardAddress::new((var % 2) as u8, &cred(script, salt, id.cred, 5)), &owners, &relays, metadata);
            Certificate::new_pool_registration(&PoolRegistration::new(&params))
        }
        4 => Certificate::new_pool_retirement(&PoolRetirement::new(&pool, 100 + var as u32)),
        5 => Certificate::new_genesis_key_delegation(&GenesisKeyDelegation::new(
            &GenesisHash::from_bytes(fill(salt, var, 6, 28)).unwrap(),
            &GenesisDelegateHash::from_bytes(fill(salt, var, 7, 28)).unwrap(),
            &VRFKeyHash::from_bytes(fill(salt, var, 8, 32)).unwrap())),
        6 => {
            // MIR moves coins that are neither deposits nor refunds; odd var: to the other pot (no credential)
            let mir = if var % 2 == 1 {
                MoveInstantaneousReward::new_to_other_pot(MIRPot::Reserves, &BigNum::from(777_000_000u64 + var as u64))
            } else {
                let mut m = MIRToStakeCredentials::new();
                m.insert(&c, &Int::new_i32(5_000_000 + var as i32));
                MoveInstantaneousReward::new_to_stake_creds(MIRPot::Treasury, &m)
            };
            Certificate::new_move_instantaneous_rewards_cert(&MoveInstantaneousRewardsCert::new(&mir))
        }
        7 => Certificate::new_reg_cert(&StakeRegistration::new_with_explicit_deposit(&c, &amt())).unwrap(),
        8 => Certificate::new_unreg_cert(&StakeDeregistration::new_with_explicit_refund(&c, &amt())).unwrap(),
        9 => Certificate::new_vote_delegation(&VoteDelegation::new(&c, &drep(salt, var))),
        10 => Certificate::new_stake_and_vote_delegation(&StakeAndVoteDelegation::new(&c, &pool, &drep(salt, var))),
        11 => Certificate::new_stake_registration_and_delegation(&StakeRegistrationAndDelegation::new(&c, &pool, &amt())),
        12 => Certificate::new_vote_registration_and_delegation(&VoteRegistrationAndDelegation::new(&c, &drep(salt, var), &amt())),
        13 => Certificate::new_stake_vote_registration_and_delegation(
            &StakeVoteRegistrationAndDelegation::new(&c, &pool, &drep(salt, var), &amt())),
        14 => Certificate::new_committee_hot_auth(&CommitteeHotAuth::new(&c, &cred(!script && var % 2 == 1, salt, var, 11))),
        // the anchor is absent only for var 1
        15 => Certificate::new_committee_cold_resign(&if var == 1 { CommitteeColdResign::new(&c) } else { CommitteeColdResign::new_with_anchor(&c, &anchor(salt, var, 12)) }),
        16 => Certificate::new_drep_registration(&if var == 1 { DRepRegistration::new(&c, &amt()) } else { DRepRegistration::new_with_anchor(&c, &amt(), &anchor(salt, var, 12)) }),
        17 => Certificate::new_drep_deregistration(&DRepDeregistration::new(&c, &amt())),
        18 => Certificate::new_drep_update(&if var == 1 { DRepUpdate::new(&c) } else { DRepUpdate::new_with_anchor(&c, &anchor(salt, var, 12)) }),
        _ => panic!("bad tag"),
    }
}

/// The 14 shapes of a governance action: the SEVEN kinds x with / without prior action id x with / without policy
/// (script) hash where the kind has them.  The deposit figures must not depend on any of it.
const ACTION_SHAPES: usize = 14;
fn gov_action_id(salt: u64, act: usize) -> GovernanceActionId {
    GovernanceActionId::new(&TransactionHash::from_bytes(fill(salt, act, 17, 32)).unwrap(), (act % 7) as u32)
}
/// a parameter update that CHANGES the deposit parameters (the figures use the caller's parameters, not these)
fn param_update(act: usize) -> ProtocolParamUpdate {
    let mut u = ProtocolParamUpdate::new();
    u.set_key_deposit(&BigNum::from(7_000_000u64 + act as u64));
    u.set_pool_deposit(&BigNum::from(900_000_000u64 + act as u64));
    if act % 2 == 0 { u.set_drep_deposit(&BigNum::from(123_000_000u64)); u.set_governance_action_deposit(&BigNum::from(55_000_000_000u64)); }
    u
}
/// governance action and anchor from `act` (shape = act % 14, content injective in act), return address from `ret`
/// (network and key / script credential vary with it)
fn mk_proposal(deposit: &BigNum, salt: u64, act: usize, ret: usize) -> VotingProposal {
    // update-committee shape: bit (act / 14) % 2 only decides the INSERTION ORDER of the two members_to_remove; everything
    // else comes from the action number with that bit cleared.  Credentials compares its members in insertion order, so the
    // two orders are two different proposals (for the body's set, for the builder's map and for the model: other <action>)
    let order = act % ACTION_SHAPES == 13 && (act / ACTION_SHAPES) % 2 == 1;
    let act = if order { act - ACTION_SHAPES } else { act };
    let aid = gov_action_id(salt, act);
    let policy = scripthash(salt, act, 18);
    let version = ProtocolVersion::new(10 + act as u32, 0);
    let mut tw = TreasuryWithdrawals::new();
    tw.insert(&RewardAddress::new(0, &cred(act % 3 == 0, salt, act, 19)), &BigNum::from(1_000_000_000u64 + act as u64));
    let action = match act % ACTION_SHAPES {
        0 => GovernanceAction::new_info_action(&InfoAction::new()),
        1 => GovernanceAction::new_no_confidence_action(&NoConfidenceAction::new()),
        2 => GovernanceAction::new_no_confidence_action(&NoConfidenceAction::new_with_action_id(&aid)),
        3 => GovernanceAction::new_hard_fork_initiation_action(&HardForkInitiationAction::new(&version)),
        4 => GovernanceAction::new_hard_fork_initiation_action(&HardForkInitiationAction::new_with_action_id(&aid, &version)),
        5 => GovernanceAction::new_new_constitution_action(&NewConstitutionAction::new(&Constitution::new(&anchor(salt, act, 13)))),
        6 => GovernanceAction::new_new_constitution_action(&NewConstitutionAction::new_with_action_id(&aid,
                &Constitution::new_with_script_hash(&anchor(salt, act, 13), &policy))),
        7 => GovernanceAction::new_parameter_change_action(&ParameterChangeAction::new(&param_update(act))),
        8 => GovernanceAction::new_parameter_change_action(&ParameterChangeAction::new_with_action_id(&aid, &param_update(act))),
        9 => GovernanceAction::new_parameter_change_action(&ParameterChangeAction::new_with_policy_hash(&param_update(act), &policy)),
        10 => GovernanceAction::new_parameter_change_action(&ParameterChangeAction::new_with_policy_hash_and_action_id(&aid, &param_update(act), &policy)),
        11 => GovernanceAction::new_treasury_withdrawals_action(&TreasuryWithdrawalsAction::new(&tw)),
        12 => GovernanceAction::new_treasury_withdrawals_action(&TreasuryWithdrawalsAction::new_with_policy_hash(&tw, &policy)),
        _ => {
            let mut committee = Committee::new(&UnitInterval::new(&BigNum::from(2u64), &BigNum::from(3u64)));
            committee.add_member(&cred(act % 2 == 1, salt, act, 20), 500 + act as u32);
            let mut remove = Credentials::new();
            let (m1, m2) = (cred(false, salt, act, 21), cred(act % 3 == 1, salt, act, 22));
            if order { remove.add(&m2); remove.add(&m1); } else { remove.add(&m1); remove.add(&m2); }
            GovernanceAction::new_new_committee_action(&if (act / (2 * ACTION_SHAPES)) % 2 == 0 { UpdateCommitteeAction::new(&committee, &remove) }
                                                         else { UpdateCommitteeAction::new_with_action_id(&aid, &committee, &remove) })
        }
    };
    VotingProposal::new(&action, &anchor(salt, act, 14), &RewardAddress::new((ret % 2) as u8, &cred(ret % 3 == 2, salt, ret, 15)), deposit)
}

/// a Plutus witness (script carried inline, or by reference input); the deposit code never looks at witnesses
fn plutus_witness(salt: u64, i: usize, tag: &RedeemerTag) -> PlutusWitness {
    let redeemer = Redeemer::new(tag, &BigNum::zero(), &PlutusData::new_bytes(fill(salt, i, 24, 8)),
        &ExUnits::new(&BigNum::from(1000u64 + i as u64), &BigNum::from(1_000_000u64)));
    if i % 4 == 1 {
        PlutusWitness::new_without_datum(&PlutusScript::new_v2(fill(salt, i, 23, 40)), &redeemer)
    } else {
        let src = PlutusScriptSource::new_ref_input(&scripthash(salt, i, 25),
            &TransactionInput::new(&TransactionHash::from_bytes(fill(salt, i, 26, 32)).unwrap(), 7), &Language::new_plutus_v3(), 100 + i);
        PlutusWitness::new_with_ref_without_datum(&src, &redeemer)
    }
}

struct Case {
    salt: u64, pool: BigNum, key: BigNum,
    certs: Option<Vec<(u32, Option<BigNum>, bool, Id)>>,
    wdrl: Option<Vec<(bool, usize, usize, BigNum)>>,
    props: Option<Vec<(BigNum, usize, usize)>>,
    ins: Vec<BigNum>, outs: Vec<BigNum>, donation: Option<BigNum>,
    hist: Vec<String>,
}

/// "x" or "x/a/b/..": the head and the identities after it
fn split_ids(tok: &str) -> (&str, Vec<usize>) {
    let mut it = tok.split('/');
    let head = it.next().unwrap();
    (head, it.map(|x| x.parse().expect("identity")).collect())
}

struct P<'a> { t: &'a [String], i: usize }
impl<'a> P<'a> {
    fn next(&mut self) -> &'a str { let s = &self.t[self.i]; self.i += 1; s.as_str() }
    fn expect(&mut self, s: &str) { assert_eq!(self.next(), s, "case syntax"); }
    fn count(&mut self) -> Option<usize> { let s = self.next(); if s == "~" { None } else { Some(s.parse().unwrap()) } }
    fn opt_bn(&mut self) -> Option<BigNum> { let s = self.next(); if s == "~" { None } else { Some(bn(s)) } }
}

fn parse(toks: &[String]) -> Case {
    let mut p = P { t: toks, i: 1 };
    let salt: u64 = p.next().parse().unwrap();
    let pool = bn(p.next()); let key = bn(p.next());
    p.expect("C");
    let certs = p.count().map(|n| (0..n).map(|i| {
        let (tag, ids) = split_ids(p.next());
        let id = match ids.len() { 0 => Id { cred: i, pool: i, var: i }, 3 => Id { cred: ids[0], pool: ids[1], var: ids[2] }, _ => panic!("case syntax: certificate identities") };
        let tag: u32 = tag.parse().unwrap(); let coin = p.opt_bn(); let s = p.next() == "1"; (tag, coin, s, id) }).collect());
    p.expect("W");
    let wdrl = p.count().map(|n| (0..n).map(|i| {
        let (s, ids) = split_ids(p.next());
        let (acct, net) = match ids.len() { 0 => (i, i % 2), 1 => (ids[0], ids[0] % 2), 2 => (ids[0], ids[1]), _ => panic!("case syntax: withdrawal identity") };
        (s == "1", acct, net, bn(p.next())) }).collect());
    p.expect("P");
    let props = p.count().map(|n| (0..n).map(|i| {
        let (d, ids) = split_ids(p.next());
        let (act, ret) = match ids.len() { 0 => (i, i), 2 => (ids[0], ids[1]), _ => panic!("case syntax: proposal identities") };
        (bn(d), act, ret) }).collect());
    p.expect("I");
    let ins = (0..p.count().unwrap()).map(|_| bn(p.next())).collect();
    p.expect("O");
    let outs = (0..p.count().unwrap()).map(|_| bn(p.next())).collect();
    p.expect("D");
    let donation = p.opt_bn();
    let mut hist = vec![];
    if p.i < p.t.len() { p.expect("H"); let n = p.count().unwrap(); for _ in 0..n { hist.push(p.next().to_string()); } }
    Case { salt, pool, key, certs, wdrl, props, ins, outs, donation, hist }
}

fn sc(r: Result<BigNum, JsError>) -> String { match r { Ok(v) => v.to_str(), Err(_) => "err".into() } }
fn sv(r: Result<Value, JsError>) -> String {
    match r { Ok(v) => if v.multiasset().is_some() { "multiasset".into() } else { v.coin().to_str() }, Err(_) => "err".into() }
}
fn okerr<T>(r: &Result<T, JsError>) -> &'static str { if r.is_ok() { "ok" } else { "rej" } }

fn new_tx_builder(c: &Case) -> TransactionBuilder {
    let cfg = TransactionBuilderConfigBuilder::new()
        .fee_algo(&LinearFee::new(&BigNum::from(44u64), &BigNum::from(155381u64)))
        .pool_deposit(&c.pool).key_deposit(&c.key)
        .max_value_size(5000).max_tx_size(u32::MAX)
        .coins_per_utxo_byte(&BigNum::zero())
        .build().unwrap();
    let mut tb = TransactionBuilder::new(&cfg);
    for (i, v) in c.ins.iter().enumerate() {
        let addr = EnterpriseAddress::new(0, &cred(false, c.salt, i, 20)).to_address();
        let input = TransactionInput::new(&TransactionHash::from_bytes(fill(c.salt, i, 21, 32)).unwrap(), i as u32);
        tb.add_regular_input(&addr, &input, &Value::new(v)).unwrap();
    }
    for (i, v) in c.outs.iter().enumerate() {
        let addr = EnterpriseAddress::new(0, &cred(false, c.salt, i, 22)).to_address();
        tb.add_output(&TransactionOutput::new(&addr, &Value::new(v))).unwrap();
    }
    if let Some(d) = &c.donation { tb.set_donation(d); }
    tb
}

/// stale collection number k of a history: certificates / withdrawals that carry deposits, refunds and amounts
fn stale_certs(salt: u64, k: usize, with_script: bool) -> Vec<Certificate> {
    vec![
        mk_cert(8, Some(BigNum::from(2_500_000u64 + k as u64)), with_script && k % 2 == 1, salt, Id { cred: k, pool: 0, var: 0 }),
        mk_cert(16, Some(BigNum::from(400_000_000u64 + k as u64)), false, salt, Id { cred: k, pool: 0, var: 4 }),
        mk_cert(3, None, false, salt, Id { cred: k, pool: k, var: k }),
    ]
}
fn stale_wdrl(salt: u64, k: usize, with_script: bool) -> Vec<(RewardAddress, BigNum)> {
    vec![
        (RewardAddress::new((k % 2) as u8, &cred(with_script && k % 2 == 1, salt, k, 16)), BigNum::from(3_000_000u64 + k as u64)),
        (RewardAddress::new(0, &cred(false, salt, k + 1, 16)), BigNum::from(4_000_000u64 + k as u64)),
    ]
}
/// one step of a history; errors of the deprecated setters are ignored (they leave the builder as it was)
fn apply_history(tb: &mut TransactionBuilder, salt: u64, op: &str) {
    let k: usize = op[2.min(op.len())..].parse().unwrap_or(0);
    match &op[..2] {
        "sc" => { let mut c = Certificates::new(); for x in stale_certs(salt, k, k % 3 == 2) { c.add(&x); } let _ = tb.set_certs(&c); }
        "sC" => {
            let mut b = CertificatesBuilder::new();
            for (i, x) in stale_certs(salt, k, true).iter().enumerate() { if b.add(x).is_err() { let _ = b.add_with_native_script(x, &native_source(salt, 3000 + i)); } }
            tb.set_certs_builder(&b);
        }
        "rc" => tb.remove_certs(),
        "sw" => { let mut w = Withdrawals::new(); for (a, v) in stale_wdrl(salt, k, k % 3 == 2) { w.insert(&a, &v); } let _ = tb.set_withdrawals(&w); }
        "sW" => {
            let mut b = WithdrawalsBuilder::new();
            for (i, (a, v)) in stale_wdrl(salt, k, true).iter().enumerate() { if b.add(a, v).is_err() { b.add_with_native_script(a, v, &native_source(salt, 4000 + i)).unwrap(); } }
            tb.set_withdrawals_builder(&b);
        }
        "rw" => tb.remove_withdrawals(),
        _ => panic!("case syntax: history"),
    }
}

fn exec(toks: &[String]) -> String {
    let c = parse(toks);
    // the items themselves
    let certs: Option<Vec<Certificate>> = c.certs.as_ref().map(|v| v.iter()
        .map(|(tag, coin, s, id)| mk_cert(*tag, coin.clone(), *s, c.salt, *id)).collect());
    let wdrl: Option<Vec<(RewardAddress, BigNum)>> = c.wdrl.as_ref().map(|v| v.iter()
        .map(|(s, acct, net, coin)| (RewardAddress::new(*net as u8, &cred(*s, c.salt, *acct, 16)), coin.clone())).collect());
    let props: Option<Vec<VotingProposal>> = c.props.as_ref().map(|v| v.iter()
        .map(|(d, act, ret)| mk_proposal(d, c.salt, *act, *ret)).collect());

    // (a) a transaction body carrying them, and the stand-alone helpers
    let mut ins = TransactionInputs::new();
    ins.add(&TransactionInput::new(&TransactionHash::from_bytes(vec![7u8; 32]).unwrap(), 0));
    let mut body = TransactionBody::new_tx_body(&ins, &TransactionOutputs::new(), &BigNum::from(170000u64));
    let mut certs_coll = Certificates::new();
    if let Some(cs) = &certs {
        for x in cs { certs_coll.add(x); }                         // false for a certificate the set already holds
        body.set_certs(&certs_coll);
    }
    let mut wdrl_coll = Withdrawals::new();
    if let Some(ws) = &wdrl {
        for (a, v) in ws { wdrl_coll.insert(a, v); }               // Some(old amount) when the account is replaced
        body.set_withdrawals(&wdrl_coll);
    }
    let mut props_coll = VotingProposals::new();
    if let Some(ps) = &props {
        for x in ps { props_coll.add(x); }
        body.set_voting_proposals(&props_coll);
    }
    let hd = sc(get_deposit(&body, &c.pool, &c.key));
    let hi = sv(get_implicit_input(&body, &c.pool, &c.key));
    // the same through the wire format (what a wallet does with a received transaction)
    let body2 = TransactionBody::from_bytes(body.to_bytes()).unwrap();
    let hd2 = sc(get_deposit(&body2, &c.pool, &c.key));
    let hi2 = sv(get_implicit_input(&body2, &c.pool, &c.key));

    // (b) the builders
    let mut cb = CertificatesBuilder::new();
    if let Some(cs) = &certs {
        for (i, x) in cs.iter().enumerate() {
            // Err: needs a script witness (then the native-script entry point), or "Certificate already exists"
            if cb.add(x).is_err() {
                if i % 2 == 0 { let _ = cb.add_with_native_script(x, &native_source(c.salt, i)); }
                else { let _ = cb.add_with_plutus_witness(x, &plutus_witness(c.salt, i, &RedeemerTag::new_cert())); }
            }
        }
    }
    let cd = sc(cb.get_certificates_deposit(&c.pool, &c.key));
    let cr = sv(cb.get_certificates_refund(&c.pool, &c.key));
    let mut wb = WithdrawalsBuilder::new();
    if let Some(ws) = &wdrl {
        for (i, (a, v)) in ws.iter().enumerate() {
            if wb.add(a, v).is_err() {
                if i % 2 == 0 { wb.add_with_native_script(a, v, &native_source(c.salt, 1000 + i)).unwrap(); }
                else { wb.add_with_plutus_witness(a, v, &plutus_witness(c.salt, 1000 + i, &RedeemerTag::new_reward())).unwrap(); }
            }
        }
    }
    let wt = sv(wb.get_total_withdrawals());
    let mut pb = VotingProposalBuilder::new();
    if let Some(ps) = &props {
        for (i, x) in ps.iter().enumerate() {
            // Err: the action carries a policy (script) hash
            if pb.add(x).is_err() { pb.add_with_plutus_witness(x, &plutus_witness(c.salt, 2000 + i, &RedeemerTag::new_voting_proposal())).unwrap(); }
        }
    }

    let mut tb = new_tx_builder(&c);
    for op in &c.hist { apply_history(&mut tb, c.salt, op); }
    if certs.is_some() { tb.set_certs_builder(&cb); } else if !c.hist.is_empty() { tb.remove_certs(); }
    if wdrl.is_some() { tb.set_withdrawals_builder(&wb); } else if !c.hist.is_empty() { tb.remove_withdrawals(); }
    if props.is_some() { tb.set_voting_proposal_builder(&pb); }
    let bd = sc(tb.get_deposit());
    let bi = sv(tb.get_implicit_input());
    let ti = sv(tb.get_total_input());
    let to = sv(tb.get_total_output());
    // the helpers on the body the builder itself produces
    tb.set_fee(&BigNum::from(170000u64));
    let (xd, xi) = match tb.build() {
        Ok(b) => (sc(get_deposit(&b, &c.pool, &c.key)), sv(get_implicit_input(&b, &c.pool, &c.key))),
        Err(_) => ("builderr".to_string(), "builderr".to_string()),
    };

    // (c) the deprecated setters taking the plain collections
    let mut tb2 = new_tx_builder(&c);
    for op in &c.hist { apply_history(&mut tb2, c.salt, op); }
    let r1 = if certs.is_some() { tb2.set_certs(&certs_coll) } else { if !c.hist.is_empty() { tb2.remove_certs(); } Ok(()) };
    let r2 = if wdrl.is_some() { tb2.set_withdrawals(&wdrl_coll) } else { if !c.hist.is_empty() { tb2.remove_withdrawals(); } Ok(()) };
    let (dd, di) = if r1.is_ok() && r2.is_ok() {
        if props.is_some() { tb2.set_voting_proposal_builder(&pb); }
        (sc(tb2.get_deposit()), sv(tb2.get_implicit_input()))
    } else { ("-".to_string(), "-".to_string()) };

    // sizes of the six collections (0 for an absent one)
    let nc = if certs.is_some() { certs_coll.len() } else { 0 };
    let nb = if certs.is_some() { cb.build().len() } else { 0 };
    let nw = if wdrl.is_some() { wdrl_coll.len() } else { 0 };
    let nwb = if wdrl.is_some() { wb.build().len() } else { 0 };
    let np = if props.is_some() { props_coll.len() } else { 0 };
    let npb = if props.is_some() { pb.build().len() } else { 0 };

    let fields = format!("hd={} hi={} hd2={} hi2={} cd={} cr={} wt={} bd={} bi={} ti={} to={} xd={} xi={} sc={} sw={} dd={} di={} nc={} nb={} nw={} nwb={} np={} npb={}",
        hd, hi, hd2, hi2, cd, cr, wt, bd, bi, ti, to, xd, xi, okerr(&r1), okerr(&r2), dd, di, nc, nb, nw, nwb, np, npb);
    // first token: `ovf` when some figure is an overflow error, `ok` otherwise (only for the case distribution)
    format!("{} {}", if fields.contains("=err") { "ovf" } else { "ok" }, fields)
}

// ------------------------------------------------------------------------------------------------
// generators
const HAS_COIN: [bool; 19] = [false, false, false, false, false, false, false, true, true, false, false, true, true, true, false, false, true, true, false];
const DEPOSIT_TAGS: [u32; 7] = [0, 3, 7, 11, 12, 13, 16];
const REFUND_TAGS: [u32; 3] = [1, 8, 17];

fn small_coin(r: &mut Rng) -> u64 {
    match r.below(8) { 0 => 0, 1 => 2_000_000, 2 => 500_000_000, 3 => r.below(10), 4 => r.below(100_000_000_000), 5 => r.u64_edge(), _ => r.below(5_000_000) }
}
fn param(r: &mut Rng) -> u64 {
    match r.below(8) { 0 => 0, 1 | 2 => 500_000_000, 3 => 2_000_000, 4 => r.u64_edge(), 5 => 1, _ => r.below(1_000_000_000) }
}

struct G { salt: u64, pool: u64, key: u64, certs: Option<Vec<(u32, Option<u64>, bool)>>, wdrl: Option<Vec<(bool, u64)>>,
           props: Option<Vec<u64>>, ins: Vec<u64>, outs: Vec<u64>, donation: Option<u64>,
           // identities, parallel to certs / wdrl / props (None: item i has identity i everywhere)
           cert_ids: Option<Vec<Id>>, wd_ids: Option<Vec<usize>>, wd_nets: Option<Vec<usize>>, prop_ids: Option<Vec<(usize, usize)>>,
           hist: Vec<String> }
impl G {
    fn empty(r: &mut Rng) -> G { G { salt: r.next() >> 1, pool: 500_000_000, key: 2_000_000, certs: None, wdrl: None, props: None, ins: vec![], outs: vec![], donation: None,
                                     cert_ids: None, wd_ids: None, wd_nets: None, prop_ids: None, hist: vec![] } }
    fn line(&self, label: &str) -> String {
        let mut s = format!("{} {} {} {} C", label, self.salt, self.pool, self.key);
        match &self.certs { None => s.push_str(" ~"), Some(v) => { s.push_str(&format!(" {}", v.len()));
            for (i, (t, c, sc)) in v.iter().enumerate() {
                let ids = match &self.cert_ids { Some(ids) => format!("/{}/{}/{}", ids[i].cred, ids[i].pool, ids[i].var), None => String::new() };
                s.push_str(&format!(" {}{} {} {}", t, ids, c.map(|x| x.to_string()).unwrap_or("~".into()), *sc as u8)); } } }
        s.push_str(" W");
        match &self.wdrl { None => s.push_str(" ~"), Some(v) => { s.push_str(&format!(" {}", v.len()));
            for (i, (sc, c)) in v.iter().enumerate() {
                let ids = match (&self.wd_ids, &self.wd_nets) { (Some(ids), Some(nets)) => format!("/{}/{}", ids[i], nets[i]), (Some(ids), None) => format!("/{}", ids[i]), _ => String::new() };
                s.push_str(&format!(" {}{} {}", *sc as u8, ids, c)); } } }
        s.push_str(" P");
        match &self.props { None => s.push_str(" ~"), Some(v) => { s.push_str(&format!(" {}", v.len()));
            for (i, c) in v.iter().enumerate() {
                let ids = match &self.prop_ids { Some(ids) => format!("/{}/{}", ids[i].0, ids[i].1), None => String::new() };
                s.push_str(&format!(" {}{}", c, ids)); } } }
        s.push_str(&format!(" I {}", self.ins.len())); for c in &self.ins { s.push_str(&format!(" {}", c)); }
        s.push_str(&format!(" O {}", self.outs.len())); for c in &self.outs { s.push_str(&format!(" {}", c)); }
        s.push_str(" D "); s.push_str(&self.donation.map(|x| x.to_string()).unwrap_or("~".into()));
        if !self.hist.is_empty() { s.push_str(&format!(" H {}", self.hist.len())); for h in &self.hist { s.push(' '); s.push_str(h); } }
        s
    }
}

fn rand_cert(r: &mut Rng, coin: &mut dyn FnMut(&mut Rng) -> u64, script_pct: u64) -> (u32, Option<u64>, bool) {
    let tag = r.below(19) as u32;
    let c = if HAS_COIN[tag as usize] { Some(coin(r)) } else { None };
    (tag, c, r.chance(script_pct, 100))
}

/// split `total` into `n` parts (n >= 1) that sum to it exactly
fn split(r: &mut Rng, total: u128, n: usize) -> Vec<u64> {
    let mut parts = vec![];
    let mut rest = total;
    for k in 0..n {
        let left = (n - k - 1) as u128;
        let lo = rest.saturating_sub(left * u64::MAX as u128);            // the others can take at most u64::MAX each
        let hi = rest.min(u64::MAX as u128);
        let v = if k == n - 1 { rest } else if r.chance(1, 4) { lo } else if r.chance(1, 4) { hi } else { lo + (r.next() as u128) % (hi - lo + 1) };
        assert!(v <= u64::MAX as u128);
        parts.push(v as u64); rest -= v;
    }
    parts
}

fn gen(dir: &str) {
    let seed = seed_from_env();
    let thorough = is_thorough();
    // Rng::new(s + 1) is Rng::new(s) advanced by one draw, so neighbouring seeds would re-synchronise after a few
    // cases; hash the seed once more so that every seed gets an unrelated stream
    let mut r = Rng::new(Rng::new(seed ^ 0xC20).next());
    let mut out = Out::new(dir);
    let emit = |out: &mut Out, case: String| {
        let toks: Vec<String> = case.split_whitespace().map(|s| s.to_string()).collect();
        let res = guarded(move || exec(&toks));
        out.emit(&case, &res);
    };
    let scale = if thorough { 150 } else { 10 };

    // 1. every kind alone (every line of every table), with boundary amounts and both credential kinds
    for tag in 0..19u32 {
        for v in 0..(6 * scale) {
            let mut g = G::empty(&mut r);
            g.pool = param(&mut r); g.key = param(&mut r);
            let c = if HAS_COIN[tag as usize] { Some(if v % 3 == 0 { r.u64_edge() } else { small_coin(&mut r) }) } else { None };
            g.certs = Some(vec![(tag, c, v % 2 == 1)]);
            g.cert_ids = Some(vec![Id { cred: r.below(4) as usize, pool: r.below(4) as usize, var: r.below(8) as usize }]);
            if v % 6 >= 4 { g.wdrl = Some(vec![(false, small_coin(&mut r))]); g.props = Some(vec![small_coin(&mut r)]); }
            { let ids: Vec<(usize, usize)> = g.props.as_ref().map(|p| p.iter().map(|_| (r.below(4 * ACTION_SHAPES as u64) as usize, r.below(9) as usize)).collect()).unwrap_or_default();
            if g.props.is_some() && r.chance(3, 4) { g.prop_ids = Some(ids); } }
            emit(&mut out, g.line(&format!("kind{}", tag)));
        }
    }
    // 2. absent / empty collections in every combination
    for m in 0..27u32 {
        let mut g = G::empty(&mut r);
        g.certs = match m % 3 { 0 => None, 1 => Some(vec![]), _ => Some(vec![rand_cert(&mut r, &mut small_coin, 0)]) };
        g.wdrl = match (m / 3) % 3 { 0 => None, 1 => Some(vec![]), _ => Some(vec![(false, small_coin(&mut r))]) };
        g.props = match (m / 9) % 3 { 0 => None, 1 => Some(vec![]), _ => Some(vec![small_coin(&mut r)]) };
        if m % 2 == 0 { g.donation = Some(small_coin(&mut r)); }
        emit(&mut out, g.line("absent"));
    }
    // 3. random mixtures, realistic amounts (rarely overflowing)
    for _ in 0..(700 * scale) {
        let mut g = G::empty(&mut r);
        g.pool = param(&mut r).min(1 << 40); g.key = param(&mut r).min(1 << 40);
        let mut coin = |r: &mut Rng| match r.below(6) { 0 => 0, 1 => 2_000_000, 2 => 500_000_000, _ => r.below(1_000_000_000_000) };
        let script_pct = if r.chance(1, 2) { 0 } else { 25 };
        if r.chance(9, 10) { let n = r.below(13) as usize; g.certs = Some((0..n).map(|_| rand_cert(&mut r, &mut coin, script_pct)).collect()); }
        if r.chance(7, 10) { let n = r.below(6) as usize; g.wdrl = Some((0..n).map(|_| (r.chance(script_pct, 100), coin(&mut r))).collect()); }
        if r.chance(6, 10) { let n = r.below(5) as usize; g.props = Some((0..n).map(|_| coin(&mut r)).collect()); }
        g.ins = (0..r.below(4)).map(|_| coin(&mut r)).collect();
        g.outs = (0..r.below(4)).map(|_| coin(&mut r)).collect();
        if r.chance(1, 4) { g.donation = Some(coin(&mut r)); }
        { let ids: Vec<(usize, usize)> = g.props.as_ref().map(|p| p.iter().map(|_| (r.below(4 * ACTION_SHAPES as u64) as usize, r.below(9) as usize)).collect()).unwrap_or_default();
            if g.props.is_some() && r.chance(3, 4) { g.prop_ids = Some(ids); } }
        emit(&mut out, g.line("mix"));
    }
    // 4. random mixtures with edge-biased 64-bit amounts (frequent overflow somewhere)
    for _ in 0..(300 * scale) {
        let mut g = G::empty(&mut r);
        g.pool = param(&mut r); g.key = param(&mut r);
        let mut coin = |r: &mut Rng| if r.chance(1, 3) { r.u64_edge() } else { small_coin(r) };
        if r.chance(9, 10) { let n = r.below(7) as usize; g.certs = Some((0..n).map(|_| rand_cert(&mut r, &mut coin, 10)).collect()); }
        if r.chance(6, 10) { let n = r.below(4) as usize; g.wdrl = Some((0..n).map(|_| (r.chance(1, 10), coin(&mut r))).collect()); }
        if r.chance(5, 10) { let n = r.below(4) as usize; g.props = Some((0..n).map(|_| coin(&mut r)).collect()); }
        g.ins = (0..r.below(3)).map(|_| coin(&mut r)).collect();
        g.outs = (0..r.below(3)).map(|_| coin(&mut r)).collect();
        if r.chance(1, 4) { g.donation = Some(coin(&mut r)); }
        { let ids: Vec<(usize, usize)> = g.props.as_ref().map(|p| p.iter().map(|_| (r.below(4 * ACTION_SHAPES as u64) as usize, r.below(9) as usize)).collect()).unwrap_or_default();
            if g.props.is_some() && r.chance(3, 4) { g.prop_ids = Some(ids); } }
        emit(&mut out, g.line("edge"));
    }
    // 5. totals straddling 2^64 exactly: the deposit side or the refund side sums to 2^64 + d, d in -2..=2,
    //    spread over certificates (explicit amounts and parameters), withdrawals / proposals, in random order
    for _ in 0..(400 * scale) {
        let mut g = G::empty(&mut r);
        let d = r.below(5) as i128 - 2;
        let total = ((1u128 << 64) as i128 + d) as u128;
        let deposit_side = r.chance(1, 2);
        let n_other = r.below(4) as usize;                    // proposals (deposit side) or withdrawals (refund side)
        let n_cert = if n_other == 0 { 2 } else { 1 } + r.below(5) as usize;   // at least two parts: one u64 cannot hold 2^64
        let parts = split(&mut r, total, n_cert + n_other);
        let mut certs: Vec<(u32, Option<u64>, bool)> = vec![];
        let mut pool_set = false; let mut key_set = false;
        g.pool = param(&mut r); g.key = param(&mut r);
        for p in &parts[..n_cert] {
            let tag = if deposit_side { *r.pick(&DEPOSIT_TAGS) } else { *r.pick(&REFUND_TAGS) };
            // parameter-priced kinds: the part becomes the parameter (once), otherwise use an explicit kind
            let (tag, coin) = match tag {
                0 | 1 if !key_set => { key_set = true; g.key = *p; (tag, None) }
                3 if !pool_set => { pool_set = true; g.pool = *p; (tag, None) }
                0 => (7, Some(*p)), 1 => (8, Some(*p)), 3 => (16, Some(*p)),
                t => (t, Some(*p)),
            };
            certs.push((tag, coin, false));
        }
        // neutral certificates in between (must not change any figure; retirement is the known class)
        for _ in 0..r.below(4) {
            let neutral = [2u32, 4, 5, 6, 9, 10, 14, 15, 18];
            let t = *r.pick(&neutral);
            if t == 4 && !deposit_side && !r.chance(1, 4) { continue; }
            let pos = r.below(certs.len() as u64 + 1) as usize;
            certs.insert(pos, (t, None, false));
        }
        // items of the other side, small
        for _ in 0..r.below(3) {
            let tag = if deposit_side { *r.pick(&[8u32, 17]) } else { *r.pick(&[7u32, 11, 12, 13, 16]) };
            let pos = r.below(certs.len() as u64 + 1) as usize;
            certs.insert(pos, (tag, Some(r.below(3_000_000)), false));
        }
        g.certs = Some(certs);
        let other: Vec<u64> = parts[n_cert..].to_vec();
        if deposit_side {
            if n_other > 0 || r.chance(1, 2) { g.props = Some(other); }
            if r.chance(1, 2) { g.wdrl = Some(vec![(false, r.below(1000))]); }
        } else {
            if n_other > 0 || r.chance(1, 2) { g.wdrl = Some(other.into_iter().map(|c| (false, c)).collect()); }
            if r.chance(1, 2) { g.props = Some(vec![r.below(1000)]); }
        }
        if r.chance(1, 3) { g.ins = vec![r.below(3)]; }
        if r.chance(1, 3) { g.outs = vec![r.below(3)]; }
        if r.chance(1, 5) { g.donation = Some(r.below(3)); }
        if let Some(p) = &g.props {
            // pairwise different actions (i + 14 k), any shape, any return address: all parts are kept
            let off = r.below(ACTION_SHAPES as u64) as usize;
            g.prop_ids = Some((0..p.len()).map(|i| ((i + off) % ACTION_SHAPES + ACTION_SHAPES * r.below(3) as usize, r.below(5) as usize)).collect());
        }
        emit(&mut out, g.line(if deposit_side { "ovf-dep" } else { "ovf-ref" }));
    }
    // 6. balancing totals at the boundary: inputs + implicit input, outputs + deposit + donation
    for _ in 0..(150 * scale) {
        let mut g = G::empty(&mut r);
        let d = r.below(5) as i128 - 2;
        let total = ((1u128 << 64) as i128 + d) as u128;
        let parts = split(&mut r, total, 4);
        if r.chance(1, 2) {
            g.ins = vec![parts[0], parts[1]];
            g.wdrl = Some(vec![(false, parts[2])]);
            g.certs = Some(vec![(17, Some(parts[3]), false)]);
        } else {
            g.outs = vec![parts[0]];
            g.certs = Some(vec![(16, Some(parts[1]), false)]);
            g.props = Some(vec![parts[2]]);
            g.donation = Some(parts[3]);
        }
        { let ids: Vec<(usize, usize)> = g.props.as_ref().map(|p| p.iter().map(|_| (r.below(4 * ACTION_SHAPES as u64) as usize, r.below(9) as usize)).collect()).unwrap_or_default();
            if g.props.is_some() && r.chance(3, 4) { g.prop_ids = Some(ids); } }
        emit(&mut out, g.line("ovf-total"));
    }
    // 7. long sequences
    for _ in 0..(10 * scale) {
        let mut g = G::empty(&mut r);
        let n = 40 + r.below(80) as usize;
        let mut coin = |r: &mut Rng| r.below(1u64 << 58);
        g.certs = Some((0..n).map(|_| rand_cert(&mut r, &mut coin, 5)).collect());
        g.wdrl = Some((0..r.below(30)).map(|_| (false, r.below(1u64 << 59))).collect());
        g.props = Some((0..r.below(20)).map(|_| r.below(1u64 << 59)).collect());
        emit(&mut out, g.line("long"));
    }

    // 8. items that share SOME identifying field and differ in another, and exact duplicates: what the sets / maps merge
    //    and what they keep apart.  Small identity pools, several scenarios, amounts realistic or at the 64-bit edge.
    for n in 0..(260 * scale) {
        let mut g = G::empty(&mut r);
        g.pool = param(&mut r); g.key = param(&mut r);
        let edge = r.chance(1, 4);
        let mut coin = |r: &mut Rng| if edge { match r.below(4) { 0 => 1u64 << 63, 1 => u64::MAX, 2 => (1u64 << 63) - 1, _ => r.u64_edge() } }
                                     else { match r.below(5) { 0 => 0, 1 => 2_000_000, 2 => 500_000_000, _ => r.below(3_000_000) } };
        let mut certs: Vec<(u32, Option<u64>, bool)> = vec![];
        let mut ids: Vec<Id> = vec![];
        let sid = |r: &mut Rng| r.below(3) as usize;
        let label;
        match n % 6 {
            0 => {
                // one pool operator: several registrations (other parameters equal or different), its retirement, delegations to it
                label = "shared-pool";
                let op = sid(&mut r); let other = op + 1 + sid(&mut r);
                for _ in 0..(2 + r.below(3)) {
                    certs.push((3, None, r.chance(1, 4)));
                    ids.push(Id { cred: sid(&mut r), pool: if r.chance(4, 5) { op } else { other }, var: r.below(3) as usize });
                }
                for _ in 0..r.below(4) {
                    let t = *r.pick(&[2u32, 4, 10, 11, 13]);
                    certs.push((t, if HAS_COIN[t as usize] { Some(coin(&mut r)) } else { None }, false));
                    ids.push(Id { cred: sid(&mut r), pool: op, var: sid(&mut r) });
                }
            }
            1 => {
                // one stake credential registered through several kinds (0, 7, 11, 12, 13), deregistered (1, 8), delegated
                label = "shared-stake";
                let c = sid(&mut r); let sc = r.chance(1, 4);
                for _ in 0..(2 + r.below(5)) {
                    let t = *r.pick(&[0u32, 7, 11, 12, 13, 1, 8, 2, 9]);
                    certs.push((t, if HAS_COIN[t as usize] { Some(coin(&mut r)) } else { None }, sc));
                    ids.push(Id { cred: if r.chance(5, 6) { c } else { c + 1 }, pool: sid(&mut r), var: sid(&mut r) });
                }
            }
            2 => {
                // one DRep credential registered (same / other amount, same / other anchor), updated, deregistered
                label = "shared-drep";
                let c = sid(&mut r); let sc = r.chance(1, 4);
                let a = coin(&mut r);
                for _ in 0..(2 + r.below(5)) {
                    let t = *r.pick(&[16u32, 16, 17, 18, 14, 15]);
                    certs.push((t, if HAS_COIN[t as usize] { Some(if r.chance(2, 3) { a } else { coin(&mut r) }) } else { None }, sc));
                    ids.push(Id { cred: if r.chance(5, 6) { c } else { c + 1 }, pool: 0, var: r.below(3) as usize });
                }
            }
            3 => {
                // exact duplicates of arbitrary certificates, inserted anywhere
                label = "dup";
                for _ in 0..(1 + r.below(5)) {
                    certs.push(rand_cert(&mut r, &mut coin, 15));
                    ids.push(Id { cred: r.below(6) as usize, pool: r.below(6) as usize, var: r.below(6) as usize });
                }
                for _ in 0..(1 + r.below(4)) {
                    let k = r.below(certs.len() as u64) as usize;
                    let pos = r.below(certs.len() as u64 + 1) as usize;
                    let (c, i) = (certs[k], ids[k]);
                    certs.insert(pos, c); ids.insert(pos, i);
                }
            }
            4 => {
                // near duplicates: a certificate and copies that differ in exactly one of amount / credential kind /
                // credential / operator / rest; whether that is another Rust value depends on the kind
                label = "near-dup";
                let base = rand_cert(&mut r, &mut coin, 30);
                let bid = Id { cred: sid(&mut r), pool: sid(&mut r), var: r.below(6) as usize };
                certs.push(base); ids.push(bid);
                for _ in 0..(1 + r.below(5)) {
                    let (mut c, mut i) = (base, bid);
                    match r.below(6) {
                        0 => { if let Some(x) = c.1 { c.1 = Some(if r.chance(1, 2) { x ^ 1 } else { coin(&mut r) }); } }
                        1 => { c.2 = !c.2; }
                        2 => { i.cred += 1; }
                        3 => { i.pool += 1; }
                        4 => { i.var += 1 + r.below(3) as usize; }
                        _ => {}
                    }
                    let pos = r.below(certs.len() as u64 + 1) as usize;
                    certs.insert(pos, c); ids.insert(pos, i);
                }
            }
            _ => {
                // random kinds over small identity pools: frequent accidental sharing and merging
                label = "mix-ids";
                for _ in 0..r.below(10) {
                    certs.push(rand_cert(&mut r, &mut coin, 15));
                    ids.push(Id { cred: sid(&mut r), pool: sid(&mut r), var: sid(&mut r) });
                }
            }
        }
        if !certs.is_empty() || r.chance(1, 2) { g.certs = Some(certs); g.cert_ids = Some(ids); }
        // withdrawals: accounts from a small pool, so that an account is often given two or three amounts (replacement)
        if r.chance(2, 3) {
            let k = r.below(6) as usize;
            g.wdrl = Some((0..k).map(|_| (r.chance(1, 6), coin(&mut r))).collect());
            g.wd_ids = Some((0..k).map(|_| r.below(3) as usize).collect());
            if r.chance(1, 2) { g.wd_nets = Some((0..k).map(|_| *r.pick(&[0usize, 1, 1, 7])).collect()); }
        }
        // proposals: action / return address / deposit from small pools: equal ones are merged, near-equal ones are not
        if r.chance(2, 3) {
            let k = r.below(6) as usize;
            let a = coin(&mut r);
            g.props = Some((0..k).map(|_| if r.chance(2, 3) { a } else { coin(&mut r) }).collect());
            // a base action, the same action again, its neighbour shape, the same shape with other content
            let a0 = r.below(2 * ACTION_SHAPES as u64) as usize;
            g.prop_ids = Some((0..k).map(|_| (a0 + *r.pick(&[0usize, 0, 1, ACTION_SHAPES]), r.below(2) as usize)).collect());
        }
        if r.chance(1, 3) { g.ins = vec![coin(&mut r)]; }
        if r.chance(1, 3) { g.outs = vec![coin(&mut r)]; }
        if r.chance(1, 6) { g.donation = Some(coin(&mut r)); }
        emit(&mut out, g.line(label));
    }
    // 9. merging decides between a number and an overflow.  The items that REMAIN after merging sum to 2^64 + d
    //    (d in -2..=2).  "merged": a part is given a second time as an EQUAL item (certificate / proposal) or an account
    //    first gets an amount that would overflow on its own and then its part (withdrawal): counting the extra item
    //    overflows.  "kept": two items carry the SAME amount and differ in one other field: merging them loses a part.
    for n in 0..(120 * scale) {
        let mut g = G::empty(&mut r);
        let d = r.below(5) as i128 - 2;
        let total = ((1u128 << 64) as i128 + d) as u128;
        let k = 2 + r.below(3) as usize;
        let equal = r.chance(1, 2);
        // parts[0] occurs twice: as an equal item (merged, not part of the total) or as a near-equal one (part of the total)
        let parts: Vec<u64> = if equal { split(&mut r, total, k) } else {
            let p0 = 2 + r.below(1u64 << 63);
            let mut v = vec![p0];
            v.extend(split(&mut r, total - 2 * p0 as u128, k - 1));
            v
        };
        let k = parts.len();
        let pos = 1 + r.below(k as u64) as usize;
        match n % 3 {
            0 => {
                // DRep registrations (explicit amounts); the near-equal one has another anchor
                let mut certs: Vec<(u32, Option<u64>, bool)> = parts.iter().map(|p| (16u32, Some(*p), false)).collect();
                let mut ids: Vec<Id> = (0..k).map(|i| Id { cred: i, pool: 0, var: 4 }).collect();
                certs.insert(pos, (16, Some(parts[0]), false));
                ids.insert(pos, Id { cred: 0, pool: 1, var: if equal { 4 } else { 6 } });   // the operator is no field of a DRep registration
                g.certs = Some(certs); g.cert_ids = Some(ids);
                emit(&mut out, g.line(if equal { "ovf-merged-cert" } else { "ovf-kept-cert" }));
            }
            1 => {
                // proposals; the near-equal one has another return address
                let mut props: Vec<u64> = parts.clone();
                let a0 = r.below(3 * ACTION_SHAPES as u64) as usize;
                let mut ids: Vec<(usize, usize)> = (0..k).map(|i| (a0 + i, 0)).collect();
                props.insert(pos, parts[0]);
                ids.insert(pos, if equal { (a0, 0) } else { (a0, 1) });
                g.props = Some(props); g.prop_ids = Some(ids);
                emit(&mut out, g.line(if equal { "ovf-merged-prop" } else { "ovf-kept-prop" }));
            }
            _ => {
                let mut w: Vec<(bool, u64)> = parts.iter().map(|p| (false, *p)).collect();
                let mut ids: Vec<usize> = (0..k).collect();
                if equal {
                    // account 0 is first given an amount that overflows the rest, its part comes later (also a third time)
                    w[0].1 = if r.chance(1, 2) { u64::MAX } else { parts[0] ^ 1 };
                    w.insert(pos, (false, parts[0])); ids.insert(pos, 0);
                    if r.chance(1, 3) { w.push((false, parts[0])); ids.push(0); }
                } else {
                    // the same amount for another account (same number, script credential)
                    w.insert(pos, (true, parts[0])); ids.insert(pos, 0);
                }
                g.wdrl = Some(w); g.wd_ids = Some(ids);
                emit(&mut out, g.line(if equal { "ovf-replaced-wd" } else { "ovf-kept-wd" }));
            }
        }
    }
    // 10. every shape of governance action (7 kinds x prior action id x policy hash) leads a proposal list whose other
    //     members have random shapes; the figures depend on the deposits only
    for shape in 0..ACTION_SHAPES {
        for v in 0..(5 * scale) {
            let mut g = G::empty(&mut r);
            g.pool = param(&mut r); g.key = param(&mut r);
            let k = 1 + r.below(4) as usize;
            let mut coin = |r: &mut Rng| if v % 5 == 0 { r.u64_edge() } else { match r.below(4) { 0 => 100_000_000_000, 1 => 0, _ => small_coin(r) } };
            g.props = Some((0..k).map(|_| coin(&mut r)).collect());
            let mut ids: Vec<(usize, usize)> = (0..k).map(|_| (r.below(4 * ACTION_SHAPES as u64) as usize, r.below(6) as usize)).collect();
            ids[0].0 = shape + ACTION_SHAPES * r.below(4) as usize;
            if r.chance(1, 3) { let j = r.below(k as u64) as usize; ids.swap(0, j); }
            if shape == 13 && v % 2 == 0 {
                // the same update-committee proposal with the other insertion order of members_to_remove
                let j = ids.iter().position(|x| x.0 % ACTION_SHAPES == 13).unwrap();
                let twin = if (ids[j].0 / ACTION_SHAPES) % 2 == 0 { ids[j].0 + ACTION_SHAPES } else { ids[j].0 - ACTION_SHAPES };
                let dep = g.props.as_ref().unwrap()[j];
                let pos = r.below(ids.len() as u64 + 1) as usize;
                g.props.as_mut().unwrap().insert(pos, dep); ids.insert(pos, (twin, ids[j].1));
            }
            g.prop_ids = Some(ids);
            if shape == 3 && v % 2 == 0 {
                // two registrations of one pool that differ only in the insertion order of the owners (var and var ^ 2)
                let (c, p, w) = (r.below(3) as usize, r.below(3) as usize, r.below(8) as usize);
                g.certs = Some(vec![(3, None, false), (3, None, false)]);
                g.cert_ids = Some(vec![Id { cred: c, pool: p, var: w }, Id { cred: c, pool: p, var: w ^ 2 }]);
            } else
            if r.chance(1, 2) { let n = r.below(4) as usize; g.certs = Some((0..n).map(|_| rand_cert(&mut r, &mut coin, 20)).collect()); }
            if r.chance(1, 3) { g.wdrl = Some(vec![(r.chance(1, 3), coin(&mut r))]); }
            if r.chance(1, 4) { g.outs = vec![coin(&mut r)]; }
            emit(&mut out, g.line(&format!("action{}", shape)));
        }
    }
    // 11. reward accounts drawn from a small pool of credentials x {key, script} x networks {0, 1, other}: the same credential on
    //     two networks is two accounts (both kept, by the body map, the builder and the body the builder emits); the same account
    //     twice is a replacement
    for n in 0..(120 * scale) {
        let mut g = G::empty(&mut r);
        g.pool = param(&mut r); g.key = param(&mut r);
        let edge = n % 5 == 0;
        let mut coin = |r: &mut Rng| if edge { r.u64_edge() } else { match r.below(4) { 0 => 0, 1 => 2_000_000, _ => 1 + r.below(900_000_000) } };
        let k = 2 + r.below(5) as usize;
        let c0 = r.below(3) as usize;
        g.wdrl = Some((0..k).map(|_| (r.chance(1, 5), coin(&mut r))).collect());
        g.wd_ids = Some((0..k).map(|_| if r.chance(2, 3) { c0 } else { r.below(3) as usize }).collect());
        g.wd_nets = Some((0..k).map(|_| *r.pick(&[0usize, 1, 0, 1, 5, 15])).collect());
        if r.chance(1, 3) { let m = r.below(4) as usize; g.certs = Some((0..m).map(|_| rand_cert(&mut r, &mut coin, 10)).collect()); }
        if r.chance(1, 4) { g.props = Some(vec![coin(&mut r)]); }
        if r.chance(1, 3) { g.ins = vec![coin(&mut r)]; }
        emit(&mut out, g.line("wd-net"));
    }
    // 12. histories on one builder: one to four earlier set / remove operations with stale collections (deprecated setters,
    //     sub-builder setters, removers, for certificates and withdrawals), then the final setters of a random case
    //     (an absent collection is removed): setters replace, nothing of the history may be left in any figure
    for n in 0..(150 * scale) {
        let mut g = G::empty(&mut r);
        g.pool = param(&mut r).min(1 << 40); g.key = param(&mut r).min(1 << 40);
        let mut coin = |r: &mut Rng| match r.below(6) { 0 => 0, 1 => 2_000_000, 2 => 500_000_000, _ => r.below(1_000_000_000_000) };
        let script_pct = if r.chance(2, 3) { 0 } else { 25 };
        if r.chance(3, 4) { let m = r.below(6) as usize; g.certs = Some((0..m).map(|_| rand_cert(&mut r, &mut coin, script_pct)).collect());
                            g.cert_ids = Some((0..m).map(|_| Id { cred: r.below(4) as usize, pool: r.below(4) as usize, var: r.below(6) as usize }).collect()); }
        if r.chance(3, 4) { let m = r.below(4) as usize; g.wdrl = Some((0..m).map(|_| (r.chance(script_pct, 100), coin(&mut r))).collect());
                            g.wd_ids = Some((0..m).map(|_| r.below(4) as usize).collect()); }
        if r.chance(1, 2) { let m = r.below(3) as usize; g.props = Some((0..m).map(|_| coin(&mut r)).collect()); }
        g.ins = (0..r.below(3)).map(|_| coin(&mut r)).collect();
        g.outs = (0..r.below(3)).map(|_| coin(&mut r)).collect();
        let ops = ["sc", "sC", "rc", "sw", "sW", "rw"];
        let len = 1 + r.below(4) as usize;
        for j in 0..len {
            // the last steps are setters more often than removers, so that something stale is there to be replaced
            let op = if j + 1 == len && n % 2 == 0 { *r.pick(&["sw", "sW", "sc", "sC"]) } else { *r.pick(&ops) };
            g.hist.push(if op.starts_with('s') { format!("{}{}", op, r.below(6)) } else { op.to_string() });
        }
        emit(&mut out, g.line("history"));
    }
    out.finish();
}

fn main() {
    if std::env::var("VERIF_DEBUG").is_err() { silence_panics(); }
    let args: Vec<String> = std::env::args().collect();
    match args.get(1).map(|s| s.as_str()) {
        Some("gen") => gen(&args[2]),
        Some("run") => {
            let mut o = String::new();
            for (idx, toks) in read_cases(&args[2]) {
                let res = guarded(move || exec(&toks));
                o.push_str(&format!("{} {}\n", idx, res));
            }
            std::fs::write(&args[3], o).unwrap();
        }
        _ => { eprintln!("usage: c20 gen <dir> | run <cases> <out>"); std::process::exit(2); }
    }
}
