//! C16 correspondence harness: duplicate-free sets, canonical asset maps, deterministic builds.
//! `c16 gen <dir>`  generates cases from VERIF_SEED / VERIF_TIER and runs the implementation;
//! `c16 run <cases> <out>` runs the implementation on given case lines (replay / corpus);
//! `c16 one <tokens…>` builds ONE `tx` case and prints the transaction bytes (used as the second process).
//!
//! Case lines (bytes = lowercase hex, `-` = empty, lists = count then elements):
//!   set-K-<init> K INIT NOPS op*        K = 0 TransactionInputs, 1 Ed25519KeyHashes, 2 Credentials, 3 Certificates,
//!                                       4 VotingProposals, 5 Vkeywitnesses, 6 BootstrapWitnesses
//!       INIT = new | bytes NT tag* LEN NI item* BRK | json N elem* | scr M (K keyhash*)*
//!       LEN  = i | d<n>w<k> (definite count n written with a k-byte head, k = 0 immediate)   BRK = 0|1 (a 0xff after the items)
//!       item = e<wire>,<canonical> | b<wire> (element decoder rejects it) | n (CBOR null)
//!       op   = a<elem> | a<wire>,<elem> (add an element decoded from <wire>, another spelling of the same value; result observed) | c… (contains; only where it is public)
//!     -> ok b=<bits> items=<csv> bytes=<to_bytes> json=<to_bytes after from_json(to_json)> | err | panic
//!   ws NOPS op*     op = vk[@P] N e* | ns[@P] N e* | bs[@P] N e* | ps[@P] N <lang>:<bytes>* | pd[@P] <a|d|i> N datum*   datum = k<int>,<orig|~>
//!                   P = <a|c|t|u|i|w><k>: provenance of the collection handed to the setter (see prov_of); the model only needs the elements
//!     -> ok bytes=<to_bytes> f=<key:csv;…>   (the element encodings found under each key when the output is decoded again)
//!   ma-api N op*    op = s <policy> <name> <qty> | i <policy> K (<name> <qty>)*
//!   ma-wire N (<policy> K (<name> <qty>)*)*     MultiAsset::from_bytes of a map written in THIS order
//!   ma-json N (<policy> K (<name> <qty>)*)*     MultiAsset::from_json of an object written in this order
//!     -> ok bytes=<to_bytes> e=<policy:name=qty,…;…> | err
//!   mint N op*      op = a|s <script bytes> <policy> <w|r|p<lang>|q<lang>> <refhash|-> <refidx> <name> <amount>   (w/r native script as witness / reference input, p/q Plutus)   (MintBuilder add_asset / set_asset)
//!     -> ok bytes=<Mint to_bytes> e=<…> | err
//!   tx I n (<hash> <idx>)* C n (…)* F <0|1> SI n (<script> <w|r> <hash> <idx> <refhash|-> <refidx>)* RE n (<hash> <idx> <size>)*
//!      G n <keyhash>* M (~ | n mintop*) XD n datum* [PI n (<lang> <script> <datum|~> <hash> <idx>)*] [PW n (<lang> <script> <datum|~>)*]
//!      [PC n (<lang> <script> <datum|~> <kind>)*] [NW n <native script>*] [NC n (<native script> <kind>)*]
//!     -> ok ins= coll= refs= sig= mint= ns= pd= det=<1 when 3 builds, a rebuilt builder and a second process all gave the same bytes> | err
#![allow(deprecated)]
use cardano_serialization_lib::*;
use csl_verif_harness::util::*;

// ------------------------------------------------------------------ small helpers
fn fill(id: u64, domain: u8, n: usize) -> Vec<u8> {
    let mut r = Rng::new(id.wrapping_mul(0x9E37_79B9).wrapping_add((domain as u64) << 48) ^ 0xC16C16);
    let mut v = r.bytes(n);
    v[0] = domain; v[1] = id as u8;
    v
}
fn keyhash(id: u64, d: u8) -> Ed25519KeyHash { Ed25519KeyHash::from_bytes(fill(id, d, 28)).unwrap() }
fn scripthash(id: u64, d: u8) -> ScriptHash { ScriptHash::from_bytes(fill(id, d, 28)).unwrap() }
fn txhash(id: u64, d: u8) -> TransactionHash { TransactionHash::from_bytes(fill(id, d, 32)).unwrap() }
fn cbor_head(major: u8, n: u64, width: u8) -> Vec<u8> {
    let m = major << 5;
    match width {
        0 => vec![m | (n as u8)],
        1 => vec![m | 24, n as u8],
        2 => { let mut v = vec![m | 25]; v.extend(&(n as u16).to_be_bytes()); v }
        4 => { let mut v = vec![m | 26]; v.extend(&(n as u32).to_be_bytes()); v }
        _ => { let mut v = vec![m | 27]; v.extend(&n.to_be_bytes()); v }
    }
}
fn min_width(n: u64) -> u8 { if n < 24 { 0 } else if n < 256 { 1 } else if n < 65536 { 2 } else if n < (1u64 << 32) { 4 } else { 8 } }
fn head(major: u8, n: u64) -> Vec<u8> { cbor_head(major, n, min_width(n)) }
fn bstr(b: &[u8]) -> Vec<u8> { let mut v = head(2, b.len() as u64); v.extend(b); v }
fn csv(v: &[String]) -> String { if v.is_empty() { "-".into() } else { v.join(",") } }
fn hx(b: &[u8]) -> String { hex_or_dash(b) }

/// Walks one CBOR data item starting at `p`; records every head as (position, major, additional info, head length, end of the item).
fn walk(b: &[u8], p: usize, out: &mut Vec<(usize, u8, u8, usize, usize)>) -> Option<usize> {
    let b0 = *b.get(p)?; let major = b0 >> 5; let ai = b0 & 31;
    let (arg, hl): (u64, usize) = match ai {
        0..=23 => (ai as u64, 1),
        24 => (*b.get(p + 1)? as u64, 2),
        25 => (u16::from_be_bytes([*b.get(p + 1)?, *b.get(p + 2)?]) as u64, 3),
        26 => (u32::from_be_bytes([*b.get(p + 1)?, *b.get(p + 2)?, *b.get(p + 3)?, *b.get(p + 4)?]) as u64, 5),
        27 => { let mut a = [0u8; 8]; for i in 0..8 { a[i] = *b.get(p + 1 + i)?; } (u64::from_be_bytes(a), 9) }
        31 => (0, 1),
        _ => return None,
    };
    let idx = out.len(); out.push((p, major, ai, hl, 0));
    let end = match major {
        0 | 1 | 7 => p + hl,
        2 | 3 => if ai == 31 { return None } else { p + hl + arg as usize },
        4 | 5 => {
            let mut q = p + hl;
            if ai == 31 { while *b.get(q)? != 0xff { q = walk(b, q, out)?; } q + 1 }
            else { for _ in 0..(if major == 4 { arg } else { 2 * arg }) { q = walk(b, q, out)?; } q }
        }
        _ => walk(b, p + hl, out)?,
    };
    if end > b.len() { return None; }
    out[idx].4 = end;
    Some(end)
}
/// Another spelling of the same CBOR value: somewhere inside the item (nested sets and arrays included) ONE of
///  - a set tag 258 removed (a tagged set written as a plain array),
///  - a definite-length array or map written with indefinite length,
///  - an integer / length head written one width wider.
/// Whether the library reads it as the same element is decided by the caller with the library's own decoder.
fn variant(r: &mut Rng, canon: &[u8]) -> Vec<u8> {
    let mut hs = Vec::new();
    if walk(canon, 0, &mut hs) != Some(canon.len()) { return canon.to_vec(); }
    // nested set tags are rare among the heads: take one of them half of the time when there is one
    let tags: Vec<usize> = hs.iter().filter(|h| h.1 == 6 && canon[h.0..h.0 + h.3] == [0xd9, 0x01, 0x02]).map(|h| h.0).collect();
    if !tags.is_empty() && r.chance(1, 2) { let p = *r.pick(&tags); let mut v = canon[..p].to_vec(); v.extend(&canon[p + 3..]); return v; }
    for _ in 0..8 {
        let (p, major, ai, hl, end) = *r.pick(&hs);
        match r.below(3) {
            0 => if major == 6 && canon[p..p + hl] == [0xd9, 0x01, 0x02] { let mut v = canon[..p].to_vec(); v.extend(&canon[p + hl..]); return v; },
            1 => if (major == 4 || major == 5) && ai != 31 {
                    let mut v = canon[..p].to_vec(); v.push((major << 5) | 31); v.extend(&canon[p + hl..end]); v.push(0xff); v.extend(&canon[end..]); return v; },
            _ => if major <= 5 && ai < 24 { let mut v = canon[..p].to_vec(); v.push((major << 5) | 24); v.push(ai); v.extend(&canon[p + 1..]); return v; }
                 else if major <= 5 && ai == 24 { let mut v = canon[..p].to_vec(); v.push((major << 5) | 25); v.push(0); v.extend(&canon[p + 1..]); return v; },
        }
    }
    canon.to_vec()
}
/// a variant that the library's decoder reads as the SAME element (else the canonical bytes themselves)
fn same_elem_variant(r: &mut Rng, kind: u64, canon: &[u8]) -> Vec<u8> {
    for _ in 0..4 { let w = variant(r, canon); if canon_of(kind, &w).as_deref() == Some(canon) { return w; } }
    canon.to_vec()
}

// ------------------------------------------------------------------ elements of the seven set types
fn element(kind: u64, id: u64) -> Vec<u8> {
    // id = base + 16 * variant: the same base with another variant differs in ONE field only
    let base = id % 16; let var = id / 16;
    match kind {
        0 => TransactionInput::new(&txhash(base, 1), var as u32 * 300 + (base as u32 % 3) * 20).to_bytes(),
        1 => bstr(&keyhash(id, 2).to_bytes()),      // hash types: to_bytes is the raw hash; the set element is its CBOR byte string
        2 => if var % 2 == 0 { Credential::from_keyhash(&keyhash(base, 3)).to_bytes() } else { Credential::from_scripthash(&scripthash(base, 3)).to_bytes() },
        3 => {
            let c = if base % 2 == 0 { Credential::from_keyhash(&keyhash(base, 4)) } else { Credential::from_scripthash(&scripthash(base, 4)) };
            let pool = keyhash(base, 5);
            (match (base + var) % 9 {
                7 => {
                    // nested set: pool owners (1..3 of them), plus relays and a reward account
                    let mut owners = Ed25519KeyHashes::new();
                    for k in 0..(1 + base % 3) { owners.add(&keyhash(base * 7 + k, 13)); }
                    let mut relays = Relays::new();
                    relays.add(&Relay::new_single_host_name(&SingleHostName::new(Some(3001), &DNSRecordAorAAAA::new(format!("r{}.example", var)).unwrap())));
                    let params = PoolParams::new(&pool, &VRFKeyHash::from_bytes(fill(base, 14, 32)).unwrap(),
                        &BigNum::from(1_000_000_000u64 + var), &BigNum::from(340_000_000u64),
                        &UnitInterval::new(&BigNum::from(1u64), &BigNum::from(20u64)),
                        &RewardAddress::new(0, &c), &owners, &relays, None);
                    Certificate::new_pool_registration(&PoolRegistration::new(&params))
                }
                8 => Certificate::new_committee_hot_auth(&CommitteeHotAuth::new(&c, &Credential::from_keyhash(&keyhash(base + var, 15)))),
                0 => Certificate::new_stake_registration(&StakeRegistration::new(&c)),
                1 => Certificate::new_stake_deregistration(&StakeDeregistration::new(&c)),
                2 => Certificate::new_stake_delegation(&StakeDelegation::new(&c, &pool)),
                3 => Certificate::new_pool_retirement(&PoolRetirement::new(&pool, 100 + var as u32)),
                4 => Certificate::new_reg_cert(&StakeRegistration::new_with_explicit_deposit(&c, &BigNum::from(2_000_000u64 + var))).unwrap(),
                5 => Certificate::new_vote_delegation(&VoteDelegation::new(&c, &DRep::new_always_abstain())),
                _ => Certificate::new_drep_update(&DRepUpdate::new(&c)),
            }).to_bytes()
        }
        4 => {
            let action = match base % 4 {
                3 => {
                    // nested set: committee members to remove, plus a member map
                    let mut rm = Credentials::new();
                    for k in 0..(1 + base % 2) { rm.add(&Credential::from_keyhash(&keyhash(base * 5 + k, 16))); }
                    let mut committee = Committee::new(&UnitInterval::new(&BigNum::from(2u64), &BigNum::from(3u64)));
                    committee.add_member(&Credential::from_scripthash(&scripthash(base, 17)), 500 + var as u32);
                    GovernanceAction::new_new_committee_action(&UpdateCommitteeAction::new(&committee, &rm))
                }
                0 => GovernanceAction::new_info_action(&InfoAction::new()),
                1 => GovernanceAction::new_no_confidence_action(&NoConfidenceAction::new()),
                _ => GovernanceAction::new_hard_fork_initiation_action(&HardForkInitiationAction::new(&ProtocolVersion::new(10 + base as u32, 0))),
            };
            let anchor = Anchor::new(&URL::new(format!("https://a.example/{}", base)).unwrap(), &AnchorDataHash::from_bytes(fill(base, 6, 32)).unwrap());
            VotingProposal::new(&action, &anchor, &RewardAddress::new(0, &Credential::from_keyhash(&keyhash(base, 7))), &BigNum::from(100_000_000_000u64 + var)).to_bytes()
        }
        5 => {
            let vkey = Vkey::new(&PublicKey::from_bytes(&fill(base, 8, 32)).unwrap());
            Vkeywitness::new(&vkey, &Ed25519Signature::from_bytes(fill(base * 31 + var, 9, 64)).unwrap()).to_bytes()
        }
        _ => {
            let vkey = Vkey::new(&PublicKey::from_bytes(&fill(base, 10, 32)).unwrap());
            BootstrapWitness::new(&vkey, &Ed25519Signature::from_bytes(fill(base, 11, 64)).unwrap(), fill(base * 31 + var, 12, 32), vec![0xa0]).to_bytes()
        }
    }
}

trait SetOps: Sized {
    fn mk() -> Self;
    fn add_b(&mut self, e: &[u8]) -> bool;
    fn contains_b(&self, e: &[u8]) -> Option<bool>;
    fn to_b(&self) -> Vec<u8>;
    fn from_b(b: Vec<u8>) -> Option<Self>;
    fn items_b(&self) -> Vec<Vec<u8>>;
    fn round_json(&self) -> Option<Self>;
    fn from_json_elems(elems: &[Vec<u8>]) -> Option<Self>;
    fn canon(wire: &[u8]) -> Option<Vec<u8>>;
}
macro_rules! impl_set {
    ($coll:ty, $elem:ty, $contains:expr) => {
        impl SetOps for $coll {
            fn mk() -> Self { <$coll>::new() }
            fn add_b(&mut self, e: &[u8]) -> bool { self.add(&<$elem>::from_bytes(e.to_vec()).expect("element")) }
            fn contains_b(&self, e: &[u8]) -> Option<bool> { let f: fn(&$coll, &$elem) -> Option<bool> = $contains; f(self, &<$elem>::from_bytes(e.to_vec()).expect("element")) }
            fn to_b(&self) -> Vec<u8> { self.to_bytes() }
            fn from_b(b: Vec<u8>) -> Option<Self> { <$coll>::from_bytes(b).ok() }
            fn items_b(&self) -> Vec<Vec<u8>> { (0..self.len()).map(|i| self.get(i).to_bytes()).collect() }
            fn round_json(&self) -> Option<Self> { <$coll>::from_json(&self.to_json().ok()?).ok() }
            fn from_json_elems(elems: &[Vec<u8>]) -> Option<Self> {
                let parts: Vec<String> = elems.iter().map(|e| serde_json::to_string(&<$elem>::from_bytes(e.clone()).expect("element")).expect("json")).collect();
                <$coll>::from_json(&format!("[{}]", parts.join(","))).ok()
            }
            fn canon(wire: &[u8]) -> Option<Vec<u8>> { <$elem>::from_bytes(wire.to_vec()).ok().map(|e| e.to_bytes()) }
        }
    };
}
impl_set!(TransactionInputs, TransactionInput, |_, _| None);
/// raw content of a CBOR byte-string item (any head width), None when it is not one
fn unbstr(w: &[u8]) -> Option<Vec<u8>> {
    let b0 = *w.get(0)?; if b0 >> 5 != 2 { return None; }
    let (n, off) = match b0 & 31 { x if x < 24 => (x as usize, 1), 24 => (*w.get(1)? as usize, 2), 25 => (((*w.get(1)? as usize) << 8) | *w.get(2)? as usize, 3), _ => return None };
    if w.len() == off + n { Some(w[off..].to_vec()) } else { None }
}
fn kh(e: &[u8]) -> Ed25519KeyHash { Ed25519KeyHash::from_bytes(unbstr(e).expect("key hash item")).expect("key hash") }
impl SetOps for Ed25519KeyHashes {
    fn mk() -> Self { Ed25519KeyHashes::new() }
    fn add_b(&mut self, e: &[u8]) -> bool { self.add(&kh(e)) }
    fn contains_b(&self, e: &[u8]) -> Option<bool> { Some(self.contains(&kh(e))) }
    fn to_b(&self) -> Vec<u8> { self.to_bytes() }
    fn from_b(b: Vec<u8>) -> Option<Self> { Ed25519KeyHashes::from_bytes(b).ok() }
    fn items_b(&self) -> Vec<Vec<u8>> { (0..self.len()).map(|i| bstr(&self.get(i).to_bytes())).collect() }
    fn round_json(&self) -> Option<Self> { Ed25519KeyHashes::from_json(&self.to_json().ok()?).ok() }
    fn from_json_elems(elems: &[Vec<u8>]) -> Option<Self> {
        let parts: Vec<String> = elems.iter().map(|e| serde_json::to_string(&kh(e)).expect("json")).collect();
        Ed25519KeyHashes::from_json(&format!("[{}]", parts.join(","))).ok()
    }
    fn canon(wire: &[u8]) -> Option<Vec<u8>> { Ed25519KeyHash::from_bytes(unbstr(wire)?).ok().map(|h| bstr(&h.to_bytes())) }
}
impl_set!(Credentials, Credential, |_, _| None);
impl_set!(Certificates, Certificate, |_, _| None);
impl_set!(VotingProposals, VotingProposal, |s, e| Some(s.contains(e)));
impl_set!(Vkeywitnesses, Vkeywitness, |_, _| None);
impl_set!(BootstrapWitnesses, BootstrapWitness, |_, _| None);

struct P<'a> { t: &'a [String], i: usize }
impl<'a> P<'a> {
    fn next(&mut self) -> &'a str { let s = &self.t[self.i]; self.i += 1; s.as_str() }
    fn peek(&self) -> &'a str { self.t[self.i].as_str() }
    fn expect(&mut self, s: &str) { assert_eq!(self.next(), s, "case syntax"); }
    fn count(&mut self) -> usize { self.next().parse().unwrap() }
    fn bytes(&mut self) -> Vec<u8> { unhex_or_dash(self.next()) }
    fn u64(&mut self) -> u64 { self.next().parse().unwrap() }
}

fn canon_of(kind: u64, wire: &[u8]) -> Option<Vec<u8>> {
    match kind { 0 => TransactionInputs::canon(wire), 1 => Ed25519KeyHashes::canon(wire), 2 => Credentials::canon(wire), 3 => Certificates::canon(wire),
                 4 => VotingProposals::canon(wire), 5 => Vkeywitnesses::canon(wire), _ => BootstrapWitnesses::canon(wire) }
}

fn exec_set_t<S: SetOps>(p: &mut P) -> String {
    let init = p.next();
    let start: Option<S> = match init {
        "new" => Some(S::mk()),
        "bytes" => {
            let mut wire = Vec::new();
            for _ in 0..p.count() { let t = p.u64(); wire.extend(head(6, t)); }
            let len = p.next();
            if len == "i" { wire.push(0x9f); } else {
                let body = &len[1..]; let mut it = body.split('w');
                let n: u64 = it.next().unwrap().parse().unwrap(); let w: u8 = it.next().unwrap().parse().unwrap();
                wire.extend(cbor_head(4, n, w));
            }
            for _ in 0..p.count() {
                let s = p.next();
                match &s[..1] {
                    "e" => wire.extend(unhex_or_dash(s[1..].split(',').next().unwrap())),
                    "b" => wire.extend(unhex_or_dash(&s[1..])),
                    _ => wire.push(0xf6),
                }
            }
            if p.next() == "1" { wire.push(0xff); }
            S::from_b(wire)
        }
        "json" => { let n = p.count(); let els: Vec<Vec<u8>> = (0..n).map(|_| p.bytes()).collect(); S::from_json_elems(&els) }
        _ => unreachable!("scr is handled by the caller"),
    };
    finish_set(start, p)
}
fn finish_set<S: SetOps>(start: Option<S>, p: &mut P) -> String {
    let mut s = match start { Some(s) => s, None => return "err".into() };
    let mut bools = String::new();
    for _ in 0..p.count() {
        let o = p.next(); let e = unhex_or_dash(o[1..].split(',').next().unwrap());      // a<wire>[,<canonical>]
        match &o[..1] {
            "a" => bools.push(if s.add_b(&e) { '1' } else { '0' }),
            _ => bools.push(if s.contains_b(&e).expect("contains is public for this kind") { '1' } else { '0' }),
        }
    }
    // the elements as EMITTED: the collection's own bytes decoded again (order of the bytes, not of the in-memory vector)
    let items: Vec<String> = match S::from_b(s.to_b()) { Some(d) => d.items_b().iter().map(|b| hx(b)).collect(), None => vec!["undecodable".to_string()] };
    let json = match s.round_json() { Some(r) => hx(&r.to_b()), None => "jsonerr".into() };
    format!("ok b={} items={} bytes={} json={}", if bools.is_empty() { "-".into() } else { bools }, csv(&items), hx(&s.to_b()), json)
}
fn exec_set(p: &mut P) -> String {
    let kind = p.u64();
    if p.peek() == "scr" {
        // Ed25519KeyHashes::from(&NativeScripts): extend_move over the key hashes of each script
        p.next();
        let mut scripts = NativeScripts::new();
        for _ in 0..p.count() {
            let mut subs = NativeScripts::new();
            for _ in 0..p.count() { subs.add(&NativeScript::new_script_pubkey(&ScriptPubkey::new(&kh(&p.bytes())))); }
            scripts.add(&NativeScript::new_script_all(&ScriptAll::new(&subs)));
        }
        return finish_set(Some(Ed25519KeyHashes::from(&scripts)), p);
    }
    match kind {
        0 => exec_set_t::<TransactionInputs>(p), 1 => exec_set_t::<Ed25519KeyHashes>(p), 2 => exec_set_t::<Credentials>(p),
        3 => exec_set_t::<Certificates>(p), 4 => exec_set_t::<VotingProposals>(p), 5 => exec_set_t::<Vkeywitnesses>(p),
        _ => exec_set_t::<BootstrapWitnesses>(p),
    }
}

// ------------------------------------------------------------------ witness set
fn datum_of(tok: &str) -> PlutusData {
    let body = &tok[1..]; let mut it = body.split(',');
    let n = it.next().unwrap(); let o = it.next().unwrap();
    if o == "~" { PlutusData::new_integer(&BigInt::from_str(n).unwrap()) } else { PlutusData::from_bytes(unhex_or_dash(o)).expect("datum bytes") }
}
fn lang(n: u64) -> Language { match n { 1 => Language::new_plutus_v1(), 2 => Language::new_plutus_v2(), _ => Language::new_plutus_v3() } }
fn ws_fields(ws: &TransactionWitnessSet) -> String {
    let mut f: Vec<String> = Vec::new();
    let mut push = |k: u32, els: Vec<String>| { if !els.is_empty() { f.push(format!("{}:{}", k, els.join(","))); } };
    if let Some(v) = ws.vkeys() { push(0, (0..v.len()).map(|i| hx(&v.get(i).to_bytes())).collect()); }
    if let Some(v) = ws.native_scripts() { push(1, (0..v.len()).map(|i| hx(&v.get(i).to_bytes())).collect()); }
    if let Some(v) = ws.bootstraps() { push(2, (0..v.len()).map(|i| hx(&v.get(i).to_bytes())).collect()); }
    if let Some(v) = ws.plutus_scripts() {
        for (k, l) in [(3u32, LanguageKind::PlutusV1), (6, LanguageKind::PlutusV2), (7, LanguageKind::PlutusV3)] {
            push(k, (0..v.len()).filter(|i| v.get(*i).language_version().kind() == l).map(|i| hx(&bstr(&v.get(i).bytes()))).collect());
        }
    }
    if let Some(v) = ws.plutus_data() { push(4, (0..v.len()).map(|i| hx(&v.get(i).to_bytes())).collect()); }
    if f.is_empty() { "-".into() } else { f.join(";") }
}
/// CBOR of a collection holding `els`: form t = tag 258 + definite array, u = plain definite array, i = tag 258 + indefinite array
fn coll_bytes(form: char, els: &[Vec<u8>]) -> Vec<u8> {
    let mut w = if form == 'u' { vec![] } else { head(6, 258) };
    if form == 'i' { w.push(0x9f); } else { w.extend(head(4, els.len() as u64)); }
    for e in els { w.extend(e); }
    if form == 'i' { w.push(0xff); }
    w
}
/// a witness set holding ONE field `key` with the given collection bytes; read back through the typed getter
fn ws_with(key: u64, coll: Vec<u8>) -> TransactionWitnessSet {
    let mut w = head(5, 1); w.extend(head(0, key)); w.extend(coll);
    TransactionWitnessSet::from_bytes(w).expect("witness set bytes")
}
/// provenance of the collection handed to a typed setter: `a` hand-built by add, `c` hand-built then cloned,
/// `t` / `u` / `i` decoded from tagged / untagged / indefinite bytes holding the first k elements (repeats included) and then
/// extended by add() of the remaining ones, `w` = the same (tagged) but decoded inside another witness set and taken from ITS getter
fn prov_of(op: &str) -> (char, usize) {
    match op.split('@').nth(1) { None => ('a', 0), Some(x) => (x.chars().next().unwrap(), x[1..].parse().unwrap()) }
}
fn exec_ws(p: &mut P) -> String {
    let mut ws = TransactionWitnessSet::new();
    for _ in 0..p.count() {
        let op = p.next(); let (prov, k) = prov_of(op);
        match op.split('@').next().unwrap() {
            "vk" => {
                let els: Vec<Vec<u8>> = (0..p.count()).map(|_| p.bytes()).collect(); let k = k.min(els.len());
                let mut v = match prov { 't' | 'u' | 'i' => Vkeywitnesses::from_bytes(coll_bytes(prov, &els[..k])).expect("vkeys bytes"),
                                         'w' if k > 0 => ws_with(0, coll_bytes('t', &els[..k])).vkeys().expect("getter"), _ => Vkeywitnesses::new() };
                let from = if matches!(prov, 't' | 'u' | 'i') || (prov == 'w' && k > 0) { k } else { 0 };
                for e in &els[from..] { v.add(&Vkeywitness::from_bytes(e.clone()).unwrap()); }
                if prov == 'c' { ws.set_vkeys(&v.clone()); } else { ws.set_vkeys(&v); }
            }
            "ns" => {
                let els: Vec<Vec<u8>> = (0..p.count()).map(|_| p.bytes()).collect(); let k = k.min(els.len());
                let mut v = match prov { 't' | 'u' | 'i' => NativeScripts::from_bytes(coll_bytes(prov, &els[..k])).expect("native scripts bytes"),
                                         'w' if k > 0 => ws_with(1, coll_bytes('t', &els[..k])).native_scripts().expect("getter"), _ => NativeScripts::new() };
                let from = if matches!(prov, 't' | 'u' | 'i') || (prov == 'w' && k > 0) { k } else { 0 };
                for e in &els[from..] { v.add(&NativeScript::from_bytes(e.clone()).unwrap()); }
                if prov == 'c' { ws.set_native_scripts(&v.clone()); } else { ws.set_native_scripts(&v); }
            }
            "bs" => {
                let els: Vec<Vec<u8>> = (0..p.count()).map(|_| p.bytes()).collect(); let k = k.min(els.len());
                let mut v = match prov { 't' | 'u' | 'i' => BootstrapWitnesses::from_bytes(coll_bytes(prov, &els[..k])).expect("bootstrap bytes"),
                                         'w' if k > 0 => ws_with(2, coll_bytes('t', &els[..k])).bootstraps().expect("getter"), _ => BootstrapWitnesses::new() };
                let from = if matches!(prov, 't' | 'u' | 'i') || (prov == 'w' && k > 0) { k } else { 0 };
                for e in &els[from..] { v.add(&BootstrapWitness::from_bytes(e.clone()).unwrap()); }
                if prov == 'c' { ws.set_bootstraps(&v.clone()); } else { ws.set_bootstraps(&v); }
            }
            "ps" => {
                let els: Vec<(u64, Vec<u8>)> = (0..p.count()).map(|_| { let s = p.next(); let mut it = s.split(':'); let l: u64 = it.next().unwrap().parse().unwrap(); (l, unhex_or_dash(it.next().unwrap())) }).collect();
                let k = k.min(els.len());
                // `w`: the first k scripts arrive inside another witness set (keys 3 / 6 / 7, tagged arrays, repeats included) and are read through its getter
                let mut v = if prov == 'w' && k > 0 {
                    let groups: Vec<(u64, Vec<Vec<u8>>)> = [(3u64, 1u64), (6, 2), (7, 3)].iter().map(|(key, l)| (*key, els[..k].iter().filter(|e| e.0 == *l).map(|e| bstr(&e.1)).collect::<Vec<_>>())).filter(|g| !g.1.is_empty()).collect();
                    let mut w = head(5, groups.len() as u64);
                    for (key, g) in &groups { w.extend(head(0, *key)); w.extend(coll_bytes(if *key == 6 { 'u' } else { 't' }, g)); }
                    TransactionWitnessSet::from_bytes(w).expect("witness set bytes").plutus_scripts().expect("getter")
                } else { PlutusScripts::new() };
                let from = if prov == 'w' && k > 0 { k } else { 0 };
                for (l, b) in &els[from..] { v.add(&PlutusScript::new_with_version(b.clone(), &lang(*l))); }
                if prov == 'c' { ws.set_plutus_scripts(&v.clone()); } else { ws.set_plutus_scripts(&v); }
            }
            "pd" => {
                let form = p.next(); let n = p.count();
                let toks: Vec<&str> = (0..n).map(|_| p.next()).collect();
                let ds: Vec<PlutusData> = toks.iter().map(|t| datum_of(t)).collect();
                let (prov, k) = if op.contains('@') { (prov, k.min(n)) } else { (match form { "d" => 't', "i" => 'i', _ => 'a' }, n) };
                let enc: Vec<Vec<u8>> = ds[..k].iter().map(|d| d.to_bytes()).collect();
                let mut list = match prov { 't' | 'u' | 'i' => PlutusList::from_bytes(coll_bytes(prov, &enc)).expect("plutus list bytes"),
                                            'w' if k > 0 => ws_with(4, coll_bytes('t', &enc)).plutus_data().expect("getter"), _ => PlutusList::new() };
                let from = if matches!(prov, 't' | 'u' | 'i') || (prov == 'w' && k > 0) { k } else { 0 };
                for d in &ds[from..] { list.add(d); }
                if prov == 'c' { ws.set_plutus_data(&list.clone()); } else { ws.set_plutus_data(&list); }
            }
            x => panic!("ws op {}", x),
        }
    }
    let out = ws.to_bytes();
    let f = match TransactionWitnessSet::from_bytes(out.clone()) { Ok(w) => ws_fields(&w), Err(_) => "undecodable".into() };
    format!("ok bytes={} f={}", hx(&out), f)
}

// ------------------------------------------------------------------ asset bundles and mint
fn policy(b: &[u8]) -> ScriptHash { ScriptHash::from_bytes(b.to_vec()).unwrap() }
fn aname(b: &[u8]) -> AssetName { AssetName::new(b.to_vec()).unwrap() }
fn ma_entries(ma: &MultiAsset) -> String {
    let ks = ma.keys(); let mut out = Vec::new();
    for i in 0..ks.len() {
        let pid = ks.get(i); let a = ma.get(&pid).unwrap(); let ns = a.keys();
        let inner: Vec<String> = (0..ns.len()).map(|j| { let n = ns.get(j); format!("{}={}", hx(&n.name()), a.get(&n).unwrap().to_str()) }).collect();
        out.push(format!("{}:{}", hx(&pid.to_bytes()), inner.join(",")));
    }
    if out.is_empty() { "-".into() } else { out.join(";") }
}
fn read_assets(p: &mut P) -> Vec<(Vec<u8>, u64)> { (0..p.count()).map(|_| { let n = p.bytes(); (n, p.u64()) }).collect() }
fn exec_ma(form: &str, p: &mut P) -> String {
    let ma: Option<MultiAsset> = match form {
        "api" => {
            let mut ma = MultiAsset::new();
            for _ in 0..p.count() {
                match p.next() {
                    "s" => { let pid = p.bytes(); let n = p.bytes(); let q = p.u64(); ma.set_asset(&policy(&pid), &aname(&n), &BigNum::from(q)); }
                    _ => { let pid = p.bytes(); let mut a = Assets::new(); for (n, q) in read_assets(p) { a.insert(&aname(&n), &BigNum::from(q)); } ma.insert(&policy(&pid), &a); }
                }
            }
            Some(ma)
        }
        "wire" => {
            let n = p.count(); let mut wire = head(5, n as u64);
            for _ in 0..n { let pid = p.bytes(); wire.extend(bstr(&pid)); let a = read_assets(p); wire.extend(head(5, a.len() as u64));
                for (nm, q) in a { wire.extend(bstr(&nm)); wire.extend(head(0, q)); } }
            MultiAsset::from_bytes(wire).ok()
        }
        _ => {
            let n = p.count(); let mut parts = Vec::new();
            for _ in 0..n { let pid = p.bytes(); let a = read_assets(p);
                let inner: Vec<String> = a.iter().map(|(nm, q)| format!("\"{}\":\"{}\"", hex::encode(nm), q)).collect();
                parts.push(format!("\"{}\":{{{}}}", hex::encode(&pid), inner.join(","))); }
            MultiAsset::from_json(&format!("{{{}}}", parts.join(","))).ok()
        }
    };
    match ma { Some(ma) => format!("ok bytes={} e={}", hx(&ma.to_bytes()), ma_entries(&ma)), None => "err".into() }
}

struct MintOp { add: bool, native: Option<NativeScript>, plutus: Option<PlutusScript>, src_ref: Option<TransactionInput>, name: Vec<u8>, amount: Int }
fn read_mint_ops(p: &mut P) -> Vec<MintOp> {
    (0..p.count()).map(|_| {
        let add = p.next() == "a"; let sbytes = p.bytes(); let _policy = p.next();
        let src = p.next(); let rh = p.next(); let ri = p.u64();
        let (native, plutus) = if src.starts_with('p') || src.starts_with('q') { (None, Some(PlutusScript::new_with_version(sbytes, &lang(src[1..].parse().unwrap())))) }
                               else { (Some(NativeScript::from_bytes(sbytes).unwrap()), None) };
        let src_ref = if src == "r" || src.starts_with('q') { Some(TransactionInput::new(&TransactionHash::from_bytes(unhex_or_dash(rh)).unwrap(), ri as u32)) } else { None };
        let name = p.bytes(); let amount = Int::from_str(p.next()).unwrap();
        MintOp { add, native, plutus, src_ref, name, amount }
    }).collect()
}
fn native_source(script: &NativeScript, r: &Option<TransactionInput>) -> NativeScriptSource {
    match r { None => NativeScriptSource::new(script), Some(i) => NativeScriptSource::new_ref_input(&script.hash(), i, script.to_bytes().len()) }
}
fn redeemer(tag: &RedeemerTag) -> Redeemer {
    Redeemer::new(tag, &BigNum::zero(), &PlutusData::new_integer(&BigInt::from_str("7").unwrap()), &ExUnits::new(&BigNum::from(1000u64), &BigNum::from(1000u64)))
}
fn mint_builder(ops: &[MintOp]) -> MintBuilder {
    let mut mb = MintBuilder::new();
    for o in ops {
        let w = match (&o.native, &o.plutus) {
            (Some(ns), _) => MintWitness::new_native_script(&native_source(ns, &o.src_ref)),
            (_, Some(ps)) => MintWitness::new_plutus_script(
                &match &o.src_ref { None => PlutusScriptSource::new(ps),
                                    Some(i) => PlutusScriptSource::new_ref_input(&ps.hash(), i, &ps.language_version(), ps.bytes().len()) },
                &redeemer(&RedeemerTag::new_mint())),
            _ => unreachable!(),
        };
        let _ = if o.add { mb.add_asset(&w, &aname(&o.name), &o.amount) } else { mb.set_asset(&w, &aname(&o.name), &o.amount) };
    }
    mb
}
fn mint_entries(m: &Mint) -> String {
    let ks = m.keys(); let mut out = Vec::new();
    for i in 0..ks.len() {
        let pid = ks.get(i); let all = m.get(&pid).unwrap();
        for j in 0..all.len() { let a = all.get(j).unwrap(); let ns = a.keys();
            let inner: Vec<String> = (0..ns.len()).map(|k| { let n = ns.get(k); format!("{}={}", hx(&n.name()), a.get(&n).unwrap().to_str()) }).collect();
            out.push(format!("{}:{}", hx(&pid.to_bytes()), inner.join(","))); }
    }
    // a policy listed twice by keys() would be printed twice per occurrence: keep each (policy, j) once
    out.dedup();
    if out.is_empty() { "-".into() } else { out.join(";") }
}
fn exec_mint(p: &mut P) -> String {
    let ops = read_mint_ops(p);
    match mint_builder(&ops).build() { Ok(m) => format!("ok bytes={} e={}", hx(&m.to_bytes()), mint_entries(&m)), Err(_) => "err".into() }
}

// ------------------------------------------------------------------ a build
fn read_txin(p: &mut P) -> TransactionInput { let h = p.bytes(); TransactionInput::new(&TransactionHash::from_bytes(h).unwrap(), p.u64() as u32) }
fn make_builder(toks: &[String]) -> TransactionBuilder {
    let mut p = P { t: toks, i: 0 };
    let ada = |n: u64| Value::new(&BigNum::from(n));
    p.expect("I"); let mut ins = TxInputsBuilder::new();
    for k in 0..p.count() { let i = read_txin(&mut p); ins.add_key_input(&keyhash(k as u64 % 3, 20), &i, &ada(5_000_000)); }
    p.expect("C"); let mut coll = TxInputsBuilder::new();
    for k in 0..p.count() { let i = read_txin(&mut p); coll.add_key_input(&keyhash(k as u64 % 2, 21), &i, &ada(5_000_000)); }
    p.expect("F"); let flag = p.next() == "1";
    let cfg = TransactionBuilderConfigBuilder::new()
        .fee_algo(&LinearFee::new(&BigNum::from(44u64), &BigNum::from(155381u64)))
        .pool_deposit(&BigNum::from(500_000_000u64)).key_deposit(&BigNum::from(2_000_000u64))
        .max_value_size(5000).max_tx_size(1 << 20).coins_per_utxo_byte(&BigNum::from(4310u64))
        .deduplicate_explicit_ref_inputs_with_regular_inputs(flag)
        .build().unwrap();
    let mut tb = TransactionBuilder::new(&cfg);
    p.expect("SI");
    for _ in 0..p.count() {
        let script = NativeScript::from_bytes(p.bytes()).unwrap(); let src = p.next(); let input = read_txin(&mut p);
        let rh = p.next(); let ri = p.u64();
        let r = if src == "r" { Some(TransactionInput::new(&TransactionHash::from_bytes(unhex_or_dash(rh)).unwrap(), ri as u32)) } else { None };
        ins.add_native_script_input(&native_source(&script, &r), &input, &ada(3_000_000));
    }
    tb.set_collateral(&coll);
    p.expect("RE");
    for _ in 0..p.count() { let i = read_txin(&mut p); let size = p.u64(); if size == 0 { tb.add_reference_input(&i); } else { tb.add_script_reference_input(&i, size as usize); } }
    p.expect("G");
    for _ in 0..p.count() { tb.add_required_signer(&kh(&p.bytes())); }
    p.expect("M");
    if p.peek() == "~" { p.next(); } else { let ops = read_mint_ops(&mut p); tb.set_mint_builder(&mint_builder(&ops)); }
    p.expect("XD");
    for _ in 0..p.count() { tb.add_extra_witness_datum(&datum_of(p.next())); }
    // optional sections: Plutus witnesses (witness-script sources) on inputs, withdrawals and certificates
    let pwit = |p: &mut P, tag: RedeemerTag| -> PlutusWitness {
        let l = p.u64(); let script = PlutusScript::new_with_version(p.bytes(), &lang(l)); let d = p.next();
        if d == "~" { PlutusWitness::new_without_datum(&script, &redeemer(&tag)) } else { PlutusWitness::new(&script, &datum_of(d), &redeemer(&tag)) }
    };
    if p.i < toks.len() && p.peek() == "PI" { p.next();
        for _ in 0..p.count() { let w = pwit(&mut p, RedeemerTag::new_spend()); let input = read_txin(&mut p); ins.add_plutus_script_input(&w, &input, &ada(4_000_000)); } }
    let mut wb = WithdrawalsBuilder::new(); let mut cb = CertificatesBuilder::new(); let (mut has_w, mut has_c) = (false, false);
    let mut plutus_w: Vec<PlutusWitness> = Vec::new(); let mut plutus_c: Vec<(PlutusWitness, u64)> = Vec::new();
    if p.i < toks.len() && p.peek() == "PW" { p.next(); for _ in 0..p.count() { plutus_w.push(pwit(&mut p, RedeemerTag::new_reward())); } }
    if p.i < toks.len() && p.peek() == "PC" { p.next(); for _ in 0..p.count() { let w = pwit(&mut p, RedeemerTag::new_cert()); let kind = p.u64(); plutus_c.push((w, kind)); } }
    let cert_of = |cred: &Credential, kind: u64| if kind == 0 { Certificate::new_stake_deregistration(&StakeDeregistration::new(cred)) }
                  else { Certificate::new_vote_delegation(&VoteDelegation::new(cred, &DRep::new_always_abstain())) };
    // withdrawals / certificates witnessed by inline native scripts (insertion order = order of the tokens), then the Plutus ones
    if p.i < toks.len() && p.peek() == "NW" { p.next();
        for _ in 0..p.count() { let script = NativeScript::from_bytes(p.bytes()).unwrap(); has_w = true;
            wb.add_with_native_script(&RewardAddress::new(0, &Credential::from_scripthash(&script.hash())), &BigNum::from(1_000_000u64), &NativeScriptSource::new(&script)).expect("withdrawal"); } }
    if p.i < toks.len() && p.peek() == "NC" { p.next();
        for _ in 0..p.count() { let script = NativeScript::from_bytes(p.bytes()).unwrap(); let kind = p.u64(); has_c = true;
            cb.add_with_native_script(&cert_of(&Credential::from_scripthash(&script.hash()), kind), &NativeScriptSource::new(&script)).expect("certificate"); } }
    for w in &plutus_w { has_w = true;
        wb.add_with_plutus_witness(&RewardAddress::new(0, &Credential::from_scripthash(&w.script().unwrap().hash())), &BigNum::from(1_000_000u64), w).expect("withdrawal"); }
    for (w, kind) in &plutus_c { has_c = true;
        cb.add_with_plutus_witness(&cert_of(&Credential::from_scripthash(&w.script().unwrap().hash()), *kind), w).expect("certificate"); }
    if has_w { tb.set_withdrawals_builder(&wb); }
    if has_c { tb.set_certs_builder(&cb); }
    tb.set_inputs(&ins);
    tb.add_output(&TransactionOutput::new(&EnterpriseAddress::new(0, &Credential::from_keyhash(&keyhash(1, 22))).to_address(), &ada(2_000_000))).unwrap();
    tb.set_fee(&BigNum::from(250_000u64));
    tb
}
fn txins_str(t: Option<TransactionInputs>) -> String {
    match t { None => "-".into(), Some(t) => csv(&(0..t.len()).map(|i| { let x = t.get(i); format!("{}:{}", hx(&x.transaction_id().to_bytes()), x.index()) }).collect::<Vec<_>>()) }
}
fn exec_tx(toks: &[String], second_process: bool) -> String {
    let tb = make_builder(toks);
    let tx = match tb.build_tx_unsafe() { Ok(t) => t, Err(_) => return "err".into() };
    let bytes = tx.to_bytes();
    let mut det = true;
    for _ in 0..2 { det &= tb.build_tx_unsafe().map(|t| t.to_bytes() == bytes).unwrap_or(false); }
    det &= make_builder(toks).build_tx_unsafe().map(|t| t.to_bytes() == bytes).unwrap_or(false);
    if second_process {
        let out = std::process::Command::new(std::env::current_exe().unwrap()).arg("one").args(toks).output().expect("second process");
        det &= String::from_utf8_lossy(&out.stdout).trim() == hex::encode(&bytes);
    }
    let body = tx.body();
    // TransactionBuilder::get_mint and the mint field of the built body are the same Mint
    let get_mint_agrees = tb.get_mint().map(|m| m.to_bytes()) == body.mint().map(|m| m.to_bytes());
    // what is judged is the EMITTED witness set: its bytes decoded again
    let ws = match TransactionWitnessSet::from_bytes(tx.witness_set().to_bytes()) { Ok(w) => w, Err(_) => return "ok undecodable-witness-set".into() };
    let sig = match body.required_signers() { None => "-".into(), Some(s) => csv(&(0..s.len()).map(|i| hx(&bstr(&s.get(i).to_bytes()))).collect::<Vec<_>>()) };
    // native scripts in EMITTED order (first-insertion order of the builder's combination)
    let ns: Vec<String> = ws.native_scripts().map(|v| (0..v.len()).map(|i| hx(&v.get(i).to_bytes())).collect()).unwrap_or_default();
    let mut pd: Vec<String> = ws.plutus_data().map(|v| (0..v.len()).map(|i| hx(&v.get(i).to_bytes())).collect()).unwrap_or_default();
    pd.sort();
    let mut ps: Vec<String> = Vec::new();
    if let Some(v) = ws.plutus_scripts() {
        for (k, l) in [(3u32, LanguageKind::PlutusV1), (6, LanguageKind::PlutusV2), (7, LanguageKind::PlutusV3)] {
            let mut els: Vec<String> = (0..v.len()).filter(|i| v.get(*i).language_version().kind() == l).map(|i| hx(&bstr(&v.get(i).bytes()))).collect();
            els.sort();
            if !els.is_empty() { ps.push(format!("{}:{}", k, els.join(","))); }
        }
    }
    format!("ok ins={} coll={} refs={} sig={} mint={} ns={} ps={} pd={} det={}",
        txins_str(Some(body.inputs())), txins_str(body.collateral()), txins_str(body.reference_inputs()), sig,
        if get_mint_agrees { body.mint().map(|m| hx(&m.to_bytes())).unwrap_or("~".into()) } else { "get_mint-differs".to_string() }, csv(&ns), if ps.is_empty() { "-".into() } else { ps.join(";") }, csv(&pd), if det { 1 } else { 0 })
}

fn exec(toks: &[String]) -> String {
    let kind = toks[0].as_str(); let mut p = P { t: toks, i: 1 };
    let base = kind.split('-').next().unwrap();
    match base {
        "set" => exec_set(&mut p),
        "ws" => exec_ws(&mut p),
        "ma" => exec_ma(kind.split('-').nth(1).unwrap(), &mut p),
        "mint" => exec_mint(&mut p),
        "tx" => exec_tx(&toks[1..], true),
        _ => "skip".into(),
    }
}

// ------------------------------------------------------------------ generators
fn perms(n: usize) -> Vec<Vec<usize>> {
    if n == 0 { return vec![vec![]]; }
    let mut out = Vec::new();
    for p in perms(n - 1) { for pos in 0..n { let mut q = p.clone(); q.insert(pos, n - 1); out.push(q); } }
    out
}
fn has_contains(kind: u64) -> bool { kind == 1 || kind == 4 }
fn pool_ids_k(r: &mut Rng, kind: u64, n: usize) -> Vec<u64> {
    // composite elements with nested sets (pool registration with owners: id 7 / 22; committee update with members to remove: 3 / 7)
    let mut ids = pool_ids(r, n);
    if kind == 3 && r.chance(2, 3) { let c = *r.pick(&[7u64, 22, 37]); if !ids.contains(&c) { ids[0] = c; } }
    if kind == 4 && r.chance(2, 3) { let c = *r.pick(&[3u64, 7, 19, 23]); if !ids.contains(&c) { ids[0] = c; } }
    ids
}
fn pool_ids(r: &mut Rng, n: usize) -> Vec<u64> {
    // distinct ids; some share a base (differ in one field only)
    let mut ids: Vec<u64> = Vec::new();
    while ids.len() < n { let id = r.below(8) + 16 * r.below(3); if !ids.contains(&id) { ids.push(id); } }
    ids
}
fn gen_ops(r: &mut Rng, kind: u64, pool: &[Vec<u8>], n: usize) -> String {
    let mut s = format!("{}", n);
    for _ in 0..n {
        let e = r.pick(pool);
        // the element handed to add / contains is decoded from another spelling of the same value (tagged vs plain inner set,
        // indefinite inner array, wider heads) or from its canonical bytes (= API-built)
        let w = if r.chance(2, 5) { same_elem_variant(r, kind, e) } else { e.clone() };
        let tok = if &w == e { hx(e) } else { format!("{},{}", hx(&w), hx(e)) };
        if has_contains(kind) && r.chance(1, 4) { s += &format!(" c{}", tok); } else { s += &format!(" a{}", tok); }
    }
    s
}
fn gen_frame(r: &mut Rng, kind: u64, pool: &[Vec<u8>]) -> String {
    let two = kind == 4 || kind == 5;      // VotingProposals and Vkeywitnesses skip a second set tag
    let tags: Vec<u64> = match r.below(40) { 0..=5 => vec![], 6..=9 => if two { vec![258, 258] } else { vec![258] }, 10 => vec![258, 258], 11 => vec![259], 12 => vec![258, 258, 258], 13 => vec![24], _ => vec![258] };
    let ni = r.below(7) as usize;
    let mut items = Vec::new();
    for _ in 0..ni {
        let e = r.pick(pool);
        items.push(match r.below(45) {
            0 => "n".to_string(),
            1 => "b6161".to_string(),                                   // a text string where the element is expected: every element decoder rejects it
            2..=12 => { let w = variant(r, e); match canon_of(kind, &w) { Some(c) => format!("e{},{}", hx(&w), hx(&c)), None => format!("b{}", hx(&w)) } }
            _ => format!("e{},{}", hx(e), hx(e)),
        });
    }
    let (len, brk) = match r.below(14) {
        0..=3 => ("i".to_string(), r.chance(19, 20)),
        4 => (format!("d{}w{}", ni + 1 + r.below(2) as usize, 1), r.chance(1, 2)),                 // announces more than there is
        5 => (format!("d{}w{}", ni.saturating_sub(1), 0), r.chance(1, 4)),                        // announces less (the rest is ignored)
        6 | 7 => (format!("d{}w{}", ni, *r.pick(&[1u8, 2, 4, 8])), false),                        // non-minimal head
        _ => (format!("d{}w{}", ni, min_width(ni as u64)), r.chance(1, 20)),                      // a break after a complete definite array is never read
    };
    let mut s = format!("bytes {}", tags.len());
    for t in &tags { s += &format!(" {}", t); }
    s += &format!(" {} {}", len, items.len());
    for i in &items { s += &format!(" {}", i); }
    s += &format!(" {}", if brk { 1 } else { 0 });
    s
}
fn gen_set(r: &mut Rng, out: &mut Out, thorough: bool) {
    for kind in 0..7u64 {
        // every order of n distinct elements, followed by a rotated second round (all repeats)
        let nmax = if thorough { 5 } else { 3 };
        for n in 1..=nmax {
            let ids = pool_ids_k(r, kind, n); let pool: Vec<Vec<u8>> = ids.iter().map(|i| element(kind, *i)).collect();
            for (pi, pm) in perms(n).iter().enumerate() {
                let mut ops: Vec<String> = pm.iter().map(|i| format!("a{}", hx(&pool[*i]))).collect();
                for k in 0..n { ops.push(format!("a{}", hx(&pool[pm[(k + pi) % n]]))); }
                let line = format!("set-{}-new {} new {} {}", kind, kind, ops.len(), ops.join(" "));
                let toks: Vec<String> = line.split_whitespace().map(|s| s.to_string()).collect();
                out.emit(&line, &guarded(move || exec(&toks)));
            }
        }
        let reps = if thorough { 500 } else { 130 };
        for _ in 0..reps {
            let np = r.range(1, 6) as usize;
            let ids = pool_ids_k(r, kind, np); let pool: Vec<Vec<u8>> = ids.iter().map(|i| element(kind, *i)).collect();
            let (tag, init) = match r.below(10) {
                0 | 1 => ("new", "new".to_string()),
                2 | 3 | 4 | 5 => ("bytes", gen_frame(r, kind, &pool)),
                6 | 7 => { let n = r.below(8) as usize; let mut s = format!("json {}", n); for _ in 0..n { s += &format!(" {}", hx(r.pick(&pool).as_slice())); } ("json", s) }
                _ => if kind == 1 {
                        let m = r.below(4) as usize; let mut s = format!("scr {}", m);
                        for _ in 0..m { let k = r.below(4) as usize; s += &format!(" {}", k); for _ in 0..k { s += &format!(" {}", hx(r.pick(&pool).as_slice())); } }
                        ("scr", s)
                     } else { ("bytes", gen_frame(r, kind, &pool)) },
            };
            let nops = r.below(if thorough { 14 } else { 9 }) as usize;
            let line = format!("set-{}-{} {} {} {}", kind, tag, kind, init, gen_ops(r, kind, &pool, nops));
            let toks: Vec<String> = line.split_whitespace().map(|s| s.to_string()).collect();
            out.emit(&line, &guarded(move || exec(&toks)));
        }
    }
}
fn gen_datum(r: &mut Rng) -> String {
    let n = *r.pick(&[0u64, 1, 2, 23, 24, 255, 256, 1000]);
    match r.below(4) {
        0 | 1 => format!("k{},~", n),
        2 => format!("k{},{}", n, hx(&head(0, n))),                                    // preserved bytes = canonical bytes
        _ => format!("k{},{}", n, hx(&cbor_head(0, n, *r.pick(&[2u8, 4, 8])))),        // preserved non-canonical bytes
    }
}
fn native_script(id: u64) -> NativeScript {
    match id % 3 {
        0 => NativeScript::new_script_pubkey(&ScriptPubkey::new(&keyhash(id, 30))),
        1 => NativeScript::new_timelock_start(&TimelockStart::new_timelockstart(&BigNum::from(1000 + id))),
        _ => { let mut s = NativeScripts::new(); s.add(&NativeScript::new_script_pubkey(&ScriptPubkey::new(&keyhash(id, 31))));
               s.add(&NativeScript::new_timelock_expiry(&TimelockExpiry::new_timelockexpiry(&BigNum::from(9_000_000 + id)))); NativeScript::new_script_all(&ScriptAll::new(&s)) }
    }
}
fn gen_ws(r: &mut Rng, out: &mut Out, thorough: bool) {
    for _ in 0..(if thorough { 1200 } else { 300 }) {
        let nops = r.range(1, 4) as usize; let mut line = format!("ws {}", nops);
        for _ in 0..nops {
            let n = r.below(6) as usize;
            // provenance of the collection: hand-built / cloned / decoded (tagged, untagged, indefinite; repeats in the bytes) and extended
            // by add / taken from another witness set's getter; k = how many leading elements are in the decoded bytes
            let prov = *r.pick(&['a', 'c', 't', 't', 'u', 'i', 'w', 'w']); let k = if r.chance(1, 2) { n } else { r.below(n as u64 + 1) as usize };
            match r.below(8) {
                0 => { let ids = pool_ids(r, 3); line += &format!(" vk@{}{} {}", prov, k, n); for _ in 0..n { line += &format!(" {}", hx(&element(5, *r.pick(&ids)))); } }
                1 => { let ids = pool_ids(r, 3); line += &format!(" bs@{}{} {}", prov, k, n); for _ in 0..n { line += &format!(" {}", hx(&element(6, *r.pick(&ids)))); } }
                2 | 3 => { line += &format!(" ns@{}{} {}", prov, k, n); for _ in 0..n { line += &format!(" {}", hx(&native_script(r.below(4)).to_bytes())); } }
                4 | 5 => { let prov = if matches!(prov, 't' | 'u' | 'i') { 'w' } else { prov };
                           line += &format!(" ps@{}{} {}", prov, k, n); for _ in 0..n { line += &format!(" {}:{}", r.range(1, 3), hx(&fill(r.below(3), 40, 6))); } }
                _ => {
                    let decoded = matches!(prov, 't' | 'u' | 'i') || (prov == 'w' && k > 0);
                    // the encoding flag survives only while nothing is added after decoding
                    let form = if decoded && k == n { if prov == 'i' { "i" } else { "d" } } else { "a" };
                    line += &format!(" pd@{}{} {} {}", prov, k, form, n);
                    for j in 0..n { let mut d = gen_datum(r);
                        if decoded && j < k && d.ends_with("~") { let v = d[1..].split(',').next().unwrap().parse::<u64>().unwrap(); d = format!("k{},{}", v, hx(&head(0, v))); }
                        line += &format!(" {}", d); }
                }
            }
        }
        let toks: Vec<String> = line.split_whitespace().map(|s| s.to_string()).collect();
        out.emit(&line, &guarded(move || exec(&toks)));
    }
}
fn gen_name(r: &mut Rng) -> Vec<u8> {
    // lengths around the CBOR head boundary (23/24) and the maximum (32); shared prefixes
    let len = *r.pick(&[0usize, 1, 1, 2, 3, 4, 8, 22, 23, 24, 25, 31, 32, 32]);
    let mut v = fill(r.below(3), 50, len.max(2)); v.truncate(len);
    if len > 0 && r.chance(1, 3) { let l = v.len(); v[l - 1] = r.below(4) as u8; }
    if len > 0 && r.chance(1, 4) { v[0] = *r.pick(&[0u8, 0x7f, 0x80, 0xff]); }
    v
}
fn gen_assets(r: &mut Rng, n: usize) -> String {
    let mut s = format!("{}", n); for _ in 0..n { s += &format!(" {} {}", hx(&gen_name(r)), r.u64_edge().max(1)); } s
}
fn gen_ma(r: &mut Rng, out: &mut Out, thorough: bool) {
    for round in 0..(if thorough { 2500 } else { 500 }) {
        let pols: Vec<Vec<u8>> = (0..4).map(|i| { let mut p = fill(r.below(6), 51, 28); if i % 2 == 1 { p[0] = *r.pick(&[0u8, 0xff, 0x80]); } p }).collect();
        let n = r.below(9) as usize;
        let line = match round % 5 {
            0 | 1 | 2 => {
                let mut s = format!("ma-api {}", n);
                for _ in 0..n { if r.chance(4, 5) { s += &format!(" s {} {} {}", hx(r.pick(&pols).as_slice()), hx(&gen_name(r)), r.u64_edge()); }
                                else { let k = r.below(4) as usize; let pp = hx(r.pick(&pols).as_slice()); s += &format!(" i {} {}", pp, gen_assets(r, k)); } }
                s
            }
            3 => { let n = n.min(4); let mut s = format!("ma-wire {}", n); for i in 0..n { let p = if r.chance(1, 8) { r.pick(&pols).clone() } else { let mut q = pols[i % 4].clone(); q[27] = i as u8; q };
                   let k = r.below(5) as usize; s += &format!(" {} {}", hx(&p), gen_assets(r, k)); } s }
            _ => { let n = n.min(4); let mut s = format!("ma-json {}", n); for _ in 0..n { let k = r.below(5) as usize; let pp = hx(r.pick(&pols).as_slice()); s += &format!(" {} {}", pp, gen_assets(r, k)); } s }
        };
        let toks: Vec<String> = line.split_whitespace().map(|s| s.to_string()).collect();
        out.emit(&line, &guarded(move || exec(&toks)));
    }
    // one set of (policy, name, qty) triples inserted in every order (3 or 4 triples)
    for _ in 0..(if thorough { 12 } else { 3 }) {
        let k = if thorough { 4 } else { 3 };
        let mut triples: Vec<(Vec<u8>, Vec<u8>, u64)> = Vec::new();
        while triples.len() < k { let p = fill(r.below(2), 51, 28); let n = gen_name(r); if !triples.iter().any(|t| t.0 == p && t.1 == n) { triples.push((p, n, r.u64_edge())); } }
        for pm in perms(k) {
            let mut s = format!("ma-api {}", k);
            for i in pm { let t = &triples[i]; s += &format!(" s {} {} {}", hx(&t.0), hx(&t.1), t.2); }
            let toks: Vec<String> = s.split_whitespace().map(|x| x.to_string()).collect();
            out.emit(&s, &guarded(move || exec(&toks)));
        }
    }
}
fn gen_amount(r: &mut Rng) -> i128 {
    let m = match r.below(6) { 0 => 1, 1 => r.below(24) as i128, 2 => 1_000_000, 3 => (1i128 << 62), 4 => r.below(1 << 40) as i128, _ => 0 };
    if r.chance(1, 2) { -m } else { m }
}
fn gen_mint_ops(r: &mut Rng, n: usize, allow_ref: bool) -> String {
    let mut s = format!("{}", n);
    let names: Vec<Vec<u8>> = (0..3).map(|_| gen_name(r)).collect();
    // a few policies per case, native and Plutus mixed
    let pids: Vec<u64> = (0..4).map(|_| if r.chance(1, 2) { r.below(8) } else { 8 + r.below(10) }).collect();
    for _ in 0..n {
        let pid = *r.pick(&pids);
        let amt = if r.chance(1, 6) { -gen_amount(r).abs().min(5) } else { gen_amount(r) };
        s += &format!(" {} {} {} {}", if r.chance(3, 4) { "a" } else { "s" }, mint_policy_tokens(pid, allow_ref || pid >= 8), hx(r.pick(&names).as_slice()), amt);
    }
    s
}
fn gen_mint(r: &mut Rng, out: &mut Out, thorough: bool) {
    for _ in 0..(if thorough { 1500 } else { 300 }) {
        let k = r.below(8) as usize; let line = format!("mint {}", gen_mint_ops(r, k, false));
        let toks: Vec<String> = line.split_whitespace().map(|s| s.to_string()).collect();
        out.emit(&line, &guarded(move || exec(&toks)));
    }
    // the same add_asset calls on policies of mixed witness kinds (native / Plutus, witness script / reference input), in every order
    for _ in 0..(if thorough { 10 } else { 3 }) {
        let k = if thorough { 4 } else { 3 };
        let mut pids: Vec<u64> = Vec::new();
        while pids.len() < k { let p = if pids.len() % 2 == 0 { r.below(8) } else { 8 + r.below(10) }; if !pids.contains(&p) { pids.push(p); } }
        let ops: Vec<String> = pids.iter().map(|p| format!("a {} {} {}", mint_policy_tokens(*p, false), hx(&gen_name(r)), 1 + r.below(1000))).collect();
        for pm in perms(k) {
            let line = format!("mint {} {}", k, pm.iter().map(|i| ops[*i].clone()).collect::<Vec<_>>().join(" "));
            let toks: Vec<String> = line.split_whitespace().map(|s| s.to_string()).collect();
            out.emit(&line, &guarded(move || exec(&toks)));
        }
    }
    // amounts that cancel out
    let sc = native_script(0); let line = format!("mint 2 a {s} {p} w - 0 6162 5 a {s} {p} w - 0 6162 -5", s = hx(&sc.to_bytes()), p = hx(&sc.hash().to_bytes()));
    let toks: Vec<String> = line.split_whitespace().map(|s| s.to_string()).collect();
    out.emit(&line, &guarded(move || exec(&toks)));
}
/// a small pool of Plutus scripts: (language, bytes); ids 0 and 1 share the bytes under different languages
fn plutus_script(id: u64) -> (u64, Vec<u8>) { match id { 0 => (2, fill(0, 40, 9)), 1 => (3, fill(0, 40, 9)), 2 => (1, fill(2, 40, 7)), _ => (1 + id % 3, fill(id, 40, 8)) } }
/// one mint operation token group on policy `pid`: ids 0..7 native scripts (odd ones through a reference input when allowed),
/// ids 8..17 Plutus scripts (odd ones through a reference input); the script hashes are spread over the whole range, so Plutus
/// policy ids sort before, between and after native ones
fn mint_policy_tokens(pid: u64, allow_ref: bool) -> String {
    if pid < 8 {
        let script = native_script(pid);
        let (src, rh, ri) = if allow_ref && pid % 2 == 1 { ("r".to_string(), hx(&fill(pid, 60, 32)), pid) } else { ("w".to_string(), "-".to_string(), 0) };
        format!("{} {} {} {} {}", hx(&script.to_bytes()), hx(&script.hash().to_bytes()), src, rh, ri)
    } else {
        let id = pid - 8; let (l, sb) = plutus_script(id); let ps = PlutusScript::new_with_version(sb.clone(), &lang(l));
        if id % 2 == 1 { format!("{} {} q{} {} {}", hx(&sb), hx(&ps.hash().to_bytes()), l, hx(&fill(id, 61, 32)), id) }
        else { format!("{} {} p{} - 0", hx(&sb), hx(&ps.hash().to_bytes()), l) }
    }
}
fn gen_txin(r: &mut Rng, pool: u64) -> String { let id = r.below(pool); format!("{} {}", hx(&fill(id, 70, 32)), (id % 3) + r.below(2)) }
fn gen_tx(r: &mut Rng, out: &mut Out, thorough: bool) {
    for _ in 0..(if thorough { 1000 } else { 250 }) {
        let mut line = String::from("tx");
        // regular inputs; sometimes one of them is also the reference input of a script source (must then not be a reference input)
        let ni = r.range(1, 5); line += &format!(" I {}", ni);
        for _ in 0..ni { if r.chance(1, 5) { let sid = 1 + 2 * r.below(2); line += &format!(" {} {}", hx(&fill(sid, 60, 32)), sid); } else { line += &format!(" {}", gen_txin(r, 8)); } }
        let nc = r.below(3); line += &format!(" C {}", nc); for _ in 0..nc { line += &format!(" {}", gen_txin(r, 8)); }
        line += &format!(" F {}", r.below(2));
        let nsi = r.below(4); line += &format!(" SI {}", nsi);
        for _ in 0..nsi { let sid = r.below(4); let script = native_script(sid);
            let (src, rh, ri) = if sid % 2 == 1 { ("r", hx(&fill(sid, 60, 32)), sid) } else { ("w", "-".to_string(), 0) };
            line += &format!(" {} {} {} {} {}", hx(&script.to_bytes()), src, gen_txin(r, 12), rh, ri); }
        let nre = r.below(9); line += &format!(" RE {}", nre);
        for _ in 0..nre { if r.chance(1, 5) { let sid = 1 + 2 * r.below(2); line += &format!(" {} {} {}", hx(&fill(sid, 60, 32)), sid, 0); } else { line += &format!(" {} {}", gen_txin(r, 10), if r.chance(1, 3) { 100 } else { 0 }); } }
        let ng = r.below(6); line += &format!(" G {}", ng); for _ in 0..ng { line += &format!(" {}", hx(&bstr(&keyhash(r.below(4), 80).to_bytes()))); }
        if r.chance(1, 2) { line += " M ~"; } else { let k = r.range(1, 5) as usize; line += &format!(" M {}", gen_mint_ops(r, k, true)); }
        let nx = r.below(5); line += &format!(" XD {}", nx); for _ in 0..nx { line += &format!(" {}", gen_datum(r)); }
        // Plutus witnesses: inputs (distinct inputs; scripts and datums shared between items and with the extra datums),
        // withdrawals (one per script) and certificates (distinct (script, kind) pairs)
        if r.chance(2, 3) {
            let np = r.range(1, 4); line += &format!(" PI {}", np);
            for k in 0..np { let (l, sb) = plutus_script(r.below(3)); let d = if r.chance(1, 5) { "~".to_string() } else { gen_datum(r) };
                line += &format!(" {} {} {} {} {}", l, hx(&sb), d, hx(&fill(k, 71, 32)), 50 + k); }
            { let ids: Vec<u64> = if r.chance(1, 3) { (0..3).filter(|_| r.chance(1, 2)).collect() } else { vec![] }; line += &format!(" PW {}", ids.len());
                for id in ids { let (l, sb) = plutus_script(id); let d = if r.chance(2, 3) { "~".to_string() } else { gen_datum(r) }; line += &format!(" {} {} {}", l, hx(&sb), d); } }
            { let mut pairs: Vec<(u64, u64)> = Vec::new(); if r.chance(1, 3) { for id in 0..3 { for k in 0..2 { if r.chance(1, 3) { pairs.push((id, k)); } } } }
                line += &format!(" PC {}", pairs.len());
                for (id, k) in pairs { let (l, sb) = plutus_script(id); let d = if r.chance(2, 3) { "~".to_string() } else { gen_datum(r) }; line += &format!(" {} {} {} {}", l, hx(&sb), d, k); } }
        }
        // withdrawals and certificates witnessed by several DIFFERENT inline native scripts (plus repeats of a script across items)
        if r.chance(1, 2) {
            let mut ids: Vec<u64> = (0..8).filter(|_| r.chance(1, 2)).collect(); if r.chance(1, 2) { ids.reverse(); }
            if !line.contains(" PI ") { line += " PI 0 PW 0 PC 0"; }
            line += &format!(" NW {}", ids.len()); for id in &ids { line += &format!(" {}", hx(&native_script(*id).to_bytes())); }
            let mut pairs: Vec<(u64, u64)> = Vec::new(); for _ in 0..r.below(7) { let p = (r.below(8), r.below(2)); if !pairs.contains(&p) { pairs.push(p); } }
            line += &format!(" NC {}", pairs.len()); for (id, k) in &pairs { line += &format!(" {} {}", hx(&native_script(*id).to_bytes()), k); }
        }
        let toks: Vec<String> = line.split_whitespace().map(|s| s.to_string()).collect();
        out.emit(&line, &guarded(move || exec(&toks)));
    }
}

fn main() {
    let args: Vec<String> = std::env::args().collect();
    silence_panics();
    match args.get(1).map(|s| s.as_str()) {
        Some("gen") => {
            let mut out = Out::new(&args[2]);
            let mut r = Rng::new(seed_from_env());
            let th = is_thorough();
            gen_set(&mut r, &mut out, th);
            gen_ws(&mut r, &mut out, th);
            gen_ma(&mut r, &mut out, th);
            gen_mint(&mut r, &mut out, th);
            gen_tx(&mut r, &mut out, th);
            out.finish();
        }
        Some("run") => {
            use std::io::Write;
            let mut f = std::io::BufWriter::new(std::fs::File::create(&args[3]).unwrap());
            for (idx, toks) in read_cases(&args[2]) { let t = toks.clone(); writeln!(f, "{} {}", idx, guarded(move || exec(&t))).unwrap(); }
        }
        Some("one") => {
            let toks: Vec<String> = args[2..].to_vec();
            let r = guarded(move || match make_builder(&toks).build_tx_unsafe() { Ok(t) => hex::encode(t.to_bytes()), Err(_) => "err".into() });
            println!("{}", r);
        }
        _ => { eprintln!("usage: c16 gen <dir> | run <cases> <out> | one <tx tokens>"); std::process::exit(2); }
    }
}
