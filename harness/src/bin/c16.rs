#![allow(deprecated)]
use cardano_serialization_lib::*;

fn txin(i: u8, ix: u32) -> TransactionInput {
    TransactionInput::new(&TransactionHash::from_bytes(vec![i; 32]).unwrap(), ix)
}
fn cfg() -> TransactionBuilderConfig {
    TransactionBuilderConfigBuilder::new()
        .fee_algo(&LinearFee::new(&BigNum::from(44u64), &BigNum::from(155381u64)))
        .pool_deposit(&BigNum::from(500000000u64)).key_deposit(&BigNum::from(2000000u64))
        .max_value_size(5000).max_tx_size(16384).coins_per_utxo_byte(&BigNum::from(4310u64))
        .build().unwrap()
}
fn main() {
    let args: Vec<String> = std::env::args().collect();
    if args.len() > 1 && args[1] == "probe" {
        // 1. plutus data None vs Some(original)
        let a = PlutusData::new_integer(&BigInt::from_str("1").unwrap());
        let b = PlutusData::from_bytes(vec![0x01]).unwrap();
        let mut l = PlutusList::new();
        l.add(&a); l.add(&b); l.add(&a);
        let mut ws = TransactionWitnessSet::new();
        ws.set_plutus_data(&l);
        println!("a==b {} ws {}", a == b, hex::encode(ws.to_bytes()));
        // 2. reference inputs order
        let mut outs = std::collections::BTreeSet::new();
        for _ in 0..8 {
            let mut b = TransactionBuilder::new(&cfg());
            for i in 0..8u8 { b.add_reference_input(&txin(i + 1, i as u32)); }
            let r = b.get_reference_inputs();
            let r2 = b.get_reference_inputs();
            outs.insert(hex::encode(r.to_bytes()));
            outs.insert(hex::encode(r2.to_bytes()));
        }
        println!("distinct ref-input serialisations: {}", outs.len());
        // 3. native script dups via setter
        let ns1 = NativeScript::new_timelock_start(&TimelockStart::new_timelockstart(&BigNum::from(5u64)));
        let mut nss = NativeScripts::new();
        nss.add(&ns1); nss.add(&ns1);
        let mut ws = TransactionWitnessSet::new();
        ws.set_native_scripts(&nss);
        println!("ns ws {}", hex::encode(ws.to_bytes()));
        let ws2 = TransactionWitnessSet::from_bytes(hex::decode("a10182820405820405").unwrap()).unwrap();
        println!("ns ws from_bytes dup -> {}", hex::encode(ws2.to_bytes()));
        let j = ws2.to_json().unwrap();
        let ws3 = TransactionWitnessSet::from_json(&j).unwrap();
        println!("ns ws from_json dup -> {}", hex::encode(ws3.to_bytes()));
    }
}
