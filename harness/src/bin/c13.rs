//! C13 correspondence harness: `create_send_all` (tx_batch_builder.rs) end to end.
//! `c13 gen <dir>` generates UTxO layouts + configurations from VERIF_SEED / VERIF_TIER and runs the implementation;
//! `c13 run <cases> <out>` runs the implementation on given case lines (replay / corpus).
//!
//! Case line:  sa <target addr hex> <fee a> <fee b> <coins_per_utxo_byte> <max_value_size> <max_tx_size> <n>
//!             then per UTxO: <txid hex> <index> <owner kind> <pay key id> <stake key id> <addr hex> <coin> <multiasset>
//!             multiasset = `~` (None) | <npolicies> { <policy hex> <nassets> { <name hex|-> <quantity> } }
//! Result:     ok <k> { <tx hex> <signed tx hex> } | <hook H2 traces> | <bootstrap witness sizes> | <real figures> | <canonical content>
//!               | <iteration orders (oracle)>
//!             or  err | <bootstrap witness sizes> | <iteration orders>   or  panic
//! The signed transaction has the same body and a witness set with one real Ed25519 vkey witness per distinct
//! payment key and one real Icarus bootstrap witness per distinct Byron address among the spent UTxOs (the keys
//! are derived from the key ids in the case line).  Everything else (partition, balance, fee, sizes, min ADA)
//! is decided by the Coq-extracted judge on these bytes.
use cardano_serialization_lib::*;
use csl_verif_harness::util::*;
use std::collections::{BTreeMap, HashMap};

const MAGIC: u32 = 764824073;

struct Keys { root: Bip32PrivateKey, cache: HashMap<u64, Vec<u8>> }
impl Keys {
    fn new() -> Self {
        Keys { root: Bip32PrivateKey::from_bip39_entropy(&[0x13u8; 32], &[]), cache: HashMap::new() }
    }
    fn get(&mut self, id: u64) -> Bip32PrivateKey {
        if let Some(k) = self.cache.get(&id) { return Bip32PrivateKey::from_bytes(k).unwrap(); }
        let k = self.root.derive(0x8000_0000 | ((id >> 31) as u32 & 0x7fff_ffff)).derive((id & 0x7fff_ffff) as u32);
        self.cache.insert(id, k.as_bytes());
        k
    }
    fn keyhash(&mut self, id: u64) -> Ed25519KeyHash { self.get(id).to_public().to_raw_key().hash() }
}

fn crc32(data: &[u8]) -> u32 {
    let mut crc = 0xffff_ffffu32;
    for b in data { crc ^= *b as u32; for _ in 0..8 { crc = if crc & 1 != 0 { (crc >> 1) ^ 0xedb8_8320 } else { crc >> 1 }; } }
    !crc
}
fn cbor_head(major: u8, n: u64, out: &mut Vec<u8>) {
    let m = major << 5;
    if n < 24 { out.push(m | n as u8) } else if n < 256 { out.push(m | 24); out.push(n as u8) }
    else if n < 65536 { out.push(m | 25); out.extend_from_slice(&(n as u16).to_be_bytes()) }
    else if n < (1u64 << 32) { out.push(m | 26); out.extend_from_slice(&(n as u32).to_be_bytes()) }
    else { out.push(m | 27); out.extend_from_slice(&n.to_be_bytes()) }
}
/// A Daedalus-style Byron address: attributes carry a derivation-path payload of `dp_len` bytes (and the protocol magic
/// when given).  The library has no public constructor for this style, so the address is assembled on the wire
/// ([#6.24(bytes [root, attributes, 0]), crc32]); its root is derived from the key id only (not the SHA3/Blake2b hash of
/// the spending data, which the harness cannot compute): irrelevant here, sizes depend on the attributes alone.
fn daedalus_style_address(root_seed: u64, dp_len: usize, magic: Option<u32>) -> Address {
    let mut root = [0u8; 28];
    for (i, b) in root.iter_mut().enumerate() { *b = (root_seed.wrapping_mul(0x9E37_79B9_7F4A_7C15).rotate_left((i as u32 * 5) % 64) >> 7) as u8 ^ i as u8; }
    let mut dp = Vec::new();                          // the payload is itself a CBOR byte string inside the attribute
    cbor_head(2, dp_len as u64, &mut dp);
    for i in 0..dp_len { dp.push((root_seed as u8).wrapping_add((i as u8).wrapping_mul(7))); }
    let mut payload = Vec::new();
    cbor_head(4, 3, &mut payload);
    cbor_head(2, 28, &mut payload); payload.extend_from_slice(&root);
    cbor_head(5, if magic.is_some() { 2 } else { 1 }, &mut payload);
    cbor_head(0, 1, &mut payload); cbor_head(2, dp.len() as u64, &mut payload); payload.extend_from_slice(&dp);
    if let Some(m) = magic { let mut mb = Vec::new(); cbor_head(0, m as u64, &mut mb); cbor_head(0, 2, &mut payload); cbor_head(2, mb.len() as u64, &mut payload); payload.extend_from_slice(&mb); }
    cbor_head(0, 0, &mut payload);
    let mut addr = Vec::new();
    cbor_head(4, 2, &mut addr); cbor_head(6, 24, &mut addr); cbor_head(2, payload.len() as u64, &mut addr); addr.extend_from_slice(&payload);
    cbor_head(0, crc32(&payload) as u64, &mut addr);
    ByronAddress::from_bytes(addr).expect("hand-built Byron address").to_address()
}
/// does this Byron address carry a derivation path (Daedalus style)?  attributes = map whose first key is 1
fn is_daedalus_style(b: &ByronAddress) -> bool { let a = b.attributes(); a.len() >= 2 && a[0] != 0xa0 && a[1] == 0x01 }
/// the bootstrap witness of the matching kind, really signed
fn bootstrap_witness(keys: &mut Keys, hash: &TransactionHash, b: &ByronAddress, pay: u64) -> BootstrapWitness {
    if is_daedalus_style(b) {
        let k = LegacyDaedalusPrivateKey::from_bytes(&keys.get(pay).as_bytes()).expect("daedalus key");
        make_daedalus_bootstrap_witness(hash, b, &k)
    } else { make_icarus_bootstrap_witness(hash, b, &keys.get(pay)) }
}

const TESTNET_MAGIC: u32 = 1097911063;
/// owner kinds: 0 base(key,key) 1 base(key,script) 2 enterprise 3 pointer 4 byron icarus mainnet 5 base(script,key) 6 enterprise(script)
/// 7 reward 8 byron icarus with protocol magic 9 byron daedalus style (derivation path) 10 byron daedalus style with protocol magic
fn make_address(keys: &mut Keys, kind: u64, pay: u64, stake: u64) -> Address {
    let net = 1u8;
    let payc = Credential::from_keyhash(&keys.keyhash(pay));
    let stakec = Credential::from_keyhash(&keys.keyhash(stake));
    let script = |id: u64| { let mut b = [0u8; 28]; b[..8].copy_from_slice(&id.to_be_bytes()); b[27] = 0x5c; Credential::from_scripthash(&ScriptHash::from_bytes(b.to_vec()).unwrap()) };
    match kind {
        0 => BaseAddress::new(net, &payc, &stakec).to_address(),
        1 => BaseAddress::new(net, &payc, &script(stake)).to_address(),
        2 => EnterpriseAddress::new(net, &payc).to_address(),
        3 => PointerAddress::new(net, &payc, &Pointer::new_pointer(&BigNum::from(stake % 100_000_000), &BigNum::from(stake % 7), &BigNum::from(stake % 3))).to_address(),
        4 => ByronAddress::icarus_from_key(&keys.get(pay).to_public(), MAGIC).to_address(),
        5 => BaseAddress::new(net, &script(pay), &stakec).to_address(),
        6 => EnterpriseAddress::new(net, &script(pay)).to_address(),
        8 => ByronAddress::icarus_from_key(&keys.get(pay).to_public(), TESTNET_MAGIC).to_address(),
        9 => daedalus_style_address(pay, [28usize, 24, 30, 40, 60][(stake % 5) as usize], None),
        10 => daedalus_style_address(pay, [28usize, 22, 33][(stake % 3) as usize], Some(TESTNET_MAGIC)),
        _ => RewardAddress::new(net, &payc).to_address(),
    }
}

#[derive(Clone)]
struct U { txid: Vec<u8>, ix: u32, kind: u64, pay: u64, stake: u64, addr: Vec<u8>, coin: u64, ma: Option<Vec<(Vec<u8>, Vec<(Vec<u8>, u64)>)>> }
#[derive(Clone)]
struct Case { target: Vec<u8>, a: u64, b: u64, cpb: u64, mvs: u32, mts: u32, us: Vec<U> }

fn case_line(c: &Case) -> String {
    let mut s = format!("sa {} {} {} {} {} {} {}", hex::encode(&c.target), c.a, c.b, c.cpb, c.mvs, c.mts, c.us.len());
    for u in &c.us {
        s.push_str(&format!(" {} {} {} {} {} {} {}", hex::encode(&u.txid), u.ix, u.kind, u.pay, u.stake, hex::encode(&u.addr), u.coin));
        match &u.ma {
            None => s.push_str(" ~"),
            Some(ps) => {
                s.push_str(&format!(" {}", ps.len()));
                for (p, assets) in ps {
                    s.push_str(&format!(" {} {}", hex::encode(p), assets.len()));
                    for (n, q) in assets { s.push_str(&format!(" {} {}", hex_or_dash(n), q)); }
                }
            }
        }
    }
    s
}

fn parse_case(t: &[String]) -> Option<Case> {
    let mut it = t.iter();
    if it.next()? != "sa" { return None; }
    let target = hex::decode(it.next()?).ok()?;
    let a = it.next()?.parse().ok()?; let b = it.next()?.parse().ok()?; let cpb = it.next()?.parse().ok()?;
    let mvs = it.next()?.parse().ok()?; let mts = it.next()?.parse().ok()?;
    let n: usize = it.next()?.parse().ok()?;
    let mut us = Vec::new();
    for _ in 0..n {
        let txid = hex::decode(it.next()?).ok()?; let ix = it.next()?.parse().ok()?;
        let kind = it.next()?.parse().ok()?; let pay = it.next()?.parse().ok()?; let stake = it.next()?.parse().ok()?;
        let addr = hex::decode(it.next()?).ok()?; let coin = it.next()?.parse().ok()?;
        let m = it.next()?;
        let ma = if m == "~" { None } else {
            let np: usize = m.parse().ok()?;
            let mut ps = Vec::new();
            for _ in 0..np {
                let p = hex::decode(it.next()?).ok()?;
                let na: usize = it.next()?.parse().ok()?;
                let mut assets = Vec::new();
                for _ in 0..na { let nm = unhex_or_dash(it.next()?); let q = it.next()?.parse().ok()?; assets.push((nm, q)); }
                ps.push((p, assets));
            }
            Some(ps)
        };
        us.push(U { txid, ix, kind, pay, stake, addr, coin, ma });
    }
    Some(Case { target, a, b, cpb, mvs, mts, us })
}

fn build_utxos(c: &Case) -> Option<TransactionUnspentOutputs> {
    let mut utxos = TransactionUnspentOutputs::new();
    for u in &c.us {
        let input = TransactionInput::new(&TransactionHash::from_bytes(u.txid.clone()).ok()?, u.ix);
        let addr = Address::from_bytes(u.addr.clone()).ok()?;
        let value = match &u.ma {
            None => Value::new(&BigNum::from(u.coin)),
            Some(ps) => {
                let mut ma = MultiAsset::new();
                for (p, assets) in ps {
                    let pid = ScriptHash::from_bytes(p.clone()).ok()?;
                    if assets.is_empty() { ma.insert(&pid, &Assets::new()); }
                    for (n, q) in assets { ma.set_asset(&pid, &AssetName::new(n.clone()).ok()?, &BigNum::from(*q)); }
                }
                let mut v = Value::new(&BigNum::from(u.coin));
                v.set_multiasset(&ma);
                v
            }
        };
        utxos.add(&TransactionUnspentOutput::new(&input, &TransactionOutput::new(&addr, &value)));
    }
    Some(utxos)
}

fn sign(keys: &mut Keys, c: &Case, tx: &Transaction) -> Transaction {
    let body = tx.body();
    let hash = FixedTransaction::new_from_body_bytes(&body.to_bytes()).expect("body").transaction_hash();
    let by_input: HashMap<(Vec<u8>, u32), &U> = c.us.iter().map(|u| ((u.txid.clone(), u.ix), u)).collect();
    let mut vk: BTreeMap<Vec<u8>, Vkeywitness> = BTreeMap::new();
    let mut bs: BTreeMap<Vec<u8>, BootstrapWitness> = BTreeMap::new();
    let ins = body.inputs();
    for i in 0..ins.len() {
        let inp = ins.get(i);
        if let Some(u) = by_input.get(&(inp.transaction_id().to_bytes(), inp.index())) {
            let h = u.addr.get(0).map(|b| b >> 4).unwrap_or(15);
            if h == 8 {
                if let Some(b) = ByronAddress::from_address(&Address::from_bytes(u.addr.clone()).unwrap()) {
                    if !bs.contains_key(&u.addr) { let w = bootstrap_witness(keys, &hash, &b, u.pay); bs.insert(u.addr.clone(), w); }
                }
            } else if h < 8 && h % 2 == 0 {
                // one signature per distinct payment key hash (bytes 1..29 of the address)
                let kh = u.addr[1..29.min(u.addr.len())].to_vec();
                vk.entry(kh).or_insert_with(|| make_vkey_witness(&hash, &keys.get(u.pay).to_raw_key()));
            }
        }
    }
    let mut ws = TransactionWitnessSet::new();
    if !vk.is_empty() { let mut v = Vkeywitnesses::new(); for w in vk.values() { v.add(w); } ws.set_vkeys(&v); }
    if !bs.is_empty() { let mut v = BootstrapWitnesses::new(); for w in bs.values() { v.add(w); } ws.set_bootstraps(&v); }
    Transaction::new(&body, &ws, None)
}

fn exec(keys: &mut Keys, toks: &[String]) -> String {
    let c = match parse_case(toks) { Some(c) => c, None => return "harness-badcase".into() };
    let utxos = match build_utxos(&c) { Some(u) => u, None => return "harness-badcase".into() };
    let target = match Address::from_bytes(c.target.clone()) { Ok(a) => a, Err(_) => return "harness-badcase".into() };
    let cfg = TransactionBuilderConfigBuilder::new()
        .fee_algo(&LinearFee::new(&BigNum::from(c.a), &BigNum::from(c.b)))
        .pool_deposit(&BigNum::from(500_000_000u64)).key_deposit(&BigNum::from(2_000_000u64))
        .max_value_size(c.mvs).max_tx_size(c.mts).coins_per_utxo_byte(&BigNum::from(c.cpb))
        .build().expect("config");
    let _ = verif_hooks_c13::take_send_all_traces();
    let _ = verif_hooks_c13::take_send_all_orders();
    let res = std::panic::catch_unwind(std::panic::AssertUnwindSafe(|| create_send_all(&target, &utxos, &cfg)));
    let traces = verif_hooks_c13::take_send_all_traces();
    // hook H2: the HashSet iteration orders taken, in call order (the oracle script of Batch/AssetPath.v)
    let orders = verif_hooks_c13::take_send_all_orders();
    let orders = format!("{} {}", orders.len(), orders.iter().map(|x| if x.ends_with(':') { format!("{}-", x) } else { x.clone() }).collect::<Vec<String>>().join(" "));
    // sizes of the fake bootstrap witnesses of the Byron owners (what get_boostrap_witness_size measures), per UTxO
    let mut bsizes = format!("{}", c.us.len());
    let zero = TransactionHash::from_bytes(vec![0u8; 32]).unwrap();
    for u in &c.us {
        let sz = match Address::from_bytes(u.addr.clone()).ok().and_then(|a| ByronAddress::from_address(&a)) {
            Some(b) => bootstrap_witness(keys, &zero, &b, u.pay).to_bytes().len(),
            None => 0,
        };
        bsizes.push_str(&format!(" {}", sz));
    }
    match res {
        Err(_) => "panic".into(),
        Ok(Err(_)) => format!("err | {} | {}", bsizes, orders.trim_end()),
        Ok(Ok(batches)) => {
            let mut txs = Vec::new();
            for i in 0..batches.len() { let b = batches.get(i); for j in 0..b.len() { txs.push(b.get(j)); } }
            let mut s = format!("ok {}", txs.len());
            for tx in &txs {
                let signed = sign(keys, &c, tx);
                s.push_str(&format!(" {} {}", hex::encode(tx.to_bytes()), hex::encode(signed.to_bytes())));
            }
            // hook H2: the primitive operations applied to every finished proposal, with the calculator's figures
            s.push_str(&format!(" | {}", traces.len()));
            for t in &traces { s.push_str(&format!(" {}", t.len())); for item in t { s.push_str(&format!(" {}", item)); } }
            s.push_str(&format!(" | {}", bsizes));
            // the real figures of every returned transaction: size, fee, and per output coin : output size : value size
            s.push_str(" |");
            for tx in &txs {
                let outs = tx.body().outputs();
                let mut os = Vec::new();
                for i in 0..outs.len() { let o = outs.get(i); os.push(format!("{}:{}:{}", o.amount().coin().to_str(), o.to_bytes().len(), o.amount().to_bytes().len())); }
                s.push_str(&format!(" {},{},{}", tx.to_bytes().len(), tx.body().fee().to_str(), os.join(";")));
            }
            // canonical content of every transaction: sorted indices of the spent UTxOs, fee, output coins
            // (predicted exactly by the model when no UTxO holds an asset: Batch/PureAda.v)
            s.push_str(" |");
            let index: HashMap<(Vec<u8>, u32), usize> = c.us.iter().enumerate().map(|(i, u)| ((u.txid.clone(), u.ix), i)).collect();
            for tx in &txs {
                let ins = tx.body().inputs();
                let mut ix: Vec<usize> = (0..ins.len()).map(|i| { let inp = ins.get(i); *index.get(&(inp.transaction_id().to_bytes(), inp.index())).unwrap_or(&usize::MAX) }).collect();
                ix.sort();
                let outs = tx.body().outputs();
                let coins: Vec<String> = (0..outs.len()).map(|i| outs.get(i).amount().coin().to_str()).collect();
                s.push_str(&format!(" {},{},{}", ix.iter().map(|x| x.to_string()).collect::<Vec<String>>().join("+"), tx.body().fee().to_str(), coins.join(";")));
            }
            s.push_str(&format!(" | {}", orders.trim_end()));
            s
        }
    }
}

// ------------------------------------------------------------------------------------------ generators

#[derive(Clone, Copy)]
struct Cfg { a: u64, b: u64, cpb: u64, mvs: u32, mts: u32 }

fn gen_cfg(r: &mut Rng) -> Cfg {
    let (a, b) = match r.below(8) { 0..=3 => (44, 155381), 4 => (r.range(1, 200), r.below(400_000)), 5 => (0, r.below(300_000)), 6 => (r.range(1, 2000), 0), _ => (r.range(30, 60), r.range(100_000, 200_000)) };
    let cpb = match r.below(8) { 0..=3 => 4310, 4 => r.range(1, 50), 5 => r.range(1000, 40_000), 6 => 0, _ => r.range(50, 9000) };
    let mvs = match r.below(8) { 0..=2 => 5000, 3 => 4000, 4 => r.range(60, 200) as u32, 5 => r.range(200, 1200) as u32, 6 => r.range(100, 400) as u32, _ => r.range(1000, 6000) as u32 };
    let mts = match r.below(8) { 0..=2 => 16384, 3 => 8000, 4 => r.range(400, 1200) as u32, 5 => r.range(1200, 4000) as u32, 6 => r.range(600, 2000) as u32, _ => r.range(3000, 20000) as u32 };
    Cfg { a, b, cpb, mvs, mts }
}

struct Owners { list: Vec<(u64, u64, u64)> }   // (kind, pay id, stake id)
fn gen_owners(r: &mut Rng) -> Owners {
    let n = match r.below(6) { 0 => 1, 1 => 2, 2 => r.range(2, 5), 3 => r.range(5, 30), _ => r.range(1, 8) };
    let byron_heavy = r.chance(1, 4);
    let shared = r.chance(1, 3);
    let mut list: Vec<(u64, u64, u64)> = Vec::new();
    for i in 0..n {
        // Byron owners of every style: Icarus (empty attributes), Icarus with protocol magic, Daedalus style with a
        // derivation path of varying length, with and without protocol magic: the bootstrap witness sizes differ
        let byron = *r.pick(&[4u64, 4, 8, 9, 9, 10]);
        let kind = if byron_heavy && r.chance(2, 3) { byron } else { match r.below(13) { 0..=5 => 0, 6 => 1, 7..=8 => 2, 9 => 3, _ => byron } };
        // shared payment key with a different stake part (one signature, several addresses)
        let pay = if shared && i > 0 && r.chance(1, 2) { list[r.below(i) as usize].1 } else { 1000 + r.below(1_000_000) };
        let stake = 5000 + r.below(1_000_000);
        list.push((kind, pay, stake));
    }
    Owners { list }
}

fn qty(r: &mut Rng, style: u64) -> u64 {
    match style {
        0 => r.range(1, 1000),
        1 => match r.below(6) { 0 => r.range(1, 23), 1 => r.range(20, 30), 2 => r.range(250, 260), 3 => r.range(65530, 65540), 4 => r.range(0xffff_fff0, 0x1_0000_0010), _ => r.range(1, 1_000_000) },
        2 => { let e = r.u64_edge() >> 1; e.max(1) }
        3 => 1,
        _ => { let s = r.below(62); (r.next() >> s).max(1) >> 2 }
    }.max(1)
}

fn gen_case(r: &mut Rng, keys: &mut Keys, idx: u64) -> Case {
    let cfg = gen_cfg(r);
    let owners = gen_owners(r);
    let shape = r.below(10);
    let n = match shape { 0 => r.range(1, 3), 1 => r.range(1, 60), _ => match r.below(4) { 0 => r.range(1, 6), 1 => r.range(5, 25), 2 => r.range(20, 70), _ => r.range(2, 40) } } as usize;
    // universe of policies / asset names for this case
    let npol = match shape { 0 | 1 => 0, 2 => r.range(1, 2), 3 => r.range(5, 40), 4 => r.range(1, 3), _ => r.range(1, 12) } as usize;
    let per_pol = match shape { 3 => r.range(1, 3), 4 => r.range(10, 60), _ => r.range(1, 10) } as usize;
    let name_style = r.below(5);
    let mut universe: Vec<(Vec<u8>, Vec<Vec<u8>>)> = Vec::new();
    for p in 0..npol {
        let mut pid = r.bytes(28); pid[0] = p as u8;
        let mut names = Vec::new();
        for a in 0..per_pol {
            let l = match name_style { 0 => 0, 1 => 32, 2 => r.range(0, 32), 3 => r.range(22, 26), _ => r.range(1, 8) } as usize;
            let mut nm = r.bytes(l);
            if l > 0 { nm[0] = a as u8; if l > 1 { nm[1] = (a >> 8) as u8 ^ 0x55; } }
            if !names.contains(&nm) { names.push(nm); }
        }
        universe.push((pid, names));
    }
    let qstyle = r.below(5);
    let rich = r.chance(3, 4);     // enough ADA around
    let dust = shape == 6 || r.chance(1, 6);
    let txid_base = r.bytes(32);
    let mut us = Vec::new();
    for i in 0..n {
        let (kind, pay, stake) = *r.pick(&owners.list);
        let addr = make_address(keys, kind, pay, stake).to_bytes();
        let mut txid = txid_base.clone();
        if r.chance(1, 3) { txid = r.bytes(32); }
        let ix = if r.chance(1, 10) { r.u64_edge() as u32 } else { i as u32 + (idx as u32 % 3) * 20 };
        let pure = npol == 0 || r.chance(1, if dust { 2 } else { 4 });
        let ma = if pure { None } else {
            let k = r.range(1, (npol as u64).min(match shape { 3 => 12, _ => 4 })) as usize;
            let mut ps: Vec<(Vec<u8>, Vec<(Vec<u8>, u64)>)> = Vec::new();
            for _ in 0..k {
                let (pid, names) = r.pick(&universe).clone();
                if ps.iter().any(|x| x.0 == pid) { continue; }
                let m = r.range(1, (names.len() as u64).min(match shape { 4 => 40, _ => 6 })) as usize;
                let mut assets: Vec<(Vec<u8>, u64)> = Vec::new();
                for _ in 0..m {
                    let nm = r.pick(&names).clone();
                    if assets.iter().any(|x| x.0 == nm) { continue; }
                    assets.push((nm, qty(r, qstyle)));
                }
                ps.push((pid, assets));
            }
            Some(ps)
        };
        let coin = if pure {
            match r.below(8) { 0 => r.range(1_000_000, 3_000_000), 1 => r.range(100_000_000, 50_000_000_000), 2 => if rich { r.range(2_000_000, 10_000_000) } else { r.range(1, 1_000_000) }, 3 => r.range(4_294_000_000, 4_296_000_000), 4 => r.range(900_000, 1_100_000), _ => r.range(1_500_000, 30_000_000) }
        } else if dust { r.range(0, 1_200_000) } else {
            match r.below(6) { 0 => r.range(1_000_000, 2_000_000), 1 => r.range(1_200_000, 1_600_000), 2 => r.range(10_000_000, 100_000_000), _ => r.range(1_500_000, 6_000_000) }
        };
        us.push(U { txid, ix, kind, pay, stake, addr, coin, ma });
    }
    // distinct inputs
    let mut seen = std::collections::HashSet::new();
    us.retain(|u| seen.insert((u.txid.clone(), u.ix)));
    if rich && r.chance(2, 3) {
        // a well-funded pure-ADA UTxO so that dusty layouts can still be sent
        let (kind, pay, stake) = *r.pick(&owners.list);
        let addr = make_address(keys, kind, pay, stake).to_bytes();
        us.push(U { txid: r.bytes(32), ix: r.below(4) as u32, kind, pay, stake, addr, coin: r.range(50_000_000, 2_000_000_000), ma: None });
    }
    let tk = r.below(10);
    let target = make_address(keys, match tk { 0..=4 => 0, 5 => 9, 6 => 2, 7 => 4, 8 => 3, _ => 1 }, 77 + r.below(1000), 99 + r.below(1000)).to_bytes();
    Case { target, a: cfg.a, b: cfg.b, cpb: cfg.cpb, mvs: cfg.mvs, mts: cfg.mts, us }
}

/// targeted families: width-class boundaries of the last output's coin, of counts (inputs, witnesses, assets, policies)
/// and of summed quantities; forced splitting into many outputs / many transactions
fn gen_targeted(r: &mut Rng, keys: &mut Keys, fam: u64) -> Case {
    let std = Cfg { a: 44, b: 155381, cpb: 4310, mvs: 5000, mts: 16384 };
    let mut cfg = std;
    let mut us: Vec<U> = Vec::new();
    let owner = (0u64, 1000 + r.below(50), 5000 + r.below(50));
    let mk = |keys: &mut Keys, o: (u64, u64, u64), i: usize, coin: u64, ma: Option<Vec<(Vec<u8>, Vec<(Vec<u8>, u64)>)>>| {
        let addr = make_address(keys, o.0, o.1, o.2).to_bytes();
        let mut txid = vec![0x22u8; 32]; txid[0] = (i % 4) as u8;
        U { txid, ix: i as u32, kind: o.0, pay: o.1, stake: o.2, addr, coin, ma }
    };
    match fam {
        0 => {
            // total ADA = boundary + about one fee (+- a few bytes' worth): the coin of the last output sits at a width boundary
            let (bnd, cpb) = *r.pick(&[(1u64 << 32, 4310u64), (1u64 << 32, 4310), (65536, 1), (65536, 0), (256, 0), (24, 0), (1u64 << 32, 100)]);
            cfg.cpb = cpb;
            let n = r.range(1, 3) as usize;
            let fee_guess = 155381 + 44 * (190 + 36 * n as u64 + r.below(12));
            let total = bnd + fee_guess + r.range(0, 2000) - 1000 + if r.chance(1, 3) { fee_guess } else { 0 };
            let mut left = total;
            for i in 0..n {
                let c = if i + 1 == n { left } else { let x = r.range(1, (left / 2).max(2)); left -= x; x };
                us.push(mk(keys, owner, i, c, None));
            }
        }
        1 => {
            // 20..30 inputs and 20..30 distinct key owners in one transaction (array / set heads 1 -> 2 bytes)
            let n = r.range(20, 30) as usize;
            let distinct = r.chance(1, 2);
            let byron = r.chance(1, 4);
            for i in 0..n {
                let o = if distinct { (if byron && r.chance(1, 2) { *r.pick(&[4u64, 8, 9, 10]) } else { *r.pick(&[0u64, 2, 3]) }, 2000 + i as u64, 7000 + i as u64) } else { owner };
                us.push(mk(keys, o, i, r.range(1_500_000, 9_000_000), None));
            }
        }
        2 | 3 => {
            // one asset spread over several UTxOs so that the summed quantity crosses a width boundary; many assets of one
            // policy (20..30: map head 1 -> 2 bytes), names of 22..25 bytes
            let bnd = *r.pick(&[24u64, 256, 65536, 1u64 << 32]);
            let k = r.range(2, 5) as usize;
            let pid = r.bytes(28);
            let nassets = if fam == 3 { r.range(20, 30) as usize } else { r.range(1, 3) as usize };
            let names: Vec<Vec<u8>> = (0..nassets).map(|a| { let l = r.range(22, 25) as usize; let mut n = r.bytes(l); n[0] = a as u8; n }).collect();
            for i in 0..k {
                let assets: Vec<(Vec<u8>, u64)> = names.iter().map(|nm| {
                    let q = if r.chance(2, 3) { (bnd / k as u64).max(1) + r.below(3) - 1 } else { r.range(1, 5) };
                    (nm.clone(), q.max(1))
                }).collect();
                us.push(mk(keys, owner, i, r.range(1_200_000, 4_000_000), Some(vec![(pid.clone(), assets)])));
            }
            us.push(mk(keys, owner, 50, r.range(5_000_000, 50_000_000), None));
        }
        4 => {
            // many policies in one output (20..30: map head 1 -> 2 bytes)
            let np = r.range(20, 30) as usize;
            let ps: Vec<(Vec<u8>, Vec<(Vec<u8>, u64)>)> = (0..np).map(|p| { let mut pid = r.bytes(28); pid[0] = p as u8; let l = r.range(0, 4) as usize; (pid, vec![(r.bytes(l), r.range(1, 300))]) }).collect();
            let half = np / 2;
            us.push(mk(keys, owner, 0, r.range(3_000_000, 9_000_000), Some(ps[..half].to_vec())));
            us.push(mk(keys, owner, 1, r.range(3_000_000, 9_000_000), Some(ps[half..].to_vec())));
            if r.chance(1, 2) { us.push(mk(keys, owner, 2, r.range(3_000_000, 9_000_000), Some(ps[half / 2..half + 3].to_vec()))); }
        }
        5 => {
            // small max_value_size: the assets of one UTxO are split over many outputs
            cfg.mvs = r.range(80, 300) as u32;
            let np = r.range(2, 6) as usize;
            let ps: Vec<(Vec<u8>, Vec<(Vec<u8>, u64)>)> = (0..np).map(|p| { let mut pid = r.bytes(28); pid[0] = p as u8;
                (pid, (0..r.range(1, 8)).map(|a| { let l = r.range(1, 32) as usize; let mut n = r.bytes(l); n[0] = a as u8; (n, r.range(1, 100_000)) }).collect()) }).collect();
            us.push(mk(keys, owner, 0, r.range(20_000_000, 90_000_000), Some(ps.clone())));
            if r.chance(1, 2) { us.push(mk(keys, owner, 1, r.range(2_000_000, 9_000_000), Some(ps[..1].to_vec()))); }
            us.push(mk(keys, owner, 2, r.range(20_000_000, 90_000_000), None));
        }
        6 => {
            // small max_tx_size: many transactions; asset UTxOs short of ADA are topped up with pure-ADA UTxOs
            cfg.mts = r.range(450, 1100) as u32;
            let n = r.range(10, 40) as usize;
            let pid = r.bytes(28);
            for i in 0..n {
                if r.chance(1, 2) {
                    let nm = vec![(i % 5) as u8; r.range(1, 6) as usize];
                    us.push(mk(keys, owner, i, r.range(900_000, 1_400_000), Some(vec![(pid.clone(), vec![(nm, r.range(1, 1000))])])));
                } else {
                    us.push(mk(keys, owner, i, r.range(300_000, 3_000_000), None));
                }
            }
        }
        8 => {
            // several distinct Byron owners of different styles (and sometimes Shelley owners) in one transaction, pure-ADA
            // amounts drawn so that every processing order (largest first) of the styles occurs
            let k = r.range(2, 5) as usize;
            let mut kinds: Vec<u64> = (0..k).map(|_| *r.pick(&[4u64, 8, 9, 9, 10, 0, 2])).collect();
            if !kinds.iter().any(|x| *x == 9 || *x == 10) { kinds[0] = 9; }
            if !kinds.iter().any(|x| *x == 4) { kinds[k - 1] = 4; }
            let mut amounts: Vec<u64> = (0..k).map(|i| 2_000_000 + 1_000_000 * i as u64 + r.below(500_000)).collect();
            for i in (1..k).rev() { let j = r.below(i as u64 + 1) as usize; amounts.swap(i, j); }
            for i in 0..k {
                let o = (kinds[i], 3000 + r.below(40), 8000 + r.below(40));
                us.push(mk(keys, o, i, amounts[i], None));
                if r.chance(1, 3) { us.push(mk(keys, o, 10 + i, r.range(1_000_000, 9_000_000), None)); }
            }
            if r.chance(1, 3) {
                let pid = r.bytes(28);
                let o = (*r.pick(&[9u64, 4, 10]), 3100 + r.below(40), 8100);
                us.push(mk(keys, o, 30, r.range(1_500_000, 4_000_000), Some(vec![(pid, vec![(vec![7, 7], r.range(1, 1000))])])));
            }
        }
        9 => {
            // 30..50 policies with one asset each, all of the same shape, spread over UTxOs of 2..5 policies; max_value_size is
            // set ONE BYTE below the intermediate value size of an output with k >= 24 policies (or k assets of one policy):
            // the value-size test must reject exactly the k-th one (the real value would be one byte too large; no slack:
            // every asset lives in one UTxO, so its quantity in the output equals its grand total)
            let np = r.range(30, 50) as usize;
            let l = *r.pick(&[0usize, 3, 23, 24, 32]);
            let one_policy = l > 0 && r.chance(1, 4);      // distinct assets of one policy need distinct (non-empty) names
            let k = r.range(24, np as u64 - 1);
            let name_sz = l as u64 + if l < 24 { 1 } else { 2 };
            let head = |n: u64| if n < 24 { 1u64 } else if n < 256 { 2 } else { 3 };
            cfg.mvs = (if one_policy { 5 + 1 + 1 + 30 + head(k) + k * (name_sz + 1) } else { 5 + 1 + head(k) + k * (30 + 1 + name_sz + 1) } - 1) as u32;
            let shared_pid = r.bytes(28);
            let mut i = 0usize; let mut p = 0usize;
            while p < np {
                let m = (r.range(2, 5) as usize).min(np - p);
                let ps: Vec<(Vec<u8>, Vec<(Vec<u8>, u64)>)> = (0..m).map(|j| {
                    let mut pid = if one_policy { shared_pid.clone() } else { r.bytes(28) }; if !one_policy { pid[0] = (p + j) as u8; }
                    let mut nm = r.bytes(l); if l > 0 { nm[0] = (p + j) as u8; }
                    (pid, vec![(nm, r.range(1, 23))]) }).collect();
                let ps = if one_policy { vec![(shared_pid.clone(), ps.into_iter().map(|x| x.1[0].clone()).collect())] } else { ps };
                us.push(mk(keys, owner, i, r.range(2_500_000, 4_000_000), Some(ps)));
                p += m; i += 1;
            }
        }
        _ => {
            // barely enough ADA: the top-up UTxOs just cover (or just miss) the shortage
            let pid = r.bytes(28);
            us.push(mk(keys, owner, 0, r.range(900_000, 1_100_000), Some(vec![(pid, vec![(vec![1, 2, 3], 5)])])));
            let need = 1_133_530 + 168_537 - 1_000_000;
            let k = r.range(1, 3) as usize;
            for i in 0..k { us.push(mk(keys, owner, 1 + i, need / k as u64 + r.range(0, 3000) - 1500 + (i as u64) * 1600, None)); }
        }
    }
    let target = make_address(keys, 0, 77, 99).to_bytes();
    Case { target, a: cfg.a, b: cfg.b, cpb: cfg.cpb, mvs: cfg.mvs, mts: cfg.mts, us }
}

fn gen(dir: &str) {
    let seed = seed_from_env();
    let thorough = is_thorough();
    let mut r = Rng::new(seed ^ 0xC13);
    let mut keys = Keys::new();
    let mut out = Out::new(dir);
    let n = if thorough { 8000 } else { 1000 };
    for i in 0..n {
        let c = if i % 5 < 2 { let fam = r.below(11); gen_targeted(&mut r, &mut keys, fam) } else { gen_case(&mut r, &mut keys, i) };
        let line = case_line(&c);
        let toks: Vec<String> = line.split_whitespace().map(|s| s.to_string()).collect();
        let res = exec(&mut keys, &toks);
        out.emit(&line, &res);
    }
    out.finish();
}

fn main() {
    if std::env::var("C13_DEBUG").is_err() { silence_panics(); }
    let args: Vec<String> = std::env::args().collect();
    let mut keys = Keys::new();
    match args.get(1).map(|s| s.as_str()) {
        Some("gen") => gen(&args[2]),
        Some("run") => {
            let mut o = String::new();
            for (idx, toks) in read_cases(&args[2]) {
                let res = exec(&mut keys, &toks);
                o.push_str(&format!("{} {}\n", idx, res));
            }
            std::fs::write(&args[3], o).unwrap();
        }
        _ => { eprintln!("usage: c13 gen <dir> | run <cases> <out>"); std::process::exit(2); }
    }
}
